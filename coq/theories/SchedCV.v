(* SchedCV.v — the condition variables of the four identifier lists modelled faithfully, and the
   proof that no wake-up is lost (extension of property C08).

   Sched.v treats [Acquire cls i] of a held identifier as "not enabled", which assumes that a
   waiter runs again whenever its identifier becomes free.  The code is

       with cond: while i in L: cond.wait() ; L.append(i)          (acquire)
       with cond: L.remove(i) ; cond.notify()                      (release)

   with ONE condition per list (object-pid, reference-pid, cid, metadata document) shared by all
   identifiers of that list, and notify() wakes ONE waiter — which one is arbitrary — which then
   re-tests and goes back to sleep if ITS identifier is still held.

   Model.  A configuration is a Sched.cfg plus a status per thread, [Awake] or [Asleep cls].
     - sleep:    an Awake thread whose next operation is [Acquire cls i], cls one of the four list
                 classes, (cls,i) held: becomes [Asleep cls]; nothing is consumed, the world is
                 unchanged.  (The test and the wait are atomic: both happen under the condition's
                 mutex, as does the release's remove + notify.)
     - normal:   an Awake thread executes its next operation as [Sched.thread_step] does, when
                 that operation does not notify.  An [Acquire] of a free identifier appends it; an
                 [Acquire LFile] (flock, not a condition variable) stays "not enabled when held".
     - notify:   an Awake thread executes a successful [Release cls i] of a list class as
                 [thread_step] does, and EITHER any one thread that is [Asleep cls] becomes Awake
                 (every choice is a step), OR, only if no thread is [Asleep cls], nobody does.
     - fault:    (when the flag [fl] is set) the fault steps of Bracket.v.
   Asleep threads cannot step.  A woken thread re-executes its [Acquire]: held => asleep again.

   Result ([cv_no_lost_wakeup]): for every pool of API calls, from every start world without held
   locks and with typed reference files, every configuration reachable in this semantics in which
   no step is possible has all calls returned, no lock held and nobody asleep.

   Invariant (per list class k), [CInv]: if some thread is Asleep k then
       (a) some identifier of class k is held (its holder will release and notify), or
       (b) some Awake thread's next operation is an Acquire of class k (a thread that has just
           been woken and not yet re-tested; it will either take its identifier, giving (a), or go
           back to sleep, which happens only if its identifier is held, giving (a) again).
   A release that empties class k while several threads sleep wakes one of them: (b).
   In a configuration that cannot move (b) is impossible (such a thread can always step), so a
   sleeper of class k implies a holder of a class-k lock; that holder has not returned, so it
   sleeps or is blocked on a flock, for a lock ranked strictly above k (Bracket.v's discipline):
   the rank argument of Bracket.v finishes.

   Also: [cv_project] (a run without faults projects, by erasing the sleep steps, to a
   [Sched.exec] run), [cv_final_is_sched_final] (its final configurations are final
   configurations of Sched.v, so what the menus establish for all stuck configurations of
   Sched.v holds for all final configurations of this semantics), [cv_terminates]. *)
From HS Require Import Base PyVal FS Ops Sched Spec Bracket.

Set Implicit Arguments.

Inductive status := Awake | Asleep (cls : lockcls).

Definition status_eqb (a b : status) : bool :=
  match a, b with
  | Awake, Awake => true
  | Asleep c, Asleep d => lockcls_eqb c d
  | _, _ => false
  end.

Lemma status_eqb_true : forall a b, status_eqb a b = true -> a = b.
Proof.
  destruct a, b; simpl; intros H; try discriminate; auto.
  apply lockcls_eqb_true in H. congruence.
Qed.
Lemma status_eqb_refl : forall a, status_eqb a a = true.
Proof. destruct a; simpl; auto. apply lockcls_eqb_refl. Qed.

(* the four in-memory identifier lists, each with its condition variable; LFile is a flock *)
Definition is_list_cls (cls : lockcls) : bool := match cls with LFile => false | _ => true end.

Definition cvcfg := (cfg * list status)%type.

(* the class whose condition is notified by operation o in world w: a release of a list class
   that succeeds (list.remove raises ValueError before notify() otherwise) *)
Definition notify_cls (w : world) (o : op) : option lockcls :=
  match o with
  | Release cls x =>
      if is_list_cls cls && memb lock_eqb (cls, x) (locks w) then Some cls else None
  | _ => None
  end.

Section CV.
  Variable A : Type.
  Variable ps : list (prog A).
  Variable fl : bool.                    (* are fault steps allowed? *)

  Inductive cvstep : cvcfg -> cvcfg -> Prop :=
  | cv_sleep : forall c ss i cls x k,
      nth_error ss i = Some Awake ->
      residual ps c i = Some (Vis (Acquire cls x) k) ->
      is_list_cls cls = true -> In (cls, x) (locks (snd c)) ->
      cvstep (c, ss) (c, upd_nth i (Asleep cls) ss)
  | cv_norm : forall c ss i o k c',
      nth_error ss i = Some Awake ->
      residual ps c i = Some (Vis o k) -> notify_cls (snd c) o = None ->
      thread_step ps c i = Some c' ->
      cvstep (c, ss) (c', ss)
  | cv_notify_one : forall c ss i o k cls c' j,
      nth_error ss i = Some Awake ->
      residual ps c i = Some (Vis o k) -> notify_cls (snd c) o = Some cls ->
      thread_step ps c i = Some c' ->
      nth_error ss j = Some (Asleep cls) ->
      cvstep (c, ss) (c', upd_nth j Awake ss)
  | cv_notify_none : forall c ss i o k cls c',
      nth_error ss i = Some Awake ->
      residual ps c i = Some (Vis o k) -> notify_cls (snd c) o = Some cls ->
      thread_step ps c i = Some c' ->
      (forall j, nth_error ss j <> Some (Asleep cls)) ->
      cvstep (c, ss) (c', ss)
  | cv_fault : forall c ss i c',
      fl = true ->
      nth_error ss i = Some Awake ->
      fault_step ps c i = Some c' ->
      cvstep (c, ss) (c', ss).

  Definition cvinit (w0 : world) : cvcfg := (init_cfg ps w0, map (fun _ => Awake) ps).

  Inductive cvreachable (w0 : world) : cvcfg -> Prop :=
  | cvr_init : cvreachable w0 (cvinit w0)
  | cvr_step : forall C C', cvreachable w0 C -> cvstep C C' -> cvreachable w0 C'.

  Definition cvstuck (C : cvcfg) : Prop := forall C', ~ cvstep C C'.

  Definition nobody_asleep (ss : list status) : Prop :=
    forall i cls, nth_error ss i <> Some (Asleep cls).

  (* ---------- one advancing step, normal or faulted ---------- *)

  Definition adv (c : cfg) (i : nat) (o : op) (c' : cfg) : Prop :=
    exists hist k a w',
      nth_error (fst c) i = Some hist /\ residual ps c i = Some (Vis o k) /\
      c' = (upd_nth i (a :: hist) (fst c), w') /\
      (exec_op i o (snd c) = Some (a, w') \/
       (faultable o = true /\ a = AErr EFault /\ w' = snd c)).

  Lemma thread_step_adv : forall c i c' o k,
    thread_step ps c i = Some c' -> residual ps c i = Some (Vis o k) -> adv c i o c'.
  Proof.
    intros c i c' o k H Hres. apply thread_step_inv in H.
    destruct H as (hist & o' & k' & a & w' & H1 & H2 & H3 & ->).
    rewrite Hres in H2. inversion H2; subst o' k'. exists hist, k, a, w'. auto.
  Qed.

  Lemma fault_step_adv : forall c i c',
    fault_step ps c i = Some c' -> exists o, adv c i o c' /\ faultable o = true.
  Proof.
    intros c i c' H. apply fault_step_inv in H.
    destruct H as (hist & o & k & H1 & H2 & H3 & ->).
    exists o. split; auto. exists hist, k, (AErr EFault), (snd c). split; auto. split; auto.
  Qed.

  Lemma adv_residual_other : forall c i o c' j, adv c i o c' -> j <> i ->
    residual ps c' j = residual ps c j.
  Proof.
    intros c i o c' j (hist & k & a & w' & H1 & H2 & -> & _) Hne.
    unfold residual. simpl. rewrite nth_error_upd_nth_neq by exact Hne. reflexivity.
  Qed.

  Lemma exec_op_locks : forall i o w a w', exec_op i o w = Some (a, w') ->
    match o with
    | Acquire cls x => locks w' = (cls, x) :: locks w
    | Release cls x =>
        locks w' = if memb lock_eqb (cls, x) (locks w)
                   then remove1 lock_eqb (cls, x) (locks w) else locks w
    | _ => locks w' = locks w
    end.
  Proof.
    intros i o w a w' H. destruct o; simpl in H;
      repeat match type of H with
             | context [match ?x with _ => _ end] => destruct x eqn:?; try discriminate
             end; inversion H; subst; reflexivity.
  Qed.

  (* a held identifier of a list class stays held unless this very step notifies that class *)
  Lemma adv_locks_keep : forall c i o c' cls x, adv c i o c' ->
    In (cls, x) (locks (snd c)) -> notify_cls (snd c) o <> Some cls ->
    is_list_cls cls = true ->
    In (cls, x) (locks (snd c')).
  Proof.
    intros c i o c' cls x (hist & k & a & w' & H1 & H2 & -> & [He|(Hf & -> & ->)]) Hin Hn Hl;
      simpl; auto.
    apply exec_op_locks in He. destruct o; try (rewrite He; exact Hin).
    - rewrite He. right. exact Hin.
    - rewrite He. simpl in Hn. destruct (memb lock_eqb (cls0, i0) (locks (snd c))) eqn:E; auto.
      apply In_remove1_neq; auto. intros Heq. inversion Heq; subst.
      rewrite Hl in Hn. simpl in Hn. congruence.
  Qed.

  Lemma adv_acquired : forall c i cls x c', adv c i (Acquire cls x) c' ->
    is_list_cls cls = true -> In (cls, x) (locks (snd c')).
  Proof.
    intros c i cls x c' (hist & k & a & w' & H1 & H2 & -> & [He|(Hf & -> & ->)]) Hl; simpl.
    - apply exec_op_locks in He. rewrite He. left. reflexivity.
    - destruct cls; discriminate.
  Qed.

  Lemma adv_gstep : forall c i o c', adv c i o c' -> gstep ps c c'.
  Proof.
    intros [hs w] i o c' (hist & k & a & w' & H1 & H2 & -> & [He|(Hf & -> & ->)]); simpl in *.
    - eapply gs_norm with (i := i). unfold thread_step. unfold residual in H2. simpl in *.
      destruct (nth_error ps i); [|discriminate]. rewrite H1 in *. rewrite H2, He. reflexivity.
    - eapply gs_fault with (i := i). unfold fault_step. unfold residual in H2. simpl in *.
      destruct (nth_error ps i); [|discriminate]. rewrite H1 in *. rewrite H2, Hf. reflexivity.
  Qed.

  (* ---------- the invariant ---------- *)

  Definition CInv (C : cvcfg) : Prop :=
    Inv ps (fst C) /\ length (snd C) = length ps /\
    (forall i cls, nth_error (snd C) i = Some (Asleep cls) ->
       is_list_cls cls = true /\
       exists x k, residual ps (fst C) i = Some (Vis (Acquire cls x) k)) /\
    (forall i cls, nth_error (snd C) i = Some (Asleep cls) ->
       (exists x, In (cls, x) (locks (snd (fst C)))) \/
       (exists j x k, nth_error (snd C) j = Some Awake /\
                      residual ps (fst C) j = Some (Vis (Acquire cls x) k))).

  Lemma CInv_init : forall w0, pool_ok ps -> locks w0 = [] -> refs_typed (fs w0) -> CInv (cvinit w0).
  Proof.
    intros w0 Hok Hl Hrt. unfold CInv, cvinit. simpl.
    assert (Hno : forall i cls, nth_error (map (fun _ : prog A => Awake) ps) i <> Some (Asleep cls)).
    { intros i cls H. rewrite nth_error_map in H. destruct (nth_error ps i); discriminate. }
    split; [apply Inv_init; auto|]. split; [apply map_length|].
    split; intros i cls H; exfalso; eapply Hno; eauto.
  Qed.

  Lemma nth_error_upd_nth_cases : forall B i j (x y : B) l,
    nth_error (upd_nth i x l) j = Some y -> (j = i /\ y = x) \/ (j <> i /\ nth_error l j = Some y).
  Proof.
    intros B i j x y l H. destruct (Nat.eq_dec j i) as [->|Hne].
    - left. split; auto.
      assert (Hi : i < length l).
      { rewrite <- (upd_nth_length i x l). apply nth_error_Some. congruence. }
      rewrite nth_error_upd_nth_eq in H by exact Hi. congruence.
    - right. rewrite nth_error_upd_nth_neq in H by exact Hne. auto.
  Qed.

  Lemma nth_error_upd_nth_keep : forall B i j (x y : B) l,
    nth_error l j = Some y -> j <> i -> nth_error (upd_nth i x l) j = Some y.
  Proof. intros. rewrite nth_error_upd_nth_neq; auto. Qed.

  (* the generic part of preservation for an advancing step of an Awake thread i: the new
     status list ss' has no new sleeper and keeps every Awake thread Awake *)
  Lemma CInv_adv : forall c ss i o c' ss',
    CInv (c, ss) -> nth_error ss i = Some Awake -> adv c i o c' ->
    length ss' = length ss ->
    (forall j cls, nth_error ss' j = Some (Asleep cls) -> nth_error ss j = Some (Asleep cls)) ->
    (forall j, nth_error ss j = Some Awake -> nth_error ss' j = Some Awake) ->
    (* what happens to the class that is notified, if any *)
    (forall cls, notify_cls (snd c) o = Some cls ->
       (forall j, nth_error ss' j <> Some (Asleep cls)) \/
       (exists j x k, nth_error ss' j = Some Awake /\ j <> i /\
                      residual ps c j = Some (Vis (Acquire cls x) k))) ->
    CInv (c', ss').
  Proof.
    intros c ss i o c' ss' (HI & Hlen & S1 & S2) Hi Hadv Hlen' Hsl Haw Hnot.
    simpl in *. unfold CInv. simpl.
    assert (Hsl_ne : forall j cls, nth_error ss' j = Some (Asleep cls) -> j <> i).
    { intros j cls Hj ->. apply Hsl in Hj. congruence. }
    split; [eapply Inv_gstep; [exact HI | eapply adv_gstep; exact Hadv]|].
    split; [congruence|]. split.
    - intros j cls Hj. destruct (S1 j cls (Hsl _ _ Hj)) as [Hl (x & k & Hres)].
      split; auto. exists x, k.
      rewrite (adv_residual_other Hadv (Hsl_ne _ _ Hj)). exact Hres.
    - intros s cls Hs. assert (Hs0 := Hsl _ _ Hs).
      destruct (S1 s cls Hs0) as [Hl _].
      destruct (notify_cls (snd c) o) as [cls0|] eqn:En.
      + destruct (lockcls_eqb cls0 cls) eqn:Ec.
        * apply lockcls_eqb_true in Ec. subst cls0.
          destruct (Hnot cls eq_refl) as [Hnone|(j & x & k & Hj & Hji & Hres)].
          -- exfalso. eapply Hnone; eauto.
          -- right. exists j, x, k. split; auto.
             rewrite (adv_residual_other Hadv Hji). exact Hres.
        * assert (Hne : Some cls0 <> Some cls).
          { intros E. inversion E; subst. rewrite lockcls_eqb_refl in Ec. discriminate. }
          destruct (S2 s cls Hs0) as [[x Hx]|(j & x & k & Hj & Hres)].
          -- left. exists x. eapply adv_locks_keep; eauto. rewrite En. exact Hne.
          -- destruct (Nat.eq_dec j i) as [->|Hji].
             ++ destruct Hadv as (hist & k0 & a & w' & _ & H2 & _).
                rewrite Hres in H2. inversion H2; subst o. simpl in En. discriminate.
             ++ right. exists j, x, k. split; auto.
                rewrite (adv_residual_other Hadv Hji). exact Hres.
      + destruct (S2 s cls Hs0) as [[x Hx]|(j & x & k & Hj & Hres)].
        * left. exists x. eapply adv_locks_keep; eauto. rewrite En. discriminate.
        * destruct (Nat.eq_dec j i) as [->|Hji].
          -- left. exists x.
             assert (Ho : o = Acquire cls x).
             { destruct Hadv as (hist & k0 & a & w' & _ & H2 & _).
               rewrite Hres in H2. inversion H2; auto. }
             subst o. eapply adv_acquired; eauto.
          -- right. exists j, x, k. split; auto.
             rewrite (adv_residual_other Hadv Hji). exact Hres.
  Qed.

  Lemma faultable_no_notify : forall w o, faultable o = true -> notify_cls w o = None.
  Proof. intros w o H. destruct o; simpl in *; auto; discriminate. Qed.

  Lemma CInv_step : forall C C', CInv C -> cvstep C C' -> CInv C'.
  Proof.
    intros C C' HC Hs. destruct Hs as
      [c ss i cls x k Hi Hres Hl Hin
      |c ss i o k c' Hi Hres Hn Hst
      |c ss i o k cls c' j Hi Hres Hn Hst Hj
      |c ss i o k cls c' Hi Hres Hn Hst Hnone
      |c ss i c' Hfl Hi Hst].
    - (* sleep *)
      destruct HC as (HI & Hlen & S1 & S2). simpl in *. unfold CInv. simpl.
      assert (Hilt : i < length ss) by (apply nth_error_Some; congruence).
      split; [exact HI|]. split; [rewrite upd_nth_length; exact Hlen|]. split.
      + intros s cls' Hs. apply nth_error_upd_nth_cases in Hs.
        destruct Hs as [[-> E]|[Hne Hs]].
        * inversion E; subst cls'. split; auto. eauto.
        * apply S1. exact Hs.
      + intros s cls' Hs.
        destruct (lockcls_eqb cls' cls) eqn:Ec.
        * apply lockcls_eqb_true in Ec. subst cls'. left. eauto.
        * assert (Hcc : cls' <> cls).
          { intros ->. rewrite lockcls_eqb_refl in Ec. discriminate. }
          apply nth_error_upd_nth_cases in Hs. destruct Hs as [[-> E]|[Hne Hs]]; [congruence|].
          destruct (S2 s cls' Hs) as [Ha|(j & y & k' & Hj & Hrj)]; [left; exact Ha|].
          right. exists j, y, k'. split; auto.
          apply nth_error_upd_nth_keep; auto. intros ->.
          rewrite Hres in Hrj. inversion Hrj. congruence.
    - (* normal *)
      eapply CInv_adv with (i := i) (o := o); eauto.
      + eapply thread_step_adv; eauto.
      + intros cls' E. simpl in E. congruence.
    - (* notify, one sleeper woken *)
      assert (Hji : j <> i) by (intros ->; congruence).
      assert (Hjlt : j < length ss) by (apply nth_error_Some; congruence).
      eapply CInv_adv with (i := i) (o := o); eauto.
      + eapply thread_step_adv; eauto.
      + apply upd_nth_length.
      + intros s cls' Hs. apply nth_error_upd_nth_cases in Hs.
        destruct Hs as [[_ E]|[_ Hs]]; [discriminate | exact Hs].
      + intros s Hs. destruct (Nat.eq_dec s j) as [->|Hne].
        * apply nth_error_upd_nth_eq. exact Hjlt.
        * apply nth_error_upd_nth_keep; auto.
      + intros cls' E. simpl in E. rewrite Hn in E. inversion E; subst cls'.
        right. destruct HC as (_ & _ & S1 & _). simpl in S1.
        destruct (S1 j cls Hj) as [_ (x & k' & Hrj)].
        exists j, x, k'. split; [apply nth_error_upd_nth_eq; exact Hjlt|]. auto.
    - (* notify, nobody waits *)
      eapply CInv_adv with (i := i) (o := o); eauto.
      + eapply thread_step_adv; eauto.
      + intros cls' E. simpl in E. rewrite Hn in E. inversion E; subst cls'. left. exact Hnone.
    - (* fault *)
      destruct (fault_step_adv _ _ Hst) as (o & Hadv & Hf).
      eapply CInv_adv with (i := i) (o := o); eauto.
      intros cls' E. rewrite (faultable_no_notify _ _ Hf) in E. discriminate.
  Qed.

  Lemma CInv_reachable : forall w0 C,
    pool_ok ps -> locks w0 = [] -> refs_typed (fs w0) -> cvreachable w0 C -> CInv C.
  Proof.
    intros w0 C Hok Hl Hrt Hr. induction Hr.
    - apply CInv_init; auto.
    - eapply CInv_step; eauto.
  Qed.

  (* ---------- a configuration that cannot move ---------- *)

  Lemma sleeper_dec : forall (ss : list status) cls,
    (exists j, nth_error ss j = Some (Asleep cls)) \/
    (forall j, nth_error ss j <> Some (Asleep cls)).
  Proof.
    induction ss as [|s ss IH]; intros cls.
    - right. intros [|j]; discriminate.
    - destruct (status_eqb s (Asleep cls)) eqn:E.
      + apply status_eqb_true in E. subst. left. exists 0. reflexivity.
      + destruct (IH cls) as [[j Hj]|Hn].
        * left. exists (S j). exact Hj.
        * right. intros [|j]; simpl; [|apply Hn].
          intros H. inversion H; subst. rewrite status_eqb_refl in E. discriminate.
  Qed.

  Lemma thread_step_of_exec : forall c i o k a w',
    residual ps c i = Some (Vis o k) -> exec_op i o (snd c) = Some (a, w') ->
    exists c', thread_step ps c i = Some c'.
  Proof.
    intros c i o k a w' Hres He. unfold thread_step. unfold residual in Hres.
    destruct (nth_error ps i); [|discriminate].
    destruct (nth_error (fst c) i); [|discriminate].
    rewrite Hres, He. eauto.
  Qed.

  (* an Awake thread with an operation to execute can always do something, unless it is
     blocked on a held flock *)
  Lemma awake_can_step : forall c ss i o k,
    nth_error ss i = Some Awake -> residual ps c i = Some (Vis o k) ->
    (forall x, o = Acquire LFile x -> ~ In (LFile, x) (locks (snd c))) ->
    exists C', cvstep (c, ss) C'.
  Proof.
    intros c ss i o k Hi Hres Hfile.
    destruct (exec_op i o (snd c)) as [[a w']|] eqn:He.
    - destruct (thread_step_of_exec _ _ Hres He) as [c' Hst].
      destruct (notify_cls (snd c) o) as [cls|] eqn:En.
      + destruct (sleeper_dec ss cls) as [[j Hj]|Hn].
        * eexists. eapply cv_notify_one; eauto.
        * eexists. eapply cv_notify_none; eauto.
      + eexists. eapply cv_norm; eauto.
    - apply exec_op_enabled in He. destruct He as (cls & x & -> & Hin).
      destruct (is_list_cls cls) eqn:El.
      + eexists. eapply cv_sleep; eauto.
      + destruct cls; try discriminate. exfalso. eapply Hfile; eauto.
  Qed.

  (* thread i waits for a lock of class cls: asleep on the class's condition, or blocked on a
     held flock *)
  Definition waits (C : cvcfg) (i : nat) (cls : lockcls) : Prop :=
    exists x k, residual ps (fst C) i = Some (Vis (Acquire cls x) k) /\
      (nth_error (snd C) i = Some (Asleep cls) \/
       (nth_error (snd C) i = Some Awake /\ cls = LFile /\ In (LFile, x) (locks (snd (fst C))))).

  Lemma stuck_thread_cases : forall C i m,
    CInv C -> cvstuck C -> i < length ps -> residual ps (fst C) i = Some m ->
    (exists r, m = Ret r) \/ m = Bad \/ exists cls, waits C i cls.
  Proof.
    intros [c ss] i m (HI & Hlen & S1 & S2) Hst Hi Hres. simpl in *.
    destruct (nth_error ss i) as [s|] eqn:Es; [|apply nth_error_None in Es; lia].
    destruct s as [|cls].
    - destruct m as [r|o k|]; eauto. right. right.
      destruct o; try (exfalso; destruct (@awake_can_step c ss i _ k Es Hres) as [C' HC'];
                       [intros x E; discriminate | eapply Hst; eauto]).
      destruct cls;
        try (exfalso; destruct (@awake_can_step c ss i _ k Es Hres) as [C' HC'];
             [intros x E; discriminate | eapply Hst; eauto]).
      destruct (memb lock_eqb (LFile, i0) (locks (snd c))) eqn:E.
      + apply memb_lock_In in E. exists LFile, i0, k. simpl. auto.
      + apply memb_lock_notIn in E. exfalso.
        destruct (@awake_can_step c ss i _ k Es Hres) as [C' HC'];
          [intros x Ex; inversion Ex; subst; exact E | eapply Hst; eauto].
    - destruct (S1 i cls Es) as [_ (x & k & Hr)]. right. right. exists cls, x, k. simpl. auto.
  Qed.

  (* nobody waits: a waiter for class k implies a holder of a class-k lock, who has not returned
     and therefore waits for a class ranked strictly higher *)
  Lemma cv_nobody_waits : forall C, CInv C -> cvstuck C ->
    forall n i cls, 4 - rank cls <= n -> i < length ps -> waits C i cls -> False.
  Proof.
    intros [c ss] HC Hst. assert (HC' := HC).
    destruct HC' as (HI & Hlen & S1 & S2). cbn [fst snd] in *.
    destruct HI as (Hlenc & Hrt & H & K & HL & Hout & HK & HT).
    destruct HL as (L1 & L2 & L3 & L4 & L5).
    induction n as [|n IH]; intros i cls Hn Hi (x & k & Hres & Hw).
    - pose proof (rank_le_3 cls). lia.
    - (* some lock of class cls is held *)
      assert (Hheld : exists y, In (cls, y) (locks (snd c))).
      { simpl in Hres, Hw. destruct Hw as [Hs|(_ & Ecls & Hin)].
        - destruct (S2 i cls Hs) as [Ha|(j & y & k' & Hj & Hrj)]; [exact Ha|].
          exfalso. destruct (S1 i cls Hs) as [Hl _].
          destruct (@awake_can_step c ss j _ k' Hj Hrj) as [C' HC'].
          + intros z E. inversion E; subst. discriminate.
          + eapply Hst; eauto.
        - subst cls. eauto. }
      destruct Hheld as [y Hy]. destruct (L4 _ Hy) as [j Hj].
      assert (Hjlt : j < length ps).
      { destruct (le_lt_dec (length ps) j) as [Hle|]; auto. rewrite (Hout j Hle) in Hj. contradiction. }
      destruct (HT j Hjlt) as (m & Hm & Hbr).
      destruct (@stuck_thread_cases (c, ss) j m HC Hst Hjlt Hm)
        as [[r ->]|[->|(cls' & x' & k' & Hres' & Hw')]]; cbn [fst snd] in *.
      + simpl in Hbr. unfold Qfin in Hbr. rewrite Hbr in Hj. contradiction.
      + simpl in Hbr. contradiction.
      + rewrite Hm in Hres'. inversion Hres'; subst m. simpl in Hbr.
        destruct Hbr as [Hpre _]. specialize (Hpre _ Hj). simpl in Hpre.
        apply (IH j cls'); [lia | exact Hjlt |]. exists x', k'. simpl. split; auto.
  Qed.

  Theorem cv_stuck_finished : forall C, CInv C -> cvstuck C ->
    finished ps (fst C) = true /\ locks (snd (fst C)) = [] /\ nobody_asleep (snd C) /\
    refs_typed (fs (snd (fst C))) /\
    (forall i, i < length ps -> exists r, residual ps (fst C) i = Some (Ret r)).
  Proof.
    intros C HC Hst. pose proof (cv_nobody_waits HC Hst) as Hnw.
    assert (HC' := HC). destruct C as [c ss].
    destruct HC' as (HI & Hlen & S1 & S2). cbn [fst snd] in *.
    destruct HI as (Hlenc & Hrt & H & K & HL & Hout & HK & HT).
    assert (Hret : forall i, i < length ps -> exists r, residual ps c i = Some (Ret r) /\ H i = []).
    { intros i Hi. destruct (HT i Hi) as (m & Hm & Hbr).
      destruct (@stuck_thread_cases (c, ss) i m HC Hst Hi Hm) as [[r ->]|[->|(cls & Hw)]].
      - exists r. split; auto.
      - simpl in Hbr. contradiction.
      - exfalso. apply (Hnw (4 - rank cls) i cls); [apply le_n | exact Hi | exact Hw]. }
    split; [|split; [|split; [|split; [exact Hrt|]]]].
    - unfold finished, results. apply forallb_forall. intros r Hr.
      apply in_map_iff in Hr. destruct Hr as (i & <- & Hi). apply in_seq in Hi.
      destruct (Hret i) as (r & Hr & _); [lia|].
      unfold residual in Hr. unfold thread_result.
      destruct (nth_error ps i); [|discriminate]. destruct (nth_error (fst c) i); [|discriminate].
      rewrite Hr. reflexivity.
    - destruct HL as (L1 & L2 & L3 & L4 & L5).
      destruct (locks (snd c)) as [|l L]; auto. exfalso.
      destruct (L4 l (or_introl eq_refl)) as [j Hj].
      destruct (le_lt_dec (length ps) j) as [Hle|Hlt].
      + rewrite (Hout j Hle) in Hj. contradiction.
      + destruct (Hret j Hlt) as (r & _ & E). rewrite E in Hj. contradiction.
    - intros i cls Hs.
      assert (Hi : i < length ps) by (rewrite <- Hlen; apply nth_error_Some; congruence).
      destruct (S1 i cls Hs) as [_ (x & k & Hr)].
      destruct (Hret i Hi) as (r & Hr' & _). congruence.
    - intros i Hi. destruct (Hret i Hi) as (r & Hr & _). eauto.
  Qed.

  (* ---------- relation to Sched.v ---------- *)

  (* every step either leaves the Sched configuration alone (a thread went to sleep) or is a
     step of Bracket.v's [gstep] (a [thread_step], or a fault step when faults are on) *)
  Lemma cvstep_project : forall C C', cvstep C C' ->
    fst C' = fst C \/ gstep ps (fst C) (fst C').
  Proof.
    intros C C' Hs. destruct Hs; simpl; auto; right;
      try (eapply gs_norm; eassumption). eapply gs_fault; eassumption.
  Qed.

  Lemma cvstep_project_nofault : forall C C', fl = false -> cvstep C C' ->
    fst C' = fst C \/ exists i, thread_step ps (fst C) i = Some (fst C').
  Proof.
    intros C C' Hfl Hs. destruct Hs; simpl; eauto. congruence.
  Qed.

  Lemma exec_app : forall s1 s2 (c : cfg),
    exec ps (s1 ++ s2) c = match exec ps s1 c with Some c' => exec ps s2 c' | None => None end.
  Proof.
    induction s1 as [|i s1 IH]; intros s2 c; simpl; auto.
    destruct (thread_step ps c i); auto.
  Qed.

  Lemma cv_reachable_gstep : forall w0 C, cvreachable w0 C -> reachable ps w0 (fst C).
  Proof.
    intros w0 C Hr. induction Hr.
    - apply reach_init.
    - destruct (cvstep_project H) as [E|Hg]; [rewrite E; exact IHHr|].
      eapply reach_step; eauto.
  Qed.

  (* without faults, a run projects to a schedule of Sched.v: erase the sleep steps *)
  Theorem cv_project : forall w0 C, fl = false -> cvreachable w0 C ->
    exists sched, exec ps sched (init_cfg ps w0) = Some (fst C).
  Proof.
    intros w0 C Hfl Hr. induction Hr.
    - exists []. reflexivity.
    - destruct IHHr as [s Hs].
      destruct (cvstep_project_nofault Hfl H) as [E|[i Hi]].
      + exists s. rewrite E. exact Hs.
      + exists (s ++ [i]). rewrite exec_app, Hs. simpl. rewrite Hi. reflexivity.
  Qed.

  Lemma all_ret_stuck : forall c,
    (forall i, i < length ps -> exists r, residual ps c i = Some (Ret r)) -> stuck ps c.
  Proof.
    intros c H i. destruct (thread_step ps c i) eqn:E; auto.
    pose proof (@thread_step_lt _ _ _ _ _ E) as Hi.
    apply thread_step_inv in E. destruct E as (hist & o & k & a & w' & _ & Hr & _).
    destruct (H i Hi) as [r Hr']. congruence.
  Qed.

  (* ---------- termination ---------- *)

  Definition awake_count (ss : list status) : nat :=
    length (filter (fun s => status_eqb s Awake) ss).

  Lemma awake_count_sleep : forall ss i cls, nth_error ss i = Some Awake ->
    awake_count (upd_nth i (Asleep cls) ss) < awake_count ss.
  Proof.
    unfold awake_count. induction ss as [|s ss IH]; intros [|i] cls H; simpl in *; try discriminate.
    - inversion H; subst. simpl. lia.
    - specialize (IH i cls H). destruct (status_eqb s Awake); simpl; lia.
  Qed.

  Theorem cv_terminates : forall C, Acc (fun C' C0 => cvstep C0 C') C.
  Proof.
    intros C. remember (resid ps (fst C)) as r eqn:Er. revert C Er.
    induction (lstep_wf r) as [r _ IHr]. intros C Er.
    remember (awake_count (snd C)) as n eqn:En. revert C Er En.
    induction n as [n IHn] using lt_wf_ind. intros C Er En.
    constructor. intros C' Hs.
    assert (Hcase : (fst C' = fst C /\ awake_count (snd C') < awake_count (snd C)) \/
                    gstep ps (fst C) (fst C')).
    { destruct Hs; simpl; auto; try (right; eapply gs_norm; eassumption);
        try (right; eapply gs_fault; eassumption).
      left. split; auto. apply awake_count_sleep. assumption. }
    destruct Hcase as [[E Hlt]|Hg].
    - eapply (IHn (awake_count (snd C'))); [subst n; exact Hlt | rewrite E; exact Er | reflexivity].
    - eapply (IHr (resid ps (fst C'))); [subst r; apply gstep_lstep; exact Hg | reflexivity].
  Qed.
End CV.

(* ====================================================================================== *)
(* the theorems for pools of API calls                                                     *)
(* ====================================================================================== *)

(* no lost wake-up: with the condition variables modelled faithfully (one per list, notify wakes
   one arbitrary waiter, a woken waiter re-tests), with or without faults, every reachable
   configuration that cannot move has all calls returned, no lock held, nobody asleep *)
Theorem cv_no_lost_wakeup : forall fl calls w0 C,
  locks w0 = [] -> refs_typed (fs w0) ->
  cvreachable (map api calls) fl w0 C -> cvstuck (map api calls) fl C ->
  finished (map api calls) (fst C) = true /\
  locks (snd (fst C)) = [] /\
  nobody_asleep (snd C) /\
  refs_typed (fs (snd (fst C))).
Proof.
  intros fl calls w0 C Hl Hrt Hr Hst.
  destruct (@cv_stuck_finished _ (map api calls) fl C) as (H1 & H2 & H3 & H4 & _); auto.
  eapply CInv_reachable; eauto. apply api_pool_ok.
Qed.

(* the final configurations of the faithful semantics are final configurations of Sched.v,
   reached by a schedule of Sched.v: whatever holds of every [exec]-reachable [stuck]
   configuration (the menus' linearizability results) holds of them *)
Theorem cv_final_is_sched_final : forall calls w0 C,
  locks w0 = [] -> refs_typed (fs w0) ->
  cvreachable (map api calls) false w0 C -> cvstuck (map api calls) false C ->
  exists sched,
    exec (map api calls) sched (init_cfg (map api calls) w0) = Some (fst C) /\
    stuck (map api calls) (fst C).
Proof.
  intros calls w0 C Hl Hrt Hr Hst.
  destruct (cv_project eq_refl Hr) as [s Hs]. exists s. split; auto.
  destruct (@cv_stuck_finished _ (map api calls) false C) as (_ & _ & _ & _ & H5); auto.
  - eapply CInv_reachable; eauto. apply api_pool_ok.
  - apply all_ret_stuck. exact H5.
Qed.

(* ====================================================================================== *)
(* an executable scheduler for concrete witnesses                                          *)
(* ====================================================================================== *)

Section CVExec.
  Variable A : Type.
  Variable ps : list (prog A).
  Variable fl : bool.

  (* [MStep i pick]: thread i does what it can do (sleep, or execute its operation); if that
     notifies a condition, the first thread of [pick] asleep on it is woken, otherwise the
     lowest-numbered sleeper, otherwise nobody.  [MFault i]: thread i's operation fails. *)
  Inductive move := MStep (i : nat) (pick : list nat) | MFault (i : nat).

  Definition is_asleep_on (ss : list status) (cls : lockcls) (j : nat) : bool :=
    match nth_error ss j with Some (Asleep c) => lockcls_eqb c cls | _ => false end.

  Definition must_sleep (w : world) (o : op) : option lockcls :=
    match o with
    | Acquire cls x => if is_list_cls cls && memb lock_eqb (cls, x) (locks w) then Some cls else None
    | _ => None
    end.

  Definition cvdo (m : move) (C : cvcfg) : option cvcfg :=
    let (c, ss) := C in
    match m with
    | MFault i =>
        if fl then
          match nth_error ss i with
          | Some Awake =>
              match fault_step ps c i with Some c' => Some (c', ss) | None => None end
          | _ => None
          end
        else None
    | MStep i pick =>
        match nth_error ss i, residual ps c i with
        | Some Awake, Some (Vis o _) =>
            match must_sleep (snd c) o with
            | Some cls => Some (c, upd_nth i (Asleep cls) ss)
            | None =>
                match thread_step ps c i with
                | None => None
                | Some c' =>
                    match notify_cls (snd c) o with
                    | None => Some (c', ss)
                    | Some cls =>
                        match find (is_asleep_on ss cls) (pick ++ seq 0 (length ss)) with
                        | Some j => Some (c', upd_nth j Awake ss)
                        | None => Some (c', ss)
                        end
                    end
                end
            end
        | _, _ => None
        end
    end.

  Lemma cvdo_sound : forall m C C', cvdo m C = Some C' -> cvstep ps fl C C'.
  Proof.
    intros m [c ss] C' H. destruct m as [i pick|i]; simpl in H.
    - destruct (nth_error ss i) as [[|]|] eqn:Ei; try discriminate.
      destruct (residual ps c i) as [[r|o k|]|] eqn:Er; try discriminate.
      destruct (must_sleep (snd c) o) as [cls|] eqn:Es.
      + inversion H; subst. destruct o; try discriminate. simpl in Es.
        destruct (is_list_cls cls0 && memb lock_eqb (cls0, i0) (locks (snd c))) eqn:E; [|discriminate].
        inversion Es; subst cls0. apply andb_true_iff in E. destruct E as [E1 E2].
        eapply cv_sleep; eauto. apply memb_lock_In. exact E2.
      + destruct (thread_step ps c i) as [c'|] eqn:Et; [|discriminate].
        destruct (notify_cls (snd c) o) as [cls|] eqn:En.
        * destruct (find (is_asleep_on ss cls) (pick ++ seq 0 (length ss))) as [j|] eqn:Ef;
            inversion H; subst.
          -- apply find_some in Ef. destruct Ef as [_ Ef]. unfold is_asleep_on in Ef.
             destruct (nth_error ss j) as [[|c0]|] eqn:Ej; try discriminate.
             apply lockcls_eqb_true in Ef. subst c0.
             eapply cv_notify_one; eauto.
          -- eapply cv_notify_none; eauto.
             intros j Hj.
             assert (Hjlt : j < length ss) by (apply nth_error_Some; congruence).
             pose proof (find_none _ _ Ef j) as Hn.
             assert (Hin : In j (pick ++ seq 0 (length ss))).
             { apply in_or_app. right. apply in_seq. lia. }
             specialize (Hn Hin). unfold is_asleep_on in Hn. rewrite Hj in Hn.
             rewrite lockcls_eqb_refl in Hn. discriminate.
        * inversion H; subst. eapply cv_norm; eauto.
    - destruct fl eqn:Efl; [|discriminate].
      destruct (nth_error ss i) as [[|]|] eqn:Ei; try discriminate.
      destruct (fault_step ps c i) as [c'|] eqn:Ef; [|discriminate].
      inversion H; subst. eapply cv_fault; eauto.
  Qed.

  Fixpoint cvrun (ms : list move) (C : cvcfg) : option cvcfg :=
    match ms with
    | [] => Some C
    | m :: ms' => match cvdo m C with Some C' => cvrun ms' C' | None => None end
    end.

  Lemma cvrun_reachable : forall ms w0 C C',
    cvreachable ps fl w0 C -> cvrun ms C = Some C' -> cvreachable ps fl w0 C'.
  Proof.
    induction ms as [|m ms IH]; intros w0 C C' Hr H; simpl in H.
    - inversion H; subst. exact Hr.
    - destruct (cvdo m C) as [C1|] eqn:E; [|discriminate].
      eapply IH; [|exact H]. eapply cvr_step; [exact Hr|]. eapply cvdo_sound. exact E.
  Qed.

  (* a configuration in which every thread has returned cannot move *)
  Lemma finished_ret : forall c i, finished ps c = true -> i < length ps ->
    exists r, residual ps c i = Some (Ret r).
  Proof.
    intros c i Hf Hi. unfold finished, results in Hf. rewrite forallb_forall in Hf.
    specialize (Hf (thread_result ps c i)).
    assert (Hin : In (thread_result ps c i) (map (thread_result ps c) (seq 0 (length ps)))).
    { apply in_map. apply in_seq. lia. }
    specialize (Hf Hin). unfold thread_result in Hf. unfold residual.
    destruct (nth_error ps i); [|discriminate]. destruct (nth_error (fst c) i); [|discriminate].
    destruct (resume p (rev l)) as [[r| |]|]; try discriminate. eauto.
  Qed.

  Lemma finished_cvstuck : forall C, finished ps (fst C) = true -> cvstuck ps fl C.
  Proof.
    intros C Hf C' Hs.
    assert (Hno : forall i o k, residual ps (fst C) i = Some (Vis o k) -> False).
    { intros i o k Hr.
      assert (Hi : i < length ps).
      { unfold residual in Hr. destruct (nth_error ps i) eqn:E; [|discriminate].
        apply nth_error_Some. congruence. }
      destruct (finished_ret _ Hf Hi) as [r Hr']. congruence. }
    destruct Hs; simpl in *; try (eapply Hno; eassumption).
    apply fault_step_inv in H1. destruct H1 as (hist & o & k & _ & Hr & _).
    eapply Hno; eassumption.
  Qed.
End CVExec.
