(* C07onecidDel — PARTIAL result towards "taggers AND deleters of one cid are linearizable":
   the pool theorem [prelude_pool] (OneCidDel.v) for calls that reach ONE shared lock after a
   PRELUDE of private acquisitions and of READS made outside that lock, restated in full.

   delete_object q takes its two pid locks, runs find_object q (seven reads; the cid list and the
   object are SHARED) and only then takes the cid lock.  [prelude_pool] covers this shape:
   thread i is  prelude ; Acquire L ; critical section ; Release L ; releases of its private locks ;
   return, where every prelude read has ONE continuation for all the answers that a world
   satisfying the thread's stability predicate [J i] can give ([det]), and every solo run of another
   thread keeps [J i] in every intermediate world ([Hkeep], a semantic hypothesis).  Then every
   complete schedule ends in the world of the sequential run in the order in which the threads
   took L — thread j joins the order with its [entry j]-th step ([entry_order]) — with the same
   results.

   PROVED here: the theorem, and that API programs satisfy its hypotheses (the taggers of one cid
   are the instance with a one-step prelude: [one_cid_taggers_by_prelude]).
   NOT proved: the instance for delete_object — (a) its shape ([Pre] with J = "q is bound to c":
   pid reference, membership in the cid list, object present; [CS3] for the part under the cid
   lock), (b) [Hkeep] for deleters (CrashGeneral.crash_WI says exactly this for thread 0;
   delete_object creates no temp file, so thread numbers do not matter) and for taggers
   (CrashGeneral would have to be generalised from thread 0 to thread t: temp names).
   The extracted model finds no counterexample: the triples del||tag||tag and del||del||tag on one
   cid over 1-3 bound pids that were swept are linearizable under every schedule (DESIGN.md 12.4b). *)
From HS Require Import Base PyVal FS Ops Sched Spec SeqLemmas Bracket Indep IndepMeta OneDoc OneCid OneCidDel.

Theorem C07_prelude_pool :
  forall (A : Type) (ps : list (prog A)) (L : lock) (priv : lock -> bool)
         (mine : nat -> lock -> bool) (pl : nat -> lock) (entry : nat -> nat)
         (J : nat -> fmap -> Prop) (WInv : world -> Prop) (w0 : world),
    (forall (i : nat) (p : prog A), nth_error ps i = Some p ->
       exists n : nat, Pre A L priv mine pl J i n [] p /\ S n = entry i) ->
    priv L = false ->
    (forall (i : nat) (l : lock), mine i l = true -> priv l = true) ->
    (forall (i j : nat) (l : lock), i < length ps -> j < length ps ->
       mine i l = true -> mine j l = true -> i = j) ->
    pool_ok ps -> locks w0 = [] -> refs_typed (fs w0) ->
    WInv w0 ->
    (forall i : nat, i < length ps -> J i (fs w0)) ->
    (forall (i : nat) (p : prog A) (w w' : world) (r : A),
       nth_error ps i = Some p -> WInv w -> locks w = [] -> run_as i w p = Some (w', r) -> WInv w') ->
    (forall (i j : nat) (p : prog A) (w : world) (hs : list ans) (ws : world) (m : prog A),
       i <> j -> nth_error ps i = Some p -> j < length ps -> WInv w -> locks w = [] ->
       J i (fs w) -> J j (fs w) -> Solo i p w hs ws m -> J j (fs ws)) ->
    forall (sched : list nat) (c : cfg),
      exec ps sched (init_cfg ps w0) = Some c -> stuck ps c ->
      finished ps c = true /\ locks (snd c) = [] /\
      exists (w' : world) (rs : list A),
        (* thread j joins the order with its [entry j]-th step *)
        let ord :=
          snd (fold_left
                 (fun (s : list nat * list nat) (j : nat) =>
                    (j :: fst s,
                     if Nat.eqb (S (length (filter (Nat.eqb j) (fst s)))) (entry j)
                     then snd s ++ [j] else snd s))
                 sched ([], [])) in
        NoDup ord /\ (forall i : nat, In i ord <-> i < length ps) /\
        seq_runp A ps ord w0 = Some (w', rs) /\
        snd c = w' /\ map (thread_result ps c) ord = map Some rs.
Proof. exact prelude_pool. Qed.
Print Assumptions C07_prelude_pool.

(* what the shape predicates say *)
Theorem C07_Pre_unfold :
  forall (A : Type) (L : lock) (priv : lock -> bool) (mine : nat -> lock -> bool) (pl : nat -> lock)
         (J : nat -> fmap -> Prop) (i n : nat) (hl : list lock) (o : op) (k : ans -> prog A),
    Pre A L priv mine pl J i n hl (Vis o k) ->
    (n = 0 /\ o = Acquire (fst L) (snd L) /\ In (pl i) hl /\ CS3 A L priv pl i hl (k AUnit)) \/
    (exists (n' : nat) (l : lock),
       n = S n' /\ o = Acquire (fst l) (snd l) /\ mine i l = true /\ ~ In l hl /\
       Pre A L priv mine pl J i n' (l :: hl) (k AUnit)) \/
    (exists (n' : nat) (m : prog A),
       n = S n' /\
       match o with Probe _ | Read _ | SizeLines _ => True | _ => False end /\
       (forall (t : nat) (w : world) (a : ans) (w' : world),
          J i (fs w) -> exec_op t o w = Some (a, w') -> k a = m) /\
       Pre A L priv mine pl J i n' hl m).
Proof. exact Pre_inv. Qed.
Print Assumptions C07_Pre_unfold.

Theorem C07_CS3_unfold :
  forall (A : Type) (L : lock) (priv : lock -> bool) (pl : nat -> lock) (i : nat) (hl : list lock)
         (o : op) (k : ans -> prog A),
    CS3 A L priv pl i hl (Vis o k) <->
    ((o = Release (fst L) (snd L) /\ exists r : A, Post A hl r (k AUnit)) \/
     (match o with
      | Acquire cls x | Release cls x => priv (cls, x) = false /\ (cls, x) <> L
      | Peek cls x | Held cls x => priv (cls, x) = false \/ (cls, x) = pl i
      | _ => True
      end /\ forall a : ans, CS3 A L priv pl i hl (k a))).
Proof. intros. simpl. unfold quiet. reflexivity. Qed.
Print Assumptions C07_CS3_unfold.

Theorem C07_CS3_ret : forall (A : Type) (L : lock) (priv : lock -> bool) (pl : nat -> lock) (i : nat)
  (hl : list lock) (r : A), ~ CS3 A L priv pl i hl (Ret r).
Proof. intros A L priv pl i hl r H. exact H. Qed.
Print Assumptions C07_CS3_ret.

Theorem C07_Post_unfold :
  forall (A : Type) (hl : list lock) (r : A) (m : prog A),
    Post A hl r m ->
    (hl = [] /\ m = Ret r) \/
    (exists (l : lock) (hl' : list lock) (k : ans -> prog A),
       hl = l :: hl' /\ m = Vis (Release (fst l) (snd l)) k /\ Post A hl' r (k AUnit)).
Proof. intros A hl r m H. inversion H; subst; [left; auto | right; eauto 6]. Qed.
Print Assumptions C07_Post_unfold.

(* the hypotheses are satisfiable by API programs: the taggers of one cid *)
Theorem C07_one_cid_taggers_by_prelude :
  forall (c : cid) (pids : list pid) (w0 : world) (sched : list nat) (cf : cfg),
    locks w0 = [] -> refs_typed (fs w0) -> NoDup pids ->
    exec (map api (map (fun p : pid => CTag p c) pids)) sched
         (init_cfg (map api (map (fun p : pid => CTag p c) pids)) w0) = Some cf ->
    stuck (map api (map (fun p : pid => CTag p c) pids)) cf ->
    finished (map api (map (fun p : pid => CTag p c) pids)) cf = true /\ locks (snd cf) = [] /\
    exists (w' : world) (rs : list (outcome value)),
      let ord := entry_order (fun _ : nat => 2) sched in
      NoDup ord /\ (forall i : nat, In i ord <-> i < length pids) /\
      seq_run (map (fun p : pid => CTag p c) pids) ord w0 = Some (w', rs) /\
      snd cf = w' /\
      map (thread_result (map api (map (fun p : pid => CTag p c) pids)) cf) ord = map Some rs.
Proof. exact one_cid_taggers_by_prelude. Qed.
Print Assumptions C07_one_cid_taggers_by_prelude.

(* ---------- non-vacuity: tag_object 1 7 || tag_object 2 7 || tag_object 3 7 ---------- *)

Definition od_w : world :=
  match run_history empty_world [CStore None SrcPath 7 1 VSzNone VCkNone] with
  | Some (w, _) => w
  | None => empty_world
  end.

Definition od_pids : list pid := [1; 2; 3].
Definition od_calls : list call := map (fun p : pid => CTag p 7) od_pids.

(* the schedule of props/C07onecid.v: pid locks in the order 0, 1, 2; cid lock in the order 1, 2, 0 *)
Definition od_sched : list nat :=
  [0; 1; 2] ++ repeat 1 18 ++ repeat 2 5 ++ [1] ++ repeat 2 17 ++ repeat 0 23 ++ [2].

Example C07_onecidDel_nonvacuous :
  exists cf : cfg,
    locks od_w = [] /\ refs_typed (fs od_w) /\ NoDup od_pids /\
    exec (map api od_calls) od_sched (init_cfg (map api od_calls) od_w) = Some cf /\
    stuck (map api od_calls) cf /\
    entry_order (fun _ : nat => 2) od_sched = [1; 2; 0] /\
    seq_run od_calls [1; 2; 0] od_w = Some (snd cf, [Val VUnit; Val VUnit; Val VUnit]) /\
    snd cf = mkWorld [(AObj 7, CData 7 1 1); (APidRef 1, CCid 7); (APidRef 2, CCid 7); (APidRef 3, CCid 7);
                      (ACidRef 7, CLines [2; 3; 1])] [].
Proof.
  assert (Hstart : Spec.Inv od_w /\ fsorted (fs od_w)).
  { eapply (@run_history_empty_start [CStore None SrcPath 7 1 VSzNone VCkNone] od_w).
    - repeat constructor.
    - vm_compute. reflexivity. }
  destruct Hstart as [HI _].
  destruct (exec (map api od_calls) od_sched (init_cfg (map api od_calls) od_w)) as [cf|] eqn:E;
    [|vm_compute in E; discriminate].
  exists cf.
  split; [destruct HI; assumption|].
  split; [apply well_typed_refs_typed; apply InvF_wt; destruct HI; assumption|].
  split; [repeat constructor; simpl; intuition discriminate|].
  split; [reflexivity|].
  vm_compute in E. inversion E; subst cf. clear E.
  split; [apply succs_nil_stuck; vm_compute; reflexivity|].
  split; [vm_compute; reflexivity|]. split; [vm_compute; reflexivity|].
  vm_compute. reflexivity.
Qed.
Print Assumptions C07_onecidDel_nonvacuous.
