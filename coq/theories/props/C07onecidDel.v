(* C07onecidDel — taggers AND deleters of one cid are linearizable, any number, every schedule:
   [C07_one_cid_taggers_deleters_linearizable] below, restated in full, with the pool theorem
   [prelude_pool] (OneCidDel.v) it is an instance of.

   delete_object q takes its two pid locks, runs find_object q (seven reads; the cid list and the
   object are SHARED) and only then takes the cid lock.  [prelude_pool] covers this shape:
   thread i is  prelude ; Acquire L ; critical section ; Release L ; releases of its private locks ;
   return, where every prelude read has ONE continuation for all the answers that a world
   satisfying the thread's stability predicate [J i] can give ([det]), and every solo run of another
   thread keeps [J i] in every intermediate world ([Hkeep], a semantic hypothesis).  Then every
   complete schedule ends in the world of the sequential run in the order in which the threads
   took L — thread j joins the order with its [entry j]-th step ([entry_order]) — with the same
   results.

   PROVED here:
     - the pool theorem, and what its shape predicates say;
     - the instance for pools of tag_object p_i c and delete_object q_j: pids pairwise distinct,
       every q_j bound to c in the start world (reference, membership in the cid list, object
       present), start world satisfying Spec.Inv.  J of a deleter = "q_j is bound to c"; [Hkeep] is
       CrashGeneralT.solo_call_keeps_other (the Hoare-style frame of CrashGeneral.v for ANY thread:
       every intermediate world of a call on pid p leaves another pid's reference, list membership
       and object as they were).  The deleter decides "last reference: remove list and object"
       from size_lines read INSIDE the cid lock, after its own rewrite of the list; what it read
       outside the lock (find_object) only selects the branch, and that is stable;
     - the non-vacuity example: tag_object 2 7 || tag_object 3 7 || delete_object 1, the deleter's
       find_object BEFORE the first tagger's critical section and its own critical section AFTER.
   NOT covered: deleters of pids that are not bound to c (they take other branches, some of which
   take the cid lock late or not at all), store_object, delete_if_invalid_object. *)
From HS Require Import Base PyVal FS Ops Sched Spec SeqLemmas Bracket Indep IndepMeta OneDoc OneCid OneCidDel.

Theorem C07_prelude_pool :
  forall (A : Type) (ps : list (prog A)) (L : lock) (priv : lock -> bool)
         (mine : nat -> lock -> bool) (pl : nat -> lock) (entry : nat -> nat)
         (J : nat -> fmap -> Prop) (WInv : world -> Prop) (w0 : world),
    (forall (i : nat) (p : prog A), nth_error ps i = Some p ->
       exists n : nat, Pre A L priv mine pl J i n [] p /\ S n = entry i) ->
    priv L = false ->
    (forall (i : nat) (l : lock), mine i l = true -> priv l = true) ->
    (forall (i j : nat) (l : lock), i < length ps -> j < length ps ->
       mine i l = true -> mine j l = true -> i = j) ->
    pool_ok ps -> locks w0 = [] -> refs_typed (fs w0) ->
    WInv w0 ->
    (forall i : nat, i < length ps -> J i (fs w0)) ->
    (forall (i : nat) (p : prog A) (w w' : world) (r : A),
       nth_error ps i = Some p -> WInv w -> locks w = [] -> run_as i w p = Some (w', r) -> WInv w') ->
    (forall (i j : nat) (p : prog A) (w : world) (hs : list ans) (ws : world) (m : prog A),
       i <> j -> nth_error ps i = Some p -> j < length ps -> WInv w -> locks w = [] ->
       J i (fs w) -> J j (fs w) -> Solo i p w hs ws m -> J j (fs ws)) ->
    forall (sched : list nat) (c : cfg),
      exec ps sched (init_cfg ps w0) = Some c -> stuck ps c ->
      finished ps c = true /\ locks (snd c) = [] /\
      exists (w' : world) (rs : list A),
        (* thread j joins the order with its [entry j]-th step *)
        let ord :=
          snd (fold_left
                 (fun (s : list nat * list nat) (j : nat) =>
                    (j :: fst s,
                     if Nat.eqb (S (length (filter (Nat.eqb j) (fst s)))) (entry j)
                     then snd s ++ [j] else snd s))
                 sched ([], [])) in
        NoDup ord /\ (forall i : nat, In i ord <-> i < length ps) /\
        seq_runp A ps ord w0 = Some (w', rs) /\
        snd c = w' /\ map (thread_result ps c) ord = map Some rs.
Proof. exact prelude_pool. Qed.
Print Assumptions C07_prelude_pool.

(* what the shape predicates say *)
Theorem C07_Pre_unfold :
  forall (A : Type) (L : lock) (priv : lock -> bool) (mine : nat -> lock -> bool) (pl : nat -> lock)
         (J : nat -> fmap -> Prop) (i n : nat) (hl : list lock) (o : op) (k : ans -> prog A),
    Pre A L priv mine pl J i n hl (Vis o k) ->
    (n = 0 /\ o = Acquire (fst L) (snd L) /\ In (pl i) hl /\ CS3 A L priv pl i hl (k AUnit)) \/
    (exists (n' : nat) (l : lock),
       n = S n' /\ o = Acquire (fst l) (snd l) /\ mine i l = true /\ ~ In l hl /\
       Pre A L priv mine pl J i n' (l :: hl) (k AUnit)) \/
    (exists (n' : nat) (m : prog A),
       n = S n' /\
       match o with Probe _ | Read _ | SizeLines _ => True | _ => False end /\
       (forall (t : nat) (w : world) (a : ans) (w' : world),
          J i (fs w) -> exec_op t o w = Some (a, w') -> k a = m) /\
       Pre A L priv mine pl J i n' hl m).
Proof. exact Pre_inv. Qed.
Print Assumptions C07_Pre_unfold.

Theorem C07_CS3_unfold :
  forall (A : Type) (L : lock) (priv : lock -> bool) (pl : nat -> lock) (i : nat) (hl : list lock)
         (o : op) (k : ans -> prog A),
    CS3 A L priv pl i hl (Vis o k) <->
    ((o = Release (fst L) (snd L) /\ exists r : A, Post A hl r (k AUnit)) \/
     (match o with
      | Acquire cls x | Release cls x => priv (cls, x) = false /\ (cls, x) <> L
      | Peek cls x | Held cls x => priv (cls, x) = false \/ (cls, x) = pl i
      | _ => True
      end /\ forall a : ans, CS3 A L priv pl i hl (k a))).
Proof. intros. simpl. unfold quiet. reflexivity. Qed.
Print Assumptions C07_CS3_unfold.

Theorem C07_CS3_ret : forall (A : Type) (L : lock) (priv : lock -> bool) (pl : nat -> lock) (i : nat)
  (hl : list lock) (r : A), ~ CS3 A L priv pl i hl (Ret r).
Proof. intros A L priv pl i hl r H. exact H. Qed.
Print Assumptions C07_CS3_ret.

Theorem C07_Post_unfold :
  forall (A : Type) (hl : list lock) (r : A) (m : prog A),
    Post A hl r m ->
    (hl = [] /\ m = Ret r) \/
    (exists (l : lock) (hl' : list lock) (k : ans -> prog A),
       hl = l :: hl' /\ m = Vis (Release (fst l) (snd l)) k /\ Post A hl' r (k AUnit)).
Proof. intros A hl r m H. inversion H; subst; [left; auto | right; eauto 6]. Qed.
Print Assumptions C07_Post_unfold.

(* the hypotheses are satisfiable by API programs: the taggers of one cid *)
Theorem C07_one_cid_taggers_by_prelude :
  forall (c : cid) (pids : list pid) (w0 : world) (sched : list nat) (cf : cfg),
    locks w0 = [] -> refs_typed (fs w0) -> NoDup pids ->
    exec (map api (map (fun p : pid => CTag p c) pids)) sched
         (init_cfg (map api (map (fun p : pid => CTag p c) pids)) w0) = Some cf ->
    stuck (map api (map (fun p : pid => CTag p c) pids)) cf ->
    finished (map api (map (fun p : pid => CTag p c) pids)) cf = true /\ locks (snd cf) = [] /\
    exists (w' : world) (rs : list (outcome value)),
      let ord := entry_order (fun _ : nat => 2) sched in
      NoDup ord /\ (forall i : nat, In i ord <-> i < length pids) /\
      seq_run (map (fun p : pid => CTag p c) pids) ord w0 = Some (w', rs) /\
      snd cf = w' /\
      map (thread_result (map api (map (fun p : pid => CTag p c) pids)) cf) ord = map Some rs.
Proof. exact one_cid_taggers_by_prelude. Qed.
Print Assumptions C07_one_cid_taggers_by_prelude.

(* ---------- non-vacuity: tag_object 1 7 || tag_object 2 7 || tag_object 3 7 ---------- *)

Definition od_w : world :=
  match run_history empty_world [CStore None SrcPath 7 1 VSzNone VCkNone] with
  | Some (w, _) => w
  | None => empty_world
  end.

Definition od_pids : list pid := [1; 2; 3].
Definition od_calls : list call := map (fun p : pid => CTag p 7) od_pids.

(* the schedule of props/C07onecid.v: pid locks in the order 0, 1, 2; cid lock in the order 1, 2, 0 *)
Definition od_sched : list nat :=
  [0; 1; 2] ++ repeat 1 18 ++ repeat 2 5 ++ [1] ++ repeat 2 17 ++ repeat 0 23 ++ [2].

Example C07_onecidDel_nonvacuous :
  exists cf : cfg,
    locks od_w = [] /\ refs_typed (fs od_w) /\ NoDup od_pids /\
    exec (map api od_calls) od_sched (init_cfg (map api od_calls) od_w) = Some cf /\
    stuck (map api od_calls) cf /\
    entry_order (fun _ : nat => 2) od_sched = [1; 2; 0] /\
    seq_run od_calls [1; 2; 0] od_w = Some (snd cf, [Val VUnit; Val VUnit; Val VUnit]) /\
    snd cf = mkWorld [(AObj 7, CData 7 1 1); (APidRef 1, CCid 7); (APidRef 2, CCid 7); (APidRef 3, CCid 7);
                      (ACidRef 7, CLines [2; 3; 1])] [].
Proof.
  assert (Hstart : Spec.Inv od_w /\ fsorted (fs od_w)).
  { eapply (@run_history_empty_start [CStore None SrcPath 7 1 VSzNone VCkNone] od_w).
    - repeat constructor.
    - vm_compute. reflexivity. }
  destruct Hstart as [HI _].
  destruct (exec (map api od_calls) od_sched (init_cfg (map api od_calls) od_w)) as [cf|] eqn:E;
    [|vm_compute in E; discriminate].
  exists cf.
  split; [destruct HI; assumption|].
  split; [apply well_typed_refs_typed; apply InvF_wt; destruct HI; assumption|].
  split; [repeat constructor; simpl; intuition discriminate|].
  split; [reflexivity|].
  vm_compute in E. inversion E; subst cf. clear E.
  split; [apply succs_nil_stuck; vm_compute; reflexivity|].
  split; [vm_compute; reflexivity|]. split; [vm_compute; reflexivity|].
  vm_compute. reflexivity.
Qed.
Print Assumptions C07_onecidDel_nonvacuous.

(* ---------- THE INSTANCE: taggers and deleters of one cid ---------- *)

Theorem C07_one_cid_taggers_deleters_linearizable :
  forall (c : cid) (calls : list call) (w0 : world) (sched : list nat) (cf : cfg),
    Spec.Inv w0 ->
    (* every call is tag_object p c or delete_object q *)
    (forall cl : call, In cl calls ->
       match cl with CTag _ c' => c' = c | CDelete _ => True | _ => False end) ->
    (* the pids are pairwise distinct *)
    NoDup (map (fun cl : call => match cl with CTag p _ | CDelete p => p | _ => 0 end) calls) ->
    (* every deleted pid is bound to c: reference, membership in the cid list, object present *)
    (forall q : pid, In (CDelete q) calls ->
       lookup (APidRef q) (fs w0) = Some (CCid c) /\
       (exists l : list pid, lookup (ACidRef c) (fs w0) = Some (CLines l) /\ In q l) /\
       lookup (AObj c) (fs w0) <> None) ->
    exec (map api calls) sched (init_cfg (map api calls) w0) = Some cf ->
    stuck (map api calls) cf ->
    finished (map api calls) cf = true /\ locks (snd cf) = [] /\
    exists (w' : world) (rs : list (outcome value)),
      (* the order in which the calls took the cid lock: a tagger with its 2nd step, a deleter
         (two pid locks, the seven reads of find_object) with its 10th *)
      let ord :=
        snd (fold_left
               (fun (s : list nat * list nat) (j : nat) =>
                  (j :: fst s,
                   if Nat.eqb (S (length (filter (Nat.eqb j) (fst s))))
                              (match nth_error calls j with Some (CDelete _) => 10 | _ => 2 end)
                   then snd s ++ [j] else snd s))
               sched ([], [])) in
      NoDup ord /\ (forall i : nat, In i ord <-> i < length calls) /\
      seq_run calls ord w0 = Some (w', rs) /\
      snd cf = w' /\
      map (thread_result (map api calls) cf) ord = map Some rs.
Proof. exact one_cid_taggers_deleters_linearizable. Qed.
Print Assumptions C07_one_cid_taggers_deleters_linearizable.

(* the deleters alone *)
Theorem C07_one_cid_deleters_linearizable :
  forall (c : cid) (pids : list pid) (w0 : world) (sched : list nat) (cf : cfg),
    Spec.Inv w0 -> NoDup pids ->
    (forall q : pid, In q pids ->
       lookup (APidRef q) (fs w0) = Some (CCid c) /\
       (exists l : list pid, lookup (ACidRef c) (fs w0) = Some (CLines l) /\ In q l) /\
       lookup (AObj c) (fs w0) <> None) ->
    exec (map api (map CDelete pids)) sched (init_cfg (map api (map CDelete pids)) w0) = Some cf ->
    stuck (map api (map CDelete pids)) cf ->
    finished (map api (map CDelete pids)) cf = true /\ locks (snd cf) = [] /\
    exists (w' : world) (rs : list (outcome value)),
      let ord := entry_order (td_entry (map CDelete pids)) sched in
      NoDup ord /\ (forall i : nat, In i ord <-> i < length pids) /\
      seq_run (map CDelete pids) ord w0 = Some (w', rs) /\
      snd cf = w' /\
      map (thread_result (map api (map CDelete pids)) cf) ord = map Some rs.
Proof. exact one_cid_deleters_linearizable. Qed.
Print Assumptions C07_one_cid_deleters_linearizable.

(* the shape of delete_object q, under "q is bound to c": two private acquisitions, seven reads
   with one continuation each, the cid lock as the 10th step *)
Theorem C07_delete_shape :
  forall (mine : nat -> lock -> bool) (pl : nat -> lock) (J : nat -> fmap -> Prop) (i : nat)
         (q : pid) (c : cid),
    (forall m : fmap, J i m ->
       lookup (APidRef q) m = Some (CCid c) /\
       (exists l : list pid, lookup (ACidRef c) m = Some (CLines l) /\ In q l) /\
       lookup (AObj c) m <> None) ->
    mine i (LObjPid, IPid q) = true -> mine i (LRefPid, IPid q) = true ->
    pl i = (LRefPid, IPid q) ->
    Pre (outcome value) (LCid, ICid c)
        (fun l : lock => lockcls_eqb (fst l) LRefPid || lockcls_eqb (fst l) LObjPid)
        mine pl J i 9 [] (api (CDelete q)).
Proof. exact pre_delete. Qed.
Print Assumptions C07_delete_shape.

(* ---------- non-vacuity: tag_object 2 7 || tag_object 3 7 || delete_object 1 ---------- *)

(* pid 1 bound to cid 7 *)
Definition td_w : world :=
  match run_history empty_world [CStore (Some 1) SrcPath 7 1 VSzNone VCkNone] with
  | Some (w, _) => w
  | None => empty_world
  end.

Definition td_calls : list call := [CTag 2 7; CTag 3 7; CDelete 1].

(* the deleter (thread 2) takes its two pid locks and runs find_object (9 steps); THEN the first
   tagger runs from start to end (24 steps: its whole critical section); then the deleter takes the
   cid lock and runs its critical section (14 steps: pid 2 is listed by now, so the cid list and
   the object stay); then the second tagger *)
Definition td_sched : list nat := repeat 2 9 ++ repeat 0 24 ++ repeat 2 14 ++ repeat 1 24.

Example C07_taggers_deleters_nonvacuous :
  exists cf : cfg,
    Spec.Inv td_w /\
    (forall cl : call, In cl td_calls -> td_call 7 cl) /\
    NoDup (map td_pid td_calls) /\
    (forall q : pid, In (CDelete q) td_calls -> boundto q 7 (fs td_w)) /\
    exec (map api td_calls) td_sched (init_cfg (map api td_calls) td_w) = Some cf /\
    stuck (map api td_calls) cf /\
    (* after the deleter's prelude the first tagger has not started *)
    (exists c1 : cfg,
       exec (map api td_calls) (repeat 2 9) (init_cfg (map api td_calls) td_w) = Some c1 /\
       map (@length ans) (fst c1) = [0; 0; 9] /\ fs (snd c1) = fs td_w) /\
    entry_order (td_entry td_calls) td_sched = [0; 2; 1] /\
    seq_run td_calls [0; 2; 1] td_w = Some (snd cf, [Val VUnit; Val VUnit; Val VUnit]) /\
    snd cf = mkWorld [(AObj 7, CData 7 1 1); (APidRef 2, CCid 7); (APidRef 3, CCid 7);
                      (ACidRef 7, CLines [2; 3])] [].
Proof.
  assert (Hstart : Spec.Inv td_w /\ fsorted (fs td_w)).
  { eapply (@run_history_empty_start [CStore (Some 1) SrcPath 7 1 VSzNone VCkNone] td_w).
    - repeat constructor.
    - vm_compute. reflexivity. }
  destruct Hstart as [HI _].
  destruct (exec (map api td_calls) td_sched (init_cfg (map api td_calls) td_w)) as [cf|] eqn:E;
    [|vm_compute in E; discriminate].
  exists cf.
  split; [exact HI|].
  split; [intros cl [<-|[<-|[<-|[]]]]; simpl; auto|].
  split; [repeat constructor; simpl; intuition discriminate|].
  split.
  { intros q [H|[H|[H|[]]]]; inversion H; subst. vm_compute.
    split; [reflexivity|]. split; [exists [1]; split; [reflexivity|left; reflexivity]|discriminate]. }
  split; [reflexivity|].
  vm_compute in E. inversion E; subst cf. clear E.
  split; [apply succs_nil_stuck; vm_compute; reflexivity|].
  split.
  { destruct (exec (map api td_calls) (repeat 2 9) (init_cfg (map api td_calls) td_w)) as [c1|] eqn:E1;
      [|vm_compute in E1; discriminate].
    exists c1. split; [reflexivity|]. vm_compute in E1. inversion E1; subst c1. clear E1.
    split; vm_compute; reflexivity. }
  split; [vm_compute; reflexivity|]. split; [vm_compute; reflexivity|].
  vm_compute. reflexivity.
Qed.
Print Assumptions C07_taggers_deleters_nonvacuous.
