(* C07mutex — mutual exclusion on identifiers: GENERAL theorems (any pool of API calls, any
   schedule, with or without faults, with or without the faithful condition variables), proved in
   Mutex.v as corollaries of Bracket.v's global invariant with the per-thread held lists made
   explicit.  Statements are restated in full so that a weakened lemma no longer fits.

   [held ps c i]  : the list obtained by replaying thread i's history in configuration c — every
                    Acquire issued adds its (class, identifier), every Release issued removes it;
   [holds ps c i l] := In l (held ps c i);
   [prec h o]     : operation o may be issued while holding h: if o is AppendOpen / AppendWrite /
                    RewriteWrite / Truncate on refs/cids/<c>, or a Rename from or onto it, then
                    (LCid, ICid c) is in h. *)
From HS Require Import Base PyVal FS Ops Sched Spec Bracket SchedCV Mutex.

(* (1) no identifier is ever in a lock list twice *)
Theorem C07_mutex_nodup :
  forall (calls : list call) (w0 : world) (c : cfg),
    locks w0 = [] -> refs_typed (fs w0) -> reachable (map api calls) w0 c ->
    NoDup (locks (snd c)).
Proof. exact @mutex_nodup. Qed.
Print Assumptions C07_mutex_nodup.

(* (2) at most one thread is inside a given (class, identifier) *)
Theorem C07_mutex_exclusive :
  forall (calls : list call) (w0 : world) (c : cfg) (i j : nat) (l : lock),
    locks w0 = [] -> refs_typed (fs w0) -> reachable (map api calls) w0 c ->
    holds (map api calls) c i l -> holds (map api calls) c j l -> i = j.
Proof. exact @mutex_exclusive. Qed.
Print Assumptions C07_mutex_exclusive.

(* the world's lock lists are exactly what the threads are inside *)
Theorem C07_mutex_world :
  forall (calls : list call) (w0 : world) (c : cfg) (l : lock),
    locks w0 = [] -> refs_typed (fs w0) -> reachable (map api calls) w0 c ->
    (In l (locks (snd c)) <-> exists i : nat, holds (map api calls) c i l).
Proof. exact @mutex_world. Qed.
Print Assumptions C07_mutex_world.

(* (3) every modification of a cid reference list happens under that cid's lock *)
Theorem C07_cid_list_guarded :
  forall (calls : list call) (w0 : world) (c : cfg) (i : nat) (o : op)
         (k : ans -> prog (outcome value)),
    locks w0 = [] -> refs_typed (fs w0) -> reachable (map api calls) w0 c ->
    residual (map api calls) c i = Some (Vis o k) ->
    prec (held (map api calls) c i) o.
Proof. exact @cid_list_guarded. Qed.
Print Assumptions C07_cid_list_guarded.

Theorem C07_cid_list_guarded_ops :
  forall (calls : list call) (w0 : world) (c : cfg) (i : nat) (o : op)
         (k : ans -> prog (outcome value)) (cc : cid),
    locks w0 = [] -> refs_typed (fs w0) -> reachable (map api calls) w0 c ->
    residual (map api calls) c i = Some (Vis o k) ->
    ((exists p : pid, o = AppendWrite (ACidRef cc) p) \/
     (exists p : pid, o = RewriteWrite (ACidRef cc) p) \/
     (exists n : nat, o = Truncate (ACidRef cc) n) \/
     (exists s : addr, o = Rename s (ACidRef cc)) \/
     (exists d : addr, o = Rename (ACidRef cc) d) \/
     o = AppendOpen (ACidRef cc)) ->
    holds (map api calls) c i (LCid, ICid cc).
Proof. exact @cid_list_guarded_ops. Qed.
Print Assumptions C07_cid_list_guarded_ops.

(* two threads are never both about to modify the same cid list *)
Theorem C07_cid_list_exclusive :
  forall (calls : list call) (w0 : world) (c : cfg) (i j : nat) (oi : op)
         (ki : ans -> prog (outcome value)) (oj : op) (kj : ans -> prog (outcome value)) (cc : cid),
    locks w0 = [] -> refs_typed (fs w0) -> reachable (map api calls) w0 c ->
    residual (map api calls) c i = Some (Vis oi ki) -> writes_cid_list oi cc ->
    residual (map api calls) c j = Some (Vis oj kj) -> writes_cid_list oj cc ->
    i = j.
Proof. exact @cid_list_exclusive. Qed.
Print Assumptions C07_cid_list_exclusive.

(* (1)-(3) for the schedules of Sched.v *)
Theorem C07_mutex_exec :
  forall (calls : list call) (w0 : world) (sched : list nat) (c : cfg),
    locks w0 = [] -> refs_typed (fs w0) ->
    exec (map api calls) sched (init_cfg (map api calls) w0) = Some c ->
    NoDup (locks (snd c)) /\
    (forall (i j : nat) (l : lock),
       holds (map api calls) c i l -> holds (map api calls) c j l -> i = j) /\
    (forall (i : nat) (o : op) (k : ans -> prog (outcome value)),
       residual (map api calls) c i = Some (Vis o k) -> prec (held (map api calls) c i) o).
Proof. exact @mutex_exec. Qed.
Print Assumptions C07_mutex_exec.

(* (1)-(3) for the semantics with faithful condition variables, with or without faults *)
Theorem C07_mutex_cv :
  forall (fl : bool) (calls : list call) (w0 : world) (C : cvcfg),
    locks w0 = [] -> refs_typed (fs w0) ->
    cvreachable (map api calls) fl w0 C ->
    NoDup (locks (snd (fst C))) /\
    (forall (i j : nat) (l : lock),
       holds (map api calls) (fst C) i l -> holds (map api calls) (fst C) j l -> i = j) /\
    (forall (i : nat) (o : op) (k : ans -> prog (outcome value)),
       residual (map api calls) (fst C) i = Some (Vis o k) ->
       prec (held (map api calls) (fst C) i) o).
Proof. exact @mutex_cv. Qed.
Print Assumptions C07_mutex_cv.

(* the guard discipline of every API program, for all answers of the right shape *)
Theorem C07_api_guarded :
  forall c : call, Cg (api c) [] (fun (_ : outcome value) (_ : list lock) => True).
Proof. exact @api_guarded. Qed.
Print Assumptions C07_api_guarded.

(* ---------- non-vacuity: the definitions compute what they should ---------- *)

Definition c07_w : world :=
  match run_history empty_world [CStore (Some 1) SrcPath 7 1 VSzNone VCkNone] with
  | Some (w, _) => w
  | None => empty_world
  end.

Definition c07_next_op (ps : list (prog (outcome value))) (c : cfg) (i : nat) : option op :=
  match residual ps c i with Some (Vis o _) => Some o | _ => None end.

(* delete_object 1, fourteen operations in: about to rewrite the cid list of cid 7, inside the
   object-pid, reference-pid and cid locks and the flock *)
Example C07_mutex_nonvacuous :
  exists c : cfg,
    exec (map api [CDelete 1]) (repeat 0 14) (init_cfg (map api [CDelete 1]) c07_w) = Some c /\
    c07_next_op (map api [CDelete 1]) c 0 = Some (RewriteWrite (ACidRef 7) 1) /\
    held (map api [CDelete 1]) c 0 =
      [(LFile, IDoc (ACidRef 7)); (LCid, ICid 7); (LRefPid, IPid 1); (LObjPid, IPid 1)] /\
    locks (snd c) = held (map api [CDelete 1]) c 0.
Proof.
  destruct (exec (map api [CDelete 1]) (repeat 0 14) (init_cfg (map api [CDelete 1]) c07_w))
    as [c|] eqn:E; [|vm_compute in E; discriminate].
  exists c. split; [reflexivity|].
  vm_compute in E. inversion E; subst c. clear E.
  vm_compute. auto.
Qed.
Print Assumptions C07_mutex_nonvacuous.
