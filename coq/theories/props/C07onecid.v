(* C07onecid — a CONFLICTING case of C07 in general form: any number of tag_object calls with
   pairwise DISTINCT pids on ONE cid (every call reads and extends the same cid reference list), any
   start world without held locks and with typed reference files, ANY schedule.  GENERAL theorems
   proved in OneCid.v; statements are restated in full so that a weakened lemma no longer fits.

   tag_object p c takes the reference-pid lock (LRefPid, IPid p) with its first operation and the
   cid lock (LCid, ICid c) with its second; all its file operations lie between that and the release
   of the cid lock; its last operation gives the pid lock back.  For distinct pids the pid locks are
   private, so every schedule that [exec] accepts is equivalent to running the calls one after the
   other in the order in which they acquire the CID lock — the order of the threads' SECOND
   occurrences in the schedule ([cs_order sched]); the final WORLD (files and lock list,
   [snd cf = w']) and every outcome are exactly those of [Indep.seq_run] in that order (each call
   alone, as its own thread number), the calls rejected by the argument checks — they perform no
   operation — last ([inert2]). *)
From HS Require Import Base PyVal FS Ops Sched Spec SeqLemmas Bracket Indep IndepMeta OneDoc OneCid.

Theorem C07_one_cid_taggers_linearizable :
  forall (c : cid) (calls : list call) (w0 : world) (sched : list nat) (cf : cfg),
    locks w0 = [] -> refs_typed (fs w0) ->
    (forall ci : call, In ci calls ->
       match ci with
       | CTag _ c' => c' = c
       | CRejected _ => True
       | _ => False
       end) ->
    (forall (i j : nat) (p q : pid) (ci cj : cid),
       nth_error calls i = Some (CTag p ci) -> nth_error calls j = Some (CTag q cj) -> p = q -> i = j) ->
    exec (map api calls) sched (init_cfg (map api calls) w0) = Some cf ->
    stuck (map api calls) cf ->
    finished (map api calls) cf = true /\ locks (snd cf) = [] /\
    exists (w' : world) (rs : list (outcome value)),
      (* the threads in the order of their second step: (seen once, seen twice in order) *)
      let cs :=
        snd (fold_left
               (fun (s : list nat * list nat) (j : nat) =>
                  if existsb (Nat.eqb j) (fst s)
                  then (if existsb (Nat.eqb j) (snd s) then s else (fst s, snd s ++ [j]))
                  else (j :: fst s, snd s))
               sched ([], [])) in
      let ord := cs ++ filter (fun i : nat => negb (existsb (Nat.eqb i) cs)) (seq 0 (length calls)) in
      NoDup ord /\ (forall i : nat, In i ord <-> i < length calls) /\
      seq_run calls ord w0 = Some (w', rs) /\
      snd cf = w' /\
      map (thread_result (map api calls) cf) ord = map Some rs.
Proof. exact one_cid_taggers_linearizable. Qed.
Print Assumptions C07_one_cid_taggers_linearizable.

(* from a world satisfying the store invariant *)
Theorem C07_one_cid_taggers_linearizable_inv :
  forall (c : cid) (calls : list call) (w0 : world) (sched : list nat) (cf : cfg),
    Spec.Inv w0 ->
    (forall ci : call, In ci calls -> one_cid_call c ci) ->
    (forall (i j : nat) (p q : pid) (ci cj : cid),
       nth_error calls i = Some (CTag p ci) -> nth_error calls j = Some (CTag q cj) -> p = q -> i = j) ->
    exec (map api calls) sched (init_cfg (map api calls) w0) = Some cf ->
    stuck (map api calls) cf ->
    finished (map api calls) cf = true /\ locks (snd cf) = [] /\
    exists (w' : world) (rs : list (outcome value)),
      let ord := cs_order sched ++ inert2 (length calls) sched in
      NoDup ord /\ (forall i : nat, In i ord <-> i < length calls) /\
      seq_run calls ord w0 = Some (w', rs) /\
      snd cf = w' /\
      map (thread_result (map api calls) cf) ord = map Some rs.
Proof. exact one_cid_taggers_linearizable_inv. Qed.
Print Assumptions C07_one_cid_taggers_linearizable_inv.

(* the pool written as a list of distinct pids *)
Theorem C07_one_cid_pids_linearizable :
  forall (c : cid) (pids : list pid) (w0 : world) (sched : list nat) (cf : cfg),
    locks w0 = [] -> refs_typed (fs w0) -> NoDup pids ->
    exec (map api (map (fun p : pid => CTag p c) pids)) sched
         (init_cfg (map api (map (fun p : pid => CTag p c) pids)) w0) = Some cf ->
    stuck (map api (map (fun p : pid => CTag p c) pids)) cf ->
    finished (map api (map (fun p : pid => CTag p c) pids)) cf = true /\ locks (snd cf) = [] /\
    exists (w' : world) (rs : list (outcome value)),
      let ord := cs_order sched ++ inert2 (length pids) sched in
      NoDup ord /\ (forall i : nat, In i ord <-> i < length pids) /\
      seq_run (map (fun p : pid => CTag p c) pids) ord w0 = Some (w', rs) /\
      snd cf = w' /\
      map (thread_result (map api (map (fun p : pid => CTag p c) pids)) cf) ord = map Some rs.
Proof. exact one_cid_pids_linearizable. Qed.
Print Assumptions C07_one_cid_pids_linearizable.

(* the pool theorem behind it: thread i's program takes its PRIVATE lock pl i, then the SHARED lock
   L, stays inside its critical section [CS2] — operations that take and give back neither L nor any
   private lock and test no other thread's private lock — until it gives L back, then gives pl i
   back and returns at once; or it has returned already *)
Theorem C07_two_lock_pool :
  forall (A : Type) (ps : list (prog A)) (L : lock) (pl : nat -> lock) (priv : lock -> bool) (w0 : world),
    (forall (i : nat) (p : prog A), nth_error ps i = Some p ->
       (exists r : A, p = Ret r) \/
       (exists k1 k2 : ans -> prog A,
          p = Vis (Acquire (fst (pl i)) (snd (pl i))) k1 /\
          k1 AUnit = Vis (Acquire (fst L) (snd L)) k2 /\ CS2 A priv L (pl i) (k2 AUnit))) ->
    priv L = false ->
    (forall i : nat, priv (pl i) = true) ->
    (forall i j : nat,
       (exists p : prog A, nth_error ps i = Some p /\ writer2 A priv L (pl i) p) ->
       (exists p : prog A, nth_error ps j = Some p /\ writer2 A priv L (pl j) p) ->
       pl i = pl j -> i = j) ->
    pool_ok ps -> locks w0 = [] -> refs_typed (fs w0) ->
    forall (sched : list nat) (c : cfg),
      exec ps sched (init_cfg ps w0) = Some c -> stuck ps c ->
      finished ps c = true /\ locks (snd c) = [] /\
      exists (w' : world) (rs : list A),
        let ord := cs_order sched ++ inert2 (length ps) sched in
        NoDup ord /\ (forall i : nat, In i ord <-> i < length ps) /\
        seq_runp A ps ord w0 = Some (w', rs) /\
        snd c = w' /\ map (thread_result ps c) ord = map Some rs.
Proof. exact two_lock_pool. Qed.
Print Assumptions C07_two_lock_pool.

(* what [CS2] says about the next operation *)
Theorem C07_CS2_unfold :
  forall (A : Type) (priv : lock -> bool) (L Li : lock) (o : op) (k : ans -> prog A),
    CS2 A priv L Li (Vis o k) <->
    ((o = Release (fst L) (snd L) /\
      exists (k' : ans -> prog A) (r : A),
        k AUnit = Vis (Release (fst Li) (snd Li)) k' /\ k' AUnit = Ret r) \/
     (match o with
      | Acquire cls x | Release cls x => priv (cls, x) = false /\ (cls, x) <> L
      | Peek cls x | Held cls x => priv (cls, x) = false \/ (cls, x) = Li
      | _ => True
      end /\ forall a : ans, CS2 A priv L Li (k a))).
Proof. intros. simpl. unfold quiet. reflexivity. Qed.
Print Assumptions C07_CS2_unfold.

Theorem C07_CS2_ret : forall (A : Type) (priv : lock -> bool) (L Li : lock) (r : A),
  ~ CS2 A priv L Li (Ret r).
Proof. intros A priv L Li r H. exact H. Qed.
Print Assumptions C07_CS2_ret.

(* tag_object has that shape, for all arguments: private lock = the reference-pid lock of its pid
   (the private locks are the locks of class LRefPid), shared lock = the cid lock *)
Theorem C07_writer2_tag :
  forall (p : pid) (c : cid),
    exists k1 k2 : ans -> prog (outcome value),
      api (CTag p c) = Vis (Acquire LRefPid (IPid p)) k1 /\
      k1 AUnit = Vis (Acquire LCid (ICid c)) k2 /\
      CS2 (outcome value) (fun l : lock => lockcls_eqb (fst l) LRefPid) (LCid, ICid c) (LRefPid, IPid p)
          (k2 AUnit).
Proof. exact writer2_tag. Qed.
Print Assumptions C07_writer2_tag.

(* ---------- non-vacuity: tag_object 1 7 || tag_object 2 7 || tag_object 3 7 ---------- *)

(* the object 7 exists (stored without a pid); no cid reference list, no pid reference file yet *)
Definition oc_w : world :=
  match run_history empty_world [CStore None SrcPath 7 1 VSzNone VCkNone] with
  | Some (w, _) => w
  | None => empty_world
  end.

Definition oc_calls : list call := [CTag 1 7; CTag 2 7; CTag 3 7].

(* all three take their pid lock (0, 1, 2); thread 1 takes the cid lock, creates the list, gives the
   cid lock back but keeps its pid lock; thread 2 takes the cid lock and starts; thread 1 gives its
   pid lock back in the middle of thread 2's critical section; thread 2 finishes its critical section
   and keeps its pid lock; thread 0 runs completely; thread 2 gives its pid lock back *)
Definition oc_sched : list nat :=
  [0; 1; 2] ++ repeat 1 18 ++ repeat 2 5 ++ [1] ++ repeat 2 17 ++ repeat 0 23 ++ [2].

Example C07_onecid_nonvacuous :
  exists cf : cfg,
    locks oc_w = [] /\ refs_typed (fs oc_w) /\ Spec.Inv oc_w /\
    fs oc_w = [(AObj 7, CData 7 1 1)] /\
    (forall ci : call, In ci oc_calls -> one_cid_call 7 ci) /\
    (forall (i j : nat) (p q : pid) (ci cj : cid),
       nth_error oc_calls i = Some (CTag p ci) -> nth_error oc_calls j = Some (CTag q cj) -> p = q -> i = j) /\
    exec (map api oc_calls) oc_sched (init_cfg (map api oc_calls) oc_w) = Some cf /\
    stuck (map api oc_calls) cf /\
    (* the cid lock was taken in the order 1, 2, 0 — the pid locks in the order 0, 1, 2 *)
    cs_order oc_sched = [1; 2; 0] /\ inert2 (length oc_calls) oc_sched = [] /\
    acq_order oc_sched = [0; 1; 2] /\
    results (map api oc_calls) cf = [Some (Val VUnit); Some (Val VUnit); Some (Val VUnit)] /\
    (* the cid list holds the pids in the order of the cid-lock acquisitions; no temp file, no lock left *)
    snd cf = mkWorld [(AObj 7, CData 7 1 1); (APidRef 1, CCid 7); (APidRef 2, CCid 7); (APidRef 3, CCid 7);
                      (ACidRef 7, CLines [2; 3; 1])] [] /\
    seq_run oc_calls [1; 2; 0] oc_w = Some (snd cf, [Val VUnit; Val VUnit; Val VUnit]) /\
    (* the order of the pid-lock acquisitions is NOT the linearization order *)
    (exists w', seq_run oc_calls [0; 1; 2] oc_w = Some (w', [Val VUnit; Val VUnit; Val VUnit]) /\ w' <> snd cf) /\
    (* a second tagger cannot enter while the first is inside: [exec] rejects the schedule *)
    exec (map api oc_calls) [0; 1; 1; 0] (init_cfg (map api oc_calls) oc_w) = None.
Proof.
  assert (Hstart : Spec.Inv oc_w /\ fsorted (fs oc_w)).
  { eapply (@run_history_empty_start [CStore None SrcPath 7 1 VSzNone VCkNone] oc_w).
    - repeat constructor.
    - vm_compute. reflexivity. }
  destruct Hstart as [HI _].
  destruct (exec (map api oc_calls) oc_sched (init_cfg (map api oc_calls) oc_w)) as [cf|] eqn:E;
    [|vm_compute in E; discriminate].
  exists cf.
  split; [destruct HI; assumption|].
  split; [apply well_typed_refs_typed; apply InvF_wt; destruct HI; assumption|].
  split; [exact HI|].
  split; [vm_compute; reflexivity|].
  split.
  { intros ci Hci. simpl in Hci.
    destruct Hci as [<-|[<-|[<-|[]]]]; simpl; auto. }
  split.
  { intros i j p q ci cj Hi Hj Epq.
    destruct i as [|[|[|i]]]; simpl in Hi; try (destruct i; discriminate);
    destruct j as [|[|[|j]]]; simpl in Hj; try (destruct j; discriminate);
    inversion Hi; inversion Hj; subst; try reflexivity; discriminate. }
  split; [reflexivity|].
  vm_compute in E. inversion E; subst cf. clear E.
  split; [apply succs_nil_stuck; vm_compute; reflexivity|].
  split; [vm_compute; reflexivity|]. split; [vm_compute; reflexivity|].
  split; [vm_compute; reflexivity|]. split; [vm_compute; reflexivity|].
  split; [vm_compute; reflexivity|]. split; [vm_compute; reflexivity|].
  split.
  { eexists. split; [vm_compute; reflexivity|]. intros H. discriminate H. }
  vm_compute. reflexivity.
Qed.
Print Assumptions C07_onecid_nonvacuous.
