(* C13, generalised — I/O faults: every start state satisfying the representation invariant,
   every call, EVERY fault plan (every fault state of Sched.run_fault: FWait k pers for all k and
   both modes, FStuck, FDone).  Companion of the menu-based props/C13.v.  Statements are restated in
   full and closed by [exact] of the lemmas of FaultGeneral.v.

   Proved: (F1) every other pid is untouched and retrieve_object never serves wrong bytes to
   anybody, the faulted pid being served its old content or the call's; (F3) a store_metadata that
   raises leaves the previous document version intact; (F2) the call returns and leaves no lock,
   for EVERY fault plan, the plans that fail the flock itself included
   ([C13g_fault_returns_no_lock_any], FlockFaults.v; see props/C08flock.v for what a failing flock
   does and a worked example); [C13g_fault_returns_no_lock] is the earlier form with the
   hypothesis [noflock].
   (F4), ONE-OFF faults, pid unbound in the start state: a failed tag_object / store_object leaves
   the pid unbound (no reference, in no cid list: no stale line survives a one-off fault), no lock,
   and the same call issued again succeeds ([C13g_tag_one_off_fault], [C13g_store_one_off_fault]).
   FINDING [C13g_duplicate_store_fault_untags]: when the pid is ALREADY bound to that cid, a
   one-off makedirs failure makes the roll-back remove the existing binding.
   (F3'), C13's first clause, SUCCESS => WHOLE EFFECT (FaultSuccess.v): for every call, every ONE-OFF
   fault and every world with a sorted file map (every reachable one), a call that reports success
   gives the answer of the fault-free call and leaves the same locks and the same files except
   deletion markers ([C13g_fault_success_whole_effect], [C13g_fault_success_markers]; non-vacuous:
   [C13g_swallowed_marker_removal]); for every call other than delete_object / delete_metadata(pid,
   None), from ANY world and for PERSISTENT faults too, success means the run WAS the fault-free
   run ([C13g_one_off_success_identical], [C13g_persistent_success_identical]).  PERSISTENT faults,
   EVERY call (FaultPersist.v): the same whole-effect statement ([C13g_persistent_fault_success_markers],
   [C13g_persistent_fault_success_whole_effect], both modes in one: [C13g_any_fault_success_whole_effect];
   non-vacuous: [C13g_persistent_swallowed_marker_removal]).
   (F4'), ONE-OFF faults, pid bound OR NOT, every variant of store_object / tag_object (FaultBound.v):
   a call that raises leaves no lock and leaves the pid CONSISTENT — its reference and every cid list
   as before the call, or no reference and in no list; never half-bound
   ([C13g_one_off_fault_pid_consistent]; non-vacuous: [C13g_bound_pid_fault_consistent]).
   (F4''), ONE-OFF faults, THE RETRY (FaultRetry.v): every retryable call — tag_object, or store_object(pid)
   with any readable source and any size / checksum argument that matches, i.e. exactly the calls
   that succeed fault-free for an unbound pid ([C13g_retryable_iff_succeeds]) —, the pid bound or
   not before: a call that raises leaves the earlier binding intact, or the pid unbound AND the same
   call issued again at once succeeds and binds the pid completely, whatever the failure left behind
   (temp files, the object stored but not tagged) ([C13g_one_off_fault_retry],
   [C13g_one_off_fault_unbound_retry], [C13g_one_off_fault_intact_or_retry]; non-vacuous:
   [C13g_retry_after_leftovers]).
   For PERSISTENT faults (F4) is false: witness
   [C13g_persistent_fault_defeats_rollback], and the full statement [C13_general_statement] is
   refuted by it ([C13g_statement_false]).
   (F4p), PERSISTENT faults, pid bound OR NOT, every variant of store_object / tag_object, every state
   satisfying the invariant, every k (FaultPersistBound.v): a call that raises leaves no lock and
   leaves the pid's reference files as before, or the pid completely unbound, or is a member of the
   D10 family stated positively — the failure was delivered to an operation on the pid's reference
   file or on the list of the call's cid, the pid had no reference, and now has one naming the call's
   cid, with or without its list line ([C13g_persistent_fault_consistent_or_D10]).  NO other kind of
   damage exists.  Corollaries: a pid that had a reference is never damaged
   ([C13g_persistent_fault_bound_pid_consistent]); a failure sticking to any other destination
   leaves the pid consistent ([C13g_persistent_fault_elsewhere_consistent]).  Non-vacuous, one
   example per disjunct: [C13g_persistent_fault_examples]. *)
From HS Require Import Base PyVal FS Ops Spec Sched Refine CrashFault Integrity CrashGeneral FaultGeneral
  FaultSuccess FaultPersist FaultBound FaultRetry FaultPersistBound.
From HS Require Bracket Indep FlockFaults.

(* ---------- the fault semantics covered ---------- *)

(* nondeterministic faults: at every fault site the operation executes, or answers an error
   without effect *)
Theorem C13g_frun_def :
  forall (A : Type) (o : op) (k : ans -> prog A) (w w' : world) (r : A),
    frun (Vis o k) w w' r <->
    ((exists (x : ans) (w1 : world), exec_op 0 o w = Some (x, w1) /\ frun (k x) w1 w' r) \/
     (is_site o = true /\ frun (k (AErr EFault)) w w' r)).
Proof. exact (fun A o k w w' r => iff_refl _). Qed.
Print Assumptions C13g_frun_def.

(* every run of Sched.run_fault, from ANY fault state, is one of them *)
Theorem C13g_run_fault_frun :
  forall (A : Type) (m : prog A) (st : fstate) (w w' : world) (r : A),
    run_fault st w m = Some (w', r) -> frun m w w' r.
Proof. exact run_fault_frun. Qed.
Print Assumptions C13g_run_fault_frun.

(* ---------- (F1) others untouched ---------- *)

Theorem C13g_fault_others_untouched :
  forall (w0 : world) (c : call) (p : pid) (st : fstate) (w : world) (r : outcome value),
    Inv w0 -> (forall p' : pid, call_pid c = Some p' -> p' = p) ->
    run_fault st w0 (api c) = Some (w, r) ->
    forall q : pid, q <> p ->
      lookup (APidRef q) (fs w) = lookup (APidRef q) (fs w0) /\
      (forall f : fmt, lookup (AMeta q f) (fs w) = lookup (AMeta q f) (fs w0)) /\
      (forall k : cid, lookup (APidRef q) (fs w0) = Some (CCid k) ->
         (exists l : list pid, lookup (ACidRef k) (fs w) = Some (CLines l) /\ In q l) /\
         (forall x : fcontent, lookup (AObj k) (fs w0) = Some x -> lookup (AObj k) (fs w) = Some x)) /\
      ((forall k : cid, lookup (APidRef q) (fs w0) = Some (CCid k) -> lookup (AObj k) (fs w0) <> None) ->
         exists r0 : outcome fcontent, retr w0 q = Some r0 /\ retr w q = Some r0).
Proof. exact fault_others_untouched. Qed.
Print Assumptions C13g_fault_others_untouched.

(* the frame invariant WI (pinned in props/C10general.v) after the faulted call, and after any
   further faulted call on p *)
Theorem C13g_fault_WI :
  forall (w0 : world) (c : call) (p : pid) (st : fstate) (w : world) (r : outcome value),
    Inv w0 -> (forall p' : pid, call_pid c = Some p' -> p' = p) ->
    run_fault st w0 (api c) = Some (w, r) -> WI w0 p w.
Proof. exact fault_WI. Qed.
Print Assumptions C13g_fault_WI.

Theorem C13g_followup_fault_WI :
  forall (w0 : world) (p : pid) (w : world) (c : call) (st : fstate) (w' : world) (r : outcome value),
    WI w0 p w -> (forall p' : pid, call_pid c = Some p' -> p' = p) ->
    run_fault st w (api c) = Some (w', r) -> WI w0 p w'.
Proof. exact followup_fault_WI. Qed.
Print Assumptions C13g_followup_fault_WI.

(* never wrong bytes, for any pid *)
Theorem C13g_fault_never_wrong_bytes :
  forall (w0 : world) (c : call) (p : pid) (st : fstate) (w : world) (r : outcome value),
    Inv w0 -> (forall p' : pid, call_pid c = Some p' -> p' = p) ->
    run_fault st w0 (api c) = Some (w, r) ->
    forall q : pid,
      (exists b m : nat, retr w q = Some (Val (CData b m m)) /\
                         lookup (APidRef q) (fs w) = Some (CCid b) /\
                         lookup (AObj b) (fs w) = Some (CData b m m))
      \/ (exists e : exn, retr w q = Some (Exn e) /\
            (e = EPidRefsDoesNotExist \/ e = EOrphanPidRefsFileFound \/
             e = EPidNotFoundInCidRefsFile \/ e = ERefsFileExistsButCidObjMissing)).
Proof. exact fault_never_wrong_bytes. Qed.
Print Assumptions C13g_fault_never_wrong_bytes.

(* the faulted pid is served its old content or the call's (size consistency: see C10general) *)
Theorem C13g_fault_pid_retrievable_or_notfound :
  forall (w0 : world) (c : call) (p : pid) (st : fstate) (w : world) (r : outcome value),
    Inv w0 -> call_pid c = Some p -> call_size_ok w0 c ->
    run_fault st w0 (api c) = Some (w, r) ->
    (exists b m : nat,
       retr w p = Some (Val (CData b m m)) /\
       In (CData b m m) (old_contents w0 p ++ call_contents w0 c p) /\
       lookup (APidRef p) (fs w) = Some (CCid b))
    \/
    (exists e : exn,
       retr w p = Some (Exn e) /\
       (e = EPidRefsDoesNotExist \/ e = EOrphanPidRefsFileFound \/ e = EPidNotFoundInCidRefsFile \/
        e = ERefsFileExistsButCidObjMissing)).
Proof. exact fault_pid_retrievable_or_notfound. Qed.
Print Assumptions C13g_fault_pid_retrievable_or_notfound.

(* ---------- (F3) store_metadata ---------- *)

Theorem C13g_store_metadata_fault_intact :
  forall (w0 : world) (p : pid) (f : fmt) (s : src) (v n : nat) (st : fstate) (w : world) (e : exn),
    Inv w0 -> run_fault st w0 (api (CStoreMeta p f s v n)) = Some (w, Exn e) ->
    lookup (AMeta p f) (fs w) = lookup (AMeta p f) (fs w0).
Proof. exact store_metadata_fault_intact. Qed.
Print Assumptions C13g_store_metadata_fault_intact.

(* the same from any world in which the document's lock is free, for nondeterministic faults *)
Theorem C13g_store_metadata_fault_keeps :
  forall (p : pid) (f : fmt) (s : src) (v n : nat) (w w' : world) (e : exn),
    memb lock_eqb (LMeta, IDoc (AMeta p f)) (locks w) = false ->
    frun (store_metadata p f s v n) w w' (Exn e) ->
    lookup (AMeta p f) (fs w') = lookup (AMeta p f) (fs w).
Proof. exact store_metadata_fault_keeps. Qed.
Print Assumptions C13g_store_metadata_fault_keeps.

(* ---------- (F2) returns, no lock left ---------- *)

(* does the fault state make this operation fail now *)
Theorem C13g_faulted_def :
  forall (st : fstate) (o : op),
    faulted st o =
    is_site o &&
    match st with
    | FWait 0 pers => pers || negb (match o with Rename _ _ => true | _ => false end)
    | FWait (S _) _ => false
    | FStuck d => dest_eqb d (dest_of o)
    | FDone => false
    end.
Proof. exact (fun st o => eq_refl). Qed.
Print Assumptions C13g_faulted_def.

Theorem C13g_fault_op_faulted :
  forall (st : fstate) (o : op) (w : world),
    fault_op st o w =
    if faulted st o
    then (Some (AErr EFault, w), snd (fault_op st o w))
    else (exec_op 0 o w, snd (fault_op st o w)).
Proof. exact fault_op_faulted. Qed.
Print Assumptions C13g_fault_op_faulted.

(* along the run, an operation that is made to fail is never the flock itself *)
Theorem C13g_noflock_def :
  forall (A : Type) (st : fstate) (w : world) (o : op) (k : ans -> prog A),
    noflock st w (Vis o k) <->
    ((faulted st o = true ->
      is_site o && negb (match o with Acquire LFile _ => true | _ => false end) = true) /\
     match fault_op st o w with
     | (Some (x, w'), st') => noflock st' w' (k x)
     | _ => True
     end).
Proof. exact (fun A st w o k => iff_refl _). Qed.
Print Assumptions C13g_noflock_def.

Theorem C13g_fault_returns_no_lock :
  forall (w0 : world) (c : call) (st : fstate),
    Inv w0 -> noflock st w0 (api c) ->
    exists (w : world) (r : outcome value), run_fault st w0 (api c) = Some (w, r) /\ locks w = [].
Proof. exact fault_returns_no_lock. Qed.
Print Assumptions C13g_fault_returns_no_lock.

(* (F2) without [noflock]: every state satisfying the invariant, every call, every fault state — the
   failing operation may be the flock itself (its finaliser then closes a file whose flock it does not
   hold, which the model answers by an error that is swallowed) *)
Theorem C13g_fault_returns_no_lock_any :
  forall (w0 : world) (c : call) (st : fstate),
    Inv w0 ->
    exists (w : world) (r : outcome value), run_fault st w0 (api c) = Some (w, r) /\ locks w = [].
Proof. exact FlockFaults.fault_returns_no_lock_any. Qed.
Print Assumptions C13g_fault_returns_no_lock_any.

(* non-vacuous: store {1 -> 7}, tag_object(2, 7), the flock of the list of 7 (fault site 8) fails;
   the plan violates [noflock] *)
Example C13g_flock_fault_tag_additional_pid :
  Inv exw17 /\
  fault_target 8 exw17 (api (CTag 2 7)) = Some (Acquire LFile (IDoc (ACidRef 7))) /\
  ~ noflock (FWait 8 false) exw17 (api (CTag 2 7)) /\
  run_fault (FWait 8 false) exw17 (api (CTag 2 7)) = Some (exw17, Exn EOSError).
Proof.
  split; [exact exw17_Inv|].
  destruct FlockFaults.flock_fault_tag_additional_pid as (H1 & H2 & _ & H4).
  split; [exact H1|]. split; [exact H4|exact H2].
Qed.
Print Assumptions C13g_flock_fault_tag_additional_pid.

(* one-off faults: the operation the k-th fault is delivered to *)
Theorem C13g_fault_target_def :
  forall (A : Type) (k : nat) (w : world) (o : op) (kk : ans -> prog A),
    fault_target k w (Vis o kk) =
    if is_site o
    then match k with
         | 0 => Some o
         | S k' => match exec_op 0 o w with Some (x, w') => fault_target k' w' (kk x) | None => None end
         end
    else match exec_op 0 o w with Some (x, w') => fault_target k w' (kk x) | None => None end.
Proof. exact (fun A k w o kk => eq_refl). Qed.
Print Assumptions C13g_fault_target_def.

Theorem C13g_one_off_fault_returns_no_lock :
  forall (w0 : world) (c : call) (k : nat),
    Inv w0 -> (forall a : ident, fault_target k w0 (api c) <> Some (Acquire LFile a)) ->
    exists (w : world) (r : outcome value),
      run_fault (FWait k false) w0 (api c) = Some (w, r) /\ locks w = [].
Proof. exact one_off_fault_returns_no_lock. Qed.
Print Assumptions C13g_one_off_fault_returns_no_lock.

(* ---------- the full statement, its refutation, what is proved ---------- *)

Theorem C13g_statement_def :
  C13_general_statement <->
  (forall (w0 : world) (c : call) (p : pid) (k : nat) (pers : bool) (others : list pid) (fmts : list fmt),
     Inv w0 -> call_pid c = Some p -> proper_call c ->
     exists (w : world) (out : outcome value),
       run_fault (FWait k pers) w0 (api c) = Some (w, out) /\
       fault_outcome_ok w0 c p others fmts w out).
Proof. exact (iff_refl _). Qed.
Print Assumptions C13g_statement_def.

(* persistent failure of the read of the new pid reference: the roll-back fails too *)
Example C13g_persistent_fault_defeats_rollback :
  site_op 8 empty_world (api (CTag 1 7)) = Some (Read (APidRef 1)) /\
  run_fault (FWait 8 true) empty_world (api (CTag 1 7)) =
    Some (mkWorld [(APidRef 1, CCid 7); (ACidRef 7, CLines [1])] [], Exn EOSError) /\
  run_seq (mkWorld [(APidRef 1, CCid 7); (ACidRef 7, CLines [1])] []) (api (CTag 1 7)) =
    Some (mkWorld [(APidRef 1, CCid 7); (ACidRef 7, CLines [1])] [], Exn EHashStoreRefsAlreadyExists).
Proof. exact persistent_fault_defeats_rollback. Qed.
Print Assumptions C13g_persistent_fault_defeats_rollback.

Theorem C13g_statement_false : ~ C13_general_statement.
Proof. exact C13_general_statement_false. Qed.
Print Assumptions C13g_statement_false.

Theorem C13g_general_partial :
  forall (w0 : world) (c : call) (p : pid) (st : fstate),
    Inv w0 -> call_pid c = Some p ->
    (noflock st w0 (api c) ->
     exists (w : world) (r : outcome value), run_fault st w0 (api c) = Some (w, r) /\ locks w = []) /\
    forall (w : world) (out : outcome value), run_fault st w0 (api c) = Some (w, out) ->
      (forall (q : pid) (fmts : list fmt), q <> p ->
         (forall k : cid, lookup (APidRef q) (fs w0) = Some (CCid k) -> lookup (AObj k) (fs w0) <> None) ->
         other_untouched fmts w0 w q) /\
      (forall q : pid,
         (exists b m : nat, retr w q = Some (Val (CData b m m)) /\
                            lookup (APidRef q) (fs w) = Some (CCid b) /\
                            lookup (AObj b) (fs w) = Some (CData b m m))
         \/ (exists e : exn, retr w q = Some (Exn e) /\ NotFoundOrInconsistent e)) /\
      (call_size_ok w0 c -> pid_retrievable_or_notfound w0 c p w) /\
      (forall (f : fmt) (s : src) (v n : nat) (e : exn), c = CStoreMeta p f s v n -> out = Exn e ->
         lookup (AMeta p f) (fs w) = lookup (AMeta p f) (fs w0)).
Proof. exact C13_general_partial. Qed.
Print Assumptions C13g_general_partial.

(* ---------- non-vacuity ---------- *)

(* start state p1 -> 7; store_object(p3, content 7) with a one-off failure of fault site 9 (the
   read of the cid list; site 2 is the chunk write into the temp file): the call raises, p3 is rolled
   back, p1 is served the same bytes; the general theorems apply to this run (their hypotheses hold) *)
Definition f_w0 : world :=
  mkWorld [(AObj 7, CData 7 1 1); (APidRef 1, CCid 7); (ACidRef 7, CLines [1])] [].
Definition f_call : call := CStore (Some 3) SrcPath 7 1 VSzNone VCkNone.

Example C13g_nonvacuous :
  Inv f_w0 /\ call_pid f_call = Some 3 /\
  fault_target 9 f_w0 (api f_call) = Some (Read (ACidRef 7)) /\
  run_fault (FWait 9 false) f_w0 (api f_call) = Some (f_w0, Exn EOSError) /\
  (exists r, retr f_w0 1 = Some r /\ r = Val (CData 7 1 1)) /\
  (exists w r, run_fault (FWait 9 false) f_w0 (api f_call) = Some (w, r) /\ locks w = []).
Proof.
  assert (HI : Inv f_w0).
  { assert (H : run_seq empty_world (api (CStore (Some 1) SrcPath 7 1 VSzNone VCkNone)) =
                Some (f_w0, Val (VMeta 7 1))) by (vm_compute; reflexivity).
    eapply Inv_run_seq; [apply inv_empty| |exact H]. exact I. }
  split; [exact HI|]. split; [reflexivity|]. split; [vm_compute; reflexivity|].
  split; [vm_compute; reflexivity|]. split; [eexists; split; vm_compute; reflexivity|].
  apply one_off_fault_returns_no_lock; [exact HI|]. intros a H. vm_compute in H. discriminate.
Qed.
Print Assumptions C13g_nonvacuous.

(* a store_metadata whose second chunk write fails (full disk), persistently for its temp file: the
   old version stays; the temp file, holding the first chunk, is left behind (the code has no handler
   around the writes of _put_metadata).  Fault site 2 is the first chunk write, 3 the second. *)
Example C13g_nonvacuous_meta :
  site_op 3 (mkWorld [(AMeta 1 0, CData 5 1 1)] []) (api (CStoreMeta 1 0 SrcPath 9 2)) =
    Some (WriteChunk (ATmp ArMeta 0 0)) /\
  run_fault (FWait 3 true) (mkWorld [(AMeta 1 0, CData 5 1 1)] []) (api (CStoreMeta 1 0 SrcPath 9 2)) =
    Some (mkWorld [(AMeta 1 0, CData 5 1 1); (ATmp ArMeta 0 0, CData 9 2 1)] [], Exn EOSError).
Proof. vm_compute. split; reflexivity. Qed.
Print Assumptions C13g_nonvacuous_meta.

(* =================================================================================== *)
(* (F4) one-off faults: the roll-back works                                              *)
(* =================================================================================== *)

(* tag_object(p, c), p unbound in the start state, any one-off fault: if the call raises then no
   lock is left, no object changed, p has no reference and is in NO cid list, and the same call
   issued again succeeds and binds p *)
Theorem C13g_tag_one_off_fault :
  forall (w0 : world) (p : pid) (c : cid) (j : nat) (w : world) (e : exn),
    Inv w0 -> lookup (APidRef p) (fs w0) = None ->
    run_fault (FWait j false) w0 (api (CTag p c)) = Some (w, Exn e) ->
    locks w = [] /\
    (forall k : cid, lookup (AObj k) (fs w) = lookup (AObj k) (fs w0)) /\
    (lookup (APidRef p) (fs w) = None /\
     (forall (k : cid) (l : list pid), lookup (ACidRef k) (fs w) = Some (CLines l) -> ~ In p l) /\
     exists (w2 : world) (v : value),
       run_seq w (api (CTag p c)) = Some (w2, Val v) /\
       (lookup (APidRef p) (fs w2) = Some (CCid c) /\
        exists l : list pid, lookup (ACidRef c) (fs w2) = Some (CLines l) /\ In p l)).
Proof. exact tag_one_off_fault. Qed.
Print Assumptions C13g_tag_one_off_fault.

(* store_object(p, content b of n chunks, from a path, no size / checksum supplied), p unbound in
   the start state, any one-off fault: if the call raises then no lock is left, p has no reference
   and is in no cid list, and the same call issued again succeeds and p is retrievable with b *)
Theorem C13g_store_one_off_fault :
  forall (w0 : world) (p : pid) (b n j : nat) (w : world) (e : exn),
    let c := CStore (Some p) SrcPath b n VSzNone VCkNone in
    Inv w0 -> lookup (APidRef p) (fs w0) = None -> call_size_ok w0 c ->
    run_fault (FWait j false) w0 (api c) = Some (w, Exn e) ->
    locks w = [] /\
    (lookup (APidRef p) (fs w) = None /\
     (forall (k : cid) (l : list pid), lookup (ACidRef k) (fs w) = Some (CLines l) -> ~ In p l) /\
     exists (w2 : world) (v : value),
       run_seq w (api c) = Some (w2, Val v) /\ retr w2 p = Some (Val (CData b n n))).
Proof. exact store_one_off_fault. Qed.
Print Assumptions C13g_store_one_off_fault.

(* FINDING: a duplicate store_object / tag_object (the pid is already bound to that cid) that
   fails at makedirs, before anything was written, raises OSError and its roll-back removes the
   EXISTING binding (pid reference and cid list gone, object left without reference) *)
Example C13g_duplicate_store_fault_untags :
  let w1 := mkWorld [(AObj 7, CData 7 1 1); (APidRef 1, CCid 7); (ACidRef 7, CLines [1])] [] in
  let c := CStore (Some 1) SrcPath 7 1 VSzNone VCkNone in
  run_seq empty_world (api c) = Some (w1, Val (VMeta 7 1)) /\
  run_seq w1 (api c) = Some (w1, Exn EHashStoreRefsAlreadyExists) /\
  site_op 4 w1 (api c) = Some (MkDirs (APidRef 1)) /\
  run_fault (FWait 4 false) w1 (api c) = Some (mkWorld [(AObj 7, CData 7 1 1)] [], Exn EOSError) /\
  run_fault (FWait 0 false) w1 (api (CTag 1 7)) = Some (mkWorld [(AObj 7, CData 7 1 1)] [], Exn EOSError).
Proof. exact duplicate_store_fault_untags. Qed.
Print Assumptions C13g_duplicate_store_fault_untags.

(* ---------- (F3') success => the whole effect (C13, first clause) ---------- *)

(* every call except the two that remove deletion markers, ANY world, every k: a call that reports
   success after a ONE-OFF failure ran exactly as the fault-free call (the failure was absorbed:
   shutil.move survives a one-off failure of rename) — same answer, same world *)
Theorem C13g_one_off_success_identical :
  forall (c : call) (w : world) (j : nat) (w' : world) (v : value),
    match c with CDelete _ | CDelMeta _ None | CDeleteUnfixed _ => False | _ => True end ->
    run_fault (FWait j false) w (api c) = Some (w', Val v) ->
    run_seq w (api c) = Some (w', Val v).
Proof. exact one_off_success_identical. Qed.
Print Assumptions C13g_one_off_success_identical.

(* the same calls, PERSISTENT faults: success is only reported when the fault was never delivered *)
Theorem C13g_persistent_success_identical :
  forall (c : call) (w : world) (j : nat) (w' : world) (v : value),
    match c with CDelete _ | CDelMeta _ None | CDeleteUnfixed _ => False | _ => True end ->
    run_fault (FWait j true) w (api c) = Some (w', Val v) ->
    run_seq w (api c) = Some (w', Val v).
Proof. exact persistent_success_identical. Qed.
Print Assumptions C13g_persistent_success_identical.

(* EVERY call, every ONE-OFF fault, every world whose file map is sorted: success => the
   fault-free call gives the same answer, and the final worlds have the same locks and the same
   files except deletion markers (a failed removal of a marker is swallowed) *)
Theorem C13g_fault_success_markers :
  forall (w : world) (c : call) (k : nat) (w' : world) (v : value),
    Indep.fsorted (fs w) ->
    run_fault (FWait k false) w (api c) = Some (w', Val v) ->
    exists w0 : world, run_seq w (api c) = Some (w0, Val v) /\
      locks w' = locks w0 /\
      forall a : addr, (forall x : addr, a <> ADel x) -> lookup a (fs w') = lookup a (fs w0).
Proof. exact fault_success_markers. Qed.
Print Assumptions C13g_fault_success_markers.

(* in the vocabulary of the menu checker (CrashFault.val_case_ok / fault_outcome_ok): same answer,
   same permanent files *)
Theorem C13g_fault_success_whole_effect :
  forall (w : world) (c : call) (k : nat) (w' : world) (v : value),
    Indep.fsorted (fs w) ->
    run_fault (FWait k false) w (api c) = Some (w', Val v) ->
    exists w0 : world, run_seq w (api c) = Some (w0, Val v) /\
      locks w' = locks w0 /\
      forall a : addr, permanent a = true -> lookup a (fs w') = lookup a (fs w0).
Proof. exact fault_success_whole_effect. Qed.
Print Assumptions C13g_fault_success_whole_effect.

(* every store the API builds from the empty store qualifies *)
Theorem C13g_fault_success_whole_effect_reachable :
  forall (h : list call) (w : world) (rs : list (outcome value)) (c : call) (k : nat) (w' : world)
         (v : value),
    run_history empty_world h = Some (w, rs) ->
    run_fault (FWait k false) w (api c) = Some (w', Val v) ->
    exists w0 : world, run_seq w (api c) = Some (w0, Val v) /\
      locks w' = locks w0 /\
      forall a : addr, permanent a = true -> lookup a (fs w') = lookup a (fs w0).
Proof. exact fault_success_whole_effect_reachable. Qed.
Print Assumptions C13g_fault_success_whole_effect_reachable.

(* non-vacuity: the premise holds with a swallowed failure — delete_object(1), fault site 7 = the
   removal of the deletion marker of the pid reference: success, the marker stays *)
Example C13g_swallowed_marker_removal :
  let w1 := mkWorld [(AObj 7, CData 7 1 1); (APidRef 1, CCid 7); (ACidRef 7, CLines [1])] [] in
  Indep.fsorted (fs w1) /\
  (site_op 7 w1 (api (CDelete 1)) = Some (Remove (ADel (APidRef 1)))) /\
  (run_fault (FWait 7 false) w1 (api (CDelete 1)) =
     Some (mkWorld [(ADel (APidRef 1), CCid 7)] [], Val VUnit)) /\
  (run_seq w1 (api (CDelete 1)) = Some (mkWorld [] [], Val VUnit)).
Proof. exact swallowed_marker_removal. Qed.
Print Assumptions C13g_swallowed_marker_removal.

(* ---------- (F3') PERSISTENT faults, every call (FaultPersist.v) ---------- *)

(* EVERY call (delete_object and delete_metadata(pid, None) included), every PERSISTENT fault, every
   world whose file map is sorted: success => the fault-free call gives the same answer, and the
   final worlds have the same locks and the same files except deletion markers.  (A persistent
   failure sticks to the address of the marker whose removal failed; nothing that runs afterwards
   on a path to success has that destination, except further swallowed removals.) *)
Theorem C13g_persistent_fault_success_markers :
  forall (w : world) (c : call) (k : nat) (w' : world) (v : value),
    Indep.fsorted (fs w) ->
    run_fault (FWait k true) w (api c) = Some (w', Val v) ->
    exists w0 : world, run_seq w (api c) = Some (w0, Val v) /\
      locks w' = locks w0 /\
      forall a : addr, (forall x : addr, a <> ADel x) -> lookup a (fs w') = lookup a (fs w0).
Proof. exact persistent_fault_success_markers. Qed.
Print Assumptions C13g_persistent_fault_success_markers.

Theorem C13g_persistent_fault_success_whole_effect :
  forall (w : world) (c : call) (k : nat) (w' : world) (v : value),
    Indep.fsorted (fs w) ->
    run_fault (FWait k true) w (api c) = Some (w', Val v) ->
    exists w0 : world, run_seq w (api c) = Some (w0, Val v) /\
      locks w' = locks w0 /\
      forall a : addr, permanent a = true -> lookup a (fs w') = lookup a (fs w0).
Proof. exact persistent_fault_success_whole_effect. Qed.
Print Assumptions C13g_persistent_fault_success_whole_effect.

(* C13, first clause, in one statement: every call, every fault position, BOTH modes *)
Theorem C13g_any_fault_success_whole_effect :
  forall (w : world) (c : call) (k : nat) (pers : bool) (w' : world) (v : value),
    Indep.fsorted (fs w) ->
    run_fault (FWait k pers) w (api c) = Some (w', Val v) ->
    exists w0 : world, run_seq w (api c) = Some (w0, Val v) /\
      locks w' = locks w0 /\
      forall a : addr, permanent a = true -> lookup a (fs w') = lookup a (fs w0).
Proof. exact any_fault_success_whole_effect. Qed.
Print Assumptions C13g_any_fault_success_whole_effect.

Theorem C13g_any_fault_success_whole_effect_reachable :
  forall (h : list call) (w : world) (rs : list (outcome value)) (c : call) (k : nat) (pers : bool)
         (w' : world) (v : value),
    run_history empty_world h = Some (w, rs) ->
    run_fault (FWait k pers) w (api c) = Some (w', Val v) ->
    exists w0 : world, run_seq w (api c) = Some (w0, Val v) /\
      locks w' = locks w0 /\
      forall a : addr, permanent a = true -> lookup a (fs w') = lookup a (fs w0).
Proof. exact any_fault_success_whole_effect_reachable. Qed.
Print Assumptions C13g_any_fault_success_whole_effect_reachable.

(* non-vacuity: delete_object(1), the object has a metadata document; fault site 7 = the removal of
   the marker of the pid reference fails PERSISTENTLY: swallowed; the other markers are removed,
   delete_metadata(1, None) removes the document; success, that one marker stays *)
Example C13g_persistent_swallowed_marker_removal :
  let w1 := mkWorld [(AObj 7, CData 7 1 1); (APidRef 1, CCid 7); (ACidRef 7, CLines [1]);
                     (AMeta 1 0, CData 5 1 1)] [] in
  Indep.fsorted (fs w1) /\
  (site_op 7 w1 (api (CDelete 1)) = Some (Remove (ADel (APidRef 1)))) /\
  (run_fault (FWait 7 true) w1 (api (CDelete 1)) =
     Some (mkWorld [(ADel (APidRef 1), CCid 7)] [], Val VUnit)) /\
  (run_seq w1 (api (CDelete 1)) = Some (mkWorld [] [], Val VUnit)).
Proof. exact persistent_swallowed_marker_removal. Qed.
Print Assumptions C13g_persistent_swallowed_marker_removal.

(* ---------- (F4') ONE-OFF faults: the pid is never half-bound (FaultBound.v) ---------- *)

(* store_object(pid, ...) — every source, every size / checksum argument — or tag_object(pid, cid),
   from EVERY state satisfying the representation invariant (the pid bound or not), every one-off
   fault position: if the call raises, no lock is left and
   - the pid's reference and every cid list are as before the call (its earlier binding, or the
     absence of one, is intact), or the pid has no reference and is listed in no cid list;
   - so the pid is consistent: no reference and in no list, or a reference naming c' and listed in
     exactly the list of c'. *)
Theorem C13g_one_off_fault_pid_consistent :
  forall (w0 : world) (c : call) (p : pid) (k : nat) (w : world) (e : exn),
    Inv w0 ->
    (match c with CStore _ _ _ _ _ _ | CTag _ _ => true | _ => false end) = true ->
    call_pid c = Some p ->
    run_fault (FWait k false) w0 (api c) = Some (w, Exn e) ->
    locks w = [] /\
    ((lookup (APidRef p) (fs w) = lookup (APidRef p) (fs w0) /\
      forall k' : cid, lookup (ACidRef k') (fs w) = lookup (ACidRef k') (fs w0))
     \/
     (lookup (APidRef p) (fs w) = None /\
      forall (k' : cid) (l : list pid), lookup (ACidRef k') (fs w) = Some (CLines l) -> ~ In p l)) /\
    ((lookup (APidRef p) (fs w) = None /\
      forall (k' : cid) (l : list pid), lookup (ACidRef k') (fs w) = Some (CLines l) -> ~ In p l)
     \/
     exists c' : cid,
       lookup (APidRef p) (fs w) = Some (CCid c') /\
       (exists l : list pid, lookup (ACidRef c') (fs w) = Some (CLines l) /\ In p l) /\
       forall (k' : cid) (l : list pid),
         lookup (ACidRef k') (fs w) = Some (CLines l) -> In p l -> k' = c').
Proof. exact one_off_fault_pid_consistent. Qed.
Print Assumptions C13g_one_off_fault_pid_consistent.

(* non-vacuity, store {1 -> 7}: (a) tag_object(1, 8), one-off failure of the first makedirs: raises,
   the roll-back refuses (the pid is bound to another cid), the binding is intact; (b) tag_object(1, 7)
   with the same failure: the roll-back removes the binding, pid 1 is unbound (the FINDING above);
   (c) store_object(1, stream, mismatching size), failure of the temp-file creation: binding intact *)
Example C13g_bound_pid_fault_consistent :
  let w1 := mkWorld [(AObj 7, CData 7 1 1); (APidRef 1, CCid 7); (ACidRef 7, CLines [1])] [] in
  Inv w1 /\
  run_fault (FWait 0 false) w1 (api (CTag 1 8)) = Some (w1, Exn EValueError) /\
  run_fault (FWait 0 false) w1 (api (CTag 1 7)) = Some (mkWorld [(AObj 7, CData 7 1 1)] [], Exn EOSError) /\
  run_fault (FWait 0 false) w1 (api (CStore (Some 1) SrcStream 8 1 VSzBad VCkNone)) = Some (w1, Exn EOSError).
Proof. exact bound_pid_fault_consistent. Qed.
Print Assumptions C13g_bound_pid_fault_consistent.

(* ---------- (F4'') ONE-OFF faults: the retry (FaultRetry.v) ---------- *)

(* the calls that can succeed at all for an unbound pid *)
Theorem C13g_retryable_def :
  forall c : call,
    retryable c <->
    match c with
    | CTag _ _ => True
    | CStore (Some _) s _ _ sz ck => src_ok s = true /\ sz <> VSzBad /\ ck <> VCkBad
    | _ => False
    end.
Proof. exact (fun c => iff_refl _). Qed.
Print Assumptions C13g_retryable_def.

Theorem C13g_retryable_iff_succeeds :
  forall (w0 : world) (c : call) (p : pid),
    Inv w0 ->
    (match c with CStore _ _ _ _ _ _ | CTag _ _ => true | _ => false end) = true ->
    call_pid c = Some p -> lookup (APidRef p) (fs w0) = None ->
    (retryable c <-> exists (w1 : world) (v1 : value), run_seq w0 (api c) = Some (w1, Val v1)).
Proof. exact retryable_iff_succeeds. Qed.
Print Assumptions C13g_retryable_iff_succeeds.

Theorem C13g_pid_unbound_def :
  forall (m : fmap) (p : pid),
    pid_unbound m p <->
    (lookup (APidRef p) m = None /\
     forall (k : cid) (l : list pid), lookup (ACidRef k) m = Some (CLines l) -> ~ In p l).
Proof. exact (fun m p => iff_refl _). Qed.
Print Assumptions C13g_pid_unbound_def.

Theorem C13g_pid_bound_to_def :
  forall (m : fmap) (p : pid) (c : cid),
    pid_bound_to m p c <->
    (lookup (APidRef p) m = Some (CCid c) /\
     (exists l : list pid, lookup (ACidRef c) m = Some (CLines l) /\ In p l) /\
     forall (k : cid) (l : list pid), lookup (ACidRef k) m = Some (CLines l) -> In p l -> k = c).
Proof. exact (fun m p c => iff_refl _). Qed.
Print Assumptions C13g_pid_bound_to_def.

Theorem C13g_bound_completely_def :
  forall (w : world) (p : pid),
    bound_completely w p <-> (locks w = [] /\ exists c : cid, pid_bound_to (fs w) p c).
Proof. exact (fun w p => iff_refl _). Qed.
Print Assumptions C13g_bound_completely_def.

(* what the successful retry answered and left: the pid bound to the cid of the call; for
   store_object the answer names the call's cid and size, the object is there, retrieve_object
   serves it (and it is the call's content when the sizes are consistent, C10g_call_size_ok_def);
   every other pid as in w0 (WI: C10g_WI_def) *)
Theorem C13g_retry_effect_def :
  forall (w0 : world) (c : call) (p : pid) (w2 : world) (v : value),
    retry_effect w0 c p w2 v <->
    ((forall cd : cid,
        (match c with CStore _ _ b _ _ _ => Some b | CTag _ k => Some k | _ => None end) = Some cd ->
        pid_bound_to (fs w2) p cd) /\
     (forall (s : src) (b n : nat) (sz : vsz) (ck : vck), c = CStore (Some p) s b n sz ck ->
        v = VMeta b n /\
        exists x : fcontent, lookup (AObj b) (fs w2) = Some x /\ retr w2 p = Some (Val x) /\
                             (call_size_ok w0 c -> x = CData b n n)) /\
     WI w0 p w2).
Proof. exact (fun w0 c p w2 v => iff_refl _). Qed.
Print Assumptions C13g_retry_effect_def.

(* THE RETRY: every state satisfying the invariant, every retryable call naming p, every one-off
   fault position: if the call raised and p is unbound afterwards, the same call run again at once,
   from the world the failure left, succeeds and binds p completely *)
Theorem C13g_one_off_fault_retry :
  forall (w0 : world) (c : call) (p : pid) (k : nat) (w : world) (e : exn),
    Inv w0 -> call_pid c = Some p -> retryable c ->
    run_fault (FWait k false) w0 (api c) = Some (w, Exn e) ->
    pid_unbound (fs w) p ->
    exists (w2 : world) (v : value),
      run_seq w (api c) = Some (w2, Val v) /\ bound_completely w2 p /\ retry_effect w0 c p w2 v.
Proof. exact one_off_fault_retry. Qed.
Print Assumptions C13g_one_off_fault_retry.

(* the pid unbound BEFORE the call: the failed call leaves no lock and the pid unbound, and the
   retry succeeds *)
Theorem C13g_one_off_fault_unbound_retry :
  forall (w0 : world) (c : call) (p : pid) (k : nat) (w : world) (e : exn),
    Inv w0 -> call_pid c = Some p -> retryable c ->
    lookup (APidRef p) (fs w0) = None ->
    run_fault (FWait k false) w0 (api c) = Some (w, Exn e) ->
    locks w = [] /\ pid_unbound (fs w) p /\
    exists (w2 : world) (v : value),
      run_seq w (api c) = Some (w2, Val v) /\ bound_completely w2 p /\ retry_effect w0 c p w2 v.
Proof. exact one_off_fault_unbound_retry. Qed.
Print Assumptions C13g_one_off_fault_unbound_retry.

(* C13's second clause as worded, the pid bound or not before: earlier binding intact, or unbound
   and can be stored again at once *)
Theorem C13g_one_off_fault_intact_or_retry :
  forall (w0 : world) (c : call) (p : pid) (k : nat) (w : world) (e : exn),
    Inv w0 -> call_pid c = Some p -> retryable c ->
    run_fault (FWait k false) w0 (api c) = Some (w, Exn e) ->
    locks w = [] /\
    ((lookup (APidRef p) (fs w) = lookup (APidRef p) (fs w0) /\
      forall k' : cid, lookup (ACidRef k') (fs w) = lookup (ACidRef k') (fs w0))
     \/
     (pid_unbound (fs w) p /\
      exists (w2 : world) (v : value),
        run_seq w (api c) = Some (w2, Val v) /\ bound_completely w2 p /\ retry_effect w0 c p w2 v)).
Proof. exact one_off_fault_intact_or_retry. Qed.
Print Assumptions C13g_one_off_fault_intact_or_retry.

(* non-vacuity, store {2 -> 7}: store_object(1, content 7, matching size and checksum) failing (a) at
   the write of the reference temp file, (b) at the removal of the object temp file: raises, the temp
   file stays, the retry binds 1 -> 7; (c) empty store, store_object(1, stream of content 8, size
   given) failing at makedirs for the reference: the object stays untagged, the retry takes the
   de-duplication path and binds 1 -> 8 *)
Example C13g_retry_after_leftovers :
  let w0 := mkWorld [(AObj 7, CData 7 1 1); (APidRef 2, CCid 7); (ACidRef 7, CLines [2])] [] in
  let c1 := CStore (Some 1) SrcPath 7 1 VSzOk VCkOk in
  let c2 := CStore (Some 1) SrcStream 8 2 VSzOk VCkNone in
  Inv w0 /\ retryable c1 /\ retryable c2 /\
  (let w := mkWorld [(AObj 7, CData 7 1 1); (APidRef 2, CCid 7); (ACidRef 7, CLines [2]);
                     (ATmp ArRefs 0 0, CEmpty)] [] in
   site_op 7 w0 (api c1) = Some (OpenWr (ATmp ArRefs 0 0) (CCid 7)) /\
   run_fault (FWait 7 false) w0 (api c1) = Some (w, Exn EOSError) /\
   run_seq w (api c1) =
     Some (mkWorld [(AObj 7, CData 7 1 1); (APidRef 1, CCid 7); (APidRef 2, CCid 7);
                    (ACidRef 7, CLines [2; 1]); (ATmp ArRefs 0 0, CEmpty)] [], Val (VMeta 7 1))) /\
  (let w := mkWorld [(AObj 7, CData 7 1 1); (APidRef 2, CCid 7); (ACidRef 7, CLines [2]);
                     (ATmp ArObj 0 0, CData 7 1 1)] [] in
   site_op 3 w0 (api c1) = Some (Remove (ATmp ArObj 0 0)) /\
   run_fault (FWait 3 false) w0 (api c1) = Some (w, Exn EOSError) /\
   run_seq w (api c1) =
     Some (mkWorld [(AObj 7, CData 7 1 1); (APidRef 1, CCid 7); (APidRef 2, CCid 7);
                    (ACidRef 7, CLines [2; 1]); (ATmp ArObj 0 0, CData 7 1 1)] [], Val (VMeta 7 1))) /\
  (let w := mkWorld [(AObj 8, CData 8 2 2)] [] in
   site_op 5 empty_world (api c2) = Some (MkDirs (APidRef 1)) /\
   run_fault (FWait 5 false) empty_world (api c2) = Some (w, Exn EOSError) /\
   run_seq w (api c2) =
     Some (mkWorld [(AObj 8, CData 8 2 2); (APidRef 1, CCid 8); (ACidRef 8, CLines [1])] [],
           Val (VMeta 8 2))).
Proof. exact retry_after_leftovers. Qed.
Print Assumptions C13g_retry_after_leftovers.

(* ---------- (F4p) PERSISTENT faults: consistent, or the D10 family (FaultPersistBound.v) ---------- *)

(* store_object(pid, ...) — every source, every size / checksum argument — or tag_object(pid, cid),
   from EVERY state satisfying the representation invariant (the pid bound or not), every k, the
   k-th fault site failing PERSISTENTLY (it and every later site with the same destination
   [dest_of]): if the call raises, no lock is left and
   - the pid's reference and every cid list are as before the call, or
   - the pid has no reference and is listed in no cid list, or
   - (the D10 family) the operation at the k-th fault site of the call has the pid's reference file
     or the list of the call's cid as its destination; the pid had no reference before the call; it
     has one now, naming the call's cid; every other cid list is as before; and the list of the
     call's cid contains the pid (D10-bound), or exists and is as before the call — without the
     pid, by the invariant — (D10-half-bound). *)
Theorem C13g_persistent_fault_consistent_or_D10 :
  forall (w0 : world) (c : call) (p : pid) (k : nat) (w : world) (e : exn),
    Inv w0 ->
    (match c with CStore _ _ _ _ _ _ | CTag _ _ => true | _ => false end) = true ->
    call_pid c = Some p ->
    run_fault (FWait k true) w0 (api c) = Some (w, Exn e) ->
    locks w = [] /\
    ((lookup (APidRef p) (fs w) = lookup (APidRef p) (fs w0) /\
      forall k' : cid, lookup (ACidRef k') (fs w) = lookup (ACidRef k') (fs w0))
     \/
     (lookup (APidRef p) (fs w) = None /\
      forall (k' : cid) (l : list pid), lookup (ACidRef k') (fs w) = Some (CLines l) -> ~ In p l)
     \/
     exists (cd : cid) (o : op),
       (match c with CStore _ _ b _ _ _ => Some b | CTag _ k' => Some k' | _ => None end) = Some cd /\
       site_op k w0 (api c) = Some o /\
       (dest_of o = DAddr (APidRef p) \/ dest_of o = DAddr (ACidRef cd)) /\
       lookup (APidRef p) (fs w0) = None /\
       lookup (APidRef p) (fs w) = Some (CCid cd) /\
       (forall k' : cid, k' <> cd -> lookup (ACidRef k') (fs w) = lookup (ACidRef k') (fs w0)) /\
       ((exists l : list pid, lookup (ACidRef cd) (fs w) = Some (CLines l) /\ In p l)
        \/
        (lookup (ACidRef cd) (fs w) = lookup (ACidRef cd) (fs w0) /\
         lookup (ACidRef cd) (fs w0) <> None))).
Proof. exact persistent_fault_consistent_or_D10. Qed.
Print Assumptions C13g_persistent_fault_consistent_or_D10.

(* a pid that HAD a reference is never damaged by a persistent failure *)
Theorem C13g_persistent_fault_bound_pid_consistent :
  forall (w0 : world) (c : call) (p : pid) (k : nat) (w : world) (e : exn) (x : fcontent),
    Inv w0 ->
    (match c with CStore _ _ _ _ _ _ | CTag _ _ => true | _ => false end) = true ->
    call_pid c = Some p ->
    lookup (APidRef p) (fs w0) = Some x ->
    run_fault (FWait k true) w0 (api c) = Some (w, Exn e) ->
    locks w = [] /\
    ((lookup (APidRef p) (fs w) = lookup (APidRef p) (fs w0) /\
      forall k' : cid, lookup (ACidRef k') (fs w) = lookup (ACidRef k') (fs w0))
     \/
     (lookup (APidRef p) (fs w) = None /\
      forall (k' : cid) (l : list pid), lookup (ACidRef k') (fs w) = Some (CLines l) -> ~ In p l)).
Proof. exact persistent_fault_bound_pid_consistent. Qed.
Print Assumptions C13g_persistent_fault_bound_pid_consistent.

(* a persistent failure delivered to an operation whose destination is neither the pid's reference
   file nor the list of the call's cid *)
Theorem C13g_persistent_fault_elsewhere_consistent :
  forall (w0 : world) (c : call) (p : pid) (k : nat) (w : world) (e : exn),
    Inv w0 ->
    (match c with CStore _ _ _ _ _ _ | CTag _ _ => true | _ => false end) = true ->
    call_pid c = Some p ->
    (forall (o : op) (cd : cid),
       site_op k w0 (api c) = Some o ->
       (match c with CStore _ _ b _ _ _ => Some b | CTag _ k' => Some k' | _ => None end) = Some cd ->
       dest_of o <> DAddr (APidRef p) /\ dest_of o <> DAddr (ACidRef cd)) ->
    run_fault (FWait k true) w0 (api c) = Some (w, Exn e) ->
    locks w = [] /\
    ((lookup (APidRef p) (fs w) = lookup (APidRef p) (fs w0) /\
      forall k' : cid, lookup (ACidRef k') (fs w) = lookup (ACidRef k') (fs w0))
     \/
     (lookup (APidRef p) (fs w) = None /\
      forall (k' : cid) (l : list pid), lookup (ACidRef k') (fs w) = Some (CLines l) -> ~ In p l)).
Proof. exact persistent_fault_elsewhere_consistent. Qed.
Print Assumptions C13g_persistent_fault_elsewhere_consistent.

(* non-vacuity, one example per disjunct.  Store {1 -> 7}: (a) tag_object(1, 8), the first makedirs
   failing persistently: raises, binding intact; (b) the duplicate tag_object(1, 7), same failure: the
   roll-back removes the binding, pid 1 is unbound.  (c) D10-bound: empty store, tag_object(1, 7),
   site 8 = the verification's read of the new pid reference: reference and list line stay.
   (d) D10-half-bound: store {1 -> 7}, tag_object(2, 7), site 5 = the read of the list of 7 before the
   append: the reference of 2 stays, the list is as before, without 2. *)
Example C13g_persistent_fault_examples :
  let w1 := mkWorld [(AObj 7, CData 7 1 1); (APidRef 1, CCid 7); (ACidRef 7, CLines [1])] [] in
  Inv w1 /\
  run_fault (FWait 0 true) w1 (api (CTag 1 8)) = Some (w1, Exn EValueError) /\
  run_fault (FWait 0 true) w1 (api (CTag 1 7)) = Some (mkWorld [(AObj 7, CData 7 1 1)] [], Exn EOSError) /\
  (site_op 8 empty_world (api (CTag 1 7)) = Some (Read (APidRef 1)) /\
   run_fault (FWait 8 true) empty_world (api (CTag 1 7)) =
     Some (mkWorld [(APidRef 1, CCid 7); (ACidRef 7, CLines [1])] [], Exn EOSError)) /\
  (site_op 5 w1 (api (CTag 2 7)) = Some (Read (ACidRef 7)) /\
   run_fault (FWait 5 true) w1 (api (CTag 2 7)) =
     Some (mkWorld [(AObj 7, CData 7 1 1); (APidRef 1, CCid 7); (APidRef 2, CCid 7);
                    (ACidRef 7, CLines [1])] [], Exn EOSError)).
Proof.
  split; [exact exw17_Inv|]. vm_compute. repeat split; reflexivity.
Qed.
Print Assumptions C13g_persistent_fault_examples.
