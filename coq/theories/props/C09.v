(* C09 — permanent files are never observable half-written
   Statements are restated in full so that a weakened lemma no longer fits; each is proved by
   [exact] of the lemma of Integrity.v.  General: any pool of API calls, any number of threads,
   any schedule and EVERY PREFIX of it (a crash is a prefix; the file map survives). *)
From HS Require Import Base PyVal FS Ops Sched Integrity.

(* ---------- the definitions the statements rest on, pinned ---------- *)

(* Integrity: each object file is complete and named by its content, each metadata document is
   a complete version, each pid reference holds one cid *)
Theorem C09_Integrity_def :
  forall w : world,
    Integrity w <->
    (forall (a : addr) (v : fcontent), lookup a (fs w) = Some v ->
       match a with
       | AObj c => exists n : nat, v = CData c n n
       | AMeta _ _ => exists b n : nat, v = CData b n n
       | APidRef _ => exists c : cid, v = CCid c
       | _ => True
       end).
Proof. exact (fun w => iff_refl _). Qed.
Print Assumptions C09_Integrity_def.

(* the same with the ghost set of supplied metadata versions *)
Theorem C09_IntegrityG_def :
  forall (MV : pid -> fmt -> nat -> nat -> Prop) (w : world),
    IntegrityG MV w <->
    (forall (a : addr) (v : fcontent), lookup a (fs w) = Some v ->
       match a with
       | AObj c => exists n : nat, v = CData c n n
       | AMeta p f => exists b n : nat, v = CData b n n /\ MV p f b n
       | APidRef _ => exists c : cid, v = CCid c
       | _ => True
       end).
Proof. exact (fun MV w => iff_refl _). Qed.
Print Assumptions C09_IntegrityG_def.

(* a version was supplied: the start world held it, or it is the (v, n) argument of a
   store_metadata call of the pool for that very document *)
Theorem C09_supplied_def :
  forall (calls : list call) (w0 : world) (p : pid) (f : fmt) (b n : nat),
    supplied calls w0 p f b n <->
    (lookup (AMeta p f) (fs w0) = Some (CData b n n) \/
     exists s : src, In (CStoreMeta p f s b n) calls).
Proof. exact (fun calls w0 p f b n => iff_refl _). Qed.
Print Assumptions C09_supplied_def.

Theorem C09_permb_def :
  forall a : addr,
    permb a = match a with AObj _ | AMeta _ _ | APidRef _ => true | _ => false end.
Proof. exact (fun a => eq_refl). Qed.
Print Assumptions C09_permb_def.

Theorem C09_inplace_target_def :
  forall o : op,
    inplace_target o =
    match o with
    | WriteChunk a | OpenWr a _ | AppendOpen a | AppendWrite a _ | RewriteWrite a _
    | Truncate a _ => Some a
    | _ => None
    end.
Proof. exact (fun o => eq_refl). Qed.
Print Assumptions C09_inplace_target_def.

(* ---------- the invariant ---------- *)

(* MAIN: every configuration reachable by any schedule of any pool of API calls, from any start
   world satisfying Integrity, satisfies Integrity.  No bound, no menu; no condition on leftover
   temp files or lock lists of the start world. *)
Theorem C09_integrity_invariant :
  forall (calls : list call) (w0 : world) (sched : list nat) (c : cfg),
    Integrity w0 ->
    exec (map api calls) sched (init_cfg (map api calls) w0) = Some c ->
    Integrity (snd c).
Proof. exact integrity_invariant. Qed.
Print Assumptions C09_integrity_invariant.

(* ... and every metadata document is a version that was supplied *)
Theorem C09_integrity_invariant_versions :
  forall (calls : list call) (w0 : world) (sched : list nat) (c : cfg),
    Integrity w0 ->
    exec (map api calls) sched (init_cfg (map api calls) w0) = Some c ->
    IntegrityG (supplied calls w0) (snd c).
Proof. exact integrity_invariant_versions. Qed.
Print Assumptions C09_integrity_invariant_versions.

(* every instant = every prefix of every schedule; what survives a process death there
   ([reopen]: the lock lists are lost, the files stay) *)
Theorem C09_integrity_every_prefix :
  forall (calls : list call) (w0 : world) (pre post : list nat) (c : cfg),
    Integrity w0 ->
    exec (map api calls) (pre ++ post) (init_cfg (map api calls) w0) = Some c ->
    exists c1 : cfg,
      exec (map api calls) pre (init_cfg (map api calls) w0) = Some c1 /\
      IntegrityG (supplied calls w0) (snd c1) /\ Integrity (snd c1) /\ Integrity (reopen (snd c1)).
Proof. exact integrity_every_prefix. Qed.
Print Assumptions C09_integrity_every_prefix.

(* the start condition is met by the empty store and by every world a sequential history of
   calls produces from it *)
Theorem C09_Integrity_empty : Integrity empty_world.
Proof. exact Integrity_empty. Qed.
Print Assumptions C09_Integrity_empty.

Theorem C09_start_world_ok :
  forall (h : list call) (w : world) (rs : list (outcome value)),
    run_history empty_world h = Some (w, rs) -> Integrity w.
Proof. exact start_world_ok. Qed.
Print Assumptions C09_start_world_ok.

(* ---------- one step publishes, one step removes ---------- *)

(* file-system fact: what an address holds changes only by a rename onto it, a rename away from
   it, its removal, an operation writing it where it stands, or (temp addresses only) MkTmp *)
Theorem C09_change_needs_rename_or_remove :
  forall (t : nat) (o : op) (w : world) (x : ans) (w' : world) (a : addr),
    exec_op t o w = Some (x, w') ->
    lookup a (fs w) <> lookup a (fs w') ->
    (exists s : addr, o = Rename s a) \/ (exists d : addr, o = Rename a d) \/ o = Remove a \/
    inplace_target o = Some a \/
    (exists (ar : area) (init : fcontent), o = MkTmp ar init /\ tmpb a = true).
Proof. exact change_needs_rename_or_remove. Qed.
Print Assumptions C09_change_needs_rename_or_remove.

(* in every reachable configuration, the operation any API thread is about to issue is not a
   WriteChunk / OpenWr / AppendOpen / AppendWrite / RewriteWrite / Truncate of a permanent
   address *)
Theorem C09_api_never_writes_permanent_in_place :
  forall (calls : list call) (w0 : world) (sched : list nat) (c : cfg),
    exec (map api calls) sched (init_cfg (map api calls) w0) = Some c ->
    forall (i : nat) (p : prog (outcome value)) (h : list ans) (o : op)
           (k : ans -> prog (outcome value)) (a : addr),
      nth_error (map api calls) i = Some p -> nth_error (fst c) i = Some h ->
      resume p (rev h) = Some (Vis o k) ->
      inplace_target o = Some a -> permb a = false.
Proof. exact api_never_writes_permanent_in_place. Qed.
Print Assumptions C09_api_never_writes_permanent_in_place.

(* in every reachable configuration, a rename onto a permanent address that an API thread is
   about to issue has as its source a staging file created by that very thread *)
Theorem C09_api_publishes_from_own_temp :
  forall (calls : list call) (w0 : world) (sched : list nat) (c : cfg),
    exec (map api calls) sched (init_cfg (map api calls) w0) = Some c ->
    forall (i : nat) (p : prog (outcome value)) (h : list ans) (s d : addr)
           (k : ans -> prog (outcome value)),
      nth_error (map api calls) i = Some p -> nth_error (fst c) i = Some h ->
      resume p (rev h) = Some (Vis (Rename s d) k) ->
      permb d = true -> exists (ar : area) (n : nat), s = ATmp ar i n.
Proof. exact api_publishes_from_own_temp. Qed.
Print Assumptions C09_api_publishes_from_own_temp.

(* hence: whenever a step of an API thread changes what a permanent address holds (content
   appears, is replaced, disappears), that step is ONE rename onto it, ONE rename away from it
   or ONE removal; by C09_integrity_invariant the content it publishes is complete *)
Theorem C09_single_step_publication :
  forall (calls : list call) (w0 : world) (sched : list nat) (c : cfg) (i : nat) (c' : cfg)
         (a : addr),
    exec (map api calls) sched (init_cfg (map api calls) w0) = Some c ->
    thread_step (map api calls) c i = Some c' ->
    permb a = true ->
    lookup a (fs (snd c)) <> lookup a (fs (snd c')) ->
    exists (p : prog (outcome value)) (h : list ans) (o : op) (k : ans -> prog (outcome value)),
      nth_error (map api calls) i = Some p /\ nth_error (fst c) i = Some h /\
      resume p (rev h) = Some (Vis o k) /\
      ((exists s : addr, o = Rename s a) \/ (exists d : addr, o = Rename a d) \/ o = Remove a).
Proof. exact single_step_publication. Qed.
Print Assumptions C09_single_step_publication.

(* ---------- non-vacuity ---------- *)

(* Three threads: store_object(pid 1, content 7 of 2 chunks), store_metadata(pid 1, format 0,
   document 9 of 3 chunks), delete_object(pid 1), interleaved from the empty store.
   (1) an instant at which half-written content exists, in the staging areas only;
   (2) both published, complete;
   (3) the object has left its permanent address (one rename) while the document stays. *)
Definition nv_calls : list call :=
  [CStore (Some 1) SrcPath 7 2 VSzNone VCkNone; CStoreMeta 1 0 SrcPath 9 3; CDelete 1].
Definition nv_fs (s : list nat) : option fmap :=
  option_map (fun c : cfg => fs (snd c))
             (exec (map api nv_calls) s (init_cfg (map api nv_calls) empty_world)).
Definition nv_s1 : list nat := [0;0;0;0;0;1;1;1;1;1].
Definition nv_s2 : list nat := nv_s1 ++ repeat 0 25 ++ repeat 1 4.
Definition nv_s3 : list nat := nv_s2 ++ repeat 2 20.

Example C09_nonvacuous :
  nv_fs nv_s1 = Some [(ATmp ArObj 0 0, CData 7 2 1); (ATmp ArMeta 1 0, CData 9 3 2)] /\
  nv_fs nv_s2 = Some [(AObj 7, CData 7 2 2); (APidRef 1, CCid 7); (ACidRef 7, CLines [1]);
                      (AMeta 1 0, CData 9 3 3)] /\
  nv_fs nv_s3 = Some [(AMeta 1 0, CData 9 3 3); (ADel (AObj 7), CData 7 2 2);
                      (ADel (APidRef 1), CCid 7); (ADel (ACidRef 7), CLines [])].
Proof. vm_compute. repeat split; reflexivity. Qed.
Print Assumptions C09_nonvacuous.

(* the hypotheses of the main theorem are jointly satisfiable on that run, and its conclusion
   says something there: the half-written contents of instant (1) are at no permanent address *)
Example C09_nonvacuous_applied :
  exists c : cfg,
    exec (map api nv_calls) nv_s1 (init_cfg (map api nv_calls) empty_world) = Some c /\
    Integrity (snd c) /\
    lookup (ATmp ArObj 0 0) (fs (snd c)) = Some (CData 7 2 1) /\
    lookup (AObj 7) (fs (snd c)) = None.
Proof.
  destruct (exec (map api nv_calls) nv_s1 (init_cfg (map api nv_calls) empty_world)) as [c|] eqn:E.
  - exists c. split; [reflexivity|]. split.
    + exact (integrity_invariant nv_calls empty_world nv_s1 c Integrity_empty E).
    + assert (H : fs (snd c) = [(ATmp ArObj 0 0, CData 7 2 1); (ATmp ArMeta 1 0, CData 9 3 2)]).
      { pose proof (proj1 C09_nonvacuous) as H. unfold nv_fs in H. rewrite E in H.
        simpl in H. congruence. }
      rewrite H. split; reflexivity.
  - exfalso. pose proof (proj1 C09_nonvacuous) as H. unfold nv_fs in H. rewrite E in H.
    discriminate H.
Qed.
Print Assumptions C09_nonvacuous_applied.
