(* C15layout — every file of the store lies inside the store root, at a location derived from hex
   digests only; distinct files never share a path.  GENERAL theorems proved in Layout.v (layer A;
   stdlib String / Ascii / List), restated in full so that a weakened lemma no longer fits.

   [saddr]: SObj cid | SPidRef hp | SCidRef cid | SMeta hp doc | SDel a   (hp = hex digest of the
   pid, doc = hex digest of pid + format, cid = hex digest of the content);
   [render d w a]: the relative path components, exactly the README layout (C15):
       objects/<shard cid>   refs/pids/<shard hp>   refs/cids/<shard cid>   metadata/<shard hp>/<doc>
       SDel a: the components of a with "_delete" appended to the last one (nested markers append again);
   [wf d w a]: every digest of a is a non-empty string over 0-9a-f ([hexstr]) and every digest that
   is sharded is longer than depth * width.
   This is what justifies treating paths as injective tokens in FS.v ([addr]). *)
From Coq Require Import List String Ascii.
From HS Require Import Shard Layout.
Import ListNotations.
Open Scope string_scope.

(* (1) containment: every component is a fixed directory name, or a hex string followed by k >= 0
   copies of "_delete" *)
Theorem C15_render_contained :
  forall d w : nat, 0 < w ->
  forall a : saddr, wf d w a -> forall c : string, In c (render d w a) ->
    (c = "objects" \/ c = "refs" \/ c = "pids" \/ c = "cids" \/ c = "metadata") \/
    (exists (h : string) (k : nat), hexstr h = true /\ c = add_del k h).
Proof. exact @render_contained. Qed.
Print Assumptions C15_render_contained.

(* hence no component is empty, "." or "..", and none contains "/" : the path stays inside the root *)
Theorem C15_render_safe :
  forall d w : nat, 0 < w ->
  forall a : saddr, wf d w a -> forall c : string, In c (render d w a) ->
    c <> "" /\ c <> "." /\ c <> ".." /\ ~ In "/"%char (list_ascii_of_string c).
Proof. exact @render_safe. Qed.
Print Assumptions C15_render_safe.

(* (2) injectivity: distinct addresses never share a path *)
Theorem C15_render_injective :
  forall d w : nat, 0 < w ->
  forall a b : saddr, wf d w a -> wf d w b -> render d w a = render d w b -> a = b.
Proof. exact @render_injective. Qed.
Print Assumptions C15_render_injective.

(* (3) prefix-freeness: no rendered path is a proper prefix of another (a file is never a directory
   on the way to another file); holds for all digest lengths that can be sharded *)
Theorem C15_render_prefix_free :
  forall d w : nat, 0 < w ->
  forall (a b : saddr) (l : list string), wf d w a -> wf d w b ->
    render d w a = (render d w b ++ l)%list -> l = [] /\ a = b.
Proof. exact @render_prefix_free. Qed.
Print Assumptions C15_render_prefix_free.

(* (4) the first component names the tree *)
Theorem C15_render_first_component :
  forall d w : nat, 0 < w ->
  forall a : saddr, wf d w a -> hd "" (render d w a) = tree_name (tree_of a).
Proof. exact @render_first_component. Qed.
Print Assumptions C15_render_first_component.

Theorem C15_tree_name_inj :
  forall t1 t2 : tree, tree_name t1 = tree_name t2 -> t1 = t2.
Proof. exact @tree_name_inj. Qed.
Print Assumptions C15_tree_name_inj.

(* every path has depth + 2 components in the objects tree and depth + 3 in the other two *)
Theorem C15_render_length :
  forall d w : nat, 0 < w ->
  forall a : saddr, wf d w a ->
    List.length (render d w a) = match tree_of a with TObjects => d + 2 | _ => d + 3 end.
Proof. exact @render_length. Qed.
Print Assumptions C15_render_length.

(* ---------- the executable front end, one example per address kind (depth 3, width 2) ---------- *)

Example C15_ex_obj :
  render_string 3 2 (SObj "0d555ed77052d7e166017f779cbc193357c3a5006ee8b8457230bcf7abcef65e")
  = "objects/0d/55/5e/d77052d7e166017f779cbc193357c3a5006ee8b8457230bcf7abcef65e".
Proof. vm_compute. reflexivity. Qed.

Example C15_ex_pidref :
  render_string 3 2 (SPidRef "a8241925740d5dcd719596639e780e0a090c9d55a5d0372b0eaf55ed711d4edf")
  = "refs/pids/a8/24/19/25740d5dcd719596639e780e0a090c9d55a5d0372b0eaf55ed711d4edf".
Proof. vm_compute. reflexivity. Qed.

Example C15_ex_cidref :
  render_string 3 2 (SCidRef "0d555ed77052d7e166017f779cbc193357c3a5006ee8b8457230bcf7abcef65e")
  = "refs/cids/0d/55/5e/d77052d7e166017f779cbc193357c3a5006ee8b8457230bcf7abcef65e".
Proof. vm_compute. reflexivity. Qed.

Example C15_ex_meta :
  render_string 3 2 (SMeta "a8241925740d5dcd719596639e780e0a090c9d55a5d0372b0eaf55ed711d4edf"
                           "ddf07952ef28efc099d10d8b682480f7d2da60015f5d8873b6e1ea75b4baf689")
  = "metadata/a8/24/19/25740d5dcd719596639e780e0a090c9d55a5d0372b0eaf55ed711d4edf/ddf07952ef28efc099d10d8b682480f7d2da60015f5d8873b6e1ea75b4baf689".
Proof. vm_compute. reflexivity. Qed.

Example C15_ex_del :
  render_string 3 2 (SDel (SPidRef "a8241925740d5dcd719596639e780e0a090c9d55a5d0372b0eaf55ed711d4edf"))
  = "refs/pids/a8/24/19/25740d5dcd719596639e780e0a090c9d55a5d0372b0eaf55ed711d4edf_delete".
Proof. vm_compute. reflexivity. Qed.

(* the hypotheses are satisfiable (the examples are well-formed) *)
Example C15_ex_wf :
  wf 3 2 (SObj ex_cid) /\ wf 3 2 (SPidRef ex_hp) /\ wf 3 2 (SMeta ex_hp ex_doc) /\
  wf 3 2 (SDel (SCidRef ex_cid)).
Proof. exact render_ex_wf. Qed.
Print Assumptions C15_ex_wf.
