(* C09 under I/O failures — permanent files are never observable half-written, ALSO at every
   instant of executions in which operations fail part-way through a call.
   Statements are restated in full so that a weakened lemma no longer fits; each is proved by
   [exact] of the lemma of IntegrityFaults.v.  General: any pool of API calls, any number of
   threads, any interleaving, any number of failures in any thread at any time.  The predicate
   is Integrity's, verbatim (pinned in props/C09.v: C09_Integrity_def, C09_IntegrityG_def,
   C09_supplied_def). *)
From HS Require Import Base PyVal FS Ops Sched Spec Integrity Bracket IntegrityFaults.

(* ---------- the faulty interleaving semantics (Bracket.v, property C08), pinned ---------- *)

Theorem C09f_faultable_def :
  forall o : op,
    faultable o =
    (is_site o && negb (match o with Acquire LFile _ => true | _ => false end))%bool.
Proof. exact (fun o => eq_refl). Qed.
Print Assumptions C09f_faultable_def.

Theorem C09f_is_site_def :
  forall o : op,
    is_site o =
    match o with
    | Read _ | OpenSrc | MkTmp _ _ | WriteChunk _ | OpenWr _ _ | Rename _ _ | Remove _ | MkDirs _
    | AppendOpen _ | AppendWrite _ _ | OpenRW _ | Acquire LFile _ => true
    | _ => false
    end.
Proof. exact (fun o => eq_refl). Qed.
Print Assumptions C09f_is_site_def.

(* thread i's next operation fails: the world is unchanged, the thread receives AErr EFault *)
Theorem C09f_fault_step_def :
  forall (A : Type) (ps : list (prog A)) (c : cfg) (i : nat),
    fault_step ps c i =
    match nth_error ps i, nth_error (fst c) i with
    | Some p, Some h =>
        match resume p (rev h) with
        | Some (Vis o k) =>
            if faultable o then Some (upd_nth i (AErr EFault :: h) (fst c), snd c) else None
        | _ => None
        end
    | _, _ => None
    end.
Proof. exact (fun A ps c i => eq_refl). Qed.
Print Assumptions C09f_fault_step_def.

Theorem C09f_gstep_def :
  forall (A : Type) (ps : list (prog A)) (c c' : cfg),
    gstep ps c c' <->
    (exists i : nat, thread_step ps c i = Some c') \/
    (exists i : nat, fault_step ps c i = Some c').
Proof. exact gstep_iff. Qed.
Print Assumptions C09f_gstep_def.

Theorem C09f_reachable_def :
  forall (A : Type) (ps : list (prog A)) (w0 : world) (c : cfg),
    reachable ps w0 c <->
    (c = init_cfg ps w0 \/ exists c0 : cfg, reachable ps w0 c0 /\ gstep ps c0 c).
Proof. exact reachable_iff. Qed.
Print Assumptions C09f_reachable_def.

(* schedules with faults: (i, true) makes thread i's next operation fail *)
Theorem C09f_gexec_def :
  forall (A : Type) (ps : list (prog A)) (s : list (nat * bool)) (c : cfg),
    gexec ps s c =
    match s with
    | [] => Some c
    | (i, f) :: s' =>
        match (if f then fault_step ps c i else thread_step ps c i) with
        | Some c' => gexec ps s' c'
        | None => None
        end
    end.
Proof. intros A ps s c. destruct s as [|[i f] s']; reflexivity. Qed.
Print Assumptions C09f_gexec_def.

(* ---------- the invariant under faults ---------- *)

(* MAIN: for any pool of API calls, any start world satisfying Integrity, and any finite
   execution of the faulty step relation — each step: some thread performs its next operation,
   which executes normally or, if faultable, answers AErr EFault and leaves the world
   unchanged — every reached world satisfies Integrity.  (Every intermediate world of an
   execution is itself reached: [reachable] is closed under prefixes.) *)
Theorem C09f_integrity_under_faults :
  forall (calls : list call) (w0 : world) (c : cfg),
    Integrity w0 -> reachable (map api calls) w0 c -> Integrity (snd c).
Proof. exact integrity_under_faults. Qed.
Print Assumptions C09f_integrity_under_faults.

(* ... every metadata document is a version that was supplied, and what survives a process
   death at that instant satisfies Integrity *)
Theorem C09f_integrity_under_faults_versions :
  forall (calls : list call) (w0 : world) (c : cfg),
    Integrity w0 -> reachable (map api calls) w0 c ->
    IntegrityG (supplied calls w0) (snd c) /\ Integrity (reopen (snd c)).
Proof. exact integrity_under_faults_versions. Qed.
Print Assumptions C09f_integrity_under_faults_versions.

(* every instant = every prefix of every schedule-with-faults *)
Theorem C09f_integrity_under_faults_every_prefix :
  forall (calls : list call) (w0 : world) (pre post : list (nat * bool)) (c : cfg),
    Integrity w0 ->
    gexec (map api calls) (pre ++ post) (init_cfg (map api calls) w0) = Some c ->
    exists c1 : cfg,
      gexec (map api calls) pre (init_cfg (map api calls) w0) = Some c1 /\
      IntegrityG (supplied calls w0) (snd c1) /\ Integrity (snd c1) /\ Integrity (reopen (snd c1)).
Proof. exact integrity_under_faults_every_prefix. Qed.
Print Assumptions C09f_integrity_under_faults_every_prefix.

(* ---------- the general form: ANY operation may fail with ANY error code ---------- *)

(* includes what C08 had to exclude (the failure of flock itself) and operations that are not
   fault sites of the model (RewriteWrite, Truncate, Probe, the in-process locks ...) *)
Theorem C09f_fail_step_def :
  forall (A : Type) (ps : list (prog A)) (c : cfg) (i : nat) (e : err),
    fail_step ps c i e =
    match nth_error ps i, nth_error (fst c) i with
    | Some p, Some h =>
        match resume p (rev h) with
        | Some (Vis o k) => Some (upd_nth i (AErr e :: h) (fst c), snd c)
        | _ => None
        end
    | _, _ => None
    end.
Proof. exact (fun A ps c i e => eq_refl). Qed.
Print Assumptions C09f_fail_step_def.

Theorem C09f_fstep_def :
  forall (A : Type) (ps : list (prog A)) (c c' : cfg),
    fstep ps c c' <->
    (exists i : nat, thread_step ps c i = Some c') \/
    (exists (i : nat) (e : err), fail_step ps c i e = Some c').
Proof. exact fstep_iff. Qed.
Print Assumptions C09f_fstep_def.

Theorem C09f_freachable_def :
  forall (A : Type) (ps : list (prog A)) (w0 : world) (c : cfg),
    freachable ps w0 c <->
    (c = init_cfg ps w0 \/ exists c0 : cfg, freachable ps w0 c0 /\ fstep ps c0 c).
Proof. exact freachable_iff. Qed.
Print Assumptions C09f_freachable_def.

Theorem C09f_gstep_fstep :
  forall (A : Type) (ps : list (prog A)) (c c' : cfg), gstep ps c c' -> fstep ps c c'.
Proof. exact gstep_fstep. Qed.
Print Assumptions C09f_gstep_fstep.

Theorem C09f_integrity_under_failures :
  forall (calls : list call) (w0 : world) (c : cfg),
    Integrity w0 -> freachable (map api calls) w0 c ->
    IntegrityG (supplied calls w0) (snd c) /\ Integrity (snd c) /\ Integrity (reopen (snd c)).
Proof. exact integrity_under_failures. Qed.
Print Assumptions C09f_integrity_under_failures.

(* ---------- the error paths obey the publication discipline ---------- *)

(* in every configuration reached with failures — hence on every roll-back path — the operation
   an API thread is about to issue is not a WriteChunk / OpenWr / AppendOpen / AppendWrite /
   RewriteWrite / Truncate of a permanent address *)
Theorem C09f_api_never_writes_permanent_in_place :
  forall (calls : list call) (w0 : world) (c : cfg),
    freachable (map api calls) w0 c ->
    forall (i : nat) (p : prog (outcome value)) (h : list ans) (o : op)
           (k : ans -> prog (outcome value)) (a : addr),
      nth_error (map api calls) i = Some p -> nth_error (fst c) i = Some h ->
      resume p (rev h) = Some (Vis o k) ->
      inplace_target o = Some a -> permb a = false.
Proof. exact api_never_writes_permanent_in_place_under_faults. Qed.
Print Assumptions C09f_api_never_writes_permanent_in_place.

(* ... and a rename onto a permanent address has as its source a staging file created by that
   very thread *)
Theorem C09f_api_publishes_from_own_temp :
  forall (calls : list call) (w0 : world) (c : cfg),
    freachable (map api calls) w0 c ->
    forall (i : nat) (p : prog (outcome value)) (h : list ans) (s d : addr)
           (k : ans -> prog (outcome value)),
      nth_error (map api calls) i = Some p -> nth_error (fst c) i = Some h ->
      resume p (rev h) = Some (Vis (Rename s d) k) ->
      permb d = true -> exists (ar : area) (n : nat), s = ATmp ar i n.
Proof. exact api_publishes_from_own_temp_under_faults. Qed.
Print Assumptions C09f_api_publishes_from_own_temp.

(* ---------- one call, one planned fault: the run_fault semantics of C13 ---------- *)

(* whatever the fault plan (transient or persistent, at whichever site), a call that runs to
   its end from a world satisfying Integrity ends in one *)
Theorem C09f_run_fault_api_integrity :
  forall (c : call) (st : fstate) (w w' : world) (r : outcome value),
    Integrity w -> run_fault st w (api c) = Some (w', r) -> Integrity w'.
Proof. exact run_fault_api_integrity. Qed.
Print Assumptions C09f_run_fault_api_integrity.

(* ---------- the limit of the model ---------- *)

(* A failed Rename leaves the model's world unchanged (or, for the one-off fault of run_fault,
   is survived as one atomic step).  shutil.move's fall-back - copy the file onto the
   destination IN PLACE, then unlink the source - is not an operation of the model.  Were it
   one, its first step (opening the permanent destination for writing) would break the
   predicate, and the discipline all API programs obey forbids that step: the theorems of this
   file say nothing about the instants inside such a copy. *)
Theorem C09f_copy_in_place_breaks_integrity :
  forall (i : nat) (c : cid) (n : nat),
    exists w' : world,
      exec_op i (OpenWr (AObj c) (CData c (S n) 0)) empty_world = Some (AUnit, w') /\
      ~ Integrity w'.
Proof. exact copy_in_place_breaks_integrity. Qed.
Print Assumptions C09f_copy_in_place_breaks_integrity.

Theorem C09f_copy_in_place_not_allowed :
  forall (MV : pid -> fmt -> nat -> nat -> Prop) (i : nat) (c : cid) (v : fcontent) (T : tmap),
    ~ oppre MV i (OpenWr (AObj c) v) T.
Proof. exact copy_in_place_not_allowed. Qed.
Print Assumptions C09f_copy_in_place_not_allowed.

(* ---------- the decidable form used below ---------- *)

Theorem C09f_integrityb_def :
  forall m : fmap,
    integrityb m =
    forallb (fun kv : addr * fcontent =>
               match fst kv, snd kv with
               | AObj c, CData b n j => (Nat.eqb b c && Nat.eqb j n)%bool
               | AObj _, _ => false
               | AMeta _ _, CData _ n j => Nat.eqb j n
               | AMeta _ _, _ => false
               | APidRef _, CCid _ => true
               | APidRef _, _ => false
               | _, _ => true
               end) m.
Proof. exact (fun m => eq_refl). Qed.
Print Assumptions C09f_integrityb_def.

Theorem C09f_integrityb_sound : forall w : world, integrityb (fs w) = true -> Integrity w.
Proof. exact integrityb_sound. Qed.
Print Assumptions C09f_integrityb_sound.

(* ---------- non-vacuity ---------- *)

(* Two threads from the empty store: store_object(pid 1, content 7 of 3 buffers) and
   store_object(pid 2, content 8 of 2 buffers), interleaved.  The SECOND chunk write of
   thread 0 fails.
   (1) the instant of the failure: thread 0 has just been answered AErr EFault, its temp
       file holds 1 of 3 chunks; thread 1's temp file is half-written too; both in the staging
       area only;
   (2) thread 0 rolls back (removes its temp file) and returns an exception; nothing of
       content 7 was ever published;
   (3) thread 1 completes: object 8 published, complete;
   (4) EVERY prefix of the whole run — every intermediate world — satisfies the predicate. *)
Definition nvf_calls : list call :=
  [CStore (Some 1) SrcPath 7 3 VSzNone VCkNone; CStore (Some 2) SrcPath 8 2 VSzNone VCkNone].
Definition nvf_run (s : list (nat * bool)) : option cfg :=
  gexec (map api nvf_calls) s (init_cfg (map api nvf_calls) empty_world).
Definition nvf_fs (s : list (nat * bool)) : option fmap :=
  option_map (fun c : cfg => fs (snd c)) (nvf_run s).
Definition nvf_s1 : list (nat * bool) := repeat (0, false) 5 ++ repeat (1, false) 5 ++ [(0, true)].
Definition nvf_s2 : list (nat * bool) := nvf_s1 ++ repeat (0, false) 2.
Definition nvf_s3 : list (nat * bool) := nvf_s2 ++ repeat (1, false) 25.

Example C09f_nonvacuous :
  nvf_fs nvf_s1 = Some [(ATmp ArObj 0 0, CData 7 3 1); (ATmp ArObj 1 0, CData 8 2 1)] /\
  option_map (fun c : cfg => nth_error (fst c) 0) (nvf_run nvf_s1) =
    Some (Some [AErr EFault; AUnit; AAddr (ATmp ArObj 0 0); AUnit; AUnit; ABool false]) /\
  nvf_fs nvf_s2 = Some [(ATmp ArObj 1 0, CData 8 2 1)] /\
  option_map (results (map api nvf_calls)) (nvf_run nvf_s2) = Some [Some (Exn EGeneric); None] /\
  nvf_fs nvf_s3 = Some [(AObj 8, CData 8 2 2); (APidRef 2, CCid 8); (ACidRef 8, CLines [2])] /\
  option_map (finished (map api nvf_calls)) (nvf_run nvf_s3) = Some true /\
  forallb (fun k => match nvf_fs (firstn k nvf_s3) with
                    | Some m => integrityb m
                    | None => false
                    end) (seq 0 (S (length nvf_s3))) = true.
Proof. vm_compute. repeat split; reflexivity. Qed.
Print Assumptions C09f_nonvacuous.

(* the hypotheses of the main theorem are jointly satisfiable on that run, and its conclusion
   says something there: at the instant of the failure the half-written contents are at no
   permanent address *)
Example C09f_nonvacuous_applied :
  exists c : cfg,
    reachable (map api nvf_calls) empty_world c /\
    nth_error (fst c) 0 =
      Some [AErr EFault; AUnit; AAddr (ATmp ArObj 0 0); AUnit; AUnit; ABool false] /\
    Integrity (snd c) /\
    lookup (ATmp ArObj 0 0) (fs (snd c)) = Some (CData 7 3 1) /\
    lookup (AObj 7) (fs (snd c)) = None.
Proof.
  destruct (nvf_run nvf_s1) as [c|] eqn:E.
  - exists c.
    assert (R : reachable (map api nvf_calls) empty_world c).
    { eapply gexec_reachable; [apply reach_init|exact E]. }
    split; [exact R|]. split.
    + pose proof (proj1 (proj2 C09f_nonvacuous)) as H. rewrite E in H.
      unfold option_map in H. injection H as H. exact H.
    + split; [exact (integrity_under_faults nvf_calls empty_world c Integrity_empty R)|].
      assert (H : fs (snd c) = [(ATmp ArObj 0 0, CData 7 3 1); (ATmp ArObj 1 0, CData 8 2 1)]).
      { pose proof (proj1 C09f_nonvacuous) as H. unfold nvf_fs in H. rewrite E in H.
        simpl in H. congruence. }
      rewrite H. split; reflexivity.
  - exfalso. pose proof (proj1 C09f_nonvacuous) as H. unfold nvf_fs in H. rewrite E in H.
    discriminate H.
Qed.
Print Assumptions C09f_nonvacuous_applied.
