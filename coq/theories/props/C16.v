(* C16 — multiprocessing mode behaves identically and excludes across processes.

   The store keeps a second, textually separate copy of every synchronised section for the
   multiprocessing primitives.  The model has ONE program per API call: the two copies differ only
   in which list / condition object they name, and that both copies perform the program's
   operations is what the correspondence projections check when they are run in multiprocessing
   mode (P-seq[mp], P-sched through the *_mp code paths; harness/checks_sched.py c16).  What is
   proved here: (1) mode selection and the creation of the cross-process primitives (Config.v,
   where Python's `bool == "True"` comparison — defect D5 — is expressible), and (2) the theorems
   about the shared programs restated for reference: same results and states for every call
   sequence (refinement to the functional specification), termination / no identifier left
   locked for any pool under any schedule and fault pattern (Bracket.v).  The linearizability
   theorems are those of props/C07.v and props/C12.v (same programs).

   Not provable in this model and assumed (DESIGN.md section 8): the behaviour of
   multiprocessing.Lock / Condition and of Manager().list() proxies, fork-safety. *)
From Coq Require Import String List.
From HS Require Import Base PyVal FS Ops Spec Sched Refine Config Bracket.
Import ListNotations.
Open Scope string_scope.

(* multiprocessing mode is selected exactly by USE_MULTIPROCESSING=True *)
Theorem C16_mode_of_env_iff : forall e, mode_of_env e = true <-> e = Some "True".
Proof. exact mode_of_env_iff. Qed.
Print Assumptions C16_mode_of_env_iff.

(* with the repaired test ([if self.use_multiprocessing:]) the cross-process primitives exist
   exactly in that mode *)
Theorem C16_init_primitives : forall e, has_mp_primitives true e = mode_of_env e.
Proof. exact init_primitives_fixed_iff. Qed.
Print Assumptions C16_init_primitives.

Theorem C16_init_primitives_mp : forall e, mode_of_env e = true -> has_mp_primitives true e = true.
Proof. exact init_primitives_fixed. Qed.
Print Assumptions C16_init_primitives_mp.

(* the code before the repair (D5): a bool compared with the string "True" — never created *)
Theorem C16_init_primitives_before_fix_refuted :
  exists e, mode_of_env e = true /\ has_mp_primitives false e = false.
Proof. exact init_primitives_today_refuted. Qed.
Print Assumptions C16_init_primitives_before_fix_refuted.

(* same results and same store state for every call, in either mode: the (single) program of every
   call refines the functional specification, which mentions no synchronisation mode *)
Theorem C16_same_results_and_state : forall w c, Spec.Inv w -> proper_call c ->
  exists w', run_seq w (api c) = Some (w', snd (sem (fs w) c))
             /\ fs_eq (fs w') (fst (sem (fs w) c))
             /\ locks w' = [].
Proof. exact api_refines. Qed.
Print Assumptions C16_same_results_and_state.

(* any pool of calls, any schedule: every call returns and no identifier stays locked *)
Theorem C16_terminate_and_release : forall calls w0 sched c,
  locks w0 = [] -> refs_typed (fs w0) ->
  exec (map api calls) sched (init_cfg (map api calls) w0) = Some c ->
  stuck (map api calls) c ->
  finished (map api calls) c = true /\ locks (snd c) = [] /\ refs_typed (fs (snd c)).
Proof. exact no_deadlock_fault_free. Qed.
Print Assumptions C16_terminate_and_release.

Example C16_modes :
  mode_of_env (Some "True") = true /\ mode_of_env (Some "true") = false /\ mode_of_env None = false /\
  has_mp_primitives true (Some "True") = true /\ has_mp_primitives true None = false.
Proof. repeat split. Qed.
