(* C12deletes — C12 in general form for pools with READERS and DELETES: any number of
   store_metadata p f …, retrieve_metadata p f and delete_metadata p f calls on ONE metadata
   document, any start world without held locks, ANY schedule.  GENERAL theorems proved in
   OneDocDel.v; statements are restated in full so that a weakened lemma no longer fits.

   delete_metadata(pid, format) holds the document lock from its first to its last operation; its
   ONE operation that changes the document is the Remove, inside the critical section (when the
   document is absent it changes nothing).  [lin_order] (the function of OneDocReaders.v, same
   definition): each thread at its first Rename / Remove operation if it performs one, otherwise at
   its last operation.

   The reader clause is the relaxed one of the menus (LinNF.v, family R): a retrieve_metadata that
   saw the document present and then finds it removed raises FileNotFoundError where the
   sequential order gives the not-found ValueError; [LinNF.nf_norm_one] identifies the two for
   retrieve_metadata calls and changes nothing else. *)
From HS Require Import Base PyVal FS Ops Sched Spec SeqLemmas Bracket Indep IndepMeta OneDoc OneDocReaders
  OneDocDel.
From HS Require LinNF.

Theorem C12_nf_norm_one_def :
  forall (c : option call) (r : option (outcome value)),
    LinNF.nf_norm_one c r =
    match c, r with
    | Some (CRetrMeta _ _), Some (Exn EFileNotFound) => Some (Exn EValueError)
    | _, _ => r
    end.
Proof. reflexivity. Qed.
Print Assumptions C12_nf_norm_one_def.

(* the linearization order is the one of C12readers.v *)
Theorem C12_del_lin_order_same :
  forall (ps : list (prog (outcome value))) (w0 : world) (sched : list nat),
    OneDocDel.lin_order ps w0 sched = OneDocReaders.lin_order ps w0 sched.
Proof. reflexivity. Qed.
Print Assumptions C12_del_lin_order_same.

(* (1) a reader never sees a partial document — in EVERY configuration any schedule reaches *)
Theorem C12_del_readers_never_partial :
  forall (p : pid) (f : fmt) (calls : list call) (w0 : world) (sched : list nat) (c : cfg),
    locks w0 = [] ->
    (forall ci : call, In ci calls ->
       match ci with
       | CStoreMeta p' f' _ _ _ => p' = p /\ f' = f
       | CRetrMeta p' f' => p' = p /\ f' = f
       | CDelMeta p' (Some f') => p' = p /\ f' = f
       | CRejected _ => True
       | _ => False
       end) ->
    exec (map api calls) sched (init_cfg (map api calls) w0) = Some c ->
    forall (j : nat) (r : outcome value),
      nth_error calls j = Some (CRetrMeta p f) ->
      thread_result (map api calls) c j = Some r ->
      r = Exn EValueError \/ r = Exn EFileNotFound \/
      exists d : fcontent, r = Val (VBytes d) /\
        (lookup (AMeta p f) (fs w0) = Some d \/
         exists (s : src) (v n : nat),
           In (CStoreMeta p f s v n) calls /\ s <> SrcMissing /\ d = CData v n n).
Proof. exact readers_never_partial_del. Qed.
Print Assumptions C12_del_readers_never_partial.

(* the document itself: the start document, a complete stored version, or absent after a delete of
   the pool, at every moment *)
Theorem C12_del_document_never_partial :
  forall (p : pid) (f : fmt) (calls : list call) (w0 : world) (sched : list nat) (c : cfg),
    locks w0 = [] ->
    (forall ci : call, In ci calls ->
       match ci with
       | CStoreMeta p' f' _ _ _ => p' = p /\ f' = f
       | CRetrMeta p' f' => p' = p /\ f' = f
       | CDelMeta p' (Some f') => p' = p /\ f' = f
       | CRejected _ => True
       | _ => False
       end) ->
    exec (map api calls) sched (init_cfg (map api calls) w0) = Some c ->
    lookup (AMeta p f) (fs (snd c)) = lookup (AMeta p f) (fs w0) \/
    (exists (s : src) (v n : nat), In (CStoreMeta p f s v n) calls /\ s <> SrcMissing /\
                                   lookup (AMeta p f) (fs (snd c)) = Some (CData v n n)) \/
    (In (CDelMeta p (Some f)) calls /\ lookup (AMeta p f) (fs (snd c)) = None).
Proof. exact document_never_partial_del. Qed.
Print Assumptions C12_del_document_never_partial.

(* (2) linearizable in the order lin_order, outcomes compared through nf_norm_one *)
Theorem C12_one_doc_writers_readers_deleters_linearizable :
  forall (p : pid) (f : fmt) (calls : list call) (w0 : world) (sched : list nat) (c : cfg),
    locks w0 = [] -> refs_typed (fs w0) ->
    (forall ci : call, In ci calls ->
       match ci with
       | CStoreMeta p' f' _ _ _ => p' = p /\ f' = f
       | CRetrMeta p' f' => p' = p /\ f' = f
       | CDelMeta p' (Some f') => p' = p /\ f' = f
       | CRejected _ => True
       | _ => False
       end) ->
    exec (map api calls) sched (init_cfg (map api calls) w0) = Some c ->
    stuck (map api calls) c ->
    finished (map api calls) c = true /\ locks (snd c) = [] /\
    exists (w' : world) (rs : list (outcome value)),
      let lin := OneDocDel.lin_order (map api calls) w0 sched in
      let ord := lin ++ rest_of (length calls) lin in
      NoDup ord /\ (forall i : nat, In i ord <-> i < length calls) /\
      seq_run calls ord w0 = Some (w', rs) /\
      snd c = w' /\
      map (fun i : nat => LinNF.nf_norm_one (nth_error calls i) (thread_result (map api calls) c i)) ord =
        map Some rs.
Proof. exact one_doc_writers_readers_deleters_linearizable. Qed.
Print Assumptions C12_one_doc_writers_readers_deleters_linearizable.

(* delete_metadata(pid, format) has the writer shape, with "absent" as the version it commits *)
Theorem C12_delete_metadata_pre :
  forall (p : pid) (f : fmt) (Vn : option fcontent -> Prop),
    Vn None ->
    exists k : ans -> prog (outcome value),
      api (CDelMeta p (Some f)) = Vis (Acquire LMeta (IDoc (AMeta p f))) k /\
      forall (t : nat) (w : world), Pre p f Vn t (k AUnit) w.
Proof. exact delete_metadata_pre. Qed.
Print Assumptions C12_delete_metadata_pre.

(* ---------- non-vacuity: a reader, a delete and a store of document (1,5) ---------- *)

(* the document exists, version 3 *)
Definition dl_w : world :=
  match run_history empty_world [CStoreMeta 1 5 SrcPath 3 1] with
  | Some (w, _) => w
  | None => empty_world
  end.

Definition dl_calls : list call :=
  [CRetrMeta 1 5; CDelMeta 1 (Some 5); CStoreMeta 1 5 SrcPath 7 1].

(* the reader tests (present); the delete runs (Acquire, test, Remove, Release); the reader tests
   again: absent — FileNotFoundError; the store runs (7 operations) *)
Definition dl_sched : list nat := [0] ++ repeat 1 4 ++ [0] ++ repeat 2 7.

(* the reader tests twice (present both times); the delete runs; the reader opens: FileNotFoundError *)
Definition dl_sched_late : list nat := [0; 0] ++ repeat 1 4 ++ [0] ++ repeat 2 7.

Example C12_deletes_nonvacuous :
  exists c c2 : cfg,
    locks dl_w = [] /\ refs_typed (fs dl_w) /\
    (forall ci : call, In ci dl_calls -> wrd_call 1 5 ci) /\
    exec (map api dl_calls) dl_sched (init_cfg (map api dl_calls) dl_w) = Some c /\
    stuck (map api dl_calls) c /\
    OneDocDel.lin_order (map api dl_calls) dl_w dl_sched = [1; 0; 2] /\
    results (map api dl_calls) c
      = [Some (Exn EFileNotFound); Some (Val VUnit); Some (Val (VPath (AMeta 1 5)))] /\
    snd c = mkWorld [(AMeta 1 5, CData 7 1 1)] [] /\
    seq_run dl_calls [1; 0; 2] dl_w
      = Some (snd c, [Val VUnit; Exn EValueError; Val (VPath (AMeta 1 5))]) /\
    (* the other schedule: the delete between the second test and the open *)
    exec (map api dl_calls) dl_sched_late (init_cfg (map api dl_calls) dl_w) = Some c2 /\
    stuck (map api dl_calls) c2 /\
    OneDocDel.lin_order (map api dl_calls) dl_w dl_sched_late = [1; 0; 2] /\
    thread_result (map api dl_calls) c2 0 = Some (Exn EFileNotFound).
Proof.
  assert (Hstart : Spec.Inv dl_w /\ fsorted (fs dl_w)).
  { apply (@run_history_empty_start [CStoreMeta 1 5 SrcPath 3 1] dl_w [Val (VPath (AMeta 1 5))]).
    - repeat constructor.
    - vm_compute. reflexivity. }
  destruct Hstart as [HI _].
  destruct (exec (map api dl_calls) dl_sched (init_cfg (map api dl_calls) dl_w)) as [c|] eqn:E;
    [|vm_compute in E; discriminate].
  destruct (exec (map api dl_calls) dl_sched_late (init_cfg (map api dl_calls) dl_w)) as [c2|] eqn:E2;
    [|vm_compute in E2; discriminate].
  exists c, c2.
  split; [destruct HI; assumption|].
  split; [apply well_typed_refs_typed; apply InvF_wt; destruct HI; assumption|].
  split.
  { intros ci Hci. simpl in Hci. destruct Hci as [<-|[<-|[<-|[]]]]; simpl; auto. }
  split; [reflexivity|].
  vm_compute in E. inversion E; subst c. clear E.
  vm_compute in E2. inversion E2; subst c2. clear E2.
  split; [apply succs_nil_stuck; vm_compute; reflexivity|].
  split; [vm_compute; reflexivity|]. split; [vm_compute; reflexivity|].
  split; [vm_compute; reflexivity|]. split; [vm_compute; reflexivity|].
  split; [reflexivity|].
  split; [apply succs_nil_stuck; vm_compute; reflexivity|].
  split; vm_compute; reflexivity.
Qed.
Print Assumptions C12_deletes_nonvacuous.
