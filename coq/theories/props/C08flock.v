(* C08 / C13 (F2), the failing FILE LOCK — companion of props/C08.v and props/C13general.v.

   props/C08.v's general theorems let every fault site of Sched.is_site fail EXCEPT the flock
   ([Acquire LFile _]); props/C13general.v's [C13g_fault_returns_no_lock] carries the hypothesis
   [noflock].  FlockFaults.v removes both exceptions.  Here the statements are restated in full —
   the faulted step relation included, so that it can be seen that the flock IS among the faults —
   and closed by [exact].

   What happens when flock fails (FlockFaults.v, header): the call raises OSError and its
   finaliser closes the file, i.e. issues [Release LFile] for a lock the thread does not hold; the
   model answers [AErr EFault] (nobody holds it: nothing changes), which [funlock] swallows.  The
   model's release is not owner-aware; the proof therefore tolerates that such a close takes the
   flock away from another thread (that thread's own close is then answered by the same swallowed
   error) without deciding whether this can occur.  No deadlock, every call returns, no lock of
   any class is left, in every case.

   Hypotheses: the start world holds no lock and its reference files are typed (pools), resp.
   satisfies the representation invariant Spec.Inv (single call).  Nothing else. *)
From HS Require Import Base PyVal FS Ops Sched Spec Bracket.
From HS Require FaultGeneral FlockFaults.

(* ---------- the faults covered: every site, flock included ---------- *)

Theorem C08f_faultable_def : forall o : op, FlockFaults.faultable o = is_site o.
Proof. exact (fun o => eq_refl). Qed.
Print Assumptions C08f_faultable_def.

Theorem C08f_flock_is_faultable :
  forall a : addr, FlockFaults.faultable (Acquire LFile (IDoc a)) = true /\
                   Bracket.faultable (Acquire LFile (IDoc a)) = false.
Proof. intros a. split; reflexivity. Qed.
Print Assumptions C08f_flock_is_faultable.

(* the faulted step: thread i's next operation, ANY fault site, answers AErr EFault; the world is
   unchanged *)
Theorem C08f_fault_step_def :
  forall (A : Type) (ps : list (prog A)) (c : cfg) (i : nat),
    FlockFaults.fault_step ps c i =
    match nth_error ps i, nth_error (fst c) i with
    | Some p, Some h =>
        match resume p (rev h) with
        | Some (Vis o k) => if is_site o then Some (upd_nth i (AErr EFault :: h) (fst c), snd c) else None
        | _ => None
        end
    | _, _ => None
    end.
Proof. exact (fun A ps c i => eq_refl). Qed.
Print Assumptions C08f_fault_step_def.

Theorem C08f_gstep_iff :
  forall (A : Type) (ps : list (prog A)) (c c' : cfg),
    FlockFaults.gstep ps c c' <->
    (exists i, thread_step ps c i = Some c') \/ (exists i, FlockFaults.fault_step ps c i = Some c').
Proof.
  intros A ps c c'. split.
  - intros [c0 i c1 H|c0 i c1 H]; [left|right]; exists i; exact H.
  - intros [[i H]|[i H]]; [eapply FlockFaults.gs_norm | eapply FlockFaults.gs_fault]; exact H.
Qed.
Print Assumptions C08f_gstep_iff.

Theorem C08f_reachable_iff :
  forall (A : Type) (ps : list (prog A)) (w0 : world) (c : cfg),
    FlockFaults.reachable ps w0 c <->
    (c = init_cfg ps w0 \/ exists c0, FlockFaults.reachable ps w0 c0 /\ FlockFaults.gstep ps c0 c).
Proof.
  intros A ps w0 c. split.
  - intros H. destruct H; [left; reflexivity | right; eauto].
  - intros [->|(c0 & H1 & H2)]; [apply FlockFaults.reach_init | eapply FlockFaults.reach_step; eauto].
Qed.
Print Assumptions C08f_reachable_iff.

Theorem C08f_gstuck_def :
  forall (A : Type) (ps : list (prog A)) (c : cfg),
    FlockFaults.gstuck ps c <-> forall c', ~ FlockFaults.gstep ps c c'.
Proof. intros. apply iff_refl. Qed.
Print Assumptions C08f_gstuck_def.

(* every run of props/C08.v is one of these runs *)
Theorem C08f_includes_C08_runs :
  forall (A : Type) (ps : list (prog A)) (w0 : world) (c : cfg),
    Bracket.reachable ps w0 c -> FlockFaults.reachable ps w0 c.
Proof. exact @FlockFaults.bracket_reachable. Qed.
Print Assumptions C08f_includes_C08_runs.

(* ---------- the discipline: admissible answers, flock / close may be answered by an error ---------- *)

Theorem C08f_ans_ok_def :
  forall (i : nat) (kn : knowl) (o : op) (a : ans),
    FlockFaults.ans_ok i kn o a <->
    match o with
    | Acquire LFile _ | Release LFile _ => match a with AUnit | AErr _ => True | _ => False end
    | _ => Bracket.ans_ok i kn o a
    end.
Proof. intros. apply iff_refl. Qed.
Print Assumptions C08f_ans_ok_def.

Theorem C08f_Br_def :
  forall (A : Type) (i : nat) (o : op) (k : ans -> prog A) (h : list lock) (kn : knowl)
         (Q : A -> list lock -> knowl -> Prop),
    FlockFaults.Br i (Vis o k) h kn Q <->
    (pre i h kn o /\
     forall a, FlockFaults.ans_ok i kn o a -> FlockFaults.Br i (k a) (next_h h o) (next_k kn o a) Q).
Proof. intros. apply iff_refl. Qed.
Print Assumptions C08f_Br_def.

(* every API program, as any thread, for every admissible answer — a failed flock and a failed
   close included — obeys the lock order, releases only what its view holds, never reaches [Bad],
   and returns with an empty view *)
Theorem C08f_api_bracketed :
  forall (i : nat) (c : call),
    FlockFaults.Br i (api c) [] [] (fun (_ : outcome value) (h : list lock) (_ : knowl) => h = []).
Proof. exact @FlockFaults.api_bracketed. Qed.
Print Assumptions C08f_api_bracketed.

(* the model of one operation against the views: identifier locks of the view are in the world,
   a file lock of the view may be a ghost; a close of a flock that is not in the world changes
   nothing *)
Theorem C08f_exec_op_sound :
  forall (i : nat) (h : list lock) (kn : knowl) (o : op) (w : world) (a : ans) (w' : world),
    refs_typed (fs w) -> KInv i kn (fs w) ->
    (forall l : lock, In l h -> fst l <> LFile -> In l (locks w)) ->
    pre i h kn o -> exec_op i o w = Some (a, w') ->
    FlockFaults.ans_ok i kn o a /\
    refs_typed (fs w') /\
    KInv i (next_k kn o a) (fs w') /\
    (forall b : addr, ~ mine i b -> lookup b (fs w') = lookup b (fs w)) /\
    match o with
    | Acquire cls x =>
        (a = AUnit /\ ~ In (cls, x) (locks w) /\ locks w' = (cls, x) :: locks w) \/
        (cls = LFile /\ a <> AUnit /\ locks w' = locks w)
    | Release cls x =>
        (In (cls, x) (locks w) /\ locks w' = remove1 lock_eqb (cls, x) (locks w)) \/
        (cls = LFile /\ ~ In (cls, x) (locks w) /\ locks w' = locks w)
    | _ => locks w' = locks w
    end.
Proof. exact @FlockFaults.exec_op_sound. Qed.
Print Assumptions C08f_exec_op_sound.

(* ---------- C08 with NO fault excluded ---------- *)

(* any pool, any schedule, any pattern of failures at any fault site, the flock included: a
   configuration from which no thread can take any step is finished and holds no lock at all *)
Theorem C08f_no_deadlock_no_leak_any_fault :
  forall (calls : list call) (w0 : world) (c : cfg),
    locks w0 = [] -> refs_typed (fs w0) ->
    FlockFaults.reachable (map api calls) w0 c -> FlockFaults.gstuck (map api calls) c ->
    finished (map api calls) c = true /\ locks (snd c) = [] /\ refs_typed (fs (snd c)).
Proof. exact @FlockFaults.no_deadlock_no_leak_any_fault. Qed.
Print Assumptions C08f_no_deadlock_no_leak_any_fault.

Theorem C08f_no_deadlock_no_leak_any_fault_stuck :
  forall (calls : list call) (w0 : world) (c : cfg),
    locks w0 = [] -> refs_typed (fs w0) ->
    FlockFaults.reachable (map api calls) w0 c -> stuck (map api calls) c ->
    finished (map api calls) c = true /\ locks (snd c) = [] /\ refs_typed (fs (snd c)).
Proof. exact @FlockFaults.no_deadlock_no_leak_any_fault_stuck. Qed.
Print Assumptions C08f_no_deadlock_no_leak_any_fault_stuck.

Theorem C08f_progress_any_fault :
  forall (calls : list call) (w0 : world) (c : cfg),
    locks w0 = [] -> refs_typed (fs w0) ->
    FlockFaults.reachable (map api calls) w0 c -> finished (map api calls) c = false ->
    exists (i : nat) (c' : cfg), thread_step (map api calls) c i = Some c'.
Proof. exact @FlockFaults.progress_any_fault. Qed.
Print Assumptions C08f_progress_any_fault.

Theorem C08f_terminates :
  forall (A : Type) (ps : list (prog A)) (c : cfg),
    Acc (fun c' c0 : cfg => FlockFaults.gstep ps c0 c') c.
Proof. exact @FlockFaults.gstep_terminates. Qed.
Print Assumptions C08f_terminates.

Theorem C08f_runs_to_completion_any_fault :
  forall (calls : list call) (w0 : world) (c : cfg),
    locks w0 = [] -> refs_typed (fs w0) -> FlockFaults.reachable (map api calls) w0 c ->
    exists (sched : list nat) (c' : cfg),
      exec (map api calls) sched c = Some c' /\
      finished (map api calls) c' = true /\ locks (snd c') = [].
Proof. exact @FlockFaults.runs_to_completion_any_fault. Qed.
Print Assumptions C08f_runs_to_completion_any_fault.

(* ---------- C13 (F2) with NO fault plan excluded ---------- *)

(* every state satisfying the invariant, every call, every fault state of Sched.run_fault — the
   failing operation may be the flock: the call returns and no lock is left *)
Theorem C13f_fault_returns_no_lock_any :
  forall (w0 : world) (c : call) (st : fstate),
    Spec.Inv w0 ->
    exists (w : world) (r : outcome value), run_fault st w0 (api c) = Some (w, r) /\ locks w = [].
Proof. exact FlockFaults.fault_returns_no_lock_any. Qed.
Print Assumptions C13f_fault_returns_no_lock_any.

Theorem C13f_one_off_fault_returns_no_lock_any :
  forall (w0 : world) (c : call) (k : nat),
    Spec.Inv w0 ->
    exists (w : world) (r : outcome value),
      run_fault (FWait k false) w0 (api c) = Some (w, r) /\ locks w = [].
Proof. exact FlockFaults.one_off_fault_returns_no_lock_any. Qed.
Print Assumptions C13f_one_off_fault_returns_no_lock_any.

(* ---------- non-vacuity: tag_object of an additional pid, the flock fails ---------- *)

(* store {1 -> 7}; tag_object(2, 7): fault site 8 is the flock of the list of cid 7.  One-off: OSError,
   the store as before, no lock.  Persistent: the roll-back needs the same flock and fails too, the
   pid reference of 2 stays (D10 family), no lock.  Both plans violate [noflock]. *)
Example C13f_flock_fault_tag_additional_pid :
  let w1 := mkWorld [(AObj 7, CData 7 1 1); (APidRef 1, CCid 7); (ACidRef 7, CLines [1])] [] in
  FaultGeneral.fault_target 8 w1 (api (CTag 2 7)) = Some (Acquire LFile (IDoc (ACidRef 7))) /\
  run_fault (FWait 8 false) w1 (api (CTag 2 7)) = Some (w1, Exn EOSError) /\
  run_fault (FWait 8 true) w1 (api (CTag 2 7)) =
    Some (mkWorld [(AObj 7, CData 7 1 1); (APidRef 1, CCid 7); (APidRef 2, CCid 7); (ACidRef 7, CLines [1])] [],
          Exn EOSError) /\
  ~ FaultGeneral.noflock (FWait 8 false) w1 (api (CTag 2 7)).
Proof. exact FlockFaults.flock_fault_tag_additional_pid. Qed.
Print Assumptions C13f_flock_fault_tag_additional_pid.

(* a pool: tag_object(2, 7) || tag_object(3, 7).  After 15 steps thread 0 is at its flock; thread 1
   takes its pid lock; in that configuration props/C08.v's semantics has no faulted step for
   thread 0, this one has.  The flock fails, thread 0 rolls back and returns OSError, thread 1
   tags pid 3: everything returned, no lock held, pid 3 bound, pid 2 not *)
Example C08f_flock_fault_in_a_pool :
  let w1 := mkWorld [(AObj 7, CData 7 1 1); (APidRef 1, CCid 7); (ACidRef 7, CLines [1])] [] in
  let ps := map api [CTag 2 7; CTag 3 7] in
  (exists c, FlockFaults.gexec ps (repeat (0, false) 15 ++ [(1, false)]) (init_cfg ps w1) = Some c /\
             Bracket.fault_step ps c 0 = None /\ FlockFaults.fault_step ps c 0 <> None) /\
  exists c,
    FlockFaults.gexec ps
      (repeat (0, false) 15 ++ [(1, false); (0, true)] ++ repeat (0, false) 12 ++ repeat (1, false) 23)
      (init_cfg ps w1) = Some c /\
    results ps c = [Some (Exn EOSError); Some (Val VUnit)] /\
    finished ps c = true /\ locks (snd c) = [] /\
    fs (snd c) = [(AObj 7, CData 7 1 1); (APidRef 1, CCid 7); (APidRef 3, CCid 7); (ACidRef 7, CLines [1; 3])].
Proof. exact FlockFaults.flock_fault_in_a_pool. Qed.
Print Assumptions C08f_flock_fault_in_a_pool.

(* and that configuration is reachable in the sense of the theorems above *)
Theorem C08f_gexec_reachable :
  forall (A : Type) (ps : list (prog A)) (s : list (nat * bool)) (w0 : world) (c c' : cfg),
    FlockFaults.reachable ps w0 c -> FlockFaults.gexec ps s c = Some c' -> FlockFaults.reachable ps w0 c'.
Proof. exact @FlockFaults.gexec_reachable. Qed.
Print Assumptions C08f_gexec_reachable.
