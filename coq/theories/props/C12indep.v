(* C12indep — independence with PER-DOCUMENT footprints (C11's isolation clause in concurrent form,
   C12 beyond the menu).  GENERAL theorems (any number of threads, any schedule) proved in
   IndepMeta.v on top of Indep.v; statements are restated in full so that a weakened lemma no
   longer fits.

   Footprint of call number i ([gfp_addr], [gfp_lock]) = [gF] / [gL] of
     ref_pid  : the pid whose reference file and pid locks the call uses (store_object with a pid,
                tag_object, delete_object, retrieve_object, get_hex_digest);
     meta_of  : the metadata documents it may touch —
                  MOne p f   for store_metadata p f, retrieve_metadata p f, delete_metadata p (Some f);
                  MOne p 0   for the object calls on pid p (the system-metadata document that
                             _find_object probes; the answer is discarded but the simulation is
                             answer-exact, so a call on document (p, 0) is NOT treated as
                             independent of an object call on the same pid p);
                  MAll p     for delete_object p and delete_metadata p None (they list the directory);
     gcids    : the cids the call names and the cid ref_pid is bound to in the start state;
   plus the thread's own temp files and the deletion markers of all these.
   [gindep w0 calls]: pairwise different reference pids, disjoint cid sets, disjoint metadata sets
   ([gindepb] decides it). *)
From HS Require Import Base PyVal FS Ops Sched Spec Bracket Indep IndepMeta.

(* the independence theorem with the finer footprints *)
Theorem C12_gindep :
  forall (calls : list call) (w0 : world) (sched : list nat) (c : cfg),
    Spec.Inv w0 -> fsorted (fs w0) -> gindep w0 calls ->
    exec (map api calls) sched (init_cfg (map api calls) w0) = Some c ->
    stuck (map api calls) c ->
    finished (map api calls) c = true /\ locks (snd c) = [] /\
    (forall (i : nat) (ci : call), nth_error calls i = Some ci ->
       exists (wi : world) (ri : outcome value),
         run_as i w0 (api ci) = Some (wi, ri) /\
         thread_result (map api calls) c i = Some ri /\
         (forall a : addr, gfp_addr w0 calls i a = true -> lookup a (fs (snd c)) = lookup a (fs wi)) /\
         (forall a : addr, gfp_addr w0 calls i a = false -> lookup a (fs wi) = lookup a (fs w0))) /\
    (forall a : addr, (forall i : nat, i < length calls -> gfp_addr w0 calls i a = false) ->
                      lookup a (fs (snd c)) = lookup a (fs w0)).
Proof. exact @gindep_calls. Qed.
Print Assumptions C12_gindep.

Theorem C12_indep_statement_holds : C12_indep_statement.
Proof. exact C12_indep_holds. Qed.
Print Assumptions C12_indep_statement_holds.

(* such pools are linearizable, in every order (Prop form: Spec.fs_eq, outcomes as in the
   sequential run) *)
Theorem C12_gindep_linearizable :
  forall (calls : list call) (w0 : world) (sched : list nat) (c : cfg) (ord : list nat),
    Spec.Inv w0 -> fsorted (fs w0) -> gindep w0 calls ->
    exec (map api calls) sched (init_cfg (map api calls) w0) = Some c ->
    stuck (map api calls) c ->
    NoDup ord -> (forall i : nat, In i ord <-> i < length calls) ->
    exists (w' : world) (rs : list (outcome value)),
      seq_run calls ord w0 = Some (w', rs) /\
      fs_eq (fs (snd c)) (fs w') /\
      map (thread_result (map api calls) c) ord = map Some rs.
Proof. exact @gindep_linearizable. Qed.
Print Assumptions C12_gindep_linearizable.

(* C11's isolation clause, concurrently: store / retrieve / delete on pairwise DIFFERENT
   (pid, format) pairs — the pids may coincide — never affect one another, in any state *)
Theorem C12_meta_isolation :
  forall (calls : list call) (w0 : world) (sched : list nat) (c : cfg),
    Spec.Inv w0 -> fsorted (fs w0) ->
    (forall ci : call, In ci calls -> doc_of ci <> None) -> NoDup (map doc_of calls) ->
    exec (map api calls) sched (init_cfg (map api calls) w0) = Some c ->
    stuck (map api calls) c ->
    finished (map api calls) c = true /\ locks (snd c) = [] /\
    (forall (i : nat) (ci : call), nth_error calls i = Some ci ->
       exists (wi : world) (ri : outcome value),
         run_as i w0 (api ci) = Some (wi, ri) /\
         thread_result (map api calls) c i = Some ri /\
         (forall a : addr, gfp_addr w0 calls i a = true -> lookup a (fs (snd c)) = lookup a (fs wi)) /\
         (forall a : addr, gfp_addr w0 calls i a = false -> lookup a (fs wi) = lookup a (fs w0))) /\
    (forall a : addr, (forall i : nat, i < length calls -> gfp_addr w0 calls i a = false) ->
                      lookup a (fs (snd c)) = lookup a (fs w0)).
Proof. exact @meta_isolation. Qed.
Print Assumptions C12_meta_isolation.

(* the footprint of a single-format metadata call: its document, markers of it, own temp files *)
Theorem C12_doc_footprint :
  forall (w0 : world) (calls : list call) (i : nat) (p : pid) (f : fmt) (a : addr),
    doc_of (callat calls i) = Some (p, f) ->
    gfp_addr w0 calls i a = true ->
    addr_root a = AMeta p f \/ exists (ar : area) (n : nat), addr_root a = ATmp ar i n.
Proof. exact @doc_footprint. Qed.
Print Assumptions C12_doc_footprint.

(* every API program is local to the finer footprint of its call, for all admissible answers *)
Theorem C12_api_glocal :
  forall (t : nat) (c : call) (cs : list cid),
    (forall x : cid, In x (call_cids c) -> cid_in cs x = true) ->
    Lc t (gF t (ref_pid c) (msin (meta_of c)) cs) (gL t (ref_pid c) (msin (meta_of c)) cs)
       (cid_in cs) (api c) (fun _ : outcome value => True).
Proof. exact @api_glocal. Qed.
Print Assumptions C12_api_glocal.

Theorem C12_gindepb_sound :
  forall (w0 : world) (calls : list call), gindepb w0 calls = true -> gindep w0 calls.
Proof. exact @gindepb_sound. Qed.
Print Assumptions C12_gindepb_sound.

(* ---------- non-vacuity: four calls on the SAME pid, interleaved round-robin ---------- *)

Definition cm_w : world :=
  match run_history empty_world [CStore (Some 1) SrcPath 7 1 VSzNone VCkNone;
                                 CStoreMeta 1 6 SrcPath 3 1; CStoreMeta 1 7 SrcPath 4 1] with
  | Some (w, _) => w
  | None => empty_world
  end.

(* store document (1,5)  ||  retrieve document (1,6)  ||  delete document (1,7)  ||  retrieve object 1 *)
Definition cm_calls : list call :=
  [CStoreMeta 1 5 SrcPath 9 1; CRetrMeta 1 6; CDelMeta 1 (Some 7); CRetrieve 1].

Fixpoint cm_rr (counts : list nat) (fuel : nat) : list nat :=
  match fuel with
  | 0 => []
  | S f =>
      flat_map (fun x => match snd x with 0 => [] | _ => [fst x] end)
               (combine (seq 0 (length counts)) counts)
      ++ cm_rr (map pred counts) f
  end.

Example C12_indep_nonvacuous :
  exists c : cfg,
    Spec.Inv cm_w /\ fsorted (fs cm_w) /\
    gindep cm_w cm_calls /\ indepb cm_w cm_calls = false /\
    exec (map api cm_calls) (cm_rr [7; 3; 4; 9] 9) (init_cfg (map api cm_calls) cm_w) = Some c /\
    stuck (map api cm_calls) c /\
    results (map api cm_calls) c
      = [Some (Val (VPath (AMeta 1 5))); Some (Val (VBytes (CData 3 1 1))); Some (Val VUnit);
         Some (Val (VBytes (CData 7 1 1)))] /\
    fs (snd c) = [(AObj 7, CData 7 1 1); (APidRef 1, CCid 7); (ACidRef 7, CLines [1]);
                  (AMeta 1 5, CData 9 1 1); (AMeta 1 6, CData 3 1 1)].
Proof.
  assert (Hstart : Spec.Inv cm_w /\ fsorted (fs cm_w)).
  { apply (@run_history_empty_start
             [CStore (Some 1) SrcPath 7 1 VSzNone VCkNone; CStoreMeta 1 6 SrcPath 3 1;
              CStoreMeta 1 7 SrcPath 4 1] cm_w
             [Val (VMeta 7 1); Val (VPath (AMeta 1 6)); Val (VPath (AMeta 1 7))]).
    - repeat constructor.
    - vm_compute. reflexivity. }
  destruct (exec (map api cm_calls) (cm_rr [7; 3; 4; 9] 9) (init_cfg (map api cm_calls) cm_w))
    as [c|] eqn:E; [|vm_compute in E; discriminate].
  exists c. destruct Hstart as [H1 H2].
  split; [exact H1|]. split; [exact H2|].
  split; [apply gindepb_sound; vm_compute; reflexivity|].
  split; [vm_compute; reflexivity|]. split; [reflexivity|].
  vm_compute in E. inversion E; subst c. clear E.
  split; [apply succs_nil_stuck; vm_compute; reflexivity|].
  split; vm_compute; reflexivity.
Qed.
Print Assumptions C12_indep_nonvacuous.
