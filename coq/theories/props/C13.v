(* C13 — I/O failures surface as errors and leave no half-bound pid.

   Menu theorem: for every scenario of [fault_menu] (7 start states x 11 calls, see
   Fault13_menu.v; the same scenarios as text, with the failing points, are in coq/menus13.json),
   EVERY natural k and both modes (one-off / persistent for that destination until the call
   returns), the execution with the k-th fault site failing passes the executable checker
   [fault_point_ok] of CrashFault.v — unless (scenario, k, mode) is one of the recorded failures
   [known13].  The shards Fault13_s<i>.v evaluate the checker at every site of each call;
   [fault_ok_sound] (by [run_fault_beyond]: a fault planned beyond the last site never fires)
   lifts this to all k.  The fault sites are the operations of [Sched.is_site]: every open, create,
   rename, remove, mkdir and flock, and the WRITES — each chunk written into a temp file and the
   line appended to a cid list (a full disk); see [C13_chunk_write_example], [C13_append_example].

   [known13] is the known finding D10: every entry is a PERSISTENT failure whose destination is the
   pid's reference file or the list of the cid being bound; the roll-back (_untag_object ->
   _find_object) needs the same file and fails too, so the call raises with the pid bound
   ([known13_D10_bound]) or half-bound ([known13_D10_half_bound]) and a retry is rejected.
   [C13_known_all_fail]: every entry really fails (no over-exclusion); [C13_known_D10_*_shape]:
   every entry has that shape; [known13_unclassified] = [].  All one-off faults pass.

   Every statement is restated in full and closed by [exact], so a weakened lemma no longer fits. *)
From HS Require Import Base PyVal FS Ops Spec Sched CrashFault Fault13_menu Fault13_all.

(* ---------- the menu theorem ---------- *)

Theorem C13_fault_safe :
  forall s : scen, In s fault_menu ->
  forall (k : nat) (pers : bool),
    ~ In (sc_id s, k, pers) known13 ->
    fault_point_ok (sc_world s) (sc_call s) (sc_pid s) (sc_others s) (sc_fmts s) k pers = true.
Proof. exact fault_safe_all. Qed.
Print Assumptions C13_fault_safe.

(* every one-off fault passes: the exception list contains persistent failures only *)
Theorem C13_one_off_all_pass :
  forall s : scen, In s fault_menu ->
  forall k : nat,
    fault_point_ok (sc_world s) (sc_call s) (sc_pid s) (sc_others s) (sc_fmts s) k false = true.
Proof. exact one_off_all_pass. Qed.
Print Assumptions C13_one_off_all_pass.

(* no over-exclusion: each recorded failure is a point of a menu scenario where the checker is false *)
Theorem C13_known_all_fail :
  forall (i k : nat) (pers : bool), In (i, k, pers) known13 ->
    exists s : scen, In s fault_menu /\ sc_id s = i /\
      fault_point_ok (sc_world s) (sc_call s) (sc_pid s) (sc_others s) (sc_fmts s) k pers = false.
Proof. exact known13_all_fail. Qed.
Print Assumptions C13_known_all_fail.

(* scenario identifiers are unique, so an entry of [known13] excludes one point of one scenario *)
Theorem C13_menu_ids_unique : NoDup (map sc_id fault_menu).
Proof. exact fault_menu_ids_NoDup. Qed.
Print Assumptions C13_menu_ids_unique.

(* ---------- C08's share: whatever the fault (the recorded failures included), the call returns,
   no identifier is left locked, and the same call issued again completes ---------- *)

Theorem C13_no_lock_left :
  forall s : scen, In s fault_menu ->
  forall (k : nat) (pers : bool),
    exists (w : world) (out : outcome value),
      run_fault (FWait k pers) (sc_world s) (api (sc_call s)) = Some (w, out) /\
      locks w = [] /\
      exists (w' : world) (r : outcome value), run_seq w (api (sc_call s)) = Some (w', r).
Proof.
  exact (fun s H k pers => fault_nolock_point_spec (sc_world s) (sc_call s) k pers
                             (fault_nolock_all s H k pers)).
Qed.
Print Assumptions C13_no_lock_left.

(* ---------- what [fault_point_ok = true] means ---------- *)

Theorem C13_fault_point_ok_spec :
  forall (w0 : world) (c : call) (ip : pid) (others : list pid) (fmts : list fmt) (k : nat) (pers : bool),
    fault_point_ok w0 c ip others fmts k pers = true ->
    exists (w : world) (out : outcome value),
      run_fault (FWait k pers) w0 (api c) = Some (w, out) /\
      fault_outcome_ok w0 c ip others fmts w out.
Proof. exact fault_point_ok_spec. Qed.
Print Assumptions C13_fault_point_ok_spec.

(* the menu theorem with every auxiliary proposition written out ([retr w q] is the outcome of
   [run_seq w (retrieve_object q)]; [listed w q k]: q is a line of the list of cid k;
   [permanent a]: a is neither a deletion marker nor a temporary file) *)
Theorem C13_fault_safe_spelled_out :
  forall s : scen, In s fault_menu ->
  forall (k : nat) (pers : bool),
    ~ In (sc_id s, k, pers) known13 ->
    let w0 := sc_world s in
    let c := sc_call s in
    let ip := sc_pid s in
    exists (w : world) (out : outcome value),
      run_fault (FWait k pers) w0 (api c) = Some (w, out) /\
      (* (0) no lock is left and a follow-up call completes *)
      locks w = [] /\
      (exists (w' : world) (r : outcome value), run_seq w (api c) = Some (w', r)) /\
      (* (1) success is reported only if the whole effect was achieved *)
      (forall v : value, out = Val v ->
         exists wf : world, run_seq w0 (api c) = Some (wf, Val v) /\
           forall a : addr, permanent a = true -> lookup a (fs w) = lookup a (fs wf)) /\
      (forall e : exn, out = Exn e ->
         (* (2) store_object / tag_object: unbound and storable at once, or earlier binding intact *)
         (binds_pid c = true ->
            (lookup (APidRef ip) (fs w) = None /\
             (forall (k0 : cid) (l : list pid), lookup (ACidRef k0) (fs w) = Some (CLines l) -> ~ In ip l) /\
             exists (w2 : world) (v : value), run_seq w (api c) = Some (w2, Val v) /\
               match c with
               | CStore _ _ b n _ _ => retr w2 ip = Some (Val (CData b n n))
               | CTag _ k0 => lookup (APidRef ip) (fs w2) = Some (CCid k0) /\
                              exists l : list pid, lookup (ACidRef k0) (fs w2) = Some (CLines l) /\ In ip l
               | _ => True
               end)
            \/
            (exists x : fcontent,
               lookup (APidRef ip) (fs w0) = Some x /\ lookup (APidRef ip) (fs w) = Some x /\
               (forall k0 : cid, x = CCid k0 -> listed w ip k0 = listed w0 ip k0) /\
               exists r : outcome fcontent, retr w0 ip = Some r /\ retr w ip = Some r)) /\
         (* (3) store_metadata: the previous version of the document is intact *)
         (forall (p : pid) (f : fmt) (s0 : src) (v n : nat), c = CStoreMeta p f s0 v n ->
            lookup (AMeta p f) (fs w) = lookup (AMeta p f) (fs w0)) /\
         (* delete_object / delete_metadata: the pid can be operated on again *)
         ((exists p : pid, c = CDelete p) \/ (exists (p : pid) (f : option fmt), c = CDelMeta p f) ->
            exists (w1 : world) (r1 : outcome unit),
              run_seq w (delete_object ip) = Some (w1, r1) /\ (r1 = Val tt \/ r1 = Exn EPidRefsDoesNotExist))) /\
      (* (4) every other pid: reference, documents, retrieve_object's answer, list line — as before *)
      (forall q : pid, In q (sc_others s) -> q <> ip ->
         lookup (APidRef q) (fs w) = lookup (APidRef q) (fs w0) /\
         (forall f : fmt, In f (sc_fmts s) -> lookup (AMeta q f) (fs w) = lookup (AMeta q f) (fs w0)) /\
         (exists r : outcome fcontent, retr w0 q = Some r /\ retr w q = Some r) /\
         (forall k0 : cid, lookup (APidRef q) (fs w0) = Some (CCid k0) ->
            exists l : list pid, lookup (ACidRef k0) (fs w) = Some (CLines l) /\ In q l)).
Proof.
  exact (fun s H k pers Hn =>
           fault_point_ok_spec (sc_world s) (sc_call s) (sc_pid s) (sc_others s) (sc_fmts s) k pers
                               (fault_safe_all s H k pers Hn)).
Qed.
Print Assumptions C13_fault_safe_spelled_out.

(* the lifting from the finitely many fault sites of a call to all naturals *)
Theorem C13_all_fault_sites :
  forall (excl : nat -> bool -> bool) (w0 : world) (c : call) (ip : pid) (others : list pid) (fmts : list fmt),
    fault_ok excl w0 c ip others fmts = true ->
    forall (k : nat) (pers : bool), excl k pers = false -> fault_point_ok w0 c ip others fmts k pers = true.
Proof. exact fault_ok_sound. Qed.
Print Assumptions C13_all_fault_sites.

(* ---------- the recorded failures are the known finding D10 ---------- *)

Theorem C13_known_are_persistent :
  forall (i k : nat) (pers : bool), In (i, k, pers) known13 -> pers = true.
Proof.
  exact (fun i k pers H => forallb_app_In _ (fun x : known_t => snd x) known13 known13_persistent_b (i, k, pers) H).
Qed.
Print Assumptions C13_known_are_persistent.

Theorem C13_known_D10_bound_shape :
  forall (i k : nat) (pers : bool), In (i, k, pers) known13_D10_bound ->
    exists s : scen, In s fault_menu /\ sc_id s = i /\
      (* [D10_shape ... D10Bound], written out *)
      pers = true /\
      exists (cd : cid) (o : op) (w : world) (e : exn),
        call_cid (sc_call s) = Some cd /\
        site_op k (sc_world s) (api (sc_call s)) = Some o /\
        (dest_of o = DAddr (APidRef (sc_pid s)) \/ dest_of o = DAddr (ACidRef cd)) /\
        run_fault (FWait k pers) (sc_world s) (api (sc_call s)) = Some (w, Exn e) /\
        lookup (APidRef (sc_pid s)) (fs (sc_world s)) = None /\
        lookup (APidRef (sc_pid s)) (fs w) = Some (CCid cd) /\
        (exists w' : world, run_seq w (api (sc_call s)) = Some (w', Exn EHashStoreRefsAlreadyExists)) /\
        listed w (sc_pid s) cd = true.
Proof. exact known13_D10_bound_shape. Qed.
Print Assumptions C13_known_D10_bound_shape.

Theorem C13_known_D10_half_bound_shape :
  forall (i k : nat) (pers : bool), In (i, k, pers) known13_D10_half_bound ->
    exists s : scen, In s fault_menu /\ sc_id s = i /\
      pers = true /\
      exists (cd : cid) (o : op) (w : world) (e : exn),
        call_cid (sc_call s) = Some cd /\
        site_op k (sc_world s) (api (sc_call s)) = Some o /\
        (dest_of o = DAddr (APidRef (sc_pid s)) \/ dest_of o = DAddr (ACidRef cd)) /\
        run_fault (FWait k pers) (sc_world s) (api (sc_call s)) = Some (w, Exn e) /\
        lookup (APidRef (sc_pid s)) (fs (sc_world s)) = None /\
        lookup (APidRef (sc_pid s)) (fs w) = Some (CCid cd) /\
        (exists w' : world, run_seq w (api (sc_call s)) = Some (w', Exn EHashStoreRefsAlreadyExists)) /\
        listed w (sc_pid s) cd = false.
Proof. exact known13_D10_half_bound_shape. Qed.
Print Assumptions C13_known_D10_half_bound_shape.

Example C13_known_families :
  length known13_D10_bound = 46 /\ length known13_D10_half_bound = 50 /\ known13_unclassified = [] /\
  known13 = (known13_D10_bound ++ known13_D10_half_bound)%list.
Proof. vm_compute. repeat split. Qed.

(* ---------- non-vacuity ---------- *)

Theorem C13_start_worlds_defined :
  forall s : scen, In s fault_menu ->
    setup_world (sc_setup s) = Some (sc_world s) /\ call_pid (sc_call s) = Some (sc_pid s).
Proof. exact fault_menu_defined. Qed.
Print Assumptions C13_start_worlds_defined.

Example C13_menu_size :
  length fault_menu = 83 /\
  fold_right Nat.add 0 fault_sites = 582 /\             (* fault sites; each in two modes *)
  length known13 = 96.
Proof. vm_compute. repeat split. Qed.

(* the menu as text (coq/menus13.json) parses to the menu of the theorem *)
Example C13_menu_text_agrees :
  map (fun t => (Codec.read_history (Codec.words (fst t)), Codec.read_call (Codec.words (snd t))))
      fault_menu_text =
  map (fun s => (Some (sc_setup s), Some (sc_call s))) fault_menu.
Proof. exact fault_menu_text_agrees. Qed.

(* store_object(p1, content 7) into the empty store; site 13 is the read of p1's reference file
   in the verification step.  Failing ONCE: the call raises, the roll-back works, p1 is unbound and
   can be stored at once.  Failing PERSISTENTLY: the roll-back fails too — the call raises with p1
   bound (D10), and the retry is rejected. *)
Definition ex13_call : call := CStore (Some 1) SrcPath 7 1 VSzNone VCkNone.

Example C13_one_off_example :
  In (mkScen 0 [] ex13_call 1 [2; 3] [0; 1]) fault_menu /\
  site_op 13 empty_world (api ex13_call) = Some (Read (APidRef 1)) /\
  run_fault (FWait 13 false) empty_world (api ex13_call)
    = Some (mkWorld [(AObj 7, CData 7 1 1)] [], Exn EOSError) /\
  (exists w2, run_seq (mkWorld [(AObj 7, CData 7 1 1)] []) (api ex13_call) = Some (w2, Val (VMeta 7 1)) /\
              retr w2 1 = Some (Val (CData 7 1 1))) /\
  fault_point_ok empty_world ex13_call 1 [2; 3] [0; 1] 13 false = true.
Proof.
  split; [vm_compute; tauto|]. split; [vm_compute; reflexivity|]. split; [vm_compute; reflexivity|].
  split; [|vm_compute; reflexivity].
  eexists. split; vm_compute; reflexivity.
Qed.

Example C13_D10_example :
  In (0, 13, true) known13_D10_bound /\
  run_fault (FWait 13 true) empty_world (api ex13_call)
    = Some (mkWorld [(AObj 7, CData 7 1 1); (APidRef 1, CCid 7); (ACidRef 7, CLines [1])] [], Exn EOSError) /\
  (exists w', run_seq (mkWorld [(AObj 7, CData 7 1 1); (APidRef 1, CCid 7); (ACidRef 7, CLines [1])] [])
                      (api ex13_call) = Some (w', Exn EHashStoreRefsAlreadyExists)) /\
  fault_point_ok empty_world ex13_call 1 [2; 3] [0; 1] 13 true = false.
Proof.
  split; [vm_compute; tauto|]. split; [vm_compute; reflexivity|].
  split; [eexists; vm_compute; reflexivity|vm_compute; reflexivity].
Qed.

(* a fault that a call survives: a one-off failure of a rename is absorbed by shutil.move's
   copy-and-unlink, the call reports success and its whole effect is there *)
Example C13_success_example :
  site_op 11 empty_world (api ex13_call) = Some (Rename (ATmp ArRefs 0 0) (APidRef 1)) /\
  run_fault (FWait 11 false) empty_world (api ex13_call) = run_seq empty_world (api ex13_call) /\
  run_seq empty_world (api ex13_call)
    = Some (mkWorld [(AObj 7, CData 7 1 1); (APidRef 1, CCid 7); (ACidRef 7, CLines [1])] [], Val (VMeta 7 1)).
Proof. repeat split; vm_compute; reflexivity. Qed.

(* a full disk at the chunk write (site 2 of the same call; the write of a chunk into the temp file
   is a fault site like any other).  Failing ONCE: store_object raises the generic exception of
   its handler, the temp file is removed, nothing else was touched.  Failing PERSISTENTLY for that
   temp file: its removal by the handler fails too (swallowed), the empty temp file is left, and that
   is all.  Both points pass the checker: p1 is unbound and the retry succeeds. *)
Example C13_chunk_write_example :
  site_op 2 empty_world (api ex13_call) = Some (WriteChunk (ATmp ArObj 0 0)) /\
  run_fault (FWait 2 false) empty_world (api ex13_call) = Some (empty_world, Exn EGeneric) /\
  run_fault (FWait 2 true) empty_world (api ex13_call)
    = Some (mkWorld [(ATmp ArObj 0 0, CData 7 1 0)] [], Exn EGeneric) /\
  fault_point_ok empty_world ex13_call 1 [2; 3] [0; 1] 2 false = true /\
  fault_point_ok empty_world ex13_call 1 [2; 3] [0; 1] 2 true = true.
Proof. repeat split; vm_compute; reflexivity. Qed.

(* a full disk at the append of the new line of a cid list: tag_object(p3, 7) when p1 -> 7 (scenario
   15); site 9 is the write of "p3" into the list of 7.  Failing ONCE: the call raises, the
   roll-back removes p3's reference, the store is as before.  Failing PERSISTENTLY for that list:
   the roll-back must read the same list and fails too: p3's reference stays although the list does
   not name p3 (D10, half-bound), and the retry is rejected — a recorded failure. *)
Definition ex13_tag_setup : list call := [CStore (Some 1) SrcPath 7 1 VSzNone VCkNone].
Definition ex13_tag_w0 : world :=
  mkWorld [(AObj 7, CData 7 1 1); (APidRef 1, CCid 7); (ACidRef 7, CLines [1])] [].

Example C13_append_example :
  In (mkScen 15 ex13_tag_setup (CTag 3 7) 3 [1; 2] [0; 1]) fault_menu /\
  setup_world ex13_tag_setup = Some ex13_tag_w0 /\
  site_op 9 ex13_tag_w0 (api (CTag 3 7)) = Some (AppendWrite (ACidRef 7) 3) /\
  run_fault (FWait 9 false) ex13_tag_w0 (api (CTag 3 7)) = Some (ex13_tag_w0, Exn EOSError) /\
  fault_point_ok ex13_tag_w0 (CTag 3 7) 3 [1; 2] [0; 1] 9 false = true /\
  In (15, 9, true) known13_D10_half_bound /\
  run_fault (FWait 9 true) ex13_tag_w0 (api (CTag 3 7))
    = Some (mkWorld [(AObj 7, CData 7 1 1); (APidRef 1, CCid 7); (APidRef 3, CCid 7); (ACidRef 7, CLines [1])] [],
            Exn EOSError) /\
  fault_point_ok ex13_tag_w0 (CTag 3 7) 3 [1; 2] [0; 1] 9 true = false.
Proof.
  split; [vm_compute; tauto|]. split; [vm_compute; reflexivity|].
  split; [vm_compute; reflexivity|]. split; [vm_compute; reflexivity|].
  split; [vm_compute; reflexivity|]. split; [vm_compute; tauto|].
  split; vm_compute; reflexivity.
Qed.
