(* C12onepid — C12 on ONE pid and SEVERAL metadata documents with the whole-pid delete in the pool:
   PARTIAL general theorems proved in OnePidMeta.v, and a bounded one (OnePidQuads.v); statements are
   restated in full so that a weakened lemma no longer fits.

   NOT proved (still menu-only: M12_*.v, and OnePidQuads.v for four threads): pools that mix
   store_metadata with delete_metadata(pid) / delete_object(pid) on several documents, for any
   number of calls.  The sweep of the extracted model (DESIGN.md 12.4b) found no quadruple with a
   whole-pid delete over two documents that is not linearizable up to the reader's two not-found
   errors.

   delete_metadata(pid) lists the metadata directory of the pid and then handles the documents ONE
   AT A TIME (lock of that document, rename to the deletion marker, release); it is not atomic
   across documents and its linearization point is not one of its operations:
   [C12_onepid_nonvacuous] is a schedule in which a reader finds document (1,0) gone and a LATER
   reader still reads document (1,1); the order is: reader of (1,1), delete, reader of (1,0). *)
From HS Require Import Base PyVal FS Ops Sched Spec SeqLemmas Bracket Lin Indep IndepMeta OneDoc
  OneDocReaders OneDocDel OnePidMeta OnePidQuads.
From HS Require LinNF Integrity.

(* the one relaxation: a reader's FileNotFoundError is compared as the not-found ValueError *)
Theorem C12_onepid_nf_norm_one_def :
  forall (c : option call) (r : option (outcome value)),
    LinNF.nf_norm_one c r =
    match c, r with
    | Some (CRetrMeta _ _), Some (Exn EFileNotFound) => Some (Exn EValueError)
    | _, _ => r
    end.
Proof. reflexivity. Qed.
Print Assumptions C12_onepid_nf_norm_one_def.

(* the order of the theorem, written out: everybody except the delete (thread d) and the readers
   that raised although their document was in the start world; the delete; those readers *)
Theorem C12_dr_order_def :
  forall (p : pid) (calls : list call) (d : nat) (w0 : world) (c : cfg),
    dr_order p calls d w0 c =
    let beforeb := fun j : nat =>
      match nth_error calls j, thread_result (map api calls) c j with
      | Some (CRetrMeta _ f), Some (Exn _) =>
          match lookup (AMeta p f) (fs w0) with None => true | Some _ => false end
      | _, _ => true
      end in
    filter (fun j => negb (Nat.eqb j d) && beforeb j) (seq 0 (length calls))
    ++ [d]
    ++ filter (fun j => negb (Nat.eqb j d) && negb (beforeb j)) (seq 0 (length calls)).
Proof. reflexivity. Qed.
Print Assumptions C12_dr_order_def.

(* (1) ONE delete of the pid — delete_metadata(pid), delete_metadata(pid, format) or
   delete_object(pid) — against ANY NUMBER of retrieve_metadata calls on ANY documents of the pid,
   any start world without held locks, ANY schedule: every call returns, no lock is left, the
   final world is the one of the delete run alone, and world and outcomes (a reader's
   FileNotFoundError read as the not-found ValueError, nothing else relaxed) are those of the
   sequential order [dr_order] *)
Theorem C12_one_pid_delete_readers_linearizable :
  forall (p : pid) (calls : list call) (d : nat) (dc : call) (w0 : world) (sched : list nat) (c : cfg),
    locks w0 = [] -> refs_typed (fs w0) ->
    nth_error calls d = Some dc ->
    (dc = CDelMeta p None \/ (exists f : fmt, dc = CDelMeta p (Some f)) \/ dc = CDelete p) ->
    (forall (j : nat) (cj : call), j <> d -> nth_error calls j = Some cj ->
       (exists f : fmt, cj = CRetrMeta p f) \/ (exists e : exn, cj = CRejected e)) ->
    exec (map api calls) sched (init_cfg (map api calls) w0) = Some c ->
    stuck (map api calls) c ->
    finished (map api calls) c = true /\ locks (snd c) = [] /\
    exists (w' : world) (rs : list (outcome value)),
      let ord := dr_order p calls d w0 c in
      NoDup ord /\ (forall i : nat, In i ord <-> i < length calls) /\
      seq_run calls ord w0 = Some (w', rs) /\
      snd c = w' /\
      (exists rD : outcome value, run_as d w0 (api dc) = Some (w', rD)) /\
      map (fun i : nat => LinNF.nf_norm_one (nth_error calls i) (thread_result (map api calls) c i)) ord =
        map Some rs.
Proof. exact one_pid_delete_readers_linearizable_partial. Qed.
Print Assumptions C12_one_pid_delete_readers_linearizable.

(* (2) safety for the full family: any number of store_metadata / retrieve_metadata /
   delete_metadata(pid, format) / delete_metadata(pid) calls on one pid, any formats: every call
   returns and no lock is left, under every schedule *)
Theorem C12_one_pid_metadata_safe :
  forall (p : pid) (calls : list call) (w0 : world) (sched : list nat) (c : cfg),
    locks w0 = [] -> refs_typed (fs w0) ->
    (forall ci : call, In ci calls ->
       match ci with
       | CStoreMeta p' _ _ _ _ => p' = p
       | CRetrMeta p' _ => p' = p
       | CDelMeta p' _ => p' = p
       | CRejected _ => True
       | _ => False
       end) ->
    exec (map api calls) sched (init_cfg (map api calls) w0) = Some c ->
    stuck (map api calls) c ->
    finished (map api calls) c = true /\ locks (snd c) = [].
Proof. exact one_pid_metadata_safe_partial. Qed.
Print Assumptions C12_one_pid_metadata_safe.

(* (2b) NEVER A PARTIAL DOCUMENT - for ANY pool of API calls (the whole family above, delete_object
   and the object calls included, any pids), any start world whose files are complete, ANY schedule,
   EVERY reached configuration: every metadata document present is the complete content of a
   supplied version (start document, or the (v, n) of a store_metadata of that document in the
   pool), and every retrieve_metadata that has returned has returned a not-found error or the
   complete content of such a version.  [Integrity] is the predicate of C09 (props/C09.v). *)
Theorem C12_metadata_never_partial_any_pool :
  forall (calls : list call) (w0 : world) (sched : list nat) (c : cfg),
    Integrity.Integrity w0 ->
    exec (map api calls) sched (init_cfg (map api calls) w0) = Some c ->
    (forall (p : pid) (f : fmt) (d0 : fcontent), lookup (AMeta p f) (fs (snd c)) = Some d0 ->
       exists b n : nat, d0 = CData b n n /\
         (lookup (AMeta p f) (fs w0) = Some (CData b n n) \/
          exists s : src, In (CStoreMeta p f s b n) calls)) /\
    (forall (j : nat) (p : pid) (f : fmt) (r : outcome value),
       nth_error calls j = Some (CRetrMeta p f) ->
       thread_result (map api calls) c j = Some r ->
       r = Exn EValueError \/ r = Exn EFileNotFound \/
       exists b n : nat, r = Val (VBytes (CData b n n)) /\
         (lookup (AMeta p f) (fs w0) = Some (CData b n n) \/
          exists s : src, In (CStoreMeta p f s b n) calls)).
Proof. exact metadata_never_partial_any_pool. Qed.
Print Assumptions C12_metadata_never_partial_any_pool.

(* (3) bounded, four threads: every quadruple of the list (a whole-pid delete and three more calls
   on two documents of one pid) is linearizable up to the reader's two not-found errors under
   every schedule *)
Theorem C12_lin_nf_quads :
  forall s, In s quads12 ->
    forall w0 sched c, start_world s = Some w0 ->
    exec (map api (sc_calls s)) sched (init_cfg (map api (sc_calls s)) w0) = Some c ->
    stuck (map api (sc_calls s)) c ->
    LinNF.lin_ok_nf w0 (sc_calls s) c = true /\ stored_retrievable (sc_calls s) c = true.
Proof. exact lin_nf_quads12. Qed.
Print Assumptions C12_lin_nf_quads.

Theorem C12_quads_shape :
  length quads12 = 308 /\
  forallb (fun s => Nat.eqb (length (sc_calls s)) 4 &&
                    match sc_calls s with CDelMeta 1 None :: _ => true | _ => false end) quads12 = true.
Proof. split; vm_compute; reflexivity. Qed.
Print Assumptions C12_quads_shape.

(* non-vacuity of (1): both documents stored; the delete marks (1,0); reader 1 finds (1,0) gone;
   THEN reader 2 reads (1,1) completely; then the delete marks (1,1) and removes the markers.
   The configuration is stuck, the outcomes are as said, and the order of the theorem is
   reader 2, delete, reader 1. *)
Example C12_onepid_nonvacuous :
  exists c,
    exec (map api [CDelMeta 1 None; CRetrMeta 1 0; CRetrMeta 1 1])
         [0;0;0;0;0;0;0; 1; 2;2;2; 0;0;0;0;0;0]
         (init_cfg (map api [CDelMeta 1 None; CRetrMeta 1 0; CRetrMeta 1 1]) dr_w0) = Some c /\
    stuck (map api [CDelMeta 1 None; CRetrMeta 1 0; CRetrMeta 1 1]) c /\
    results (map api [CDelMeta 1 None; CRetrMeta 1 0; CRetrMeta 1 1]) c =
      [Some (Val VUnit); Some (Exn EValueError); Some (Val (VBytes (CData 1 1 1)))] /\
    dr_order 1 [CDelMeta 1 None; CRetrMeta 1 0; CRetrMeta 1 1] 0 dr_w0 c = [2; 0; 1] /\
    lookup (AMeta 1 0) (fs dr_w0) = Some (CData 1 1 1) /\
    lookup (AMeta 1 1) (fs dr_w0) = Some (CData 1 1 1) /\
    locks dr_w0 = [] /\ fs (snd c) = [] /\
    refs_typed (fs dr_w0) /\ Integrity.Integrity dr_w0 /\
    seq_run [CDelMeta 1 None; CRetrMeta 1 0; CRetrMeta 1 1] [2; 0; 1] dr_w0 =
      Some (snd c, [Val (VBytes (CData 1 1 1)); Val VUnit; Exn EValueError]).
Proof.
  eexists. split; [vm_compute; reflexivity|].
  split; [apply succs_nil_stuck; vm_compute; reflexivity|].
  split; [vm_compute; reflexivity|]. split; [vm_compute; reflexivity|].
  split; [vm_compute; reflexivity|]. split; [vm_compute; reflexivity|].
  split; [vm_compute; reflexivity|]. split; [vm_compute; reflexivity|].
  split.
  { intros a v Hl. destruct a; simpl; auto; vm_compute in Hl; discriminate Hl. }
  split.
  { eapply Integrity.start_world_ok with (h := [CStoreMeta 1 0 SrcPath 1 1; CStoreMeta 1 1 SrcPath 1 1]).
    vm_compute. reflexivity. }
  vm_compute. reflexivity.
Qed.
Print Assumptions C12_onepid_nonvacuous.
