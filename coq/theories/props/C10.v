(* C10 — a crash harms nothing else and never wedges the interrupted pid.

   Menu theorem: for every scenario of [crash_menu] (7 start states x 12 interrupted calls, see
   Crash10_menu.v; the same scenarios as text are in coq/menus10.json) and EVERY natural n, the
   store left when the process dies before the n-th operation of the call passes the executable
   checker [crash_point_ok] of CrashFault.v.  The shards Crash10_s<i>.v evaluate the checker at the
   crash points 0 .. length+1 of each call; [crash_ok_sound] (by [run_crash_stable]: beyond the
   last operation, dying "before the n-th operation" is dying after the call) lifts this to all n.
   No crash point of the menu fails: there is no exception list ([known10] = []).

   Every statement is restated in full and closed by [exact], so a weakened lemma no longer fits. *)
From HS Require Import Base PyVal FS Ops Spec Sched CrashFault Crash10_menu Crash10_all.

(* ---------- the menu theorem ---------- *)

Theorem C10_crash_recovery :
  forall s : scen, In s crash_menu ->
  forall n : nat,
    crash_point_ok (sc_world s) (sc_call s) (sc_pid s) (sc_others s) (sc_fmts s) n = true.
Proof. exact crash_recovery_all. Qed.
Print Assumptions C10_crash_recovery.

(* ---------- what [crash_point_ok = true] means ---------- *)

Theorem C10_crash_point_ok_spec :
  forall (w0 : world) (c : call) (ip : pid) (others : list pid) (fmts : list fmt) (n : nat),
    crash_point_ok w0 c ip others fmts n = true ->
    let w := reopen (run_crash n w0 (api c)) in
    (forall q : pid, In q others -> q <> ip -> other_untouched fmts w0 w q) /\
    pid_retrievable_or_notfound w0 c ip w /\
    (forall d : nat, In d recovery_contents -> recovers fmts w0 ip others w d).
Proof. exact crash_point_ok_spec. Qed.
Print Assumptions C10_crash_point_ok_spec.

(* the two together, with every auxiliary proposition written out ([retr w q] is the outcome of
   [run_seq w (retrieve_object q)]; [old_contents w0 ip] is what retrieve_object ip returned in the
   start world, [call_contents w0 c ip] the complete content the interrupted call was binding ip to) *)
Theorem C10_crash_recovery_spelled_out :
  forall s : scen, In s crash_menu ->
  forall n : nat,
    let w0 := sc_world s in
    let c := sc_call s in
    let ip := sc_pid s in
    let w := reopen (run_crash n w0 (api c)) in
    (* (a) every other pid: reference, documents, retrieve_object's answer, list line — as before *)
    (forall q : pid, In q (sc_others s) -> q <> ip ->
       lookup (APidRef q) (fs w) = lookup (APidRef q) (fs w0) /\
       (forall f : fmt, In f (sc_fmts s) -> lookup (AMeta q f) (fs w) = lookup (AMeta q f) (fs w0)) /\
       (exists r : outcome fcontent, retr w0 q = Some r /\ retr w q = Some r) /\
       (forall k : cid, lookup (APidRef q) (fs w0) = Some (CCid k) ->
          exists l : list pid, lookup (ACidRef k) (fs w) = Some (CLines l) /\ In q l)) /\
    (* (b) the interrupted pid: the complete correct bytes under their own name, or not found /
       inconsistent — never anything else *)
    ((exists b m : nat,
        retr w ip = Some (Val (CData b m m)) /\
        In (CData b m m) (old_contents w0 ip ++ call_contents w0 c ip) /\
        lookup (APidRef ip) (fs w) = Some (CCid b))
     \/
     (exists e : exn,
        retr w ip = Some (Exn e) /\
        (e = EPidRefsDoesNotExist \/ e = EOrphanPidRefsFileFound \/ e = EPidNotFoundInCidRefsFile \/
         e = ERefsFileExistsButCidObjMissing))) /\
    (* (c) recovery: delete_object ip (which may say "unknown"), then store_object ip d succeeds,
       ip is retrievable with d and the others are still as before; d = old content 7 / another 8 *)
    (forall d : nat, In d [7; 8] ->
       exists (w1 : world) (r1 : outcome unit) (w2 : world) (v : value),
         run_seq w (delete_object ip) = Some (w1, r1) /\
         (r1 = Val tt \/ r1 = Exn EPidRefsDoesNotExist) /\
         run_seq w1 (store_object (Some ip) SrcPath d 1 VSzNone VCkNone) = Some (w2, Val v) /\
         retr w2 ip = Some (Val (CData d 1 1)) /\
         (forall q : pid, In q (sc_others s) -> q <> ip ->
            lookup (APidRef q) (fs w2) = lookup (APidRef q) (fs w0) /\
            (forall f : fmt, In f (sc_fmts s) -> lookup (AMeta q f) (fs w2) = lookup (AMeta q f) (fs w0)) /\
            (exists r : outcome fcontent, retr w0 q = Some r /\ retr w2 q = Some r) /\
            (forall k : cid, lookup (APidRef q) (fs w0) = Some (CCid k) ->
               exists l : list pid, lookup (ACidRef k) (fs w2) = Some (CLines l) /\ In q l))).
Proof.
  exact (fun s H n => crash_point_ok_spec (sc_world s) (sc_call s) (sc_pid s) (sc_others s) (sc_fmts s) n
                        (crash_recovery_all s H n)).
Qed.
Print Assumptions C10_crash_recovery_spelled_out.

(* the lifting from the finitely many crash points of a call to all naturals *)
Theorem C10_all_crash_points :
  forall (w0 : world) (c : call) (ip : pid) (others : list pid) (fmts : list fmt),
    crash_ok w0 c ip others fmts = true ->
    forall n : nat, crash_point_ok w0 c ip others fmts n = true.
Proof. exact crash_ok_sound. Qed.
Print Assumptions C10_all_crash_points.

Theorem C10_run_crash_stable :
  forall (A : Type) (m : prog A) (F : nat) (w : world),
    run_length F w m < F ->
    forall n : nat, run_length F w m < n -> run_crash n w m = run_crash (S (run_length F w m)) w m.
Proof. exact run_crash_stable. Qed.
Print Assumptions C10_run_crash_stable.

(* ---------- non-vacuity ---------- *)

(* every start state is built by running the model, every setup call succeeding, and the watched
   pid is the pid of the interrupted call *)
Theorem C10_start_worlds_defined :
  forall s : scen, In s crash_menu ->
    setup_world (sc_setup s) = Some (sc_world s) /\ call_pid (sc_call s) = Some (sc_pid s).
Proof. exact crash_menu_defined. Qed.
Print Assumptions C10_start_worlds_defined.

Example C10_menu_size :
  length crash_menu = 84 /\
  fold_right Nat.add 0 (map (fun l => S (S l)) crash_lengths) = 1521 /\     (* crash points evaluated *)
  known10 = [].
Proof. vm_compute. repeat split. Qed.

(* the menu as text (coq/menus10.json) parses to the menu of the theorem *)
Example C10_menu_text_agrees :
  map (fun t => (Codec.read_history (Codec.words (fst t)), Codec.read_call (Codec.words (snd t))))
      crash_menu_text =
  map (fun s => (Some (sc_setup s), Some (sc_call s))) crash_menu.
Proof. exact crash_menu_text_agrees. Qed.

(* a crash point where the pid is left HALF-BOUND and recovery repairs it: start state p1->7,
   store_object(p3, content 7) dies before its 18th operation, i.e. after the pid reference of p3
   was renamed into place and before p3 was appended to the list of cid 7 *)
Definition ex_w0 : world :=
  mkWorld [(AObj 7, CData 7 1 1); (APidRef 1, CCid 7); (ACidRef 7, CLines [1])] [].
Definition ex_call : call := CStore (Some 3) SrcPath 7 1 VSzNone VCkNone.
Definition ex_w : world := reopen (run_crash 18 ex_w0 (api ex_call)).

Example C10_half_bound_example :
  In (mkScen 15 [CStore (Some 1) SrcPath 7 1 VSzNone VCkNone] ex_call 3 [1; 2] [0; 1]) crash_menu /\
  setup_world [CStore (Some 1) SrcPath 7 1 VSzNone VCkNone] = Some ex_w0 /\
  (* the files after the crash: pid reference of p3 present, no line for p3 *)
  ex_w = mkWorld [(AObj 7, CData 7 1 1); (APidRef 1, CCid 7); (APidRef 3, CCid 7); (ACidRef 7, CLines [1])] [] /\
  (* p3 is reported inconsistent, p1 still gets its bytes *)
  retr ex_w 3 = Some (Exn EPidNotFoundInCidRefsFile) /\
  retr ex_w 1 = Some (Val (CData 7 1 1)) /\
  (* recovery with another content: delete_object succeeds, store_object succeeds *)
  (exists w1 w2,
     run_seq ex_w (delete_object 3) = Some (w1, Val tt) /\
     run_seq w1 (store_object (Some 3) SrcPath 8 1 VSzNone VCkNone) = Some (w2, Val (VMeta 8 1)) /\
     retr w2 3 = Some (Val (CData 8 1 1)) /\ retr w2 1 = Some (Val (CData 7 1 1))).
Proof.
  split; [vm_compute; tauto|]. split; [vm_compute; reflexivity|].
  split; [vm_compute; reflexivity|]. split; [vm_compute; reflexivity|].
  split; [vm_compute; reflexivity|].
  eexists. eexists. split; [vm_compute; reflexivity|]. split; [vm_compute; reflexivity|].
  split; vm_compute; reflexivity.
Qed.

(* along that one call the interrupted pid goes through all three permitted answers *)
Example C10_example_answers :
  map (fun n => retr (reopen (run_crash n ex_w0 (api ex_call))) 3) [0; 17; 18; 23; 24; 30; 1000] =
  [Some (Exn EPidRefsDoesNotExist); Some (Exn EPidRefsDoesNotExist);
   Some (Exn EPidNotFoundInCidRefsFile); Some (Exn EPidNotFoundInCidRefsFile);
   Some (Val (CData 7 1 1)); Some (Val (CData 7 1 1)); Some (Val (CData 7 1 1))].
Proof. vm_compute. reflexivity. Qed.

(* the checker is not trivially true: asked to treat p1 as "another pid" while delete_object(p1) is
   the interrupted call, it fails (p1's reference is gone after the call) *)
Example C10_checker_can_fail :
  crash_point_ok ex_w0 (CDelete 1) 3 [1; 2] [0; 1] 40 = false.
Proof. vm_compute. reflexivity. Qed.
