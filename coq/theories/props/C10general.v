(* C10, generalised — a crash harms no other pid and never serves wrong bytes, for EVERY start
   state satisfying the representation invariant, EVERY call and EVERY crash point (no menu).
   Statements are restated in full and closed by [exact] of the lemmas of CrashGeneral.v.

   Proved here: (T1) others untouched; (T2) never wrong bytes; and of (T3) recovery only the frame
   part (whatever the recovery calls do, the others stay untouched and every permanent file stays
   well typed).  NOT proved: that delete_object then store_object return and succeed, and that the
   content served to the interrupted pid is the old one or the call's ([allowed_contents]).
   The full statement is kept visible as [C10_general_statement]; as literally stated it is FALSE
   (a pid tagged to a cid whose object does not exist), see [C10g_statement_false]. *)
From HS Require Import Base PyVal FS Ops Spec Sched Refine CrashFault Integrity CrashGeneral.

(* ---------- definitions pinned ---------- *)

Theorem C10g_statement_def :
  C10_general_statement <->
  (forall (w0 : world) (c : call) (p : pid) (n : nat),
     Inv w0 -> call_pid c = Some p -> proper_call c ->
     let w := reopen (run_crash n w0 (api c)) in
     (forall (q : pid) (fmts : list fmt), q <> p -> other_untouched fmts w0 w q) /\
     pid_retrievable_or_notfound w0 c p w /\
     (forall (d : nat) (others : list pid) (fmts : list fmt), recovers fmts w0 p others w d)).
Proof. exact (iff_refl _). Qed.
Print Assumptions C10g_statement_def.

Theorem C10g_typed_def :
  forall m : fmap,
    typed m <->
    (forall (a : addr) (v : fcontent), lookup a m = Some v ->
       match a with
       | AObj c => exists n : nat, v = CData c n n
       | AMeta _ _ => exists b n : nat, v = CData b n n
       | APidRef _ => exists c : cid, v = CCid c
       | ACidRef _ => exists l : list pid, v = CLines l
       | _ => True
       end).
Proof. exact (fun m => iff_refl _). Qed.
Print Assumptions C10g_typed_def.

(* the frame invariant relative to the start world w0 and the pid p of the interrupted call *)
Theorem C10g_WI_def :
  forall (w0 : world) (p : pid) (w : world),
    WI w0 p w <->
    (typed (fs w) /\
     (forall q : pid, q <> p -> lookup (APidRef q) (fs w) = lookup (APidRef q) (fs w0)) /\
     (forall (q : pid) (f : fmt), q <> p -> lookup (AMeta q f) (fs w) = lookup (AMeta q f) (fs w0)) /\
     (forall (q : pid) (k : cid), q <> p -> lookup (APidRef q) (fs w0) = Some (CCid k) ->
        (exists l : list pid, lookup (ACidRef k) (fs w) = Some (CLines l) /\ In q l) /\
        (forall x : fcontent, lookup (AObj k) (fs w0) = Some x -> lookup (AObj k) (fs w) = Some x))).
Proof. exact (fun w0 p w => iff_refl _). Qed.
Print Assumptions C10g_WI_def.

(* ---------- (T1) others untouched ---------- *)

(* every start world satisfying Inv, every call naming p (or naming no pid: then p is arbitrary
   and EVERY pid is untouched), every n; [proper_call] is not needed *)
Theorem C10g_others_untouched :
  forall (w0 : world) (c : call) (p : pid) (n : nat),
    Inv w0 -> (forall p' : pid, call_pid c = Some p' -> p' = p) ->
    let w := reopen (run_crash n w0 (api c)) in
    forall q : pid, q <> p ->
      lookup (APidRef q) (fs w) = lookup (APidRef q) (fs w0) /\
      (forall f : fmt, lookup (AMeta q f) (fs w) = lookup (AMeta q f) (fs w0)) /\
      (forall k : cid, lookup (APidRef q) (fs w0) = Some (CCid k) ->
         (exists l : list pid, lookup (ACidRef k) (fs w) = Some (CLines l) /\ In q l) /\
         (forall x : fcontent, lookup (AObj k) (fs w0) = Some x -> lookup (AObj k) (fs w) = Some x)) /\
      ((forall k : cid, lookup (APidRef q) (fs w0) = Some (CCid k) -> lookup (AObj k) (fs w0) <> None) ->
         exists r : outcome fcontent, retr w0 q = Some r /\ retr w q = Some r).
Proof. exact others_untouched. Qed.
Print Assumptions C10g_others_untouched.

(* ---------- (T2) never wrong bytes ---------- *)

Theorem C10g_never_wrong_bytes :
  forall (w0 : world) (c : call) (p : pid) (n : nat),
    Inv w0 -> (forall p' : pid, call_pid c = Some p' -> p' = p) ->
    let w := reopen (run_crash n w0 (api c)) in
    forall q : pid,
      (exists b m : nat, retr w q = Some (Val (CData b m m)) /\
                         lookup (APidRef q) (fs w) = Some (CCid b) /\
                         lookup (AObj b) (fs w) = Some (CData b m m))
      \/ (exists e : exn, retr w q = Some (Exn e) /\
            (e = EPidRefsDoesNotExist \/ e = EOrphanPidRefsFileFound \/
             e = EPidNotFoundInCidRefsFile \/ e = ERefsFileExistsButCidObjMissing)).
Proof. exact crash_never_wrong_bytes. Qed.
Print Assumptions C10g_never_wrong_bytes.

(* ---------- composition: any further calls on p, completed or interrupted ---------- *)

Theorem C10g_crash_WI :
  forall (w0 : world) (c : call) (p : pid) (n : nat),
    Inv w0 -> (forall p' : pid, call_pid c = Some p' -> p' = p) ->
    WI w0 p (reopen (run_crash n w0 (api c))).
Proof. exact crash_WI. Qed.
Print Assumptions C10g_crash_WI.

Theorem C10g_followup_call_WI :
  forall (w0 : world) (p : pid) (w : world) (c : call) (w' : world) (r : outcome value),
    WI w0 p w -> (forall p' : pid, call_pid c = Some p' -> p' = p) ->
    run_seq w (api c) = Some (w', r) -> WI w0 p w'.
Proof. exact followup_call_WI. Qed.
Print Assumptions C10g_followup_call_WI.

Theorem C10g_followup_crash_WI :
  forall (w0 : world) (p : pid) (w : world) (c : call) (n : nat),
    WI w0 p w -> (forall p' : pid, call_pid c = Some p' -> p' = p) ->
    WI w0 p (reopen (run_crash n w (api c))).
Proof. exact followup_crash_WI. Qed.
Print Assumptions C10g_followup_crash_WI.

(* ---------- the full statement is false as stated; what is proved of it ---------- *)

Theorem C10g_dangling_start_world :
  run_history empty_world [CTag 2 7] = Some (dangling_w0, [Val VUnit]) /\ Inv dangling_w0.
Proof. exact (conj dangling_w0_reached dangling_w0_Inv). Qed.
Print Assumptions C10g_dangling_start_world.

Theorem C10g_statement_false : ~ C10_general_statement.
Proof. exact C10_general_statement_false. Qed.
Print Assumptions C10g_statement_false.

Theorem C10g_general_partial :
  forall (w0 : world) (c : call) (p : pid) (n : nat),
    Inv w0 -> call_pid c = Some p ->
    let w := reopen (run_crash n w0 (api c)) in
    (forall (q : pid) (fmts : list fmt), q <> p ->
       (forall k : cid, lookup (APidRef q) (fs w0) = Some (CCid k) -> lookup (AObj k) (fs w0) <> None) ->
       other_untouched fmts w0 w q) /\
    ((exists b m : nat, retr w p = Some (Val (CData b m m)) /\
                        lookup (APidRef p) (fs w) = Some (CCid b) /\
                        lookup (AObj b) (fs w) = Some (CData b m m))
     \/ (exists e : exn, retr w p = Some (Exn e) /\ NotFoundOrInconsistent e)) /\
    (forall (d : nat) (w1 : world) (r1 : outcome unit) (w2 : world) (r2 : outcome value),
       run_seq w (delete_object p) = Some (w1, r1) ->
       run_seq w1 (store_object (Some p) SrcPath d 1 VSzNone VCkNone) = Some (w2, r2) ->
       typed (fs w2) /\
       forall (q : pid) (fmts : list fmt), q <> p ->
         (forall k : cid, lookup (APidRef q) (fs w0) = Some (CCid k) -> lookup (AObj k) (fs w0) <> None) ->
         other_untouched fmts w0 w2 q).
Proof. exact C10_general_partial. Qed.
Print Assumptions C10g_general_partial.

(* ---------- non-vacuity ---------- *)

(* the half-bound example of props/C10.v: start state p1 -> 7, store_object(p3, content 7) dies
   before its 18th operation.  The hypotheses of the general theorem hold there and its
   conclusion says: p1 is served the same bytes, p3 is reported inconsistent. *)
Definition g_w0 : world :=
  mkWorld [(AObj 7, CData 7 1 1); (APidRef 1, CCid 7); (ACidRef 7, CLines [1])] [].
Definition g_call : call := CStore (Some 3) SrcPath 7 1 VSzNone VCkNone.

Example C10g_nonvacuous :
  Inv g_w0 /\ call_pid g_call = Some 3 /\
  fs (reopen (run_crash 18 g_w0 (api g_call))) =
    [(AObj 7, CData 7 1 1); (APidRef 1, CCid 7); (APidRef 3, CCid 7); (ACidRef 7, CLines [1])] /\
  (exists r, retr g_w0 1 = Some r /\ retr (reopen (run_crash 18 g_w0 (api g_call))) 1 = Some r /\
             r = Val (CData 7 1 1)) /\
  retr (reopen (run_crash 18 g_w0 (api g_call))) 3 = Some (Exn EPidNotFoundInCidRefsFile).
Proof.
  assert (HI : Inv g_w0).
  { assert (H : run_seq empty_world (api (CStore (Some 1) SrcPath 7 1 VSzNone VCkNone)) =
                Some (g_w0, Val (VMeta 7 1))) by (vm_compute; reflexivity).
    eapply Inv_run_seq; [apply inv_empty| |exact H]. exact I. }
  split; [exact HI|]. split; [reflexivity|]. split; [vm_compute; reflexivity|]. split.
  - destruct (others_untouched g_w0 g_call 3 18 HI ltac:(intros p' H; inversion H; reflexivity)
                1 ltac:(discriminate)) as (_ & _ & _ & Hr).
    destruct Hr as (r & H0 & H1).
    + intros k Hk. vm_compute in Hk. inversion Hk; subst. vm_compute. discriminate.
    + exists r. split; [exact H0|]. split; [exact H1|]. vm_compute in H0. congruence.
  - vm_compute. reflexivity.
Qed.
Print Assumptions C10g_nonvacuous.
