(* C10, generalised — a crash harms no other pid, never serves wrong bytes and never wedges the
   interrupted pid, for EVERY start state satisfying the representation invariant, EVERY call and
   EVERY crash point (no menu).  Statements are restated in full and closed by [exact] of the
   lemmas of CrashGeneral.v.

   Proved: (T1) others untouched; (T2) never wrong bytes, with the content being the old one or
   the call's; (T3) recovery: from every crash state delete_object returns (success or "unknown
   pid") and store_object then succeeds and the pid is retrievable; and the whole statement
   [C10_general_statement_corrected] ([C10g_corrected]).
   The statement as first written, [C10_general_statement], is FALSE ([C10g_statement_false]); the
   corrected one carries three hypotheses, each shown necessary by an example:
   [no_dangling] (no pid tagged to a cid without object), [call_size_ok] and [rec_size_ok] (size
   consistency: in the token model the chunk count of a content is an argument independent of
   its cid — a modelling artefact). *)
From HS Require Import Base PyVal FS Ops Spec Sched Refine CrashFault Integrity CrashGeneral.

(* ---------- definitions pinned ---------- *)

Theorem C10g_statement_def :
  C10_general_statement <->
  (forall (w0 : world) (c : call) (p : pid) (n : nat),
     Inv w0 -> call_pid c = Some p -> proper_call c ->
     let w := reopen (run_crash n w0 (api c)) in
     (forall (q : pid) (fmts : list fmt), q <> p -> other_untouched fmts w0 w q) /\
     pid_retrievable_or_notfound w0 c p w /\
     (forall (d : nat) (others : list pid) (fmts : list fmt), recovers fmts w0 p others w d)).
Proof. exact (iff_refl _). Qed.
Print Assumptions C10g_statement_def.

Theorem C10g_typed_def :
  forall m : fmap,
    typed m <->
    (forall (a : addr) (v : fcontent), lookup a m = Some v ->
       match a with
       | AObj c => exists n : nat, v = CData c n n
       | AMeta _ _ => exists b n : nat, v = CData b n n
       | APidRef _ => exists c : cid, v = CCid c
       | ACidRef _ => exists l : list pid, v = CLines l
       | _ => True
       end).
Proof. exact (fun m => iff_refl _). Qed.
Print Assumptions C10g_typed_def.

(* the frame invariant relative to the start world w0 and the pid p of the interrupted call *)
Theorem C10g_WI_def :
  forall (w0 : world) (p : pid) (w : world),
    WI w0 p w <->
    (typed (fs w) /\
     (forall q : pid, q <> p -> lookup (APidRef q) (fs w) = lookup (APidRef q) (fs w0)) /\
     (forall (q : pid) (f : fmt), q <> p -> lookup (AMeta q f) (fs w) = lookup (AMeta q f) (fs w0)) /\
     (forall (q : pid) (k : cid), q <> p -> lookup (APidRef q) (fs w0) = Some (CCid k) ->
        (exists l : list pid, lookup (ACidRef k) (fs w) = Some (CLines l) /\ In q l) /\
        (forall x : fcontent, lookup (AObj k) (fs w0) = Some x -> lookup (AObj k) (fs w) = Some x))).
Proof. exact (fun w0 p w => iff_refl _). Qed.
Print Assumptions C10g_WI_def.

(* ---------- (T1) others untouched ---------- *)

(* every start world satisfying Inv, every call naming p (or naming no pid: then p is arbitrary
   and EVERY pid is untouched), every n; [proper_call] is not needed *)
Theorem C10g_others_untouched :
  forall (w0 : world) (c : call) (p : pid) (n : nat),
    Inv w0 -> (forall p' : pid, call_pid c = Some p' -> p' = p) ->
    let w := reopen (run_crash n w0 (api c)) in
    forall q : pid, q <> p ->
      lookup (APidRef q) (fs w) = lookup (APidRef q) (fs w0) /\
      (forall f : fmt, lookup (AMeta q f) (fs w) = lookup (AMeta q f) (fs w0)) /\
      (forall k : cid, lookup (APidRef q) (fs w0) = Some (CCid k) ->
         (exists l : list pid, lookup (ACidRef k) (fs w) = Some (CLines l) /\ In q l) /\
         (forall x : fcontent, lookup (AObj k) (fs w0) = Some x -> lookup (AObj k) (fs w) = Some x)) /\
      ((forall k : cid, lookup (APidRef q) (fs w0) = Some (CCid k) -> lookup (AObj k) (fs w0) <> None) ->
         exists r : outcome fcontent, retr w0 q = Some r /\ retr w q = Some r).
Proof. exact others_untouched. Qed.
Print Assumptions C10g_others_untouched.

(* ---------- (T2) never wrong bytes ---------- *)

Theorem C10g_never_wrong_bytes :
  forall (w0 : world) (c : call) (p : pid) (n : nat),
    Inv w0 -> (forall p' : pid, call_pid c = Some p' -> p' = p) ->
    let w := reopen (run_crash n w0 (api c)) in
    forall q : pid,
      (exists b m : nat, retr w q = Some (Val (CData b m m)) /\
                         lookup (APidRef q) (fs w) = Some (CCid b) /\
                         lookup (AObj b) (fs w) = Some (CData b m m))
      \/ (exists e : exn, retr w q = Some (Exn e) /\
            (e = EPidRefsDoesNotExist \/ e = EOrphanPidRefsFileFound \/
             e = EPidNotFoundInCidRefsFile \/ e = ERefsFileExistsButCidObjMissing)).
Proof. exact crash_never_wrong_bytes. Qed.
Print Assumptions C10g_never_wrong_bytes.

(* ---------- composition: any further calls on p, completed or interrupted ---------- *)

Theorem C10g_crash_WI :
  forall (w0 : world) (c : call) (p : pid) (n : nat),
    Inv w0 -> (forall p' : pid, call_pid c = Some p' -> p' = p) ->
    WI w0 p (reopen (run_crash n w0 (api c))).
Proof. exact crash_WI. Qed.
Print Assumptions C10g_crash_WI.

Theorem C10g_followup_call_WI :
  forall (w0 : world) (p : pid) (w : world) (c : call) (w' : world) (r : outcome value),
    WI w0 p w -> (forall p' : pid, call_pid c = Some p' -> p' = p) ->
    run_seq w (api c) = Some (w', r) -> WI w0 p w'.
Proof. exact followup_call_WI. Qed.
Print Assumptions C10g_followup_call_WI.

Theorem C10g_followup_crash_WI :
  forall (w0 : world) (p : pid) (w : world) (c : call) (n : nat),
    WI w0 p w -> (forall p' : pid, call_pid c = Some p' -> p' = p) ->
    WI w0 p (reopen (run_crash n w (api c))).
Proof. exact followup_crash_WI. Qed.
Print Assumptions C10g_followup_crash_WI.

(* ---------- the full statement is false as stated; what is proved of it ---------- *)

Theorem C10g_dangling_start_world :
  run_history empty_world [CTag 2 7] = Some (dangling_w0, [Val VUnit]) /\ Inv dangling_w0.
Proof. exact (conj dangling_w0_reached dangling_w0_Inv). Qed.
Print Assumptions C10g_dangling_start_world.

Theorem C10g_statement_false : ~ C10_general_statement.
Proof. exact C10_general_statement_false. Qed.
Print Assumptions C10g_statement_false.

Theorem C10g_general_partial :
  forall (w0 : world) (c : call) (p : pid) (n : nat),
    Inv w0 -> call_pid c = Some p ->
    let w := reopen (run_crash n w0 (api c)) in
    (forall (q : pid) (fmts : list fmt), q <> p ->
       (forall k : cid, lookup (APidRef q) (fs w0) = Some (CCid k) -> lookup (AObj k) (fs w0) <> None) ->
       other_untouched fmts w0 w q) /\
    ((exists b m : nat, retr w p = Some (Val (CData b m m)) /\
                        lookup (APidRef p) (fs w) = Some (CCid b) /\
                        lookup (AObj b) (fs w) = Some (CData b m m))
     \/ (exists e : exn, retr w p = Some (Exn e) /\ NotFoundOrInconsistent e)) /\
    (forall (d : nat) (w1 : world) (r1 : outcome unit) (w2 : world) (r2 : outcome value),
       run_seq w (delete_object p) = Some (w1, r1) ->
       run_seq w1 (store_object (Some p) SrcPath d 1 VSzNone VCkNone) = Some (w2, r2) ->
       typed (fs w2) /\
       forall (q : pid) (fmts : list fmt), q <> p ->
         (forall k : cid, lookup (APidRef q) (fs w0) = Some (CCid k) -> lookup (AObj k) (fs w0) <> None) ->
         other_untouched fmts w0 w2 q).
Proof. exact C10_general_partial. Qed.
Print Assumptions C10g_general_partial.

(* ---------- non-vacuity ---------- *)

(* the half-bound example of props/C10.v: start state p1 -> 7, store_object(p3, content 7) dies
   before its 18th operation.  The hypotheses of the general theorem hold there and its
   conclusion says: p1 is served the same bytes, p3 is reported inconsistent. *)
Definition g_w0 : world :=
  mkWorld [(AObj 7, CData 7 1 1); (APidRef 1, CCid 7); (ACidRef 7, CLines [1])] [].
Definition g_call : call := CStore (Some 3) SrcPath 7 1 VSzNone VCkNone.

Example C10g_nonvacuous :
  Inv g_w0 /\ call_pid g_call = Some 3 /\
  fs (reopen (run_crash 18 g_w0 (api g_call))) =
    [(AObj 7, CData 7 1 1); (APidRef 1, CCid 7); (APidRef 3, CCid 7); (ACidRef 7, CLines [1])] /\
  (exists r, retr g_w0 1 = Some r /\ retr (reopen (run_crash 18 g_w0 (api g_call))) 1 = Some r /\
             r = Val (CData 7 1 1)) /\
  retr (reopen (run_crash 18 g_w0 (api g_call))) 3 = Some (Exn EPidNotFoundInCidRefsFile).
Proof.
  assert (HI : Inv g_w0).
  { assert (H : run_seq empty_world (api (CStore (Some 1) SrcPath 7 1 VSzNone VCkNone)) =
                Some (g_w0, Val (VMeta 7 1))) by (vm_compute; reflexivity).
    eapply Inv_run_seq; [apply inv_empty| |exact H]. exact I. }
  split; [exact HI|]. split; [reflexivity|]. split; [vm_compute; reflexivity|]. split.
  - destruct (others_untouched g_w0 g_call 3 18 HI ltac:(intros p' H; inversion H; reflexivity)
                1 ltac:(discriminate)) as (_ & _ & _ & Hr).
    destruct Hr as (r & H0 & H1).
    + intros k Hk. vm_compute in Hk. inversion Hk; subst. vm_compute. discriminate.
    + exists r. split; [exact H0|]. split; [exact H1|]. vm_compute in H0. congruence.
  - vm_compute. reflexivity.
Qed.
Print Assumptions C10g_nonvacuous.

(* =================================================================================== *)
(* clause (b) in full, recovery (T3), and the corrected full statement                  *)
(* =================================================================================== *)

(* ---------- hypotheses pinned ---------- *)

Theorem C10g_no_dangling_def :
  forall w0 : world,
    no_dangling w0 <->
    (forall (q : pid) (k : cid), lookup (APidRef q) (fs w0) = Some (CCid k) -> lookup (AObj k) (fs w0) <> None).
Proof. exact (fun w0 => iff_refl _). Qed.
Print Assumptions C10g_no_dangling_def.

(* size consistency of the interrupted call: an object b already in the start world has the
   call's chunk count (in reality the count is a function of the bytes) *)
Theorem C10g_call_size_ok_def :
  forall (w0 : world) (c : call),
    call_size_ok w0 c <->
    match c with
    | CStore _ _ b n _ _ => forall x : fcontent, lookup (AObj b) (fs w0) = Some x -> x = CData b n n
    | _ => True
    end.
Proof. exact (fun w0 c => iff_refl _). Qed.
Print Assumptions C10g_call_size_ok_def.

(* size consistency of the recovery content d, which [recovers] stores as 1 chunk *)
Theorem C10g_rec_size_ok_def :
  forall (w0 : world) (c : call) (d : nat),
    rec_size_ok w0 c d <->
    ((forall x : fcontent, lookup (AObj d) (fs w0) = Some x -> x = CData d 1 1) /\
     match c with CStore _ _ b n _ _ => b = d -> n = 1 | _ => True end).
Proof. exact (fun w0 c d => iff_refl _). Qed.
Print Assumptions C10g_rec_size_ok_def.

(* the crash states: the frame invariant and empty lock lists — nothing finer is needed *)
Theorem C10g_CrashInv_def :
  forall (w0 : world) (p : pid) (w : world), CrashInv w0 p w <-> (WI w0 p w /\ locks w = []).
Proof. exact (fun w0 p w => iff_refl _). Qed.
Print Assumptions C10g_CrashInv_def.

(* ---------- clause (b) in full ---------- *)

Theorem C10g_pid_retrievable_or_notfound :
  forall (w0 : world) (c : call) (p : pid) (n : nat),
    Inv w0 -> call_pid c = Some p -> call_size_ok w0 c ->
    let w := reopen (run_crash n w0 (api c)) in
    (exists b m : nat,
       retr w p = Some (Val (CData b m m)) /\
       In (CData b m m) (old_contents w0 p ++ call_contents w0 c p) /\
       lookup (APidRef p) (fs w) = Some (CCid b))
    \/
    (exists e : exn,
       retr w p = Some (Exn e) /\
       (e = EPidRefsDoesNotExist \/ e = EOrphanPidRefsFileFound \/ e = EPidNotFoundInCidRefsFile \/
        e = ERefsFileExistsButCidObjMissing)).
Proof. exact crash_pid_retrievable_or_notfound. Qed.
Print Assumptions C10g_pid_retrievable_or_notfound.

(* the hypothesis is necessary: content 7 stored as 3 chunks under pid 2; store_object(pid 1,
   content 7 "of 1 chunk") completes and pid 1 is served the 3 chunks *)
Example C10g_size_consistency_needed :
  Inv size_w0 /\ call_pid size_call = Some 1 /\ ~ call_size_ok size_w0 size_call /\
  ~ pid_retrievable_or_notfound size_w0 size_call 1 (reopen (run_crash 100 size_w0 (api size_call))).
Proof. exact size_consistency_needed. Qed.
Print Assumptions C10g_size_consistency_needed.

(* ---------- (T3) recovery ---------- *)

(* (i) every crash of a call on p leaves a crash state *)
Theorem C10g_crash_CrashInv :
  forall (w0 : world) (c : call) (p : pid) (n : nat),
    Inv w0 -> (forall p' : pid, call_pid c = Some p' -> p' = p) ->
    CrashInv w0 p (reopen (run_crash n w0 (api c))).
Proof. exact crash_CrashInv. Qed.
Print Assumptions C10g_crash_CrashInv.

(* (ii) from ANY crash state delete_object p returns — no ill-typed answer, no blocking — with
   success or PidRefsDoesNotExist; p's reference is gone; no object appears or changes; the result
   is again a crash state (so the others are still untouched) *)
Theorem C10g_delete_after_crash :
  forall (w0 : world) (p : pid) (w : world),
    CrashInv w0 p w ->
    exists (w1 : world) (r1 : outcome unit),
      run_seq w (delete_object p) = Some (w1, r1) /\
      (r1 = Val tt \/ r1 = Exn EPidRefsDoesNotExist) /\
      lookup (APidRef p) (fs w1) = None /\
      CrashInv w0 p w1 /\
      (forall (k : cid) (x : fcontent), lookup (AObj k) (fs w1) = Some x -> lookup (AObj k) (fs w) = Some x).
Proof. exact delete_after_crash. Qed.
Print Assumptions C10g_delete_after_crash.

(* (iii) from ANY crash state where p has no reference, store_object(p, d) succeeds and p is
   retrievable with d *)
Theorem C10g_store_after_delete :
  forall (w0 : world) (p : pid) (w1 : world) (d : nat),
    CrashInv w0 p w1 -> lookup (APidRef p) (fs w1) = None ->
    (forall x : fcontent, lookup (AObj d) (fs w1) = Some x -> x = CData d 1 1) ->
    exists w2 : world,
      run_seq w1 (store_object (Some p) SrcPath d 1 VSzNone VCkNone) = Some (w2, Val (VMeta d 1)) /\
      retr w2 p = Some (Val (CData d 1 1)) /\
      CrashInv w0 p w2.
Proof. exact store_after_delete. Qed.
Print Assumptions C10g_store_after_delete.

(* together, in the vocabulary of CrashFault.v *)
Theorem C10g_crash_recovers :
  forall (w0 : world) (c : call) (p : pid) (n : nat) (d : nat) (others : list pid) (fmts : list fmt),
    Inv w0 -> no_dangling w0 -> call_pid c = Some p -> rec_size_ok w0 c d ->
    recovers fmts w0 p others (reopen (run_crash n w0 (api c))) d.
Proof. exact crash_recovers. Qed.
Print Assumptions C10g_crash_recovers.

(* "p is in no cid list after delete_object" does NOT hold in every crash state *)
Example C10g_stale_line_survives :
  let w0 := mkWorld [(AObj 7, CData 7 1 1); (APidRef 1, CCid 7); (ACidRef 7, CLines [1])] [] in
  let w := reopen (run_crash 13 w0 (api (CDelete 1))) in
  fs w = [(AObj 7, CData 7 1 1); (ACidRef 7, CLines [1]); (ADel (APidRef 1), CCid 7)] /\
  run_seq w (delete_object 1) = Some (w, Exn EPidRefsDoesNotExist).
Proof. exact stale_line_survives. Qed.
Print Assumptions C10g_stale_line_survives.

(* ---------- the corrected full statement ---------- *)

Theorem C10g_corrected_def :
  C10_general_statement_corrected <->
  (forall (w0 : world) (c : call) (p : pid) (n : nat),
     Inv w0 -> no_dangling w0 -> call_pid c = Some p -> call_size_ok w0 c ->
     let w := reopen (run_crash n w0 (api c)) in
     (forall (q : pid) (fmts : list fmt), q <> p -> other_untouched fmts w0 w q) /\
     pid_retrievable_or_notfound w0 c p w /\
     (forall (d : nat) (others : list pid) (fmts : list fmt),
        rec_size_ok w0 c d -> recovers fmts w0 p others w d)).
Proof. exact (iff_refl _). Qed.
Print Assumptions C10g_corrected_def.

Theorem C10g_corrected : C10_general_statement_corrected.
Proof. exact C10_general_corrected. Qed.
Print Assumptions C10g_corrected.

(* non-vacuity of the recovery theorem: the half-bound example again, recovery content 8 *)
Example C10g_recovery_nonvacuous :
  no_dangling g_w0 /\ rec_size_ok g_w0 g_call 8 /\
  recovers [0; 1] g_w0 3 [1; 2] (reopen (run_crash 18 g_w0 (api g_call))) 8.
Proof.
  assert (HI : Inv g_w0) by exact (proj1 C10g_nonvacuous).
  assert (Hnd : no_dangling g_w0).
  { intros q k Hk. vm_compute in Hk.
    destruct q as [|[|q]]; try discriminate. inversion Hk; subst. vm_compute. discriminate. }
  assert (Hs : rec_size_ok g_w0 g_call 8).
  { split; [intros x Hx; vm_compute in Hx; discriminate|]. simpl. intros H; discriminate. }
  split; [exact Hnd|]. split; [exact Hs|].
  exact (crash_recovers g_w0 g_call 3 18 8 [1; 2] [0; 1] HI Hnd eq_refl Hs).
Qed.
Print Assumptions C10g_recovery_nonvacuous.
