(* C08 — under every interleaving of concurrent API calls, and whether the calls succeed, are
   rejected or fail with an I/O error part-way, no set of calls deadlocks and every call returns;
   afterwards every pid, cid and metadata document that was involved can be operated on again
   without blocking.

   GENERAL theorems (any number of threads, any calls, any schedule, any fault pattern; no menu,
   no bound), proved in Bracket.v; statements are restated in full so that a weakened lemma no
   longer fits.

   Scope notes (see the header of Bracket.v):
     - faults: every fault site of Sched.is_site EXCEPT a failure of flock itself
       ([Acquire LFile _]) — in THIS file; the same theorems with the flock among the faults
       are proved in FlockFaults.v and restated in props/C08flock.v;
     - the start world holds no lock and its reference files are typed ([refs_typed], implied by
       Spec.well_typed, established by every sequential history from the empty store, and
       re-established by every run).  [C08_untyped_world_witness] shows the hypothesis is needed:
       without it a call stops at [Bad] and [finished] is false. *)
From HS Require Import Base PyVal FS Ops Sched Spec Bracket SchedCV.

(* every API program, run as any thread i, for EVERY admissible answer to every operation
   (every value read, every error at every fault site but flock): acquires only locks ranked
   strictly above all it holds (LObjPid < LRefPid < LCid < LMeta = LFile), releases only locks it
   holds, never reaches [Bad], and returns holding nothing *)
Theorem C08_api_bracketed :
  forall (i : nat) (c : call),
    Br i (api c) [] [] (fun (_ : outcome value) (h : list lock) (_ : knowl) => h = []).
Proof. exact @api_bracketed. Qed.
Print Assumptions C08_api_bracketed.

(* the main theorem: any pool, any schedule, any faults; a configuration from which no thread
   can take any step, normal or faulted, is finished and holds no lock *)
Theorem C08_no_deadlock_no_leak :
  forall (calls : list call) (w0 : world) (c : cfg),
    locks w0 = [] -> refs_typed (fs w0) ->
    reachable (map api calls) w0 c -> gstuck (map api calls) c ->
    finished (map api calls) c = true /\ locks (snd c) = [] /\ refs_typed (fs (snd c)).
Proof. exact @no_deadlock_no_leak. Qed.
Print Assumptions C08_no_deadlock_no_leak.

(* the same when merely no NORMAL step is possible *)
Theorem C08_no_deadlock_no_leak_stuck :
  forall (calls : list call) (w0 : world) (c : cfg),
    locks w0 = [] -> refs_typed (fs w0) ->
    reachable (map api calls) w0 c -> stuck (map api calls) c ->
    finished (map api calls) c = true /\ locks (snd c) = [] /\ refs_typed (fs (snd c)).
Proof. exact @no_deadlock_no_leak_stuck. Qed.
Print Assumptions C08_no_deadlock_no_leak_stuck.

(* the fault-free corollary in the vocabulary of Sched.v (exec / stuck / finished) *)
Theorem C08_no_deadlock_fault_free :
  forall (calls : list call) (w0 : world) (sched : list nat) (c : cfg),
    locks w0 = [] -> refs_typed (fs w0) ->
    exec (map api calls) sched (init_cfg (map api calls) w0) = Some c ->
    stuck (map api calls) c ->
    finished (map api calls) c = true /\ locks (snd c) = [] /\ refs_typed (fs (snd c)).
Proof. exact @no_deadlock_fault_free. Qed.
Print Assumptions C08_no_deadlock_fault_free.

(* progress at every point: while some call has not returned, some thread can move *)
Theorem C08_progress :
  forall (calls : list call) (w0 : world) (c : cfg),
    locks w0 = [] -> refs_typed (fs w0) ->
    reachable (map api calls) w0 c -> finished (map api calls) c = false ->
    exists (i : nat) (c' : cfg), thread_step (map api calls) c i = Some c'.
Proof. exact @progress. Qed.
Print Assumptions C08_progress.

(* every run is finite: no infinite sequence of steps, faulted or not, from any configuration *)
Theorem C08_terminates :
  forall (A : Type) (ps : list (prog A)) (c : cfg), Acc (fun c' c0 : cfg => gstep ps c0 c') c.
Proof. exact @gstep_terminates. Qed.
Print Assumptions C08_terminates.

Theorem C08_no_infinite_run :
  forall (A : Type) (ps : list (prog A)) (f : nat -> cfg),
    ~ (forall n : nat, gstep ps (f n) (f (S n))).
Proof. exact @no_infinite_run. Qed.
Print Assumptions C08_no_infinite_run.

(* hence every call returns: from every reachable configuration the pool runs to completion *)
Theorem C08_runs_to_completion :
  forall (calls : list call) (w0 : world) (c : cfg),
    locks w0 = [] -> refs_typed (fs w0) -> reachable (map api calls) w0 c ->
    exists (sched : list nat) (c' : cfg),
      exec (map api calls) sched c = Some c' /\
      finished (map api calls) c' = true /\ locks (snd c') = [].
Proof. exact @runs_to_completion. Qed.
Print Assumptions C08_runs_to_completion.

(* no normal step possible = no step possible at all (a fault needs an enabled operation) *)
Theorem C08_stuck_gstuck :
  forall (A : Type) (ps : list (prog A)) (c : cfg), stuck ps c -> gstuck ps c.
Proof. exact @stuck_gstuck. Qed.
Print Assumptions C08_stuck_gstuck.

(* afterwards: in the world a pool leaves behind (no lock held, reference files typed) EVERY
   call on EVERY pid / cid / document, run alone, returns — nothing blocks *)
Theorem C08_afterwards_every_call_returns :
  forall (w : world) (c : call),
    locks w = [] -> refs_typed (fs w) ->
    exists (w' : world) (r : outcome value),
      run_seq w (api c) = Some (w', r) /\ locks w' = [] /\ refs_typed (fs w').
Proof. exact @afterwards_every_call_returns. Qed.
Print Assumptions C08_afterwards_every_call_returns.

(* the start-world hypothesis holds for every world built by a sequential history from the
   empty store, and follows from the typing part of the invariant C05 *)
Theorem C08_run_history_empty_ok :
  forall (h : list call) (w' : world) (rs : list (outcome value)),
    run_history empty_world h = Some (w', rs) -> locks w' = [] /\ refs_typed (fs w').
Proof. exact @run_history_empty_ok. Qed.
Print Assumptions C08_run_history_empty_ok.

Theorem C08_well_typed_refs_typed :
  forall m : fmap, well_typed m -> refs_typed m.
Proof. exact @well_typed_refs_typed. Qed.
Print Assumptions C08_well_typed_refs_typed.

(* the model of one operation is sound for the admissible answers: whatever [exec_op] answers is
   admissible, typing and the thread's knowledge are kept, other threads' temp files are not
   touched, and the lock list changes as the discipline expects *)
Theorem C08_exec_op_sound :
  forall (i : nat) (h : list lock) (kn : knowl) (o : op) (w : world) (a : ans) (w' : world),
    refs_typed (fs w) -> KInv i kn (fs w) -> (forall l : lock, In l h -> In l (locks w)) ->
    pre i h kn o -> exec_op i o w = Some (a, w') ->
    ans_ok i kn o a /\
    refs_typed (fs w') /\
    KInv i (next_k kn o a) (fs w') /\
    (forall b : addr, ~ mine i b -> lookup b (fs w') = lookup b (fs w)) /\
    locks_step o (locks w) (locks w').
Proof. exact @exec_op_sound. Qed.
Print Assumptions C08_exec_op_sound.

(* every fault the theorem speaks of delivers an admissible answer *)
Theorem C08_faultable_ans_ok :
  forall (i : nat) (kn : knowl) (o : op), faultable o = true -> ans_ok i kn o (AErr EFault).
Proof. exact @faultable_ans_ok. Qed.
Print Assumptions C08_faultable_ans_ok.

(* ---------- non-vacuity ---------- *)

Definition c08_w : world :=
  match run_history empty_world [CStore (Some 1) SrcPath 7 1 VSzNone VCkNone] with
  | Some (w, _) => w
  | None => empty_world
  end.

Definition c08_calls : list call := [CStore (Some 1) SrcPath 7 1 VSzNone VCkNone; CDelete 1].

Lemma c08_w_ok : locks c08_w = [] /\ refs_typed (fs c08_w).
Proof.
  apply (@run_history_empty_ok [CStore (Some 1) SrcPath 7 1 VSzNone VCkNone] c08_w
           [Val (VMeta 7 1)]).
  vm_compute. reflexivity.
Qed.

(* fault-free: delete takes its first pid lock, the concurrent store of the same pid then runs to its
   end, then delete finishes: both calls have returned, the store is empty, no lock is held *)
Example C08_nonvacuous_fault_free :
  exists (sched : list nat) (c : cfg),
    locks c08_w = [] /\ refs_typed (fs c08_w) /\
    exec (map api c08_calls) sched (init_cfg (map api c08_calls) c08_w) = Some c /\
    stuck (map api c08_calls) c /\
    results (map api c08_calls) c
      = [Some (Exn EStoreObjectForPidAlreadyInProgress); Some (Val VUnit)] /\
    finished (map api c08_calls) c = true /\ locks (snd c) = [].
Proof.
  exists (1 :: 0 :: repeat 1 26).
  destruct (exec (map api c08_calls) (1 :: 0 :: repeat 1 26)
              (init_cfg (map api c08_calls) c08_w)) as [c|] eqn:E;
    [|vm_compute in E; discriminate].
  exists c. destruct c08_w_ok as [H1 H2].
  split; [exact H1|]. split; [exact H2|]. split; [reflexivity|].
  assert (Hs : succs (map api c08_calls) c = []).
  { vm_compute in E. inversion E; subst c. vm_compute. reflexivity. }
  split; [apply succs_nil_stuck; exact Hs|].
  vm_compute in E. inversion E; subst c. vm_compute. auto.
Qed.
Print Assumptions C08_nonvacuous_fault_free.

(* with a fault: delete's read of the pid reference fails (fourth operation of thread 1); delete
   returns OSError, the store then runs and is told the references exist; the configuration is
   reachable in the faulted semantics, nothing can move, both returned, no lock is held *)
Example C08_nonvacuous_faulted :
  exists c : cfg,
    reachable (map api c08_calls) c08_w c /\ gstuck (map api c08_calls) c /\
    results (map api c08_calls) c
      = [Some (Exn EHashStoreRefsAlreadyExists); Some (Exn EOSError)] /\
    finished (map api c08_calls) c = true /\ locks (snd c) = [].
Proof.
  pose (s := [(1, false); (1, false); (1, false); (1, true); (1, false); (1, false)] ++ repeat (0, false) 20).
  destruct (gexec (map api c08_calls) s (init_cfg (map api c08_calls) c08_w)) as [c|] eqn:E;
    [|vm_compute in E; discriminate].
  exists c.
  split; [eapply gexec_reachable; [apply reach_init | exact E]|].
  vm_compute in E. inversion E; subst c. clear E.
  split; [apply stuck_gstuck; apply succs_nil_stuck; vm_compute; reflexivity|].
  vm_compute. auto.
Qed.
Print Assumptions C08_nonvacuous_faulted.

(* the typing hypothesis on the start world is needed: with a pid reference that does not hold a
   cid, retrieve_object reads it, receives an ill-typed answer and stops at [Bad]: nothing can
   move, no lock is held, but the call has not returned *)
Example C08_untyped_world_witness :
  let w := mkWorld [(APidRef 1, CLines [])] [] in
  exists c : cfg,
    locks w = [] /\
    exec (map api [CRetrieve 1]) [0; 0] (init_cfg (map api [CRetrieve 1]) w) = Some c /\
    stuck (map api [CRetrieve 1]) c /\
    finished (map api [CRetrieve 1]) c = false.
Proof.
  intros w.
  destruct (exec (map api [CRetrieve 1]) [0; 0] (init_cfg (map api [CRetrieve 1]) w)) as [c|] eqn:E;
    [|vm_compute in E; discriminate].
  exists c. split; [reflexivity|]. split; [reflexivity|].
  vm_compute in E. inversion E; subst c. clear E.
  split; [apply succs_nil_stuck; vm_compute; reflexivity | vm_compute; reflexivity].
Qed.
Print Assumptions C08_untyped_world_witness.


(* ====================================================================================
   Extension: condition variables modelled faithfully (SchedCV.v)
   ==================================================================================== *)
(* C08cv — extension of C08: the condition variables of the four identifier lists modelled
   faithfully (one condition per list shared by all its identifiers; notify() wakes ONE waiter,
   chosen arbitrarily; a woken waiter re-tests and may go back to sleep), and no wake-up is lost.

   GENERAL theorems (any number of threads, any calls, any schedule, any choice of the woken
   waiter, with or without faults), proved in SchedCV.v on top of Bracket.v; statements are
   restated in full so that a weakened lemma no longer fits.  The semantics is
   [SchedCV.cvstep ps fl] ([fl] = fault steps allowed); see the header of SchedCV.v.
   Scope as for C08: faults are every fault site except flock; the start world holds no lock and
   its reference files are typed. *)


(* no lost wake-up, no deadlock: a reachable configuration in which no step is possible (no
   thread can sleep, execute, notify or fail) has every call returned, no lock held and nobody
   asleep on a condition *)
Theorem C08cv_no_lost_wakeup :
  forall (fl : bool) (calls : list call) (w0 : world) (C : cvcfg),
    locks w0 = [] -> refs_typed (fs w0) ->
    cvreachable (map api calls) fl w0 C -> cvstuck (map api calls) fl C ->
    finished (map api calls) (fst C) = true /\
    locks (snd (fst C)) = [] /\
    nobody_asleep (snd C) /\
    refs_typed (fs (snd (fst C))).
Proof. exact @cv_no_lost_wakeup. Qed.
Print Assumptions C08cv_no_lost_wakeup.

(* every run is finite: no infinite sequence of steps (sleeping and being woken included) *)
Theorem C08cv_terminates :
  forall (A : Type) (ps : list (prog A)) (fl : bool) (C : cvcfg),
    Acc (fun C' C0 : cvcfg => cvstep ps fl C0 C') C.
Proof. exact @cv_terminates. Qed.
Print Assumptions C08cv_terminates.

(* the invariant behind it, for any pool of bracketed programs: a sleeper's next operation is the
   Acquire it sleeps on, and if somebody sleeps on the condition of class k then an identifier of
   class k is held or an Awake thread is about to (re-)test an Acquire of class k *)
Theorem C08cv_invariant :
  forall (A : Type) (ps : list (prog A)) (fl : bool) (w0 : world) (C : cvcfg),
    pool_ok ps -> locks w0 = [] -> refs_typed (fs w0) -> cvreachable ps fl w0 C ->
    Inv ps (fst C) /\ length (snd C) = length ps /\
    (forall (i : nat) (cls : lockcls), nth_error (snd C) i = Some (Asleep cls) ->
       is_list_cls cls = true /\
       exists (x : ident) (k : ans -> prog A),
         residual ps (fst C) i = Some (Vis (Acquire cls x) k)) /\
    (forall (i : nat) (cls : lockcls), nth_error (snd C) i = Some (Asleep cls) ->
       (exists x : ident, In (cls, x) (locks (snd (fst C)))) \/
       (exists (j : nat) (x : ident) (k : ans -> prog A),
          nth_error (snd C) j = Some Awake /\
          residual ps (fst C) j = Some (Vis (Acquire cls x) k))).
Proof. exact @CInv_reachable. Qed.
Print Assumptions C08cv_invariant.

(* relation to Sched.v: without faults a run projects to a schedule of Sched.v (erase the sleep
   steps) ... *)
Theorem C08cv_project :
  forall (A : Type) (ps : list (prog A)) (fl : bool) (w0 : world) (C : cvcfg),
    fl = false -> cvreachable ps fl w0 C ->
    exists sched : list nat, exec ps sched (init_cfg ps w0) = Some (fst C).
Proof. exact @cv_project. Qed.
Print Assumptions C08cv_project.

(* ... with faults, to a run of Bracket.v's [gstep] ... *)
Theorem C08cv_project_faults :
  forall (A : Type) (ps : list (prog A)) (fl : bool) (w0 : world) (C : cvcfg),
    cvreachable ps fl w0 C -> reachable ps w0 (fst C).
Proof. exact @cv_reachable_gstep. Qed.
Print Assumptions C08cv_project_faults.

(* ... and the final configurations of the faithful semantics are final configurations of
   Sched.v reached by a schedule of Sched.v: what the menus establish for every [exec]-reachable
   [stuck] configuration holds for them *)
Theorem C08cv_final_is_sched_final :
  forall (calls : list call) (w0 : world) (C : cvcfg),
    locks w0 = [] -> refs_typed (fs w0) ->
    cvreachable (map api calls) false w0 C -> cvstuck (map api calls) false C ->
    exists sched : list nat,
      exec (map api calls) sched (init_cfg (map api calls) w0) = Some (fst C) /\
      stuck (map api calls) (fst C).
Proof. exact @cv_final_is_sched_final. Qed.
Print Assumptions C08cv_final_is_sched_final.

(* the executable scheduler used for the witnesses below only produces steps of the semantics *)
Theorem C08cv_cvdo_sound :
  forall (A : Type) (ps : list (prog A)) (fl : bool) (m : move) (C C' : cvcfg),
    cvdo ps fl m C = Some C' -> cvstep ps fl C C'.
Proof. exact @cvdo_sound. Qed.
Print Assumptions C08cv_cvdo_sound.

(* ---------- non-vacuity ---------- *)

Definition cv_w : world :=
  match run_history empty_world [CStore (Some 1) SrcPath 7 1 VSzNone VCkNone;
                                 CStore (Some 2) SrcPath 8 1 VSzNone VCkNone] with
  | Some (w, _) => w
  | None => empty_world
  end.

Lemma cv_w_ok : locks cv_w = [] /\ refs_typed (fs cv_w).
Proof.
  apply (@run_history_empty_ok [CStore (Some 1) SrcPath 7 1 VSzNone VCkNone;
                                CStore (Some 2) SrcPath 8 1 VSzNone VCkNone] cv_w
           [Val (VMeta 7 1); Val (VMeta 8 1)]).
  vm_compute. reflexivity.
Qed.

Definition cv_calls : list call := [CDelete 1; CDelete 2; CDelete 1; CDelete 2].

(* The dangerous scenario really occurs, and resolves.  Threads 0 and 1 take the object-pid
   entries of pids 1 and 2; threads 2 and 3 go to sleep on the ONE condition of that list,
   waiting for pid 1 and pid 2.  Thread 0 completes; its notify wakes thread 3 — the WRONG waiter:
   pid 2 is still held, so thread 3 re-tests and sleeps again.  In the configuration [Cmid] thread
   2 is asleep although ITS identifier (pid 1) is free, and the notify that was meant for it has
   been consumed.  It is not stranded: pid 2 is still held, thread 1 completes and notifies;
   thread 2 is woken, runs, notifies; thread 3 is woken and runs.  All four calls return, no lock
   is held, nobody is asleep. *)
Example C08cv_wrong_waiter_woken :
  exists Cmid Cend : cvcfg,
    locks cv_w = [] /\ refs_typed (fs cv_w) /\
    cvreachable (map api cv_calls) false cv_w Cmid /\
    snd Cmid = [Awake; Awake; Asleep LObjPid; Asleep LObjPid] /\
    locks (snd (fst Cmid)) = [(LObjPid, IPid 2)] /\
    cvreachable (map api cv_calls) false cv_w Cend /\
    cvstuck (map api cv_calls) false Cend /\
    results (map api cv_calls) (fst Cend)
      = [Some (Val VUnit); Some (Val VUnit);
         Some (Exn EPidRefsDoesNotExist); Some (Exn EPidRefsDoesNotExist)] /\
    finished (map api cv_calls) (fst Cend) = true /\
    locks (snd (fst Cend)) = [] /\ snd Cend = [Awake; Awake; Awake; Awake].
Proof.
  pose (ps := map api cv_calls).
  pose (ms1 := [MStep 0 []; MStep 1 []; MStep 2 []; MStep 3 []]
               ++ repeat (MStep 0 [3]) 26 ++ [MStep 3 []]).
  pose (ms2 := repeat (MStep 1 [2]) 26 ++ repeat (MStep 2 []) 5 ++ repeat (MStep 3 []) 5).
  destruct (cvrun ps false ms1 (cvinit ps cv_w)) as [Cmid|] eqn:E1;
    [|vm_compute in E1; discriminate].
  destruct (cvrun ps false ms2 Cmid) as [Cend|] eqn:E2;
    [|vm_compute in E1; inversion E1; subst Cmid; vm_compute in E2; discriminate].
  exists Cmid, Cend. destruct cv_w_ok as [H1 H2].
  assert (R1 : cvreachable ps false cv_w Cmid).
  { eapply cvrun_reachable; [apply cvr_init | exact E1]. }
  assert (R2 : cvreachable ps false cv_w Cend).
  { eapply cvrun_reachable; [exact R1 | exact E2]. }
  split; [exact H1|]. split; [exact H2|]. split; [exact R1|].
  vm_compute in E1. inversion E1; subst Cmid. clear E1 R1.
  split; [reflexivity|]. split; [reflexivity|]. split; [exact R2|].
  vm_compute in E2. inversion E2; subst Cend. clear E2 R2.
  split; [apply finished_cvstuck; vm_compute; reflexivity|].
  vm_compute. auto.
Qed.
Print Assumptions C08cv_wrong_waiter_woken.

(* with a fault: two deletes of the same pid; thread 1 sleeps on the object-pid condition; thread
   0's read of the pid reference fails, it returns OSError, its releases notify: nobody sleeps on
   the reference-pid condition, thread 1 is woken by the object-pid one, runs and completes *)
Example C08cv_faulted :
  exists C : cvcfg,
    cvreachable (map api [CDelete 1; CDelete 1]) true cv_w C /\
    cvstuck (map api [CDelete 1; CDelete 1]) true C /\
    results (map api [CDelete 1; CDelete 1]) (fst C) = [Some (Exn EOSError); Some (Val VUnit)] /\
    finished (map api [CDelete 1; CDelete 1]) (fst C) = true /\
    locks (snd (fst C)) = [] /\ snd C = [Awake; Awake].
Proof.
  pose (ps := map api [CDelete 1; CDelete 1]).
  pose (ms := [MStep 0 []; MStep 1 []; MStep 0 []; MStep 0 []; MFault 0; MStep 0 []; MStep 0 []]
              ++ repeat (MStep 1 []) 27).
  destruct (cvrun ps true ms (cvinit ps cv_w)) as [C|] eqn:E;
    [|vm_compute in E; discriminate].
  exists C.
  split; [eapply cvrun_reachable; [apply cvr_init | exact E]|].
  vm_compute in E. inversion E; subst C. clear E.
  split; [apply finished_cvstuck; vm_compute; reflexivity|].
  vm_compute. auto.
Qed.
Print Assumptions C08cv_faulted.
