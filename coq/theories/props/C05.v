(* C05 — reference bookkeeping is exact after every completed call.  (under construction) *)
From HS Require Import Base PyVal FS Ops Codec.
From Coq Require Import String.
Open Scope string_scope.

(* D3 on the un-repaired handler: tag to a cid whose object does not exist, then delete. *)
Theorem C05_unfixed_refuted :
  run_line "seq | tag 1 100 ; delu 1" = "ok:unit ; exn:FileNotFoundError | {R100=L1 XP1=C100}[]".
Proof. vm_compute. reflexivity. Qed.
Print Assumptions C05_unfixed_refuted.

Theorem C05_repaired_witness :
  run_line "seq | tag 1 100 ; del 1" = "ok:unit ; ok:unit | {}[]".
Proof. vm_compute. reflexivity. Qed.
Print Assumptions C05_repaired_witness.
