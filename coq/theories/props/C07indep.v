(* C07indep — independence (C07 / C12 beyond the menus): calls on unrelated identifiers do not
   interfere, for ANY number of threads and ANY interleaving.  GENERAL theorems proved in Indep.v;
   statements are restated in full so that a weakened lemma no longer fits.

   Footprint of call number i of the pool, relative to the start world w0 ([fp_addr], [fp_lock]):
   with p its pid ([call_pid]) and cs its cids ([fp_cids] = the cids it names — the content it
   stores, the cid it is given — and the cid its pid is bound to in w0),
     addresses: APidRef p, every AMeta p f, AObj c and ACidRef c for c in cs, every temp file of
                thread i, and the deletion markers (ADel) of all these;
     locks:     (LObjPid | LRefPid, IPid p), (LCid, ICid c) for c in cs, (LMeta | LFile, IDoc a)
                for a in the address footprint.
   Two calls are independent ([fp_disj]) when their pids differ and their cid sets are disjoint;
   [indep w0 calls] asks this of every pair, [indepb] decides it.  (Footprints are per pid: two
   metadata calls on the same pid count as dependent.)
   [fsorted m]: the file map is sorted by address — true of every map the store builds. *)
From HS Require Import Base PyVal FS Ops Sched Spec Bracket Indep.

(* THE THEOREM: every call returns with the outcome it has when run ALONE from the start state
   (as the same thread number); the final file map agrees with that solo run on the call's
   footprint and with the start state outside all footprints; a solo run changes nothing outside
   its footprint *)
Theorem C07_indep :
  forall (calls : list call) (w0 : world) (sched : list nat) (c : cfg),
    Spec.Inv w0 -> fsorted (fs w0) -> indep w0 calls ->
    exec (map api calls) sched (init_cfg (map api calls) w0) = Some c ->
    stuck (map api calls) c ->
    finished (map api calls) c = true /\ locks (snd c) = [] /\
    (forall (i : nat) (ci : call), nth_error calls i = Some ci ->
       exists (wi : world) (ri : outcome value),
         run_as i w0 (api ci) = Some (wi, ri) /\
         thread_result (map api calls) c i = Some ri /\
         (forall a : addr, fp_addr w0 calls i a = true -> lookup a (fs (snd c)) = lookup a (fs wi)) /\
         (forall a : addr, fp_addr w0 calls i a = false -> lookup a (fs wi) = lookup a (fs w0))) /\
    (forall a : addr, (forall i : nat, i < length calls -> fp_addr w0 calls i a = false) ->
                      lookup a (fs (snd c)) = lookup a (fs w0)).
Proof. exact @indep_calls. Qed.
Print Assumptions C07_indep.

(* the same as a named statement *)
Theorem C07_indep_statement_holds : C07_indep_statement.
Proof. exact C07_indep_holds. Qed.
Print Assumptions C07_indep_statement_holds.

(* linearizability of independent pools, in EVERY order: the final file map has the same content
   at every address (Spec.fs_eq; the Prop counterpart of Lin.lin_ok's fmap_eqb over perms) as the
   one obtained by running the calls one after the other in the order ord — any permutation of
   the thread numbers — each as its own thread number, and every call reports the outcome it has
   in that sequential run *)
Theorem C07_indep_linearizable :
  forall (calls : list call) (w0 : world) (sched : list nat) (c : cfg) (ord : list nat),
    Spec.Inv w0 -> fsorted (fs w0) -> indep w0 calls ->
    exec (map api calls) sched (init_cfg (map api calls) w0) = Some c ->
    stuck (map api calls) c ->
    NoDup ord -> (forall i : nat, In i ord <-> i < length calls) ->
    exists (w' : world) (rs : list (outcome value)),
      seq_run calls ord w0 = Some (w', rs) /\
      fs_eq (fs (snd c)) (fs w') /\
      map (thread_result (map api calls) c) ord = map Some rs.
Proof. exact @indep_linearizable. Qed.
Print Assumptions C07_indep_linearizable.

(* every API program, for all answers of the right shape, touches only the footprint of its call *)
Theorem C07_api_local :
  forall (t : nat) (po : option pid) (cs : list cid) (c : call),
    (forall p : pid, call_pid c = Some p -> pid_in po p = true) ->
    (forall x : cid, In x (call_cids c) -> cid_in cs x = true) ->
    Lc t (inF t po cs) (inL t po cs) (cid_in cs) (api c) (fun _ : outcome value => True).
Proof. exact @api_local. Qed.
Print Assumptions C07_api_local.

(* an operation local to a footprint commutes with the projection of the world to it *)
Theorem C07_exec_proj :
  forall (t : nat) (F : addr -> bool) (Lk : lock -> bool) (cok : fcontent -> Prop) (o : op) (w : world),
    fsorted (fs w) -> op_local t F Lk cok o ->
    exec_op t o (pw F Lk w) =
    match exec_op t o w with Some (a, w') => Some (a, pw F Lk w') | None => None end.
Proof. exact @exec_proj. Qed.
Print Assumptions C07_exec_proj.

(* independence is decidable *)
Theorem C07_indepb_sound :
  forall (w0 : world) (calls : list call), indepb w0 calls = true -> indep w0 calls.
Proof. exact @indepb_sound. Qed.
Print Assumptions C07_indepb_sound.

(* the start-state hypotheses hold of every state reached by a sequential history *)
Theorem C07_run_history_empty_start :
  forall (h : list call) (w' : world) (rs : list (outcome value)),
    Forall Refine.proper_call h -> run_history empty_world h = Some (w', rs) ->
    Spec.Inv w' /\ fsorted (fs w').
Proof. exact @run_history_empty_start. Qed.
Print Assumptions C07_run_history_empty_start.

(* ---------- non-vacuity: three independent calls, interleaved round-robin ---------- *)

Definition ci_w : world :=
  match run_history empty_world [CStore (Some 2) SrcPath 8 1 VSzNone VCkNone] with
  | Some (w, _) => w
  | None => empty_world
  end.

(* store pid 1 with content 7  ||  delete pid 2 (bound to content 8)  ||  store metadata of pid 3 *)
Definition ci_calls : list call :=
  [CStore (Some 1) SrcPath 7 1 VSzNone VCkNone; CDelete 2; CStoreMeta 3 0 SrcPath 5 1].

Fixpoint ci_rr (n0 n1 n2 fuel : nat) : list nat :=
  match fuel with
  | 0 => []
  | S f =>
      (match n0 with 0 => [] | _ => [0] end) ++ (match n1 with 0 => [] | _ => [1] end) ++
      (match n2 with 0 => [] | _ => [2] end) ++ ci_rr (pred n0) (pred n1) (pred n2) f
  end.

Example C07_indep_nonvacuous :
  exists c : cfg,
    Spec.Inv ci_w /\ fsorted (fs ci_w) /\ indep ci_w ci_calls /\
    exec (map api ci_calls) (ci_rr 29 27 7 30) (init_cfg (map api ci_calls) ci_w) = Some c /\
    stuck (map api ci_calls) c /\
    results (map api ci_calls) c
      = [Some (Val (VMeta 7 1)); Some (Val VUnit); Some (Val (VPath (AMeta 3 0)))] /\
    fs (snd c) = [(AObj 7, CData 7 1 1); (APidRef 1, CCid 7); (ACidRef 7, CLines [1]);
                  (AMeta 3 0, CData 5 1 1)] /\
    run_as 0 ci_w (api (CStore (Some 1) SrcPath 7 1 VSzNone VCkNone)) <> None /\
    run_as 1 ci_w (api (CDelete 2)) <> None /\
    run_as 2 ci_w (api (CStoreMeta 3 0 SrcPath 5 1)) <> None.
Proof.
  assert (Hstart : Spec.Inv ci_w /\ fsorted (fs ci_w)).
  { apply (@run_history_empty_start [CStore (Some 2) SrcPath 8 1 VSzNone VCkNone] ci_w
             [Val (VMeta 8 1)]).
    - repeat constructor.
    - vm_compute. reflexivity. }
  destruct (exec (map api ci_calls) (ci_rr 29 27 7 30) (init_cfg (map api ci_calls) ci_w))
    as [c|] eqn:E; [|vm_compute in E; discriminate].
  exists c. destruct Hstart as [H1 H2].
  split; [exact H1|]. split; [exact H2|].
  split; [apply indepb_sound; vm_compute; reflexivity|].
  split; [reflexivity|].
  vm_compute in E. inversion E; subst c. clear E.
  split; [apply succs_nil_stuck; vm_compute; reflexivity|].
  split; [vm_compute; reflexivity|]. split; [vm_compute; reflexivity|].
  repeat split; vm_compute; discriminate.
Qed.
Print Assumptions C07_indep_nonvacuous.
