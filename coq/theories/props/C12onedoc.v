(* C12onedoc — the CONFLICTING case of C12 in general form: any number of WRITERS of one metadata
   document (store_metadata p f …, delete_metadata p (Some f)), any start world without held locks
   and with typed reference files, ANY schedule.  GENERAL theorems proved in OneDoc.v; statements
   are restated in full so that a weakened lemma no longer fits.

   Each such call takes the document lock (LMeta, IDoc (AMeta p f)) with its first operation and
   gives it back with its last one, so every schedule that [exec] accepts runs the calls one after
   the other in the order [acq_order sched] in which they acquire the lock; the final WORLD (files
   and lock list, [snd c = w']) and every outcome are exactly those of [Indep.seq_run] in that
   order (each call alone, as its own thread number), the calls rejected by the argument checks —
   they perform no operation — last ([inert]). *)
From HS Require Import Base PyVal FS Ops Sched Spec SeqLemmas Bracket Indep IndepMeta OneDoc.

Theorem C12_one_doc_writers_linearizable :
  forall (p : pid) (f : fmt) (calls : list call) (w0 : world) (sched : list nat) (c : cfg),
    locks w0 = [] -> refs_typed (fs w0) ->
    (forall ci : call, In ci calls ->
       match ci with
       | CStoreMeta p' f' _ _ _ => p' = p /\ f' = f
       | CDelMeta p' (Some f') => p' = p /\ f' = f
       | CRejected _ => True
       | _ => False
       end) ->
    exec (map api calls) sched (init_cfg (map api calls) w0) = Some c ->
    stuck (map api calls) c ->
    finished (map api calls) c = true /\ locks (snd c) = [] /\
    exists (w' : world) (rs : list (outcome value)),
      let ord :=
        fold_left (fun (l : list nat) (j : nat) => if existsb (Nat.eqb j) l then l else l ++ [j]) sched []
        ++ filter (fun i : nat => negb (existsb (Nat.eqb i)
                     (fold_left (fun (l : list nat) (j : nat) => if existsb (Nat.eqb j) l then l else l ++ [j])
                                sched [])))
                  (seq 0 (length calls)) in
      NoDup ord /\ (forall i : nat, In i ord <-> i < length calls) /\
      seq_run calls ord w0 = Some (w', rs) /\
      snd c = w' /\
      map (thread_result (map api calls) c) ord = map Some rs.
Proof. exact one_doc_writers_linearizable. Qed.
Print Assumptions C12_one_doc_writers_linearizable.

(* from a world satisfying the store invariant, in the form of C12_gindep_linearizable *)
Theorem C12_one_doc_writers_linearizable_inv :
  forall (p : pid) (f : fmt) (calls : list call) (w0 : world) (sched : list nat) (c : cfg),
    Spec.Inv w0 ->
    (forall ci : call, In ci calls -> one_doc_call p f ci) ->
    exec (map api calls) sched (init_cfg (map api calls) w0) = Some c ->
    stuck (map api calls) c ->
    finished (map api calls) c = true /\ locks (snd c) = [] /\
    exists (ord : list nat) (w' : world) (rs : list (outcome value)),
      NoDup ord /\ (forall i : nat, In i ord <-> i < length calls) /\
      seq_run calls ord w0 = Some (w', rs) /\
      fs_eq (fs (snd c)) (fs w') /\
      map (thread_result (map api calls) c) ord = map Some rs.
Proof. exact one_doc_writers_linearizable_inv. Qed.
Print Assumptions C12_one_doc_writers_linearizable_inv.

(* the pool theorem behind it: programs that take ONE lock L with their first operation, perform
   neither Acquire nor Release until they give L back, and return at once after that *)
Theorem C12_one_lock_pool :
  forall (A : Type) (ps : list (prog A)) (L : lock) (w0 : world),
    (forall (i : nat) (p : prog A), nth_error ps i = Some p ->
       (exists r : A, p = Ret r) \/
       (exists k : ans -> prog A, p = Vis (Acquire (fst L) (snd L)) k /\ forall a : ans, CS L (k a))) ->
    locks w0 = [] ->
    forall (sched : list nat) (c : cfg),
      pool_ok ps -> refs_typed (fs w0) ->
      exec ps sched (init_cfg ps w0) = Some c -> stuck ps c ->
      finished ps c = true /\ locks (snd c) = [] /\
      exists (w' : world) (rs : list A),
        let ord := acq_order sched ++ inert (length ps) sched in
        NoDup ord /\ (forall i : nat, In i ord <-> i < length ps) /\
        seq_runp A ps ord w0 = Some (w', rs) /\
        snd c = w' /\ map (thread_result ps c) ord = map Some rs.
Proof. exact one_lock_pool. Qed.
Print Assumptions C12_one_lock_pool.

(* store_metadata and single-format delete_metadata have that shape, for all arguments *)
Theorem C12_writer_store_metadata :
  forall (p : pid) (f : fmt) (s : src) (v n : nat),
    exists k : ans -> prog (outcome value),
      api (CStoreMeta p f s v n) = Vis (Acquire LMeta (IDoc (AMeta p f))) k /\
      forall a : ans, CS (LMeta, IDoc (AMeta p f)) (k a).
Proof. exact writer_store_metadata. Qed.
Print Assumptions C12_writer_store_metadata.

Theorem C12_writer_delete_metadata :
  forall (p : pid) (f : fmt),
    exists k : ans -> prog (outcome value),
      api (CDelMeta p (Some f)) = Vis (Acquire LMeta (IDoc (AMeta p f))) k /\
      forall a : ans, CS (LMeta, IDoc (AMeta p f)) (k a).
Proof. exact writer_delete_metadata. Qed.
Print Assumptions C12_writer_delete_metadata.

(* the document afterwards: the calls' effects on the document, applied in acquisition order; a
   store with a readable source and a delete ignore what was there before, so the LAST of them to
   acquire the lock decides *)
Theorem C12_one_doc_last_writer_wins :
  forall (p : pid) (f : fmt) (calls : list call) (w0 : world) (sched : list nat) (c : cfg),
    locks w0 = [] -> refs_typed (fs w0) ->
    (forall ci : call, In ci calls -> one_doc_call p f ci) ->
    exec (map api calls) sched (init_cfg (map api calls) w0) = Some c ->
    stuck (map api calls) c ->
    lookup (AMeta p f) (fs (snd c)) =
    fold_left
      (fun (d : option fcontent) (i : nat) =>
         match callat calls i with
         | CStoreMeta _ _ SrcMissing _ _ => d
         | CStoreMeta _ _ _ v n => Some (CData v n n)
         | CDelMeta _ (Some _) => None
         | _ => d
         end)
      (acq_order sched ++ inert (length calls) sched) (lookup (AMeta p f) (fs w0)).
Proof. exact one_doc_last_writer_wins. Qed.
Print Assumptions C12_one_doc_last_writer_wins.

(* ---------- non-vacuity: three store_metadata calls of different versions on document (1,5) ---------- *)

(* the document exists, version 3 *)
Definition od_w : world :=
  match run_history empty_world [CStoreMeta 1 5 SrcPath 3 1] with
  | Some (w, _) => w
  | None => empty_world
  end.

(* version 7 (one chunk)  ||  version 8 (two chunks)  ||  version 9 (from a stream) *)
Definition od_calls : list call :=
  [CStoreMeta 1 5 SrcPath 7 1; CStoreMeta 1 5 SrcPath 8 2; CStoreMeta 1 5 SrcStream 9 1].

(* thread 1 acquires first, then thread 2, then thread 0 *)
Definition od_sched : list nat := repeat 1 8 ++ repeat 2 6 ++ repeat 0 7.

Example C12_onedoc_nonvacuous :
  exists c : cfg,
    locks od_w = [] /\ refs_typed (fs od_w) /\ Spec.Inv od_w /\
    (forall ci : call, In ci od_calls -> one_doc_call 1 5 ci) /\
    exec (map api od_calls) od_sched (init_cfg (map api od_calls) od_w) = Some c /\
    stuck (map api od_calls) c /\
    acq_order od_sched = [1; 2; 0] /\ inert (length od_calls) od_sched = [] /\
    results (map api od_calls) c
      = [Some (Val (VPath (AMeta 1 5))); Some (Val (VPath (AMeta 1 5))); Some (Val (VPath (AMeta 1 5)))] /\
    (* the last writer to acquire the lock (thread 0, version 7) wins; no temp file, no lock left *)
    snd c = mkWorld [(AMeta 1 5, CData 7 1 1)] [] /\
    seq_run od_calls [1; 2; 0] od_w
      = Some (snd c, [Val (VPath (AMeta 1 5)); Val (VPath (AMeta 1 5)); Val (VPath (AMeta 1 5))]) /\
    (* a second writer cannot start while the first is inside: [exec] rejects the schedule *)
    exec (map api od_calls) [1; 0] (init_cfg (map api od_calls) od_w) = None.
Proof.
  assert (Hstart : Spec.Inv od_w /\ fsorted (fs od_w)).
  { apply (@run_history_empty_start [CStoreMeta 1 5 SrcPath 3 1] od_w [Val (VPath (AMeta 1 5))]).
    - repeat constructor.
    - vm_compute. reflexivity. }
  destruct Hstart as [HI _].
  destruct (exec (map api od_calls) od_sched (init_cfg (map api od_calls) od_w)) as [c|] eqn:E;
    [|vm_compute in E; discriminate].
  exists c.
  split; [destruct HI; assumption|].
  split; [apply well_typed_refs_typed; apply InvF_wt; destruct HI; assumption|].
  split; [exact HI|].
  split.
  { intros ci Hci. simpl in Hci.
    destruct Hci as [<-|[<-|[<-|[]]]]; simpl; auto. }
  split; [reflexivity|].
  vm_compute in E. inversion E; subst c. clear E.
  split; [apply succs_nil_stuck; vm_compute; reflexivity|].
  repeat split; vm_compute; reflexivity.
Qed.
Print Assumptions C12_onedoc_nonvacuous.
