(* C12readers — C12 in general form for pools with READERS: any number of store_metadata p f …
   and retrieve_metadata p f calls on ONE metadata document, any start world without held locks,
   ANY schedule.  GENERAL theorems proved in OneDocReaders.v; statements are restated in full so
   that a weakened lemma no longer fits.

   retrieve_metadata takes no lock (two existence tests, then the open-and-read); none of its
   operations changes the world.  A store_metadata call changes the document with ONE operation,
   the Rename of its complete temp file onto it, inside its critical section.  [lin_order]: each
   thread at its first Rename / Remove operation if it performs one, otherwise at its last
   operation — writers at their commit point, readers at their Read (or at the test that said
   "absent"); the calls that perform no operation last ([rest_of]).

   Pools that also contain delete_metadata(pid, format) (the reader's FileNotFoundError of family
   R, LinNF.v): props/C12deletes.v (OneDocDel.v). *)
From HS Require Import Base PyVal FS Ops Sched Spec SeqLemmas Bracket Indep IndepMeta OneDoc OneDocReaders.

(* (1) a reader never sees a partial document — in EVERY configuration any schedule reaches *)
Theorem C12_readers_never_partial :
  forall (p : pid) (f : fmt) (calls : list call) (w0 : world) (sched : list nat) (c : cfg),
    locks w0 = [] ->
    (forall ci : call, In ci calls ->
       match ci with
       | CStoreMeta p' f' _ _ _ => p' = p /\ f' = f
       | CRetrMeta p' f' => p' = p /\ f' = f
       | CRejected _ => True
       | _ => False
       end) ->
    exec (map api calls) sched (init_cfg (map api calls) w0) = Some c ->
    forall (j : nat) (r : outcome value),
      nth_error calls j = Some (CRetrMeta p f) ->
      thread_result (map api calls) c j = Some r ->
      r = Exn EValueError \/
      exists d : fcontent, r = Val (VBytes d) /\
        (lookup (AMeta p f) (fs w0) = Some d \/
         exists (s : src) (v n : nat),
           In (CStoreMeta p f s v n) calls /\ s <> SrcMissing /\ d = CData v n n).
Proof. exact readers_never_partial. Qed.
Print Assumptions C12_readers_never_partial.

(* the document itself: the start document or a complete stored version, at every moment *)
Theorem C12_document_never_partial :
  forall (p : pid) (f : fmt) (calls : list call) (w0 : world) (sched : list nat) (c : cfg),
    locks w0 = [] ->
    (forall ci : call, In ci calls -> wr_call p f ci) ->
    exec (map api calls) sched (init_cfg (map api calls) w0) = Some c ->
    lookup (AMeta p f) (fs (snd c)) = lookup (AMeta p f) (fs w0) \/
    exists (s : src) (v n : nat),
      In (CStoreMeta p f s v n) calls /\ s <> SrcMissing /\
      lookup (AMeta p f) (fs (snd c)) = Some (CData v n n).
Proof. exact document_never_partial. Qed.
Print Assumptions C12_document_never_partial.

(* (2) writers and readers are linearizable, under every schedule *)
Theorem C12_one_doc_writers_readers_linearizable :
  forall (p : pid) (f : fmt) (calls : list call) (w0 : world) (sched : list nat) (c : cfg),
    locks w0 = [] -> refs_typed (fs w0) ->
    (forall ci : call, In ci calls ->
       match ci with
       | CStoreMeta p' f' _ _ _ => p' = p /\ f' = f
       | CRetrMeta p' f' => p' = p /\ f' = f
       | CRejected _ => True
       | _ => False
       end) ->
    exec (map api calls) sched (init_cfg (map api calls) w0) = Some c ->
    stuck (map api calls) c ->
    finished (map api calls) c = true /\ locks (snd c) = [] /\
    exists (w' : world) (rs : list (outcome value)),
      let lin := lin_order (map api calls) w0 sched in
      let ord := lin ++ filter (fun i : nat => negb (existsb (Nat.eqb i) lin)) (seq 0 (length calls)) in
      NoDup ord /\ (forall i : nat, In i ord <-> i < length calls) /\
      seq_run calls ord w0 = Some (w', rs) /\
      snd c = w' /\
      map (thread_result (map api calls) c) ord = map Some rs.
Proof. exact one_doc_writers_readers_linearizable. Qed.
Print Assumptions C12_one_doc_writers_readers_linearizable.

(* the order, spelled out: replay the schedule; thread j joins the order at the step at which it
   performs a Rename / Remove, or its last operation, unless it is in it already *)
Theorem C12_lin_order_unfold :
  forall (ps : list (prog (outcome value))) (w0 : world) (sched : list nat),
    lin_order ps w0 sched =
    (fix go (sched : list nat) (c : cfg) (l : list nat) : list nat :=
       match sched with
       | [] => l
       | j :: s =>
           match thread_step ps c j with
           | Some c' =>
               go s c'
                  (if ((match residual ps c j with
                        | Some (Vis (Rename _ _) _) | Some (Vis (Remove _) _) => true
                        | _ => false
                        end)
                       || (match thread_result ps c' j with Some _ => true | None => false end))
                      && negb (existsb (Nat.eqb j) l)
                   then l ++ [j] else l)
           | None => l
           end
       end) sched (init_cfg ps w0) [].
Proof.
  intros ps w0 sched.
  assert (Hn : forall (c c' : cfg) (j : nat) (l : list nat),
            lnote ps c c' j l =
            if ((match residual ps c j with
                 | Some (Vis (Rename _ _) _) | Some (Vis (Remove _) _) => true
                 | _ => false
                 end)
                || (match thread_result ps c' j with Some _ => true | None => false end))
               && negb (existsb (Nat.eqb j) l)
            then l ++ [j] else l).
  { intros c c' j l. unfold lnote, commit_now.
    destruct (residual ps c j) as [[r|o k|]|]; auto; destruct o; auto. }
  unfold lin_order.
  match goal with |- _ = ?g sched (init_cfg ps w0) [] => set (G := g) end.
  generalize (init_cfg ps w0) (@nil nat).
  induction sched as [|j s IH]; intros c l; subst G; simpl; auto.
Qed.
Print Assumptions C12_lin_order_unfold.

(* the pool theorem behind both: writers are ANY programs that Acquire the document lock and then
   satisfy [Pre] (no lock operation and no change of the document before the ONE Rename / Remove,
   which makes the document a value of Vn and is followed by the Release at once) *)
Theorem C12_writers_readers_pool :
  forall (p : pid) (f : fmt) (Vn : option fcontent -> Prop),
    (forall d : option fcontent, Vn d -> d <> None) ->
    forall (ps : list (prog (outcome value))) (w0 : world),
      (forall (i : nat) (q : prog (outcome value)), nth_error ps i = Some q ->
         (exists r : outcome value, q = Ret r) \/ q = retrieve_metadata p f \/
         (exists k : ans -> prog (outcome value),
            q = Vis (Acquire LMeta (IDoc (AMeta p f))) k /\
            forall w : world, Pre p f Vn i (k AUnit) w)) ->
      locks w0 = [] ->
      forall (sched : list nat) (c : cfg),
        pool_ok ps -> refs_typed (fs w0) ->
        exec ps sched (init_cfg ps w0) = Some c -> stuck ps c ->
        finished ps c = true /\ locks (snd c) = [] /\
        (forall (j : nat) (r : outcome value),
           nth_error ps j = Some (retrieve_metadata p f) -> thread_result ps c j = Some r ->
           r = Exn EValueError \/
           exists d : fcontent, r = Val (VBytes d) /\
             (Some d = lookup (AMeta p f) (fs w0) \/ Vn (Some d))) /\
        exists (w' : world) (rs : list (outcome value)),
          let ord := lin_order ps w0 sched ++ rest_of (length ps) (lin_order ps w0 sched) in
          NoDup ord /\ (forall i : nat, In i ord <-> i < length ps) /\
          seq_runp (outcome value) ps ord w0 = Some (w', rs) /\
          snd c = w' /\ map (thread_result ps c) ord = map Some rs.
Proof. exact writers_readers_pool. Qed.
Print Assumptions C12_writers_readers_pool.

(* store_metadata has that shape, for all arguments, from every world *)
Theorem C12_store_metadata_pre :
  forall (p : pid) (f : fmt) (Vn : option fcontent -> Prop) (s : src) (v n : nat),
    (s <> SrcMissing -> Vn (Some (CData v n n))) ->
    exists k : ans -> prog (outcome value),
      api (CStoreMeta p f s v n) = Vis (Acquire LMeta (IDoc (AMeta p f))) k /\
      forall (t : nat) (w : world), Pre p f Vn t (k AUnit) w.
Proof. exact store_metadata_pre. Qed.
Print Assumptions C12_store_metadata_pre.

(* ---------- non-vacuity: two writers (versions 7 and 8) and a reader of document (1,5) ---------- *)

(* the document exists, version 3 *)
Definition rd_w : world :=
  match run_history empty_world [CStoreMeta 1 5 SrcPath 3 1] with
  | Some (w, _) => w
  | None => empty_world
  end.

Definition rd_calls : list call :=
  [CStoreMeta 1 5 SrcPath 7 1; CStoreMeta 1 5 SrcPath 8 2; CRetrMeta 1 5].

(* the reader tests, writer 0 runs up to and including its Rename (6 operations), the reader tests
   again and READS — after the first Rename, before writer 0 has even given the lock back —,
   writer 0 releases, writer 1 runs (8 operations, the second Rename among them) *)
Definition rd_sched : list nat := [2] ++ repeat 0 6 ++ [2; 2; 0] ++ repeat 1 8.

(* the reader is done before any Rename: it reads the start version *)
Definition rd_sched_early : list nat := [2; 0; 0; 2; 0; 2] ++ repeat 0 4 ++ repeat 1 8.

Example C12_readers_nonvacuous :
  exists c c2 : cfg,
    locks rd_w = [] /\ refs_typed (fs rd_w) /\
    (forall ci : call, In ci rd_calls -> wr_call 1 5 ci) /\
    exec (map api rd_calls) rd_sched (init_cfg (map api rd_calls) rd_w) = Some c /\
    stuck (map api rd_calls) c /\
    lin_order (map api rd_calls) rd_w rd_sched = [0; 2; 1] /\
    results (map api rd_calls) c
      = [Some (Val (VPath (AMeta 1 5))); Some (Val (VPath (AMeta 1 5)));
         Some (Val (VBytes (CData 7 1 1)))] /\
    snd c = mkWorld [(AMeta 1 5, CData 8 2 2)] [] /\
    seq_run rd_calls [0; 2; 1] rd_w
      = Some (snd c, [Val (VPath (AMeta 1 5)); Val (VBytes (CData 7 1 1)); Val (VPath (AMeta 1 5))]) /\
    (* the other schedule: the reader first *)
    exec (map api rd_calls) rd_sched_early (init_cfg (map api rd_calls) rd_w) = Some c2 /\
    stuck (map api rd_calls) c2 /\
    lin_order (map api rd_calls) rd_w rd_sched_early = [2; 0; 1] /\
    thread_result (map api rd_calls) c2 2 = Some (Val (VBytes (CData 3 1 1))).
Proof.
  assert (Hstart : Spec.Inv rd_w /\ fsorted (fs rd_w)).
  { apply (@run_history_empty_start [CStoreMeta 1 5 SrcPath 3 1] rd_w [Val (VPath (AMeta 1 5))]).
    - repeat constructor.
    - vm_compute. reflexivity. }
  destruct Hstart as [HI _].
  destruct (exec (map api rd_calls) rd_sched (init_cfg (map api rd_calls) rd_w)) as [c|] eqn:E;
    [|vm_compute in E; discriminate].
  destruct (exec (map api rd_calls) rd_sched_early (init_cfg (map api rd_calls) rd_w)) as [c2|] eqn:E2;
    [|vm_compute in E2; discriminate].
  exists c, c2.
  split; [destruct HI; assumption|].
  split; [apply well_typed_refs_typed; apply InvF_wt; destruct HI; assumption|].
  split.
  { intros ci Hci. simpl in Hci. destruct Hci as [<-|[<-|[<-|[]]]]; simpl; auto. }
  split; [reflexivity|].
  vm_compute in E. inversion E; subst c. clear E.
  vm_compute in E2. inversion E2; subst c2. clear E2.
  split; [apply succs_nil_stuck; vm_compute; reflexivity|].
  split; [vm_compute; reflexivity|]. split; [vm_compute; reflexivity|].
  split; [vm_compute; reflexivity|]. split; [vm_compute; reflexivity|].
  split; [reflexivity|].
  split; [apply succs_nil_stuck; vm_compute; reflexivity|].
  split; vm_compute; reflexivity.
Qed.
Print Assumptions C12_readers_nonvacuous.
