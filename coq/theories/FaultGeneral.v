(* FaultGeneral.v — property C13 (I/O faults) for ALL start states, ALL calls, ALL fault plans.

   Fault semantics: [Sched.run_fault st w m].  Every fault plan is an instance of the
   nondeterministic semantics [frun] below (at every fault site the operation either executes or
   answers [AErr EFault] without effect; the absorbed one-off failure of a rename executes), so
   what is proved for [frun] holds for [run_fault st] with ANY fault state st — in particular
   [FWait k pers] for every k and both modes.

   The frame discipline is the one of CrashGeneral.v, with three rules made robust to faults: a
   failed [MkTmp] answers an error, a failed [OpenWr] leaves the temp file as it was, a failed
   [WriteChunk] (full disk) answers an error and leaves the temp file as it was.  The API
   proofs are those of CrashGeneral.v, re-run for the robust predicate [SafeF]. *)
From HS Require Import Base PyVal FS Ops Spec Sched RefineLemmas Refine SeqProps CrashFault Integrity
  CrashGeneral.
From HS Require Bracket.

(* ================================================================================== *)
(* 1. Nondeterministic faults                                                         *)
(* ================================================================================== *)

Fixpoint frun {A} (m : prog A) (w w' : world) (r : A) : Prop :=
  match m with
  | Ret a => w' = w /\ r = a
  | Bad => False
  | Vis o k =>
      (exists x w1, exec_op 0 o w = Some (x, w1) /\ frun (k x) w1 w' r) \/
      (is_site o = true /\ frun (k (AErr EFault)) w w' r)
  end.

Lemma fault_op_cases : forall st o w res st',
  fault_op st o w = (res, st') ->
  res = exec_op 0 o w \/ (is_site o = true /\ res = Some (AErr EFault, w)).
Proof.
  intros st o w res st' H. unfold fault_op in H.
  destruct (is_site o) eqn:Es; [|inversion H; auto].
  destruct st as [[|k] pers|d|].
  - destruct pers; [inversion H; auto|].
    destruct o; inversion H; auto.
  - inversion H; auto.
  - destruct (dest_eqb d (dest_of o)); inversion H; auto.
  - inversion H; auto.
Qed.

Theorem run_fault_frun : forall A (m : prog A) st w w' r,
  run_fault st w m = Some (w', r) -> frun m w w' r.
Proof.
  induction m as [a|o k IH|]; intros st w w' r H; simpl in H.
  - inversion H; subst. split; reflexivity.
  - destruct (fault_op st o w) as [[[x w1]|] st'] eqn:E; [|discriminate].
    destruct (fault_op_cases st o w _ _ E) as [Hc|[Hs Hc]].
    + left. exists x, w1. split; [symmetry; exact Hc|]. eapply IH. exact H.
    + inversion Hc; subst. right. split; [exact Hs|]. eapply IH. exact H.
  - discriminate.
Qed.

(* the fault-free run is one of them *)
Lemma run_seq_frun : forall A (m : prog A) w w' r, run_seq w m = Some (w', r) -> frun m w w' r.
Proof. intros A m w w' r H. rewrite <- run_fault_done in H. eapply run_fault_frun. exact H. Qed.

(* ================================================================================== *)
(* 2. The fault-robust discipline                                                     *)
(* ================================================================================== *)

Section FrameF.
  Variable w0 : world.
  Variable p : pid.
  Variable pubO : cid -> fcontent -> Prop.
  Variable pubP : fcontent -> Prop.

  Definition ansokF (o : op) (G : ghost) (x : ans) : Prop :=
    match o with
    | MkTmp _ _ | WriteChunk _ => ansok w0 p o G x \/ exists e, x = AErr e
    | _ => ansok w0 p o G x
    end.

  Definition opnextF (o : op) (G : ghost) (x : ans) : ghost :=
    match o, x with
    | OpenWr _ _, AErr _ => reset (gT G)
    | WriteChunk _, AErr _ => reset (gT G)
    | _, _ => opnext o G x
    end.

  Fixpoint SafeF {A} (m : prog A) (G : ghost) (Q : A -> ghost -> Prop) : Prop :=
    match m with
    | Ret a => Q a G
    | Bad => True
    | Vis o k => oppre w0 p pubO pubP o G /\ forall x, ansokF o G x -> SafeF (k x) (opnextF o G x) Q
    end.

  Lemma step_soundF : forall o G w x w',
    agreeG p G w -> WI w0 p w -> oppre w0 p pubO pubP o G -> exec_op 0 o w = Some (x, w') ->
    ansokF o G x /\ agreeG p (opnextF o G x) w' /\ WI w0 p w'.
  Proof.
    intros o G w x w' Hag HW Hpre Hex.
    destruct (step_sound w0 p pubO pubP o G w x w' Hag HW Hpre Hex) as (Ha & Hg & HW').
    split; [|split; [|exact HW']].
    - destruct o; simpl; auto.
    - destruct o; simpl; auto; destruct x; simpl; auto.
      + (* WriteChunk answering an error: impossible without a fault, the temp file is the thread's own *)
        simpl in Hpre. destruct Hpre as [Hown (b & n & j & HT)]. destruct Hag as (HaT & _).
        pose proof (HaT _ _ Hown HT) as Hl. destruct w as [m L]. simpl in Hex, Hl.
        rewrite Hl in Hex. inversion Hex.
      + destruct w as [m L]. simpl in Hex. inversion Hex.
  Qed.

  (* a fault: the operation answers an error and nothing happened *)
  Lemma step_faultF : forall o G w,
    agreeG p G w -> is_site o = true ->
    ansokF o G (AErr EFault) /\ agreeG p (opnextF o G (AErr EFault)) w.
  Proof.
    intros o G w (HaT & HaK & HaP) Hs.
    destruct o; simpl in Hs; try discriminate; simpl; (split; [auto; eauto|]);
      try (split; [exact HaT|split; [exact HaK|exact HaP]]);
      try (apply agree_reset; exact HaT).
    - apply agree_reset. intros a v Ha Hv. destruct (ownb 0 src); [|auto].
      unfold tdel in Hv. destruct (addr_eqb a src); [discriminate|auto].
    - apply agree_reset. intros y v Hy Hv. destruct (ownb 0 a); [|auto].
      unfold tdel in Hv. destruct (addr_eqb y a); [discriminate|auto].
  Qed.

  (* without a fault the robust successor state is the one of CrashGeneral.v ([OpenWr] never answers
     an error; [WriteChunk] on the thread's own temp file, known to the ghost state, does not either) *)
  Lemma opnextF_exec : forall o G w x w',
    agreeG p G w -> oppre w0 p pubO pubP o G ->
    exec_op 0 o w = Some (x, w') -> opnextF o G x = opnext o G x.
  Proof.
    intros o G w x w' Hag Hpre H. destruct o; simpl; auto; destruct x; auto.
    - simpl in Hpre. destruct Hpre as [Hown (b & n & j & HT)]. destruct Hag as (HaT & _).
      pose proof (HaT _ _ Hown HT) as Hl. destruct w as [m L]. simpl in H, Hl.
      rewrite Hl in H. inversion H.
    - destruct w. simpl in H. inversion H.
  Qed.

  (* soundness for every fault plan *)
  Theorem frun_WI : forall A (m : prog A) G w w' r,
    SafeF m G (fun _ _ => True) -> agreeG p G w -> WI w0 p w -> frun m w w' r -> WI w0 p w'.
  Proof.
    induction m as [a|o k IH|]; intros G w w' r Hs Hag HW Hr; simpl in Hr.
    - destruct Hr as [-> _]. exact HW.
    - simpl in Hs. destruct Hs as [Hpre Hk]. destruct Hr as [(x & w1 & Hex & Hr)|[Hsite Hr]].
      + destruct (step_soundF o G w x w1 Hag HW Hpre Hex) as (Ha & Hg & HW').
        eapply IH; [apply Hk; exact Ha|exact Hg|exact HW'|exact Hr].
      + destruct (step_faultF o G w Hag Hsite) as (Ha & Hg).
        eapply IH; [apply Hk; exact Ha|exact Hg|exact HW|exact Hr].
    - contradiction.
  Qed.

  Theorem frun_OP : forall A (m : prog A) G w w' r,
    SafeF m G (fun _ _ => True) -> agreeG p G w -> WI w0 p w -> OP w0 p pubO pubP w ->
    frun m w w' r -> OP w0 p pubO pubP w'.
  Proof.
    induction m as [a|o k IH|]; intros G w w' r Hs Hag HW HO Hr; simpl in Hr.
    - destruct Hr as [-> _]. exact HO.
    - simpl in Hs. destruct Hs as [Hpre Hk]. destruct Hr as [(x & w1 & Hex & Hr)|[Hsite Hr]].
      + destruct (step_soundF o G w x w1 Hag HW Hpre Hex) as (Ha & Hg & HW').
        pose proof (step_OP w0 p pubO pubP o G w x w1 Hag Hpre Hex HO) as HO'.
        eapply IH; [apply Hk; exact Ha|exact Hg|exact HW'|exact HO'|exact Hr].
      + destruct (step_faultF o G w Hag Hsite) as (Ha & Hg).
        eapply IH; [apply Hk; exact Ha|exact Hg|exact HW|exact HO|exact Hr].
    - contradiction.
  Qed.
End FrameF.

Arguments SafeF w0 p pubO pubP {A} m G Q.

(* ================================================================================== *)
(* 3. The API obeys the robust discipline (the proofs of CrashGeneral.v, re-run)       *)
(* ================================================================================== *)

Module F.
Section ApiFault.
  Variable w0 : world.
  Variable p : pid.
  Variable pubO : cid -> fcontent -> Prop.
  Variable pubP : fcontent -> Prop.
  Notation Safe := (SafeF w0 p pubO pubP).
  Notation oppre := (CrashGeneral.oppre w0 p pubO pubP).
  Notation free := (CrashGeneral.free w0 p).
  Notation objfree := (CrashGeneral.objfree w0 p).
  Notation mine := (CrashGeneral.mine w0 p).

  Lemma safe_weaken : forall A (m : prog A) G (Q Q' : A -> ghost -> Prop),
    Safe m G Q -> (forall a G', Q a G' -> Q' a G') -> Safe m G Q'.
  Proof.
    induction m as [a|o k IH|]; simpl; intros G Q Q' H HQ; auto.
    destruct H as [H1 H2]. split; auto. intros x Hx. eapply IH; eauto.
  Qed.

  Lemma safe_bind : forall A B (m : prog A) (f : A -> prog B) G Q1 Q,
    Safe m G Q1 -> (forall a G', Q1 a G' -> Safe (f a) G' Q) -> Safe (bind m f) G Q.
  Proof.
    induction m as [a|o k IH|]; simpl; intros f G Q1 Q H Hf; auto.
    destruct H as [H1 H2]. split; auto. intros x Hx. eapply IH; eauto.
  Qed.

  Lemma safe_mbind : forall A B (m : M A) (f : A -> M B) G Q1 Q,
    Safe m G Q1 ->
    (forall a G', Q1 (Val a) G' -> Safe (f a) G' Q) ->
    (forall e G', Q1 (Exn e) G' -> Q (Exn e) G') ->
    Safe (mbind m f) G Q.
  Proof.
    intros A B m f G Q1 Q H Hf He. unfold mbind. eapply safe_bind; [exact H|].
    intros [a|e] G' HQ; simpl; auto.
  Qed.

  Definition post_v {A} (P : A -> Prop) : outcome A -> ghost -> Prop :=
    fun r _ => match r with Val a => P a | Exn _ => True end.

  Definition OkV {A} (m : M A) (P : A -> Prop) : Prop := forall G, Safe m G (post_v P).
  Notation Ok m := (OkV m (fun _ => True)).

  Lemma okv_ret : forall A (a : A) (P : A -> Prop), P a -> OkV (ret a) P.
  Proof. intros A a P H G. exact H. Qed.
  Lemma ok_ret : forall A (a : A), Ok (ret a).
  Proof. intros A a G. exact I. Qed.
  Lemma okv_raise : forall A e (P : A -> Prop), OkV (raise e) P.
  Proof. intros A e P G. exact I. Qed.
  Lemma okv_bad : forall A (P : A -> Prop), OkV Bad P.
  Proof. intros A P G. exact I. Qed.

  Lemma okv_weaken : forall A (m : M A) (P P' : A -> Prop),
    OkV m P -> (forall a, P a -> P' a) -> OkV m P'.
  Proof.
    intros A m P P' H HP G. eapply safe_weaken; [apply H|].
    intros [a|e] G' HQ; simpl in *; auto.
  Qed.

  Lemma okv_mbind : forall A B (m : M A) (f : A -> M B) (P : A -> Prop) (Q : B -> Prop),
    OkV m P -> (forall a, P a -> OkV (f a) Q) -> OkV (mbind m f) Q.
  Proof.
    intros A B m f P Q Hm Hf G. eapply safe_mbind; [apply Hm| |].
    - intros a G' HP. apply Hf. exact HP.
    - intros e G' _. exact I.
  Qed.

  Lemma ok_mbind : forall A B (m : M A) (f : A -> M B) (Q : B -> Prop),
    Ok m -> (forall a, OkV (f a) Q) -> OkV (mbind m f) Q.
  Proof. intros. eapply okv_mbind; [eassumption|]. intros a _. auto. Qed.

  Lemma okv_catch : forall A (m : M A) (P : A -> Prop),
    OkV m P -> OkV (catch m) (fun r => match r with Val a => P a | Exn _ => True end).
  Proof.
    intros A m P H G. unfold catch. eapply safe_bind; [apply H|].
    intros [a|e] G' HQ; simpl in *; auto.
  Qed.
  Lemma ok_catch : forall A (m : M A), Ok m -> Ok (catch m).
  Proof. intros A m H. eapply okv_weaken; [apply okv_catch; exact H|]. auto. Qed.

  Lemma safe_try_finally : forall A (m : M A) (fin : M unit) G (P : A -> Prop),
    Safe m G (post_v P) -> Ok fin -> Safe (try_finally m fin) G (post_v P).
  Proof.
    intros A m fin G P Hm Hf. unfold try_finally. eapply safe_bind; [exact Hm|].
    intros r G' Hr. eapply safe_bind; [apply Hf|].
    intros [[]|e] G'' _; simpl; auto.
  Qed.

  Lemma okv_try_finally : forall A (m : M A) (fin : M unit) (P : A -> Prop),
    OkV m P -> Ok fin -> OkV (try_finally m fin) P.
  Proof. intros A m fin P Hm Hf G. apply safe_try_finally; auto. Qed.

  Lemma okv_vis : forall A o (k : ans -> M A) (P : A -> Prop),
    (forall G, oppre o G) -> (forall x, OkV (k x) P) -> OkV (Vis o k) P.
  Proof. intros A o k P Hpre Hk G. simpl. split; [apply Hpre|]. intros x _. apply Hk. Qed.

  (* ---------- the typed wrappers ---------- *)

  Lemma okv_probe : forall a, OkV (probe a) (fun b => b = false -> absent_fact w0 p a).
  Proof.
    intros a G. simpl. split; [exact I|]. intros x [b [-> [_ Hf]]]. simpl. exact Hf.
  Qed.
  Lemma ok_probe : forall a, Ok (probe a).
  Proof. intros a. eapply okv_weaken; [apply okv_probe|]. auto. Qed.
  Lemma ok_read : forall a, Ok (read a).
  Proof.
    intros a. apply okv_vis; [intros; exact I|].
    intros []; try apply okv_bad; try apply ok_ret; apply okv_raise.
  Qed.
  Lemma okv_size_lines : forall a, OkV (size_lines a) (fun n => n = 0 -> size_fact w0 p a).
  Proof.
    intros a G. simpl. split; [exact I|]. intros x Hx. destruct x; simpl; auto;
      try (intros ->; apply Hx; reflexivity).
  Qed.
  Lemma ok_size_lines : forall a, Ok (size_lines a).
  Proof. intros a. eapply okv_weaken; [apply okv_size_lines|]. auto. Qed.
  Lemma ok_peek : forall cls x, Ok (peek cls x).
  Proof. intros. apply okv_vis; [intros; exact I|]. intros []; try apply okv_bad. apply ok_ret. Qed.
  Lemma ok_held : forall cls x, Ok (held cls x).
  Proof. intros. apply okv_vis; [intros; exact I|]. intros []; try apply okv_bad. apply ok_ret. Qed.
  Lemma ok_acquire : forall cls x, Ok (acquire cls x).
  Proof. intros. apply okv_vis; [intros; exact I|]. intros []; try apply okv_bad. apply ok_ret. Qed.
  Lemma ok_release : forall cls x, Ok (release cls x).
  Proof.
    intros. apply okv_vis; [intros; exact I|].
    intros []; try apply okv_bad; try apply ok_ret; apply okv_raise.
  Qed.
  Lemma ok_funlock : forall a, Ok (funlock a).
  Proof. intros. apply okv_vis; [intros; exact I|]. intros []; try apply okv_bad; apply ok_ret. Qed.

  Lemma ok_unit_op : forall o, (forall G, oppre o G) -> Ok (unit_op o).
  Proof.
    intros o H. apply okv_vis; [exact H|].
    intros []; try apply okv_bad; try apply ok_ret; apply okv_raise.
  Qed.
  Lemma ok_swallow_op : forall o, (forall G, oppre o G) -> Ok (swallow_op o).
  Proof.
    intros o H. apply okv_vis; [exact H|]. intros []; try apply okv_bad; apply ok_ret.
  Qed.

  Definition ol (l : list addr) : Prop := forall a, In a l -> owned_by p a = true.
  Definition dl (l : list addr) : Prop := forall a, In a l -> exists x, a = ADel x.

  Lemma okv_listdir : OkV (listdir p) ol.
  Proof. intros G. simpl. split; [exact I|]. intros x [l [-> Hl]]. simpl. exact Hl. Qed.

  Lemma owned_mine : forall a, owned_by p a = true -> tmpb a = false /\ mine a.
  Proof.
    intros a H. unfold owned_by in H. destruct a; simpl in *; try discriminate.
    - apply Nat.eqb_eq in H. auto.
    - auto.
  Qed.

  Lemma pre_rename_del : forall a G, tmpb a = false -> mine a -> oppre (Rename a (ADel a)) G.
  Proof.
    intros a G H Hm. simpl. split; [reflexivity|]. split; [exact Hm|]. split; [exact I|].
    assert (Ho : ownb 0 a = false) by (destruct a; simpl in *; congruence).
    rewrite Ho. auto.
  Qed.
  Lemma pre_remove_nt : forall a G, tmpb a = false -> mine a -> oppre (Remove a) G.
  Proof. intros a G H Hm. simpl. split; [congruence|exact Hm]. Qed.
  Lemma pre_remove_own : forall a G, ownb 0 a = true -> oppre (Remove a) G.
  Proof.
    intros a G H. simpl. split; [auto|]. apply mine_tmp. eapply ownb_tmpb. exact H.
  Qed.

  Lemma ok_unit_remove_own : forall t, ownb 0 t = true -> Ok (unit_op (Remove t)).
  Proof. intros. apply ok_unit_op. intros. apply pre_remove_own. assumption. Qed.
  Lemma ok_swallow_remove_own : forall t, ownb 0 t = true -> Ok (swallow_op (Remove t)).
  Proof. intros. apply ok_swallow_op. intros. apply pre_remove_own. assumption. Qed.
  Lemma ok_unit_remove_nt : forall a, tmpb a = false -> mine a -> Ok (unit_op (Remove a)).
  Proof. intros. apply ok_unit_op. intros. apply pre_remove_nt; assumption. Qed.
  Lemma ok_swallow_remove_nt : forall a, tmpb a = false -> mine a -> Ok (swallow_op (Remove a)).
  Proof. intros. apply ok_swallow_op. intros. apply pre_remove_nt; assumption. Qed.
  Lemma ok_unit_mkdirs : forall a, Ok (unit_op (MkDirs a)).
  Proof. intros. apply ok_unit_op. intros. exact I. Qed.
  Lemma ok_unit_openrw : forall a, Ok (unit_op (OpenRW a)).
  Proof. intros. apply ok_unit_op. intros. exact I. Qed.
  Lemma ok_unit_opensrc : Ok (unit_op OpenSrc).
  Proof. intros. apply ok_unit_op. intros. exact I. Qed.
  Lemma ok_unit_acquire : forall cls x, Ok (unit_op (Acquire cls x)).
  Proof. intros. apply ok_unit_op. intros. exact I. Qed.
  Lemma ok_unit_appendopen : forall c, Ok (unit_op (AppendOpen (ACidRef c))).
  Proof. intros. apply ok_unit_op. intros. simpl. eauto. Qed.
  Lemma ok_unit_appendwrite : forall c q, Ok (unit_op (AppendWrite (ACidRef c) q)).
  Proof. intros. apply ok_unit_op. intros. simpl. eauto. Qed.

  Hint Resolve ok_probe ok_read ok_size_lines ok_peek ok_held ok_acquire ok_release ok_funlock
       ok_unit_remove_own ok_swallow_remove_own ok_unit_mkdirs ok_unit_openrw ok_unit_opensrc
       ok_unit_acquire ok_unit_appendopen ok_unit_appendwrite ok_ret okv_raise okv_bad : okdb.

  Ltac okauto :=
    repeat (intros; first
      [ solve [eauto 3 with okdb]
      | apply ok_mbind
      | apply ok_catch
      | apply okv_try_finally
      | apply okv_ret; reflexivity
      | match goal with
        | |- OkV (match ?x with _ => _ end) _ => destruct x
        end ]).
  Ltac okd := solve [okauto].

  Lemma ok_read_cid : forall a, Ok (read_cid a).
  Proof. unfold read_cid. okauto. Qed.
  Hint Resolve ok_read_cid : okdb.
  Lemma ok_read_lines : forall a, Ok (read_lines a).
  Proof. unfold read_lines. okauto. Qed.
  Hint Resolve ok_read_lines : okdb.
  Lemma ok_is_in_refs : forall q a, Ok (is_in_refs q a).
  Proof. unfold is_in_refs. okauto. Qed.
  Hint Resolve ok_is_in_refs : okdb.
  Lemma ok_find_object : forall q, Ok (find_object q).
  Proof. unfold find_object. okauto. Qed.
  Hint Resolve ok_find_object : okdb.
  Lemma ok_open_object : forall c, Ok (open_object c).
  Proof. unfold open_object. okauto. Qed.
  Hint Resolve ok_open_object : okdb.
  Lemma ok_retrieve_object : forall q, Ok (retrieve_object q).
  Proof. unfold retrieve_object. okauto. Qed.
  Hint Resolve ok_retrieve_object : okdb.
  Lemma ok_get_hex_digest : forall q, Ok (get_hex_digest q).
  Proof. unfold get_hex_digest. okauto. Qed.
  Hint Resolve ok_get_hex_digest : okdb.

  Definition isdel (d : addr) : Prop := exists x, d = ADel x.

  Lemma okv_rename_for_deletion : forall a, tmpb a = false -> mine a ->
    OkV (rename_for_deletion a) isdel.
  Proof.
    intros a H Hm. unfold rename_for_deletion. apply ok_mbind.
    - apply ok_unit_op. intros. apply pre_rename_del; assumption.
    - intros _. apply okv_ret. exists a. reflexivity.
  Qed.

  Lemma dl_nil : dl [].
  Proof. intros a []. Qed.
  Lemma dl_cons : forall a l, isdel a -> dl l -> dl (a :: l).
  Proof. intros a l H Hl x [<-|Hx]; auto. Qed.
  Lemma dl_app : forall l1 l2, dl l1 -> dl l2 -> dl (l1 ++ l2).
  Proof. intros l1 l2 H1 H2 x Hx. apply in_app_or in Hx. destruct Hx; auto. Qed.
  Lemma dl_inv : forall a l, dl (a :: l) -> isdel a /\ dl l.
  Proof. intros a l H. split; [apply H; left; reflexivity|]. intros x Hx. apply H. right. exact Hx. Qed.
  Hint Resolve dl_nil dl_cons dl_app : okdb.

  Lemma ok_delete_marked : forall l, dl l -> Ok (delete_marked l).
  Proof.
    induction l as [|a l IH]; intros H; simpl.
    - apply ok_ret.
    - apply dl_inv in H. destruct H as [[x ->] Hl]. apply ok_mbind.
      + apply ok_swallow_remove_nt; [reflexivity|exact I].
      + intros _. auto.
  Qed.
  Hint Resolve ok_delete_marked : okdb.

  (* the rewrite of a cid list and its truncation: only p is dropped *)
  Lemma ok_rewrite_truncate : forall c,
    Ok (k <- rewrite_write (ACidRef c) p ;; unit_op (Truncate (ACidRef c) k)).
  Proof.
    intros c G. unfold rewrite_write, unit_op, mbind, ret, raise. simpl.
    split; [split; eauto|]. intros x _. destruct x; simpl; auto.
    split; [exists c; split; reflexivity|]. intros x _. destruct x; simpl; auto.
  Qed.

  Lemma ok_update_refs_remove : forall c, Ok (update_refs_remove (ACidRef c) p).
  Proof.
    intros. unfold update_refs_remove.
    apply ok_mbind; [okd|]. intros b. destruct (negb b); [apply okv_raise|].
    apply ok_mbind; [okd|]. intros _.
    apply okv_try_finally; [|okd].
    apply ok_mbind; [okd|]. intros _. apply ok_rewrite_truncate.
  Qed.
  Hint Resolve ok_update_refs_remove : okdb.
  Lemma ok_update_refs_add : forall c q, Ok (update_refs_add (ACidRef c) q).
  Proof. intros. unfold update_refs_add. okauto. Qed.
  Hint Resolve ok_update_refs_add : okdb.
  Lemma ok_verify_refs : forall q c, Ok (verify_refs q c).
  Proof. intros. unfold verify_refs. okauto. Qed.
  Hint Resolve ok_verify_refs : okdb.
  Lemma ok_validate : forall c c', Ok (validate_and_check_cid_lock c c').
  Proof. intros. unfold validate_and_check_cid_lock. okauto. Qed.
  Hint Resolve ok_validate : okdb.

  Lemma mine_pidref : mine (APidRef p).
  Proof. reflexivity. Qed.

  Lemma okv_mark_pid_refs : OkV (mark_pid_refs p) dl.
  Proof.
    unfold mark_pid_refs.
    eapply okv_mbind;
      [apply okv_catch; apply (okv_rename_for_deletion (APidRef p)); [reflexivity|apply mine_pidref]|].
    intros [d|e] H; apply okv_ret; auto with okdb.
  Qed.

  Lemma okv_remove_pid_and_handle_cid : forall c, OkV (remove_pid_and_handle_cid p c) dl.
  Proof.
    intros c. unfold remove_pid_and_handle_cid.
    eapply okv_mbind with (P := fun r => match r with Val l => dl l | Exn _ => True end).
    - apply okv_catch. apply ok_mbind; [okd|]. intros _.
      eapply okv_mbind; [apply okv_size_lines|]. intros n Hn. destruct (Nat.eqb n 0) eqn:En.
      + apply Nat.eqb_eq in En. specialize (Hn En). simpl in Hn.
        eapply okv_mbind; [apply (okv_rename_for_deletion (ACidRef c)); [reflexivity|exact Hn]|].
        intros d Hd. apply okv_ret. auto with okdb.
      + apply okv_ret. auto with okdb.
    - intros [l|e] H; apply okv_ret; auto with okdb.
  Qed.

  Lemma ok_untag_object : forall c, Ok (untag_object p c).
  Proof.
    intros c. unfold untag_object.
    apply ok_mbind; [okd|]. intros h. destruct (negb h); [apply okv_raise|].
    apply ok_mbind; [okd|]. intros r.
    assert (H12 : Ok (l1 <- mark_pid_refs p ;; l2 <- remove_pid_and_handle_cid p c ;; delete_marked (l1 ++ l2))).
    { eapply okv_mbind; [apply okv_mark_pid_refs|]. intros l1 H1.
      eapply okv_mbind; [apply okv_remove_pid_and_handle_cid|]. intros l2 H2.
      auto with okdb. }
    assert (H1 : Ok (l1 <- mark_pid_refs p ;; delete_marked l1)).
    { eapply okv_mbind; [apply okv_mark_pid_refs|]. intros l1 H1. auto with okdb. }
    assert (H2 : Ok (l2 <- remove_pid_and_handle_cid p c ;; delete_marked l2)).
    { eapply okv_mbind; [apply okv_remove_pid_and_handle_cid|]. intros l1 H1'. auto with okdb. }
    destruct r as [c'|e]; [okauto|].
    destruct e; okauto.
  Qed.
  Hint Resolve ok_untag_object : okdb.

  Lemma ok_and_sc : forall m1 m2, Ok m1 -> Ok m2 -> Ok (and_sc m1 m2).
  Proof. intros. unfold and_sc. okauto. Qed.
  Lemma ok_notm : forall m, Ok m -> Ok (notm m).
  Proof. intros. unfold notm. okauto. Qed.
  Hint Resolve ok_and_sc ok_notm : okdb.
  (* ---------- the staging sequences ---------- *)

  Lemma write_refs_tmp_safe : forall content G,
    Safe (write_refs_tmp content) G
      (fun r G' => match r with
                   | Val t => ownb 0 t = true /\ gT G' t = Some content /\
                              (forall x v, gT G x = Some v -> gT G' x = Some v)
                   | Exn _ => True
                   end).
  Proof.
    intros content G. unfold write_refs_tmp, mktmp, unit_op, mbind, ret, raise. simpl.
    split; [exact I|]. intros x [[n [-> Hn]]|[e ->]]; [|simpl; exact I]. simpl.
    split; [reflexivity|]. intros x _. destruct x; simpl; auto.
    split; [reflexivity|]. split; [apply tupd_eq|].
    intros x v Hx. unfold tupd. destruct (addr_eqb x (ATmp ArRefs 0 n)) eqn:E; auto.
    apply addr_eqb_true in E. subst. congruence.
  Qed.

  Lemma safe_rename_own : forall t d G v (Q : outcome unit -> ghost -> Prop),
    ownb 0 t = true -> tmpb d = false -> mine d -> gT G t = Some v -> good2 d v ->
    pubok pubO pubP d v ->
    (forall r, Q r (reset (tdel (gT G) t))) ->
    Safe (unit_op (Rename t d)) G Q.
  Proof.
    intros t d G v Q Hown Hd Hm HT Hg Hpub HQ. unfold unit_op. simpl.
    split.
    - split; [exact Hd|]. split; [apply mine_tmp; eapply ownb_tmpb; eauto|]. split; [exact Hm|].
      rewrite Hown. intros _. eauto.
    - intros x _. rewrite Hown. destruct x; simpl; auto.
  Qed.

  (* one probe, as a step that records its answer *)
  Definition Gk (G : ghost) (a : addr) (b : bool) : ghost := mkG (gT G) (kupd (gK G) a b) (gP G).

  Lemma safe_probe_mbind : forall B a (f : bool -> M B) G Q,
    (forall b, (forall b', gK G a = Some b' -> b = b') -> (b = false -> absent_fact w0 p a) ->
               Safe (f b) (Gk G a b) Q) ->
    Safe (mbind (probe a) f) G Q.
  Proof.
    intros B a f G Q H. unfold mbind, probe. simpl. split; [exact I|].
    intros x [b [-> [Hk Hf]]]. simpl. apply H; assumption.
  Qed.

  Lemma safe_probe : forall a G (Q : outcome bool -> ghost -> Prop),
    (forall b, (forall b', gK G a = Some b' -> b = b') -> (b = false -> absent_fact w0 p a) ->
               Q (Val b) (Gk G a b)) ->
    Safe (probe a) G Q.
  Proof.
    intros a G Q H. unfold probe. simpl. split; [exact I|].
    intros x [b [-> [Hk Hf]]]. simpl. apply H; assumption.
  Qed.

  Lemma kupd_eq : forall K a b, kupd K a b a = Some b.
  Proof. intros. unfold kupd. rewrite addr_eqb_refl. reflexivity. Qed.

  (* the three tests of _store_hashstore_refs_files, which re-probe the same two files *)
  Lemma round1 : forall c G,
    Safe (and_sc (probe (APidRef p)) (probe (ACidRef c))) G
      (fun r G' => exists b, r = Val b /\
         (b = false -> gK G' (APidRef p) = Some false \/
                       (gK G' (APidRef p) = Some true /\ gK G' (ACidRef c) = Some false))).
  Proof.
    intros c G. unfold and_sc. apply safe_probe_mbind. intros b1 _ _. destruct b1.
    - apply safe_probe. intros b2 _ _. simpl. exists b2. split; [reflexivity|].
      intros ->. right. split; [|apply kupd_eq]. unfold Gk, kupd. simpl. rewrite Nat.eqb_refl. reflexivity.
    - simpl. exists false. split; [reflexivity|]. intros _. left. apply kupd_eq.
  Qed.

  Lemma round2 : forall c G,
    gK G (APidRef p) = Some false \/ (gK G (APidRef p) = Some true /\ gK G (ACidRef c) = Some false) ->
    Safe (and_sc (probe (APidRef p)) (notm (probe (ACidRef c)))) G
      (fun r G' => exists b, r = Val b /\ (b = false -> gK G' (APidRef p) = Some false)).
  Proof.
    intros c G HK. unfold and_sc, notm. apply safe_probe_mbind. intros b1 Hk1 _. destruct b1.
    - apply safe_probe_mbind. intros b2 Hk2 _. simpl. exists (negb b2). split; [reflexivity|].
      intros Hb. exfalso. destruct HK as [HK|[_ HK]].
      + specialize (Hk1 _ HK). discriminate.
      + simpl in Hk2. specialize (Hk2 _ HK). subst. discriminate.
    - simpl. exists false. split; [reflexivity|]. intros _. apply kupd_eq.
  Qed.

  Lemma round3 : forall c G,
    gK G (APidRef p) = Some false ->
    Safe (and_sc (notm (probe (APidRef p))) (probe (ACidRef c))) G
      (fun r G' => exists b, r = Val b /\ (b = false -> free c)).
  Proof.
    intros c G HK. unfold and_sc, notm.
    unfold mbind at 1. unfold mbind at 1.
    (* notm (probe P) then the second probe *)
    unfold probe at 1. simpl. split; [exact I|].
    intros x [b1 [-> [Hk1 _]]]. simpl. specialize (Hk1 _ HK). subst b1. simpl.
    split; [exact I|]. intros x [b2 [-> [_ Hf]]]. simpl. exists b2. split; [reflexivity|exact Hf].
  Qed.

  Lemma ok_store_refs_body : forall c, pubP (CCid c) -> Ok (store_refs_body p c).
  Proof.
    intros c HpubP. unfold store_refs_body.
    apply ok_mbind; [okd|]. intros _.
    apply ok_mbind; [okd|]. intros _.
    intros G. eapply safe_mbind; [apply round1| |intros e G' [b [H _]]; discriminate].
    intros c1 G1 [b [Hb HK1]]. inversion Hb; subst b; clear Hb.
    destruct c1.
    { assert (H : Ok (catch (verify_refs p c) ;;; @raise unit EHashStoreRefsAlreadyExists)) by okauto.
      apply H. }
    specialize (HK1 eq_refl).
    eapply safe_mbind; [apply round2; exact HK1| |intros e G' [b [H _]]; discriminate].
    intros c2 G2 [b [Hb HK2]]. inversion Hb; subst b; clear Hb.
    destruct c2; [exact I|]. specialize (HK2 eq_refl).
    eapply safe_mbind; [apply round3; exact HK2| |intros e G' [b [H _]]; discriminate].
    intros c3 G3 [b [Hb Hfree]]. inversion Hb; subst b; clear Hb.
    destruct c3.
    - eapply safe_mbind; [apply write_refs_tmp_safe| |intros; exact I].
      intros t T1 (Hown & Ht & _).
      eapply safe_mbind with (Q1 := fun _ _ => True); [|intros _ T2 _|intros; exact I].
      + eapply safe_rename_own; eauto; simpl; eauto.
      + assert (Hrest : Ok (m <- is_in_refs p (ACidRef c) ;;
                            (if m then ret tt else update_refs_add (ACidRef c) p) ;;; verify_refs p c))
          by okauto.
        apply Hrest.
    - specialize (Hfree eq_refl).
      eapply safe_mbind; [apply write_refs_tmp_safe| |intros; exact I].
      intros t1 T1 (Hown1 & Ht1 & _).
      eapply safe_mbind; [apply write_refs_tmp_safe| |intros; exact I].
      intros t2 T2 (Hown2 & Ht2 & Hkeep). apply Hkeep in Ht1.
      assert (Hne : t2 <> t1) by (intros ->; congruence).
      eapply safe_mbind with (Q1 := fun _ G' => G' = reset (tdel (gT T2) t1));
        [|intros _ T3 ->|intros; exact I].
      + eapply safe_rename_own; eauto; simpl; eauto.
      + eapply safe_mbind with (Q1 := fun _ _ => True); [|intros _ T3 _|intros; exact I].
        * eapply safe_rename_own with (v := CLines [p]); eauto; simpl; eauto.
          unfold tdel. apply addr_eqb_neq in Hne. rewrite Hne. exact Ht2.
        * apply (ok_verify_refs p c).
  Qed.
  Hint Resolve ok_store_refs_body : okdb.

  Lemma ok_tag_object : forall c, pubP (CCid c) -> Ok (tag_object p c).
  Proof.
    intros c HpubP. unfold tag_object.
    apply okv_try_finally; [|okauto].
    apply ok_mbind; [okd|]. intros _.
    apply ok_mbind; [okd|]. intros _.
    apply ok_mbind; [okd|]. intros r.
    destruct r as [u|e]; [okauto|]. destruct e; okauto.
  Qed.
  Hint Resolve ok_tag_object : okdb.

  Lemma ok_verify_object : forall pg t sz ck, ownb 0 t = true -> Ok (verify_object pg t sz ck).
  Proof. intros pg t sz ck H. unfold verify_object. destruct sz, ck, pg; okauto. Qed.
  Hint Resolve ok_verify_object : okdb.

  Lemma verify_object_keep : forall pg t sz ck G, ownb 0 t = true ->
    Safe (verify_object pg t sz ck) G
      (fun r G' => match r with Val _ => G' = G | Exn _ => True end).
  Proof.
    intros pg t sz ck G H. unfold verify_object, unit_op, mbind, ret, raise.
    destruct sz, ck, pg; simpl; auto;
      (split; [split; [auto|apply mine_tmp; eapply ownb_tmpb; eauto]|];
       intros x _; destruct x; simpl; auto).
  Qed.

  Lemma keep_mkdirs : forall a G, Safe (unit_op (MkDirs a)) G (fun _ G' => G' = G).
  Proof. intros a G. unfold unit_op. simpl. split; [exact I|]. intros x _. destruct x; simpl; auto. Qed.

  Lemma write_chunks_safe : forall k G t b n j,
    ownb 0 t = true -> gT G t = Some (CData b n j) ->
    Safe (write_chunks t k) G
      (fun r G' => match r with Val _ => gT G' t = Some (CData b n (j + k)) | Exn _ => True end).
  Proof.
    induction k as [|k IH]; intros G t b n j Hown HT.
    - simpl. rewrite Nat.add_0_r. exact HT.
    - simpl. unfold mbind, unit_op. simpl. split; [split; eauto|].
      intros x [->|[e ->]]; [|simpl; exact I]. simpl. rewrite HT.
      replace (j + S k) with (S j + k) by lia.
      apply (IH (reset (tupd (gT G) t (CData b n (S j)))) t b n (S j)); auto. apply tupd_eq.
  Qed.

  Lemma ok_delete_object_file : forall c, objfree c -> Ok (delete_object_file c).
  Proof.
    intros c Hc. unfold delete_object_file.
    apply ok_mbind; [okd|]. intros e. destruct e; [|apply okv_raise].
    apply ok_unit_remove_nt; [reflexivity|exact Hc].
  Qed.

  Lemma ok_move_and_get_checksums : forall po b n sz ck, pubO b (CData b n n) ->
    OkV (move_and_get_checksums po b n sz ck) (fun c0 => c0 = b).
  Proof.
    intros po b n sz ck HpubO G. unfold move_and_get_checksums.
    eapply safe_mbind with
      (Q1 := fun r G' => match r with
                         | Val t => ownb 0 t = true /\ gT G' t = Some (CData b n 0)
                         | Exn _ => True end); [| |intros; exact I].
    { unfold mktmp. simpl. split; [exact I|]. intros x [[k [-> Hk]]|[e ->]]; [|simpl; exact I]. simpl.
      split; [reflexivity|apply tupd_eq]. }
    intros t G1 [Hown Ht].
    eapply safe_mbind with
      (Q1 := fun r G' => match r with
                         | Val (Val _) => gT G' t = Some (CData b n n)
                         | _ => True end); [| |intros; exact I].
    { unfold catch. eapply safe_bind; [apply (write_chunks_safe n G1 t b n 0 Hown Ht)|].
      intros [u|e] G' H; simpl; auto. }
    intros w G2 Hw. destruct w as [u|e].
    2:{ assert (H : OkV (swallow_op (Remove t) ;;; @raise cid EGeneric) (fun c0 => c0 = b)) by okauto. apply H. }
    apply safe_probe_mbind. intros e _ Hf. destruct e; simpl negb; cbv iota.
    - assert (H : OkV (r <- catch (verify_object match po with Some _ => true | None => false end t sz ck) ;;
                      match r with
                      | Val _ => unit_op (Remove t);;; ret b
                      | Exn ENonMatchingObjSize =>
                          (if match po with Some _ => true | None => false end
                           then ret tt else unit_op (Remove t));;; raise ENonMatchingObjSize
                      | Exn ENonMatchingChecksum =>
                          (if match po with Some _ => true | None => false end
                           then ret tt else unit_op (Remove t));;; raise ENonMatchingChecksum
                      | Exn other => unit_op (Remove t);;; raise other
                      end) (fun c0 => c0 = b)).
      { apply ok_mbind; [okauto|]. intros [u'|e']; [okauto|]. destruct e'; okauto. }
      apply H.
    - specialize (Hf eq_refl). simpl in Hf.
      set (G3 := Gk G2 (AObj b) false).
      assert (Ht3 : gT G3 t = Some (CData b n n)) by exact Hw.
      eapply safe_mbind with
        (Q1 := fun r G' => match r with Val _ => G' = G3 | Exn _ => True end);
        [apply verify_object_keep; exact Hown| |intros; exact I].
      intros _ G4 ->.
      eapply safe_mbind with (Q1 := fun _ G' => G' = G3); [apply keep_mkdirs| |intros; exact I].
      intros _ G4 ->.
      eapply safe_mbind with (Q1 := fun _ _ => True); [| |intros; exact I].
      + unfold catch. eapply safe_bind with (Q1 := fun _ _ => True); [|intros; exact I].
        eapply safe_rename_own; eauto. simpl. eauto.
      + intros r G4 _. destruct r as [u'|err]; [reflexivity|].
        pose proof (ok_delete_object_file b Hf) as Hdel.
        assert (H : OkV (e2 <- probe (AObj b) ;;
                        if e2
                        then match po with
                             | Some p' =>
                                 d <- get_hex_digest p';;
                                 match d with
                                 | CData b' _ _ =>
                                     if b' =? b then raise err else delete_object_file b;;; raise err
                                 | _ => delete_object_file b;;; raise err
                                 end
                             | None => raise EValueError
                             end
                        else unit_op (Remove t);;; @raise cid err) (fun c0 => c0 = b)) by okauto.
        apply H.
  Qed.
  Lemma ok_move_and_get_checksums' : forall po b n sz ck, pubO b (CData b n n) ->
    Ok (move_and_get_checksums po b n sz ck).
  Proof. intros. eapply okv_weaken; [apply ok_move_and_get_checksums; assumption|]. auto. Qed.
  Hint Resolve ok_move_and_get_checksums' : okdb.

  Lemma ok_open_source : forall s, Ok (open_source s).
  Proof. intros []; simpl; auto with okdb. Qed.
  Hint Resolve ok_open_source : okdb.

  Lemma ok_store_object_pid : forall s b n sz ck, pubO b (CData b n n) -> pubP (CCid b) ->
    Ok (store_object (Some p) s b n sz ck).
  Proof.
    intros s b n sz ck HpubO HpubP.
    pose proof (ok_tag_object b HpubP) as Htag.
    unfold store_object.
    apply ok_mbind; [okd|]. intros busy. destruct busy; [apply okv_raise|].
    apply okv_try_finally; [|okd].
    apply ok_mbind; [okd|]. intros _.
    apply ok_mbind; [okd|]. intros _.
    eapply okv_mbind; [apply (ok_move_and_get_checksums (Some p) b n sz ck HpubO)|].
    intros c0 ->. okauto.
  Qed.
  Lemma ok_store_object_nopid : forall s b n sz ck, pubO b (CData b n n) ->
    Ok (store_object None s b n sz ck).
  Proof.
    intros s b n sz ck HpubO.
    pose proof (ok_move_and_get_checksums' None b n VSzNone VCkNone HpubO) as Hmv.
    unfold store_object. okauto.
  Qed.

  Lemma ol_inv : forall a l, ol (a :: l) -> owned_by p a = true /\ ol l.
  Proof. intros a l H. split; [apply H; left; reflexivity|]. intros x Hx. apply H. right. exact Hx. Qed.

  Lemma okv_probe_all : forall l, ol l -> OkV (probe_all l) ol.
  Proof.
    induction l as [|a l IH]; intros H; simpl.
    - apply okv_ret. intros x [].
    - apply ol_inv in H. destruct H as [Ha Hl].
      apply ok_mbind; [okd|]. intros b.
      eapply okv_mbind; [apply IH; exact Hl|]. intros r Hr.
      apply okv_ret. destruct b; auto. intros x [<-|Hx]; auto.
  Qed.

  Lemma okv_mark_docs : forall l, ol l -> OkV (mark_docs l) dl.
  Proof.
    induction l as [|a l IH]; intros H; simpl.
    - apply okv_ret. apply dl_nil.
    - apply ol_inv in H. destruct H as [Ha Hl]. apply owned_mine in Ha. destruct Ha as [Ha Hm].
      apply ok_mbind; [okd|]. intros _.
      eapply okv_mbind with (P := dl).
      + apply okv_try_finally; [|okd].
        apply ok_mbind; [okd|]. intros b. destruct b.
        * eapply okv_mbind; [apply okv_catch; apply okv_rename_for_deletion; assumption|].
          intros [d|e] Hd.
          -- apply okv_ret. auto with okdb.
          -- destruct e; try apply okv_raise. apply okv_ret. apply dl_nil.
        * apply okv_ret. apply dl_nil.
      + intros d Hd. eapply okv_mbind; [apply IH; exact Hl|]. intros r Hr.
        apply okv_ret. auto with okdb.
  Qed.

  Lemma ok_delete_metadata : forall f, Ok (delete_metadata p f).
  Proof.
    intros f. unfold delete_metadata. destruct f as [f'|].
    - apply ok_mbind; [okd|]. intros _. apply okv_try_finally; [|okd].
      apply ok_mbind; [okd|]. intros b. destruct b; [|apply ok_ret].
      apply ok_unit_remove_nt; reflexivity.
    - eapply okv_mbind; [apply okv_listdir|]. intros l Hl.
      eapply okv_mbind; [apply okv_probe_all; exact Hl|]. intros l' Hl'.
      eapply okv_mbind; [apply okv_mark_docs; exact Hl'|]. intros ds Hds.
      auto with okdb.
  Qed.
  Hint Resolve ok_delete_metadata : okdb.

  Lemma free_objfree : forall c, free c -> objfree c.
  Proof. intros c H. left. exact H. Qed.

  Lemma ok_delete_object : Ok (delete_object p).
  Proof.
    unfold delete_object.
    apply okv_try_finally; [|okd].
    apply ok_mbind; [okd|]. intros _.
    apply ok_mbind; [okd|]. intros _.
    apply ok_mbind; [okd|]. intros r.
    assert (Hd : Ok (d <- rename_for_deletion (APidRef p) ;; delete_metadata p None ;;; delete_marked [d])).
    { eapply okv_mbind; [apply (okv_rename_for_deletion (APidRef p)); [reflexivity|apply mine_pidref]|].
      intros d Hd. apply ok_mbind; [okd|]. intros _. auto with okdb. }
    destruct r as [c|e].
    - apply ok_mbind; [okd|]. intros _.
      apply okv_try_finally; [|okd].
      eapply okv_mbind; [apply (okv_rename_for_deletion (APidRef p)); [reflexivity|apply mine_pidref]|].
      intros d1 Hd1.
      apply ok_mbind; [okd|]. intros _.
      eapply okv_mbind; [apply okv_size_lines|]. intros n Hn.
      eapply okv_mbind with (P := dl).
      + destruct (Nat.eqb n 0) eqn:En.
        * apply Nat.eqb_eq in En. specialize (Hn En). simpl in Hn.
          eapply okv_mbind; [apply (okv_rename_for_deletion (ACidRef c)); [reflexivity|exact Hn]|].
          intros d2 Hd2.
          eapply okv_mbind;
            [apply (okv_rename_for_deletion (AObj c)); [reflexivity|apply free_objfree; exact Hn]|].
          intros d3 Hd3. apply okv_ret. auto with okdb.
        * apply okv_ret. auto with okdb.
      + intros l Hl. apply ok_mbind; [okd|]. intros _. auto with okdb.
    - destruct e; try apply okv_raise; try exact Hd.
      apply ok_mbind; [okd|]. intros c.
      eapply okv_mbind; [apply (okv_rename_for_deletion (APidRef p)); [reflexivity|apply mine_pidref]|].
      intros d Hd'.
      eapply okv_mbind with (P := dl).
      + apply okv_try_finally; [|okd].
        apply ok_mbind; [okd|]. intros _.
        apply ok_mbind; [okd|]. intros m.
        apply ok_mbind; [destruct m; okd|]. intros _.
        eapply okv_mbind; [apply okv_size_lines|]. intros n Hn.
        destruct (Nat.eqb n 0) eqn:En.
        * apply Nat.eqb_eq in En. specialize (Hn En). simpl in Hn.
          eapply okv_mbind; [apply (okv_rename_for_deletion (ACidRef c)); [reflexivity|exact Hn]|].
          intros d2 Hd2. apply okv_ret. auto with okdb.
        * apply okv_ret. auto with okdb.
      + intros l Hl. apply ok_mbind; [okd|]. intros _. auto with okdb.
  Qed.

  Lemma ok_delete_object_unfixed : Ok (delete_object_unfixed p).
  Proof.
    unfold delete_object_unfixed.
    apply okv_try_finally; [|okd].
    apply ok_mbind; [okd|]. intros _.
    apply ok_mbind; [okd|]. intros r.
    destruct r as [c|e]; [apply okv_raise|]. destruct e; try apply okv_raise.
    eapply okv_mbind; [apply (okv_rename_for_deletion (APidRef p)); [reflexivity|apply mine_pidref]|].
    intros d Hd.
    apply ok_mbind; [okd|]. intros c.
    apply ok_mbind.
    - apply okv_try_finally; [|okd].
      apply ok_mbind; [okd|]. intros _.
      apply ok_mbind; [okd|]. intros m. destruct m; okd.
    - intros _. apply ok_mbind; [okd|]. intros _. auto with okdb.
  Qed.

  Lemma ok_store_metadata : forall f s v n, Ok (store_metadata p f s v n).
  Proof.
    intros f s v n G. unfold store_metadata.
    eapply safe_mbind; [apply (ok_acquire LMeta (IDoc (AMeta p f)))| |intros; exact I].
    intros _ G0 _. apply safe_try_finally; [|okauto].
    eapply safe_mbind; [apply (ok_open_source s)| |intros; exact I].
    intros _ G0' _.
    eapply safe_mbind with
      (Q1 := fun r G' => match r with
                         | Val t => ownb 0 t = true /\ gT G' t = Some (CData v n 0)
                         | Exn _ => True end); [| |intros; exact I].
    { unfold mktmp. simpl. split; [exact I|]. intros x [[k [-> Hk]]|[e ->]]; [|simpl; exact I]. simpl.
      split; [reflexivity|apply tupd_eq]. }
    intros t G1 [Hown Ht].
    eapply safe_mbind; [apply (write_chunks_safe n G1 t v n 0 Hown Ht)| |intros; exact I].
    intros u0 G2 Ht2. simpl in Ht2.
    eapply safe_mbind with (Q1 := fun _ _ => True); [| |intros; exact I].
    - unfold catch. eapply safe_bind with (Q1 := fun _ _ => True); [|intros; exact I].
      eapply safe_mbind with (Q1 := fun _ G' => G' = G2); [apply keep_mkdirs| |intros; exact I].
      intros _ G3 ->. eapply safe_rename_own; eauto; simpl; eauto.
    - intros r G3 _. destruct r as [u|e]; [exact I|].
      assert (H : Ok (unit_op (Remove t) ;;; @raise value e)) by okauto.
      apply H.
  Qed.

  Lemma ok_retrieve_metadata : forall q f, Ok (retrieve_metadata q f).
  Proof. intros. unfold retrieve_metadata. okauto. Qed.

  Lemma ok_delete_object_only : forall c, Ok (delete_object_only c).
  Proof.
    intros c. unfold delete_object_only.
    apply okv_try_finally; [|okd].
    apply ok_mbind; [okd|]. intros _.
    eapply okv_mbind; [apply okv_probe|]. intros b Hb. destruct b; [apply ok_ret|].
    apply ok_delete_object_file. apply free_objfree. exact (Hb eq_refl).
  Qed.
  Hint Resolve ok_delete_object_only : okdb.
  Lemma ok_delete_if_invalid : forall c sz pre ok, Ok (delete_if_invalid c sz pre ok).
  Proof.
    intros. unfold delete_if_invalid.
    apply ok_mbind; [apply ok_catch; destruct sz, pre, ok; okauto|].
    intros [u|e]; [okauto|]. destruct e; okauto.
  Qed.

  Lemma ok_lift_unit : forall m, Ok m -> Ok (lift_unit m).
  Proof. intros. unfold lift_unit. okauto. Qed.

  (* every call that names pid p, or no pid at all, obeys the discipline *)
  Definition pub_call (c : call) : Prop :=
    match c with
    | CStore _ _ b n _ _ => pubO b (CData b n n) /\ pubP (CCid b)
    | CTag _ k => pubP (CCid k)
    | _ => True
    end.

  Theorem api_ok : forall c, (forall p', call_pid c = Some p' -> p' = p) -> pub_call c -> Ok (api c).
  Proof.
    intros c Hc Hpub. destruct c; simpl in Hc, Hpub |- *;
      try (assert (Hp : p0 = p) by (apply Hc; reflexivity); subst p0).
    - destruct Hpub as [HO HP]. destruct p0 as [p'|].
      + rewrite (Hc p' eq_refl). apply ok_store_object_pid; assumption.
      + apply ok_store_object_nopid; assumption.
    - apply ok_lift_unit. apply ok_tag_object. exact Hpub.
    - apply ok_lift_unit. apply ok_delete_object.
    - apply ok_lift_unit. apply ok_delete_if_invalid.
    - apply ok_store_metadata.
    - apply ok_retrieve_metadata.
    - apply ok_lift_unit. apply ok_delete_metadata.
    - okauto.
    - okauto.
    - apply okv_raise.
    - apply ok_lift_unit. apply ok_delete_object_unfixed.
  Qed.
End ApiFault.
End F.

(* ================================================================================== *)
(* 4. (F1) OTHERS UNTOUCHED and NEVER WRONG BYTES, for every fault plan               *)
(* ================================================================================== *)

Theorem fault_WI_frun : forall w0 c p w r,
  Inv w0 -> (forall p', call_pid c = Some p' -> p' = p) ->
  frun (api c) w0 w r -> WI w0 p w.
Proof.
  intros w0 c p w r HI Hc Hr. destruct (Inv_WI w0 p HI) as [HW Hag].
  eapply frun_WI; [|exact Hag|exact HW|exact Hr].
  eapply F.safe_weaken; [apply (F.api_ok w0 p pubT1 pubT2 c Hc)|auto].
  destruct c; simpl; unfold pubT1, pubT2; auto.
Qed.

Theorem fault_WI : forall w0 c p st w r,
  Inv w0 -> (forall p', call_pid c = Some p' -> p' = p) ->
  run_fault st w0 (api c) = Some (w, r) -> WI w0 p w.
Proof. intros. eapply fault_WI_frun; eauto. eapply run_fault_frun; eauto. Qed.

(* a further faulted call on p, from any world that is framed w.r.t. w0 *)
Theorem followup_fault_WI : forall w0 p w c st w' r,
  WI w0 p w -> (forall p', call_pid c = Some p' -> p' = p) ->
  run_fault st w (api c) = Some (w', r) -> WI w0 p w'.
Proof.
  intros w0 p w c st w' r HW Hc Hr.
  eapply frun_WI; [|apply agree_g0|exact HW|eapply run_fault_frun; exact Hr].
  eapply F.safe_weaken; [apply (F.api_ok w0 p pubT1 pubT2 c Hc)|auto].
  destruct c; simpl; unfold pubT1, pubT2; auto.
Qed.

(* (F1) every start state, every call naming p (or no pid), EVERY fault state — FWait k pers for
   all k and both modes included *)
Theorem fault_others_untouched : forall w0 c p st w r,
  Inv w0 -> (forall p', call_pid c = Some p' -> p' = p) ->
  run_fault st w0 (api c) = Some (w, r) ->
  forall q, q <> p ->
    lookup (APidRef q) (fs w) = lookup (APidRef q) (fs w0) /\
    (forall f, lookup (AMeta q f) (fs w) = lookup (AMeta q f) (fs w0)) /\
    (forall k, lookup (APidRef q) (fs w0) = Some (CCid k) ->
       (exists l, lookup (ACidRef k) (fs w) = Some (CLines l) /\ In q l) /\
       (forall x, lookup (AObj k) (fs w0) = Some x -> lookup (AObj k) (fs w) = Some x)) /\
    ((forall k, lookup (APidRef q) (fs w0) = Some (CCid k) -> lookup (AObj k) (fs w0) <> None) ->
       exists r0, retr w0 q = Some r0 /\ retr w q = Some r0).
Proof.
  intros w0 c p st w r HI Hc Hr q Hq.
  apply (WI_others w0 p w HI (fault_WI w0 c p st w r HI Hc Hr) q Hq).
Qed.

(* whatever failed, retrieve_object never serves wrong bytes afterwards, for any pid *)
Theorem fault_never_wrong_bytes : forall w0 c p st w r,
  Inv w0 -> (forall p', call_pid c = Some p' -> p' = p) ->
  run_fault st w0 (api c) = Some (w, r) ->
  forall q,
    (exists b m, retr w q = Some (Val (CData b m m)) /\
                 lookup (APidRef q) (fs w) = Some (CCid b) /\
                 lookup (AObj b) (fs w) = Some (CData b m m))
    \/ (exists e, retr w q = Some (Exn e) /\ NotFoundOrInconsistent e).
Proof.
  intros w0 c p st w r HI Hc Hr q.
  destruct (fault_WI w0 c p st w r HI Hc Hr) as (Ht & _).
  rewrite (retr_spec w q Ht). unfold retr_fun, sem_find, NotFoundOrInconsistent.
  destruct (lookup (APidRef q) (fs w)) as [x|] eqn:Hp; [|right; eexists; split; [reflexivity|tauto]].
  destruct (Ht _ _ Hp) as [b ->].
  destruct (lookup (ACidRef b) (fs w)) as [y|] eqn:Hcr; [|right; eexists; split; [reflexivity|tauto]].
  destruct (Ht _ _ Hcr) as [l ->].
  destruct (memb Nat.eqb q l); [|right; eexists; split; [reflexivity|tauto]].
  unfold present. destruct (lookup (AObj b) (fs w)) as [x|] eqn:Ho;
    [|right; eexists; split; [reflexivity|tauto]].
  destruct (Ht _ _ Ho) as [m ->]. left. exists b, m. cbv beta iota. rewrite ?Ho. auto.
Qed.

(* objects and p's reference are the old ones or what the call was publishing *)
Theorem fault_OP : forall w0 c p st w r,
  Inv w0 -> (forall p', call_pid c = Some p' -> p' = p) ->
  run_fault st w0 (api c) = Some (w, r) ->
  OP w0 p (call_pubO c) (call_pubP c) w.
Proof.
  intros w0 c p st w r HI Hc Hr. destruct (Inv_WI w0 p HI) as [HW Hag].
  eapply frun_OP; [|exact Hag|exact HW|apply OP_start|eapply run_fault_frun; exact Hr].
  eapply F.safe_weaken; [apply (F.api_ok w0 p _ _ c Hc)|auto].
  destruct c; simpl; auto.
Qed.

(* the content served to the faulted pid is its old one or the call's (size consistency as in
   CrashGeneral.v), or it is reported not found / inconsistent *)
Theorem fault_pid_retrievable_or_notfound : forall w0 c p st w r,
  Inv w0 -> call_pid c = Some p -> call_size_ok w0 c ->
  run_fault st w0 (api c) = Some (w, r) ->
  pid_retrievable_or_notfound w0 c p w.
Proof.
  intros w0 c p st w r HI Hcp Hsz Hrun.
  assert (Hc : forall p', call_pid c = Some p' -> p' = p) by (intros p' H; congruence).
  destruct (fault_never_wrong_bytes w0 c p st w r HI Hc Hrun p) as [(b & m & Hr & Hp & Ho)|Hex];
    [|right; exact Hex].
  left. exists b, m. split; [exact Hr|]. split; [|exact Hp].
  destruct (fault_OP w0 c p st w r HI Hc Hrun) as [HO HP].
  unfold allowed_contents. apply in_or_app.
  destruct (HP _ Hp) as [Hp0|Hpub].
  - destruct (HO _ _ Ho) as [Ho0|Hpo].
    + left. unfold old_contents.
      destruct (Inv_WI w0 p HI) as [(Ht0 & _) _].
      rewrite (retr_spec w0 p Ht0). unfold retr_fun, sem_find. rewrite Hp0.
      destruct HI as [(W & I1 & I2) HL]. destruct (I1 p b Hp0) as (l & Hl & Hin).
      rewrite Hl. apply (proj2 (memb_In Nat.eqb nat_eqb_true Nat.eqb_refl p l)) in Hin.
      rewrite Hin. unfold present. rewrite Ho0. cbv beta iota. rewrite Ho0. left. reflexivity.
    + right. destruct c; simpl in Hpo; try contradiction. destruct Hpo as [-> Hx].
      simpl in Hcp. subst p0. simpl. rewrite Nat.eqb_refl. left. symmetry. exact Hx.
  - right. destruct c; simpl in Hpub; try contradiction.
    + inversion Hpub; subst b0. simpl in Hcp. subst p0. simpl. rewrite Nat.eqb_refl. left.
      destruct (HO _ _ Ho) as [Ho0|[_ Hx]]; [|symmetry; exact Hx].
      symmetry. apply (Hsz _ Ho0).
    + inversion Hpub; subst c. simpl in Hcp. inversion Hcp; subst p0. simpl. rewrite Nat.eqb_refl.
      destruct (HO _ _ Ho) as [Ho0|[]]. rewrite Ho0. left. reflexivity.
Qed.

(* ================================================================================== *)
(* 5. (F3) a failed store_metadata leaves the previous document version intact         *)
(* ================================================================================== *)

Lemma frun_bind : forall A B (m : prog A) (f : A -> prog B) w w' r,
  frun (bind m f) w w' r -> exists w1 a, frun m w w1 a /\ frun (f a) w1 w' r.
Proof.
  induction m as [a|o k IH|]; intros f w w' r H; simpl in H.
  - exists w, a. split; [split; reflexivity|exact H].
  - destruct H as [(x & w1 & Hex & H)|[Hs H]].
    + destruct (IH x f w1 w' r H) as (w2 & a & H1 & H2).
      exists w2, a. split; [|exact H2]. simpl. left. eauto.
    + destruct (IH (AErr EFault) f w w' r H) as (w2 & a & H1 & H2).
      exists w2, a. split; [|exact H2]. simpl. right. auto.
  - contradiction.
Qed.

Lemma frun_mbind : forall A B (m : M A) (f : A -> M B) w w' r,
  frun (mbind m f) w w' r ->
  exists w1 a, frun m w w1 a /\
    match a with Val x => frun (f x) w1 w' r | Exn e => w' = w1 /\ r = Exn e end.
Proof.
  intros A B m f w w' r H. unfold mbind in H. apply frun_bind in H.
  destruct H as (w1 & a & H1 & H2). exists w1, a. split; [exact H1|].
  destruct a; simpl in H2; auto.
Qed.

(* effect of a program on one address and on the locks: "keeps a" *)
Definition keeps {A} (a : addr) (m : prog A) : Prop :=
  forall w w' r, frun m w w' r -> lookup a (fs w') = lookup a (fs w) /\ locks w' = locks w.

Lemma keeps_ret : forall A a (x : A), keeps a (Ret x).
Proof. intros A a x w w' r [-> _]. auto. Qed.

Lemma keeps_bind : forall A B a (m : prog A) (f : A -> prog B),
  keeps a m -> (forall x, keeps a (f x)) -> keeps a (bind m f).
Proof.
  intros A B a m f Hm Hf w w' r H. apply frun_bind in H. destruct H as (w1 & x & H1 & H2).
  destruct (Hm _ _ _ H1) as [E1 L1]. destruct (Hf x _ _ _ H2) as [E2 L2].
  split; congruence.
Qed.

Lemma keeps_mbind : forall A B a (m : M A) (f : A -> M B),
  keeps a m -> (forall x, keeps a (f x)) -> keeps a (mbind m f).
Proof.
  intros. unfold mbind. apply keeps_bind; auto. intros [x|e]; auto. apply keeps_ret.
Qed.

(* an operation that does not write a and takes no lock *)
Definition op_keeps (a : addr) (o : op) : Prop :=
  match o with
  | Rename s d => s <> a /\ d <> a
  | Remove b | WriteChunk b | OpenWr b _ | AppendOpen b | AppendWrite b _ | RewriteWrite b _
  | Truncate b _ => b <> a
  | MkTmp _ _ => tmpb a = false
  | Acquire _ _ | Release _ _ => False
  | _ => True
  end.

Lemma fcontent_eqb_refl : forall v, fcontent_eqb v v = true.
Proof.
  destruct v; simpl; rewrite ?Nat.eqb_refl; auto. apply (list_eqb_refl Nat.eqb Nat.eqb_refl).
Qed.

Lemma ofc_dec : forall x y : option fcontent, x = y \/ x <> y.
Proof.
  intros [x|] [y|]; try (right; discriminate); [|left; reflexivity].
  destruct (fcontent_eqb x y) eqn:E.
  - apply fcontent_eqb_true in E. subst. left. reflexivity.
  - right. intros H. inversion H; subst. rewrite fcontent_eqb_refl in E. discriminate.
Qed.

Lemma exec_op_keeps : forall a o w x w', op_keeps a o -> exec_op 0 o w = Some (x, w') ->
  lookup a (fs w') = lookup a (fs w) /\ locks w' = locks w.
Proof.
  intros a o w x w' Hk Hex. split.
  - destruct (ofc_dec (lookup a (fs w)) (lookup a (fs w'))) as [E|E]; [symmetry; exact E|].
    exfalso.
    destruct (change_needs_rename_or_remove 0 o w x w' a Hex E) as [[s ->]|[[d ->]|[->|[Hi|Hm]]]];
      simpl in Hk.
    + destruct Hk; congruence.
    + destruct Hk; congruence.
    + congruence.
    + destruct o; simpl in Hi; try discriminate; inversion Hi; subst; simpl in Hk; congruence.
    + destruct Hm as (ar & init & -> & Ht). simpl in Hk. congruence.
  - destruct w as [m L]. destruct o; simpl in Hex, Hk; try contradiction;
      repeat match goal with
      | H : context [match lookup ?b m with _ => _ end] |- _ => destruct (lookup b m) as [[]|]
      end; inversion Hex; subst; reflexivity.
Qed.

Lemma keeps_vis : forall A a o (k : ans -> prog A),
  op_keeps a o -> (forall x, keeps a (k x)) -> keeps a (Vis o k).
Proof.
  intros A a o k Ho Hk w w' r H. simpl in H. destruct H as [(x & w1 & Hex & H)|[Hs H]].
  - destruct (exec_op_keeps a o w x w1 Ho Hex) as [E1 L1].
    destruct (Hk x _ _ _ H) as [E2 L2]. split; congruence.
  - apply (Hk _ _ _ _ H).
Qed.

Lemma keeps_bad : forall A a, keeps a (@Bad A).
Proof. intros A a w w' r []. Qed.

Lemma keeps_unit_op : forall a o, op_keeps a o -> keeps a (unit_op o).
Proof.
  intros a o H. apply keeps_vis; [exact H|]. intros []; try apply keeps_bad; apply keeps_ret.
Qed.

Lemma keeps_open_source : forall a s, keeps a (open_source s).
Proof. intros a []; simpl; [apply keeps_unit_op; exact I|apply keeps_ret|apply keeps_ret]. Qed.

Lemma keeps_write_chunks : forall a t n, t <> a -> keeps a (write_chunks t n).
Proof.
  intros a t n Hne. induction n as [|n IH]; simpl; [apply keeps_ret|].
  apply keeps_mbind; [apply keeps_unit_op; exact Hne|]. intros _. exact IH.
Qed.

Lemma frun_mktmp : forall a ar init w w1 r, tmpb a = false ->
  frun (mktmp ar init) w w1 r ->
  lookup a (fs w1) = lookup a (fs w) /\ locks w1 = locks w /\ forall t, r = Val t -> tmpb t = true.
Proof.
  intros a ar init w w1 r Ha H. unfold mktmp in H. simpl in H.
  destruct H as [(x & w2 & Hex & H)|[Hs H]].
  - destruct (exec_op_keeps a (MkTmp ar init) w x w2 Ha Hex) as [E L].
    destruct w as [m L0]. simpl in Hex. inversion Hex; subst x w2. simpl in H.
    destruct H as [-> ->]. split; [exact E|]. split; [exact L|].
    intros t Ht. inversion Ht. destruct (fresh_tmp_shape ar 0 m) as [k ->]. reflexivity.
  - simpl in H. destruct H as [-> ->]. split; [reflexivity|]. split; [reflexivity|].
    intros t Ht. discriminate.
Qed.

Theorem store_metadata_fault_keeps : forall p f s v n w w' e,
  memb lock_eqb (LMeta, IDoc (AMeta p f)) (locks w) = false ->
  frun (store_metadata p f s v n) w w' (Exn e) ->
  lookup (AMeta p f) (fs w') = lookup (AMeta p f) (fs w).
Proof.
  intros p f s v n w w' e HL H. unfold store_metadata in H. cbv zeta in H.
  set (a := AMeta p f) in *.
  apply frun_mbind in H. destruct H as (w1 & r1 & Hacq & H).
  unfold acquire in Hacq. simpl in Hacq.
  destruct Hacq as [(x & w1' & Hex & Hacq)|[Hs _]]; [|discriminate].
  destruct w as [m L]. simpl in Hex, HL. rewrite HL in Hex. inversion Hex; subst x w1'; clear Hex.
  simpl in Hacq. destruct Hacq as [-> ->].
  unfold try_finally in H. apply frun_bind in H. destruct H as (w2 & rb & Hbody & H).
  apply frun_bind in H. destruct H as (w3 & rf & Hfin & H).
  (* the body *)
  assert (Hb : locks w2 = (LMeta, IDoc a) :: L /\
               (forall e', rb = Exn e' -> lookup a (fs w2) = lookup a m)).
  { clear Hfin H.
    apply frun_mbind in Hbody. destruct Hbody as (u1 & r & H1 & Hbody).
    destruct (keeps_open_source a s _ _ _ H1) as [E1 L1]. simpl in E1, L1.
    destruct r as [[]|e1]; [|destruct Hbody as [-> ->]; split; [exact L1|intros; exact E1]].
    apply frun_mbind in Hbody. destruct Hbody as (u2 & r & H2 & Hbody).
    destruct (frun_mktmp a ArMeta _ _ _ _ eq_refl H2) as (E2 & L2 & Ht).
    destruct r as [t|e2]; [|destruct Hbody as [-> ->]; split; [congruence|intros; congruence]].
    assert (Hne : t <> a) by (intros ->; specialize (Ht _ eq_refl); discriminate).
    apply frun_mbind in Hbody. destruct Hbody as (u3 & r & H3 & Hbody).
    destruct (keeps_write_chunks a t n Hne _ _ _ H3) as [E3 L3].
    destruct r as [[]|e3]; [|destruct Hbody as [-> ->]; split; [congruence|intros; congruence]].
    apply frun_mbind in Hbody. destruct Hbody as (u4x & r & H4 & Hbody).
    unfold catch in H4. apply frun_bind in H4. destruct H4 as (u4 & rx & H4 & H4').
    simpl in H4'. destruct H4' as [Eu Er]. subst u4x r.
    (* MkDirs ;;; Rename t a *)
    assert (Hx : locks u4 = locks u3 /\ (forall e', rx = Exn e' -> lookup a (fs u4) = lookup a (fs u3))).
    { apply frun_mbind in H4. destruct H4 as (u5 & r & H5 & H4).
      destruct (keeps_unit_op a (MkDirs a) I _ _ _ H5) as [E5 L5].
      destruct r as [[]|e5]; [|destruct H4 as [-> ->]; split; [exact L5|intros; exact E5]].
      unfold unit_op in H4. simpl in H4.
      destruct H4 as [(x & u6 & Hex & H4)|[_ H4]].
      - destruct u5 as [m5 L5']. simpl in Hex.
        destruct (lookup t m5); inversion Hex; subst x u6; simpl in H4; destruct H4 as [-> ->].
        + split; [exact L5|]. intros e' He'. discriminate.
        + split; [exact L5|]. intros e' _. exact E5.
      - simpl in H4. destruct H4 as [-> ->]. split; [exact L5|]. intros e' _. exact E5. }
    destruct Hx as [L4 E4].
    destruct rx as [[]|ex].
    - simpl in Hbody. destruct Hbody as [-> ->]. split; [congruence|]. intros e' He'. discriminate.
    - specialize (E4 _ eq_refl).
      apply frun_mbind in Hbody. destruct Hbody as (u7 & r & H7 & Hbody).
      destruct (keeps_unit_op a (Remove t) Hne _ _ _ H7) as [E7 L7].
      destruct r as [[]|e7].
      + simpl in Hbody. destruct Hbody as [-> _]. split; [congruence|intros; congruence].
      + destruct Hbody as [-> _]. split; [congruence|intros; congruence]. }
  destruct Hb as [Lb Eb].
  (* the finaliser releases the lock it holds *)
  unfold release in Hfin. simpl in Hfin.
  destruct Hfin as [(x & w3' & Hex & Hfin)|[Hs _]]; [|discriminate].
  destruct w2 as [m2 L2]. simpl in Lb, Hex. subst L2.
  cbn [memb] in Hex. rewrite lock_eqb_refl in Hex. inversion Hex; subst x w3'; clear Hex.
  simpl in Hfin. destruct Hfin as [-> ->]. simpl in H. destruct H as [-> Hr].
  simpl. apply (Eb e). symmetry. exact Hr.
Qed.

Theorem store_metadata_fault_intact : forall w0 p f s v n st w e,
  Inv w0 -> run_fault st w0 (api (CStoreMeta p f s v n)) = Some (w, Exn e) ->
  lookup (AMeta p f) (fs w) = lookup (AMeta p f) (fs w0).
Proof.
  intros w0 p f s v n st w e [_ HL] Hr. apply run_fault_frun in Hr. simpl in Hr.
  eapply store_metadata_fault_keeps; [|exact Hr]. rewrite HL. reflexivity.
Qed.

(* ================================================================================== *)
(* 6. (F2) the call returns and leaves no lock — every fault plan in which the failing *)
(*    operation is never the flock itself (Bracket.v's discipline, run for run_fault)   *)
(* ================================================================================== *)

Definition is_rename (o : op) : bool := match o with Rename _ _ => true | _ => false end.

(* does the fault state make this operation fail now? *)
Definition faulted (st : fstate) (o : op) : bool :=
  is_site o &&
  match st with
  | FWait 0 pers => pers || negb (is_rename o)
  | FWait (S _) _ => false
  | FStuck d => dest_eqb d (dest_of o)
  | FDone => false
  end.

Lemma fault_op_faulted : forall st o w,
  fault_op st o w =
  if faulted st o
  then (Some (AErr EFault, w), snd (fault_op st o w))
  else (exec_op 0 o w, snd (fault_op st o w)).
Proof.
  intros st o w. unfold fault_op, faulted. destruct (is_site o); simpl; [|reflexivity].
  destruct st as [[|k] pers|d|]; simpl; try reflexivity.
  - destruct pers; simpl; [reflexivity|]. destruct o; reflexivity.
  - destruct (dest_eqb d (dest_of o)); reflexivity.
Qed.

(* the fault plan never makes the flock itself fail *)
Fixpoint noflock {A} (st : fstate) (w : world) (m : prog A) : Prop :=
  match m with
  | Vis o k =>
      (faulted st o = true -> Bracket.faultable o = true) /\
      match fault_op st o w with
      | (Some (x, w'), st') => noflock st' w' (k x)
      | _ => True
      end
  | _ => True
  end.

Lemma run_fault_total : forall A (m : prog A) st h kn w,
  Bracket.Br 0 m h kn (fun _ h' _ => h' = []) ->
  Bracket.refs_typed (fs w) -> Bracket.KInv 0 kn (fs w) ->
  Bracket.LInv (Bracket.upd_fun (fun _ => []) 0 h) (locks w) ->
  noflock st w m ->
  exists w' r, run_fault st w m = Some (w', r) /\ locks w' = [] /\ Bracket.refs_typed (fs w').
Proof.
  induction m as [r|o k IH|]; intros st h kn w Hbr Hrt Hk HL Hnf; simpl in Hbr.
  - subst h. exists w, r. simpl. split; auto. split; auto.
    destruct HL as (_ & _ & _ & L4 & _). destruct (locks w) as [|l L]; auto. exfalso.
    destruct (L4 l (or_introl eq_refl)) as [j Hj]. unfold Bracket.upd_fun in Hj.
    destruct (Nat.eqb j 0); contradiction.
  - destruct Hbr as [Hpre Hbr]. simpl. simpl in Hnf. destruct Hnf as [Hfl Hnf].
    rewrite fault_op_faulted in Hnf |- *.
    assert (Hsub : forall l, In l h -> In l (locks w)).
    { intros l Hl. destruct HL as (_ & _ & L3 & _). apply (L3 0). rewrite Bracket.upd_fun_eq. exact Hl. }
    destruct (faulted st o) eqn:Ef.
    + specialize (Hfl eq_refl).
      pose proof (Bracket.faultable_ans_ok 0 kn o Hfl) as Hans.
      apply (IH (AErr EFault) _ (Bracket.next_h h o) (Bracket.next_k kn o (AErr EFault)) w); auto.
      all: destruct o; simpl in Hfl |- *; try discriminate; auto;
        try (apply Bracket.KInv_kdrop; exact Hk); try (destruct cls; discriminate).
    + destruct (exec_op 0 o w) as [[a w']|] eqn:E.
      * destruct (@Bracket.exec_op_sound 0 h kn o w a w' Hrt Hk Hsub Hpre E) as (Hans & Hrt' & Hk' & _ & Hls).
        apply (IH a _ (Bracket.next_h h o) (Bracket.next_k kn o a) w'); auto.
        eapply Bracket.LInv_ext; [|eapply (@Bracket.LInv_step _ _ _ 0 o); [exact HL| |exact Hls]].
        -- intros j. unfold Bracket.upd_fun. rewrite Nat.eqb_refl. destruct (Nat.eqb j 0); auto.
        -- intros cls x ->. rewrite Bracket.upd_fun_eq. exact Hpre.
      * exfalso. apply Bracket.exec_op_enabled in E. destruct E as (cls & x & -> & Hin).
        destruct HL as (_ & _ & _ & L4 & _). destruct (L4 _ Hin) as [j Hj]. unfold Bracket.upd_fun in Hj.
        destruct (Nat.eqb j 0); [|contradiction].
        simpl in Hpre. specialize (Hpre _ Hj). simpl in Hpre. lia.
  - contradiction.
Qed.

Theorem fault_returns_no_lock : forall w0 c st,
  Inv w0 -> noflock st w0 (api c) ->
  exists w r, run_fault st w0 (api c) = Some (w, r) /\ locks w = [].
Proof.
  intros w0 c st [(W & _) HL] Hnf.
  destruct (run_fault_total _ (api c) st [] [] w0) as (w & r & Hr & Hl & _).
  - apply Bracket.api_bracketed.
  - apply Bracket.well_typed_refs_typed. exact W.
  - apply Bracket.KInv_nil.
  - apply Bracket.LInv_empty. exact HL.
  - exact Hnf.
  - exists w, r. auto.
Qed.

(* ================================================================================== *)
(* 7. The full statement, a refutation, and what is proved                             *)
(* ================================================================================== *)

(* C13 for ALL start states, calls and fault plans, in the vocabulary of CrashFault.v *)
Definition C13_general_statement : Prop :=
  forall (w0 : world) (c : call) (p : pid) (k : nat) (pers : bool) (others : list pid) (fmts : list fmt),
    Inv w0 -> call_pid c = Some p -> proper_call c ->
    exists w out, run_fault (FWait k pers) w0 (api c) = Some (w, out) /\
                  fault_outcome_ok w0 c p others fmts w out.

(* WITNESS (the D10 family of the menu, simplest member): empty store, tag_object(1, 7); the 8th
   fault site is the read of the new pid reference by the verification; when it fails
   PERSISTENTLY the roll-back (untag_object), which must read the same file, fails too: the call
   raises OSError, yet pid 1 stays bound to 7, and the same call issued again is refused *)
Example persistent_fault_defeats_rollback :
  site_op 8 empty_world (api (CTag 1 7)) = Some (Read (APidRef 1)) /\
  run_fault (FWait 8 true) empty_world (api (CTag 1 7)) =
    Some (mkWorld [(APidRef 1, CCid 7); (ACidRef 7, CLines [1])] [], Exn EOSError) /\
  run_seq (mkWorld [(APidRef 1, CCid 7); (ACidRef 7, CLines [1])] []) (api (CTag 1 7)) =
    Some (mkWorld [(APidRef 1, CCid 7); (ACidRef 7, CLines [1])] [], Exn EHashStoreRefsAlreadyExists).
Proof. vm_compute. repeat split; reflexivity. Qed.

Theorem C13_general_statement_false : ~ C13_general_statement.
Proof.
  intros H.
  destruct (H empty_world (CTag 1 7) 1 8 true [] [] Refine.inv_empty eq_refl I) as (w & out & Hr & Hok).
  destruct persistent_fault_defeats_rollback as (_ & Hrun & _). rewrite Hrun in Hr.
  inversion Hr; subst w out; clear Hr.
  destruct Hok as (_ & _ & _ & Hexn & _).
  destruct (Hexn EOSError eq_refl) as (Hb & _). destruct (Hb eq_refl) as [(Hu & _)|(x & Hx & _)].
  - simpl in Hu. discriminate.
  - simpl in Hx. discriminate.
Qed.

(* WHAT IS PROVED, for every start state satisfying Inv, every call naming p, EVERY fault state
   (so every k and both modes; the fault sites are those of [Sched.is_site], the chunk writes into
   temp files and the append to a cid list — a full disk — included):
   (F1) the other pids are untouched (in full under no_dangling for the pid looked at), and
        retrieve_object never serves wrong bytes to anybody; the content served to p is its old
        one or the call's;
   (F3) a store_metadata that raises leaves the document as it was;
   (F2) the call returns and no lock is left, for every fault plan that never fails the flock.
   "Success => the permanent files are those of the fault-free run" is proved in FaultSuccess.v
   (one-off faults: every call) and FaultPersist.v (persistent faults: every call).
   (F4) ONE-OFF faults: sections 8, 9 below for a pid that is unbound in the start state (unbound
   again and storable at once); FaultBound.v for every start state and every variant of
   store_object / tag_object (the pid is never half-bound: its reference files are as before the
   call, or it is completely unbound).
   (F2) when the flock itself fails: FlockFaults.fault_returns_no_lock_any (no [noflock]).
   MISSING: the retry ("can be stored again at once") for a pid
   that was bound, and for store_object with a stream source or supplied size / checksum (menu only;
   (F4) is FALSE for persistent faults, witness above); the follow-up clauses of [fault_outcome_ok]. *)
Theorem C13_general_partial :
  forall (w0 : world) (c : call) (p : pid) (st : fstate),
    Inv w0 -> call_pid c = Some p ->
    (* F2 *)
    (noflock st w0 (api c) -> exists w r, run_fault st w0 (api c) = Some (w, r) /\ locks w = []) /\
    forall w out, run_fault st w0 (api c) = Some (w, out) ->
      (* F1 *)
      (forall q fmts, q <> p ->
         (forall k, lookup (APidRef q) (fs w0) = Some (CCid k) -> lookup (AObj k) (fs w0) <> None) ->
         other_untouched fmts w0 w q) /\
      (forall q,
         (exists b m, retr w q = Some (Val (CData b m m)) /\
                      lookup (APidRef q) (fs w) = Some (CCid b) /\
                      lookup (AObj b) (fs w) = Some (CData b m m))
         \/ (exists e, retr w q = Some (Exn e) /\ NotFoundOrInconsistent e)) /\
      (call_size_ok w0 c -> pid_retrievable_or_notfound w0 c p w) /\
      (* F3 *)
      (forall f s v n e, c = CStoreMeta p f s v n -> out = Exn e ->
         lookup (AMeta p f) (fs w) = lookup (AMeta p f) (fs w0)).
Proof.
  intros w0 c p st HI Hcp.
  assert (Hc : forall p', call_pid c = Some p' -> p' = p) by (intros p' H; congruence).
  split; [intros Hnf; apply fault_returns_no_lock; assumption|].
  intros w out Hr. split; [|split; [|split]].
  - intros q fmts Hq Hnd. eapply WI_other_untouched; [exact HI|eapply fault_WI; eauto|exact Hq|exact Hnd].
  - intros q. eapply fault_never_wrong_bytes; eauto.
  - intros Hsz. eapply fault_pid_retrievable_or_notfound; eauto.
  - intros f s v n e -> ->. eapply store_metadata_fault_intact; eauto.
Qed.

(* ---------- a usable sufficient condition for [noflock]: one-off faults ---------- *)

(* the operation at which the one-off fault [FWait k false] is delivered *)
Fixpoint fault_target {A} (k : nat) (w : world) (m : prog A) : option op :=
  match m with
  | Vis o kk =>
      if is_site o
      then match k with
           | 0 => Some o
           | S k' => match exec_op 0 o w with Some (x, w') => fault_target k' w' (kk x) | None => None end
           end
      else match exec_op 0 o w with Some (x, w') => fault_target k w' (kk x) | None => None end
  | _ => None
  end.

Lemma noflock_done : forall A (m : prog A) w, noflock FDone w m.
Proof.
  induction m as [a|o k IH|]; intros w; simpl; auto.
  split.
  - unfold faulted. rewrite andb_false_r. discriminate.
  - unfold fault_op. destruct (is_site o); destruct (exec_op 0 o w) as [[x w']|]; auto.
Qed.

Lemma noflock_one_off : forall A (m : prog A) k w,
  (forall a, fault_target k w m <> Some (Acquire LFile a)) -> noflock (FWait k false) w m.
Proof.
  induction m as [a|o kk IH|]; intros k w H; simpl; auto.
  simpl in H. unfold faulted, fault_op. destruct (is_site o) eqn:Es; simpl.
  - destruct k as [|k'].
    + split.
      * intros Hf. unfold Bracket.faultable. rewrite Es. simpl.
        destruct o; simpl in *; try discriminate; auto.
        destruct cls; simpl in *; try discriminate. exfalso. apply (H i). reflexivity.
      * destruct o; try apply noflock_done.
        destruct (exec_op 0 (Rename src dst) w) as [[x w']|]; auto. apply noflock_done.
    + split; [discriminate|].
      destruct (exec_op 0 o w) as [[x w']|]; auto.
  - split; [discriminate|].
    destruct (exec_op 0 o w) as [[x w']|]; auto.
Qed.

(* (F2) for every ONE-OFF fault that is not delivered to the flock itself *)
Corollary one_off_fault_returns_no_lock : forall w0 c k,
  Inv w0 -> (forall a, fault_target k w0 (api c) <> Some (Acquire LFile a)) ->
  exists w r, run_fault (FWait k false) w0 (api c) = Some (w, r) /\ locks w = [].
Proof. intros. apply fault_returns_no_lock; [assumption|]. apply noflock_one_off. assumption. Qed.

(* ================================================================================== *)
(* 8. (F4) ONE-OFF faults in tag_object: the roll-back                                 *)
(* ================================================================================== *)

(* run_fault with the final fault state *)
Fixpoint rfs {A} (st : fstate) (w : world) (m : prog A) : option (world * A * fstate) :=
  match m with
  | Ret a => Some (w, a, st)
  | Bad => None
  | Vis o k =>
      match fault_op st o w with
      | (Some (x, w'), st') => rfs st' w' (k x)
      | (None, _) => None
      end
  end.

Lemma rfs_run_fault : forall A (m : prog A) st w,
  run_fault st w m = match rfs st w m with Some (w', r, _) => Some (w', r) | None => None end.
Proof.
  induction m as [a|o k IH|]; intros st w; simpl; auto.
  destruct (fault_op st o w) as [[[x w']|] st']; auto.
Qed.

Lemma rfs_bind : forall A B (m : prog A) (f : A -> prog B) st w,
  rfs st w (bind m f) =
  match rfs st w m with Some (w', a, st') => rfs st' w' (f a) | None => None end.
Proof.
  induction m as [a|o k IH|]; intros f st w; simpl; auto.
  destruct (fault_op st o w) as [[[x w']|] st']; auto.
Qed.

Lemma rfs_mbind : forall A B (m : M A) (f : A -> M B) st w,
  rfs st w (mbind m f) =
  match rfs st w m with
  | Some (w', Val a, st') => rfs st' w' (f a)
  | Some (w', Exn e, st') => Some (w', Exn e, st')
  | None => None
  end.
Proof.
  intros. unfold mbind. rewrite rfs_bind. destruct (rfs st w m) as [[[w' [a|e]] st']|]; reflexivity.
Qed.

Lemma rfs_catch : forall A (m : M A) st w,
  rfs st w (catch m) =
  match rfs st w m with Some (w', r, st') => Some (w', Val r, st') | None => None end.
Proof.
  intros. unfold catch. rewrite rfs_bind. destruct (rfs st w m) as [[[w' r] st']|]; reflexivity.
Qed.

Lemma rfs_try_finally : forall A (m : M A) (fin : M unit) st w,
  rfs st w (try_finally m fin) =
  match rfs st w m with
  | Some (w', r, st') =>
      match rfs st' w' fin with
      | Some (w'', Val _, st'') => Some (w'', r, st'')
      | Some (w'', Exn e, st'') => Some (w'', Exn e, st'')
      | None => None
      end
  | None => None
  end.
Proof.
  intros. unfold try_finally. rewrite rfs_bind. destruct (rfs st w m) as [[[w' r] st']|]; auto.
  rewrite rfs_bind. destruct (rfs st' w' fin) as [[[w'' [u|e]] st'']|]; reflexivity.
Qed.

Lemma rfs_done : forall A (m : prog A) w,
  rfs FDone w m = match run_seq w m with Some (w', a) => Some (w', a, FDone) | None => None end.
Proof.
  induction m as [a|o k IH|]; intros w; simpl; auto.
  unfold fault_op. destruct (is_site o); destruct (exec_op 0 o w) as [[x w']|]; auto.
Qed.

(* a program without fault sites runs as without faults *)
Fixpoint nosite {A} (m : prog A) : Prop :=
  match m with Vis o k => is_site o = false /\ forall x, nosite (k x) | _ => True end.

Lemma rfs_nosite : forall A (m : prog A) st w, nosite m ->
  rfs st w m = match run_seq w m with Some (w', a) => Some (w', a, st) | None => None end.
Proof.
  induction m as [a|o k IH|]; intros st w H; simpl; auto.
  destruct H as [Hs Hk]. unfold fault_op. rewrite Hs.
  destruct (exec_op 0 o w) as [[x w']|]; auto.
Qed.

(* a program that is one site operation (not a rename) followed by returns *)
Definition one_site {A} (m : prog A) : Prop :=
  match m with
  | Vis o k => is_site o = true /\ is_rename o = false /\ forall x, nosite (k x)
  | _ => False
  end.

Lemma rfs_one_site_S : forall A (m : prog A) j w, one_site m ->
  rfs (FWait (S j) false) w m =
  match run_seq w m with Some (w', a) => Some (w', a, FWait j false) | None => None end.
Proof.
  intros A [a|o k|] j w H; simpl in H; try contradiction.
  destruct H as (Hs & _ & Hk). simpl. unfold fault_op. rewrite Hs.
  destruct (exec_op 0 o w) as [[x w']|]; auto. apply rfs_nosite. apply Hk.
Qed.


Local Arguments exec_op : simpl never.

Lemma rfs_unit_site_0 : forall o w, is_site o = true -> is_rename o = false ->
  rfs (FWait 0 false) w (unit_op o) = Some (w, Exn EOSError, FDone).
Proof.
  intros o w Hs Hr. unfold unit_op. simpl. unfold fault_op. rewrite Hs.
  destruct o; simpl in Hr; try discriminate; reflexivity.
Qed.
Lemma rfs_unit_site_S : forall o j w, is_site o = true ->
  rfs (FWait (S j) false) w (unit_op o) =
  match run_seq w (unit_op o) with Some (w', a) => Some (w', a, FWait j false) | None => None end.
Proof.
  intros o j w Hs. unfold unit_op. simpl. unfold fault_op. rewrite Hs.
  destruct (exec_op 0 o w) as [[x w']|]; auto. destruct x; reflexivity.
Qed.
Lemma rfs_unit_rename_0 : forall s d w,
  rfs (FWait 0 false) w (unit_op (Rename s d)) =
  match run_seq w (unit_op (Rename s d)) with Some (w', a) => Some (w', a, FDone) | None => None end.
Proof.
  intros. unfold unit_op. simpl.
  destruct (exec_op 0 (Rename s d) w) as [[x w']|]; auto. destruct x; reflexivity.
Qed.
Lemma rfs_unit_nonsite : forall o st w, is_site o = false ->
  rfs st w (unit_op o) =
  match run_seq w (unit_op o) with Some (w', a) => Some (w', a, st) | None => None end.
Proof.
  intros o st w Hs. unfold unit_op. simpl. unfold fault_op. rewrite Hs.
  destruct (exec_op 0 o w) as [[x w']|]; auto. destruct x; reflexivity.
Qed.
Lemma rfs_read_0 : forall a w, rfs (FWait 0 false) w (read a) = Some (w, Exn EOSError, FDone).
Proof. reflexivity. Qed.
Lemma rfs_read_S : forall a j w,
  rfs (FWait (S j) false) w (read a) =
  match run_seq w (read a) with Some (w', r) => Some (w', r, FWait j false) | None => None end.
Proof.
  intros. unfold read. simpl. destruct (exec_op 0 (Read a) w) as [[x w']|]; auto. destruct x; reflexivity.
Qed.
Lemma rfs_mktmp_0 : forall ar init w, rfs (FWait 0 false) w (mktmp ar init) = Some (w, Exn EOSError, FDone).
Proof. reflexivity. Qed.
Lemma rfs_mktmp_S : forall ar init j w,
  rfs (FWait (S j) false) w (mktmp ar init) =
  match run_seq w (mktmp ar init) with Some (w', r) => Some (w', r, FWait j false) | None => None end.
Proof. reflexivity. Qed.

Lemma rfs_probe : forall a st w,
  rfs st w (probe a) = match run_seq w (probe a) with Some (w', r) => Some (w', r, st) | None => None end.
Proof. reflexivity. Qed.
Lemma rfs_held : forall cls x st w,
  rfs st w (held cls x) = match run_seq w (held cls x) with Some (w', r) => Some (w', r, st) | None => None end.
Proof. reflexivity. Qed.
Lemma rfs_acquire : forall cls x st w, cls <> LFile ->
  rfs st w (acquire cls x) = match run_seq w (acquire cls x) with Some (w', r) => Some (w', r, st) | None => None end.
Proof.
  intros cls x st w H. unfold acquire. simpl. unfold fault_op.
  assert (Hs : is_site (Acquire cls x) = false) by (destruct cls; try reflexivity; contradiction).
  rewrite Hs. destruct (exec_op 0 (Acquire cls x) w) as [[y w']|]; auto. destruct y; reflexivity.
Qed.
Lemma rfs_release : forall cls x st w,
  rfs st w (release cls x) = match run_seq w (release cls x) with Some (w', r) => Some (w', r, st) | None => None end.
Proof.
  intros. unfold release. simpl. unfold fault_op. simpl.
  destruct (exec_op 0 (Release cls x) w) as [[y w']|]; auto. destruct y; reflexivity.
Qed.
Lemma rfs_funlock : forall a st w,
  rfs st w (funlock a) = match run_seq w (funlock a) with Some (w', r) => Some (w', r, st) | None => None end.
Proof.
  intros. unfold funlock. simpl. unfold fault_op. simpl.
  destruct (exec_op 0 (Release LFile (IDoc a)) w) as [[y w']|]; auto. destruct y; reflexivity.
Qed.
Lemma rfs_ret : forall A (a : A) st w, rfs st w (ret a) = Some (w, Val a, st).
Proof. reflexivity. Qed.
Lemma rfs_raise : forall A e st w, rfs st w (@raise A e) = Some (w, Exn e, st).
Proof. reflexivity. Qed.

Lemma run_funlock_free : forall m L a, memb lock_eqb (LFile, IDoc a) L = false ->
  run_seq (mkWorld m L) (funlock a) = Some (mkWorld m L, Val tt).
Proof.
  intros m L a H. unfold funlock. cbn [run_seq]. unfold exec_op. cbn [locks]. rewrite H. reflexivity.
Qed.

Ltac fstruct := first [rewrite rfs_mbind | rewrite rfs_catch | rewrite rfs_try_finally].
Ltac fleaf :=
  first [ rewrite rfs_probe | rewrite rfs_held | rewrite rfs_acquire by discriminate
        | rewrite rfs_release | rewrite rfs_funlock | rewrite rfs_ret | rewrite rfs_raise
        | rewrite rfs_unit_nonsite by reflexivity
        | rewrite rfs_unit_site_S by reflexivity | rewrite rfs_read_S | rewrite rfs_mktmp_S
        | rewrite rfs_unit_rename_0
        | rewrite rfs_unit_site_0 by reflexivity | rewrite rfs_read_0 | rewrite rfs_mktmp_0
        | rewrite rfs_done ].
Ltac frun1 := first [ fstruct | fleaf | rewrite run_funlock_free by (lk; first [reflexivity|assumption]) | step1 | sub2 ]; lk.
Ltac neq_rw := match goal with H : (_ =? _) = false |- _ => rewrite H end.
Ltac fgo := repeat first [ frun1 | progress lk | neq_rw ].


Lemma filter_lines_notin : forall p l, ~ In p (filter_lines p l).
Proof.
  intros p l H. unfold filter_lines in H. apply filter_In in H. destruct H as [_ H].
  rewrite Nat.eqb_refl in H. discriminate.
Qed.

(* the roll-back: untag_object p c run while tag_object holds its two locks, from a file map in
   which p's reference, if any, names c and the list of c, if any, is a list *)
Ltac unt_fin :=
  eexists; split; [reflexivity|]; split; [lk; reflexivity|]; split; [intros k; lk; reflexivity|];
  split; [intros k Hk; lk; apply Nat.eqb_neq in Hk; rewrite ?Hk; lk; reflexivity|];
  intros l0; lk; intros H; try discriminate H; inversion H; subst; try solve [intros []].

Lemma untag_rollback : forall M L p c,
  memb lock_eqb (LRefPid, IPid p) L = true -> memb lock_eqb (LCid, ICid c) L = true ->
  memb lock_eqb (LFile, IDoc (ACidRef c)) L = false ->
  (forall x, lookup (APidRef p) M = Some x -> x = CCid c) ->
  (forall y, lookup (ACidRef c) M = Some y -> exists l, y = CLines l) ->
  exists M', run_seq (mkWorld M L) (untag_object p c) = Some (mkWorld M' L, Val tt) /\
    lookup (APidRef p) M' = None /\
    (forall k, lookup (AObj k) M' = lookup (AObj k) M) /\
    (forall k, k <> c -> lookup (ACidRef k) M' = lookup (ACidRef k) M) /\
    (forall l0, lookup (ACidRef c) M' = Some (CLines l0) -> ~ In p l0).
Proof.
  intros M L p c HL1 HL2 HL3 HP HC.
  unfold untag_object, find_object, validate_and_check_cid_lock, mark_pid_refs,
    remove_pid_and_handle_cid, rename_for_deletion.
  destruct (lookup (APidRef p) M) as [x|] eqn:Hp.
  - rewrite (HP x eq_refl) in Hp. clear HP.
    destruct (lookup (ACidRef c) M) as [y|] eqn:Hc.
    + destruct (HC y eq_refl) as [l ->]. clear HC.
      destruct (memb Nat.eqb p l) eqn:Hm.
      * destruct (lookup (AObj c) M) as [o|] eqn:Ho.
        -- run2.
           destruct (filter_lines p l) as [|q l'] eqn:Hnew; run2; cbn [delete_marked app]; run2; unt_fin.
           rewrite <- Hnew. apply filter_lines_notin.
        -- run2.
           destruct (filter_lines p l) as [|q l'] eqn:Hnew; run2; cbn [delete_marked app]; run2; unt_fin.
           rewrite <- Hnew. apply filter_lines_notin.
      * run2. cbn [delete_marked app]. run2. unt_fin.
        apply (proj1 (memb_false_not_In Nat.eqb nat_eqb_true Nat.eqb_refl p l0)). exact Hm.
    + run2. cbn [delete_marked app]. run2. unt_fin.
  - clear HP. destruct (lookup (ACidRef c) M) as [y|] eqn:Hc.
    + destruct (HC y eq_refl) as [l ->]. clear HC.
      run2. destruct (filter_lines p l) as [|q l'] eqn:Hnew; run2; cbn [delete_marked app]; run2; unt_fin.
      rewrite <- Hnew. apply filter_lines_notin.
    + unfold update_refs_remove. run2. cbn [delete_marked app]. run2. unt_fin.
Qed.


Ltac fault_branch :=
  fgo;
  match goal with
  | |- context [run_seq (mkWorld ?M ?L0) (untag_object ?p ?c)] =>
      let M' := fresh "M'" in let Hu := fresh "Hu" in
      let U1 := fresh "U1" in let U2 := fresh "U2" in let U3 := fresh "U3" in let U4 := fresh "U4" in
      destruct (untag_rollback M L0 p c) as (M' & Hu & U1 & U2 & U3 & U4);
      [ lk; reflexivity
      | lk; reflexivity
      | lk; first [reflexivity | assumption]
      | let x := fresh "x" in let H := fresh "H" in
        intros x; lk; intros H; first [discriminate H | inversion H; reflexivity]
      | let y := fresh "y" in let H := fresh "H" in
        intros y; lk; intros H; first [discriminate H | inversion H; eauto]
      | rewrite Hu; fgo;
        eexists; eexists; eexists; split; [reflexivity|];
        split; [intros k; rewrite U2; lk; reflexivity|];
        split; [exact U1|]; split; [|exact U4];
        let k := fresh "k" in let Hk := fresh "Hk" in
        intros k Hk; rewrite (U3 k Hk); apply Nat.eqb_neq in Hk; lk; rewrite ?Hk; lk; reflexivity ]
  end.
Ltac name_tmp2 :=
  match goal with
  | |- context [fresh_tmp ?ar 0 ?M] =>
      let n := fresh "n" in let Hn := fresh "Hn" in let Hab := fresh "Hab" in
      destruct (fresh_tmp_shape ar 0 M) as [n Hn];
      pose proof (fresh_tmp_absent ar 0 M) as Hab; rewrite Hn in *
  end.
Ltac fgo2 := repeat first [ frun1 | progress lk | neq_rw | name_tmp2 ].
Ltac val_fin :=
  eexists; eexists; eexists; split; [reflexivity|];
  split; [intros k; lk; reflexivity|exact I].
Tactic Notation "site" ident(j) :=
  destruct j as [|j]; [first [fault_branch | fgo2; val_fin] | fgo2].

Definition tag_post (m : fmap) (p : pid) (c : cid) (M' : fmap) (R : outcome unit) : Prop :=
  (forall k, lookup (AObj k) M' = lookup (AObj k) m) /\
  match R with
  | Val _ => True
  | Exn _ =>
      lookup (APidRef p) M' = None /\
      (forall k, k <> c -> lookup (ACidRef k) M' = lookup (ACidRef k) m) /\
      (forall l0, lookup (ACidRef c) M' = Some (CLines l0) -> ~ In p l0)
  end.

Lemma tag_one_off_present : forall m L p c l j,
  lookup (APidRef p) m = None -> lookup (ACidRef c) m = Some (CLines l) -> memb Nat.eqb p l = false ->
  memb lock_eqb (LRefPid, IPid p) L = false -> memb lock_eqb (LCid, ICid c) L = false ->
  memb lock_eqb (LFile, IDoc (ACidRef c)) L = false ->
  exists M' R st', rfs (FWait j false) (mkWorld m L) (tag_object p c) = Some (mkWorld M' L, R, st') /\
                   tag_post m p c M' R.
Proof.
  intros m L p c l j Hp Hc Hm HL1 HL2 HL3. unfold tag_post.
  unfold tag_object, store_refs_body, and_sc, notm, write_refs_tmp, is_in_refs, read_lines,
    update_refs_add, verify_refs, read_cid, is_in_refs, read_lines.
  fgo. do 12 (site j). val_fin.
Qed.

Lemma tag_one_off_absent : forall m L p c j,
  lookup (APidRef p) m = None -> lookup (ACidRef c) m = None ->
  memb lock_eqb (LRefPid, IPid p) L = false -> memb lock_eqb (LCid, ICid c) L = false ->
  memb lock_eqb (LFile, IDoc (ACidRef c)) L = false ->
  exists M' R st', rfs (FWait j false) (mkWorld m L) (tag_object p c) = Some (mkWorld M' L, R, st') /\
                   tag_post m p c M' R.
Proof.
  intros m L p c j Hp Hc HL1 HL2 HL3. unfold tag_post.
  unfold tag_object, store_refs_body, and_sc, notm, write_refs_tmp, is_in_refs, read_lines,
    update_refs_add, verify_refs, read_cid, is_in_refs, read_lines.
  fgo. do 5 (site j).
  assert (Hne : Nat.eqb n n0 = false).
  { destruct (Nat.eqb n n0) eqn:E; auto. apply Nat.eqb_eq in E. subst n0.
    rewrite lookup_update_eq in Hab0. discriminate. }
  assert (Hne' : Nat.eqb n0 n = false) by (rewrite Nat.eqb_sym; exact Hne).
  fgo. do 5 (site j). val_fin.
Qed.

(* tag_object under a one-off fault, for a pid that has no reference and is in no list *)
Lemma tag_one_off : forall m L p c j,
  lookup (APidRef p) m = None ->
  (forall y, lookup (ACidRef c) m = Some y -> exists l, y = CLines l /\ memb Nat.eqb p l = false) ->
  memb lock_eqb (LRefPid, IPid p) L = false -> memb lock_eqb (LCid, ICid c) L = false ->
  memb lock_eqb (LFile, IDoc (ACidRef c)) L = false ->
  exists M' R st', rfs (FWait j false) (mkWorld m L) (tag_object p c) = Some (mkWorld M' L, R, st') /\
                   tag_post m p c M' R.
Proof.
  intros m L p c j Hp Hc HL1 HL2 HL3.
  destruct (lookup (ACidRef c) m) as [y|] eqn:E.
  - destruct (Hc y eq_refl) as (l & -> & Hm). eapply tag_one_off_present; eauto.
  - apply tag_one_off_absent; assumption.
Qed.

(* (F4) for tag_object, every start state in which p is unbound, every one-off fault: if the call
   raises, p is unbound again — no reference, in NO cid list (the roll-back removes the line it
   may have added; no stale line survives a one-off fault) — no object changed, no lock left, and
   the same call issued again succeeds and binds p *)
Theorem tag_one_off_fault : forall w0 p c j w e,
  Inv w0 -> lookup (APidRef p) (fs w0) = None ->
  run_fault (FWait j false) w0 (api (CTag p c)) = Some (w, Exn e) ->
  locks w = [] /\
  (forall k, lookup (AObj k) (fs w) = lookup (AObj k) (fs w0)) /\
  unbound_and_retry (CTag p c) p w.
Proof.
  intros [m L] p c j w e HI Hp Hrun. pose proof HI as [(W & I1 & I2) HL]. simpl in HL, Hp. subst L.
  assert (Hty : typed (fs w)).
  { eapply (fault_WI (mkWorld m []) (CTag p c) p); [exact HI| |exact Hrun].
    intros p' H. inversion H. reflexivity. }
  assert (Hnl : forall k l, lookup (ACidRef k) m = Some (CLines l) -> ~ In p l).
  { intros k l Hl Hin. destruct (I2 _ _ Hl) as (_ & _ & Hb). pose proof (Hb _ Hin) as Hb'.
    cbn [fs] in Hb'. congruence. }
  rewrite rfs_run_fault in Hrun. cbn [api] in Hrun. unfold lift_unit in Hrun. rewrite rfs_mbind in Hrun.
  destruct (tag_one_off m [] p c j Hp) as (M' & R & st' & Hr & Hobj & Hpost);
    try reflexivity.
  { intros y Hy. destruct (wt_cidref _ _ _ W Hy) as [l ->]. exists l. split; [reflexivity|].
    apply (proj2 (memb_false_not_In Nat.eqb nat_eqb_true Nat.eqb_refl p l)). eapply Hnl; eauto. }
  rewrite Hr in Hrun. destruct R as [u|e']; [simpl in Hrun; discriminate|].
  inversion Hrun; subst w e'; clear Hrun. destruct Hpost as (P1 & P2 & P3). simpl fs in *.
  split; [reflexivity|]. split; [exact Hobj|].
  split; [exact P1|]. split.
  - intros k l Hl. cbn [fs] in Hl. destruct (Nat.eq_dec k c) as [->|Hk]; [eapply P3; eauto|].
    rewrite (P2 k Hk) in Hl. eapply Hnl; eauto.
  - destruct (tag_object_total M' [] p c Hty P1 eq_refl eq_refl eq_refl) as (m2 & Hr2 & Q1 & (l & Q2 & Q3) & _).
    exists (mkWorld m2 []), VUnit. split.
    + cbn [api]. unfold lift_unit. rewrite run_mbind, Hr2. reflexivity.
    + split; [exact Q1|]. exists l. split; [exact Q2|]. apply CrashFault.memb_nat_In. exact Q3.
Qed.

(* FINDING: the roll-back is not conditional on the call having created the binding.  When the pid
   is ALREADY bound to that very cid (a duplicate store_object / tag_object), a one-off failure of
   makedirs — before anything was written — makes the call raise OSError and the roll-back
   (untag_object) removes the EXISTING binding: the pid reference and, the pid being the only one,
   the cid list are gone; the object stays without any reference.  The earlier binding is NOT
   intact (the pid "can be stored again", which is what the menu checker accepts). *)
Example duplicate_store_fault_untags :
  let w1 := mkWorld [(AObj 7, CData 7 1 1); (APidRef 1, CCid 7); (ACidRef 7, CLines [1])] [] in
  let c := CStore (Some 1) SrcPath 7 1 VSzNone VCkNone in
  run_seq empty_world (api c) = Some (w1, Val (VMeta 7 1)) /\
  run_seq w1 (api c) = Some (w1, Exn EHashStoreRefsAlreadyExists) /\
  site_op 4 w1 (api c) = Some (MkDirs (APidRef 1)) /\
  run_fault (FWait 4 false) w1 (api c) = Some (mkWorld [(AObj 7, CData 7 1 1)] [], Exn EOSError) /\
  run_fault (FWait 0 false) w1 (api (CTag 1 7)) = Some (mkWorld [(AObj 7, CData 7 1 1)] [], Exn EOSError).
Proof. vm_compute. repeat split; reflexivity. Qed.

(* ================================================================================== *)
(* 9. (F4) ONE-OFF faults in store_object                                              *)
(* ================================================================================== *)

(* a one-off fault planned j sites ahead meets the k chunk writes into a temp file that holds i
   chunks: the first [min j k] writes succeed; if j < k the next one fails — it writes nothing, the
   program receives OSError and the fault is spent — otherwise all k succeed and the fault is k sites
   nearer *)
Lemma rfs_write_chunks : forall k t b n i j m L,
  lookup t m = Some (CData b n i) ->
  exists m',
    rfs (FWait j false) (mkWorld m L) (write_chunks t k) =
      Some (mkWorld m' L,
            (if j <? k then Exn EOSError else Val tt),
            (if j <? k then FDone else FWait (j - k) false)) /\
    forall x, lookup x m' = if addr_eqb x t then Some (CData b n (i + Nat.min j k)) else lookup x m.
Proof.
  induction k as [|k IH]; intros t b n i j m L Ht.
  - exists m. split.
    + cbn [write_chunks]. rewrite rfs_ret. cbn [Nat.ltb Nat.leb]. rewrite Nat.sub_0_r. reflexivity.
    + intros x. rewrite Nat.min_0_r, Nat.add_0_r.
      destruct (addr_eqb x t) eqn:E; auto. apply addr_eqb_true in E. subst. auto.
  - cbn [write_chunks]. rewrite rfs_mbind. destruct j as [|j].
    + rewrite rfs_unit_site_0 by reflexivity. exists m. split; [reflexivity|].
      intros x. cbn [Nat.min]. rewrite Nat.add_0_r.
      destruct (addr_eqb x t) eqn:E; auto. apply addr_eqb_true in E. subst. auto.
    + rewrite rfs_unit_site_S by reflexivity. rewrite run_writechunk, Ht.
      destruct (IH t b n (S i) j (update t (CData b n (S i)) m) L) as (m' & Hr & Hl).
      { apply lookup_update_eq. }
      exists m'. split.
      * rewrite Hr. reflexivity.
      * intros x. rewrite Hl, lookup_update. cbn [Nat.min]. rewrite Nat.add_succ_r.
        destruct (addr_eqb x t); reflexivity.
Qed.

Lemma rfs_peek : forall cls x st w,
  rfs st w (peek cls x) = match run_seq w (peek cls x) with Some (w', r) => Some (w', r, st) | None => None end.
Proof. reflexivity. Qed.

Definition store_post (m : fmap) (p : pid) (b : cid) (M' : fmap) (R : outcome value) : Prop :=
  match R with
  | Val _ => True
  | Exn _ =>
      lookup (APidRef p) M' = None /\
      (forall k, k <> b -> lookup (ACidRef k) M' = lookup (ACidRef k) m) /\
      (forall l0, lookup (ACidRef b) M' = Some (CLines l0) -> ~ In p l0)
  end.

Ltac pre_fin Hc :=
  eexists; eexists; eexists; split; [reflexivity|]; split; [lk; first [reflexivity|assumption]|];
  split; [intros k Hk; lk; reflexivity|];
  let l0 := fresh "l0" in let Hl := fresh "Hl" in
  intros l0; lk; intros Hl; destruct (Hc _ Hl) as (? & E & Hm); inversion E; subst;
  apply (proj1 (memb_false_not_In Nat.eqb nat_eqb_true Nat.eqb_refl _ _)); exact Hm.

Lemma tag_done : forall m L p c,
  lookup (APidRef p) m = None ->
  (forall y, lookup (ACidRef c) m = Some y -> exists l, y = CLines l /\ memb Nat.eqb p l = false) ->
  memb lock_eqb (LRefPid, IPid p) L = false -> memb lock_eqb (LCid, ICid c) L = false ->
  memb lock_eqb (LFile, IDoc (ACidRef c)) L = false ->
  exists M', run_seq (mkWorld m L) (tag_object p c) = Some (mkWorld M' L, Val tt).
Proof.
  intros m L p c Hp Hc HL1 HL2 HL3.
  unfold tag_object, store_refs_body, and_sc, notm.
  destruct (lookup (ACidRef c) m) as [y|] eqn:E.
  - destruct (Hc y eq_refl) as (l & -> & Hm). run2. name_tmp. run2. eexists. reflexivity.
  - run2. name_tmp. run2. name_tmp.
    assert (Hne : Nat.eqb n n0 = false).
    { destruct (Nat.eqb n n0) eqn:E2; auto. apply Nat.eqb_eq in E2. subst n0.
      rewrite lookup_update_eq in Hab0. discriminate. }
    assert (Hne' : Nat.eqb n0 n = false) by (rewrite Nat.eqb_sym; exact Hne).
    repeat (run2; rewrite ?Hne, ?Hne'; cbn beta iota). eexists. reflexivity.
Qed.

Ltac use_tag_done Hc :=
  match goal with
  | |- context [run_seq (mkWorld ?M ?L0) (tag_object ?p ?c)] =>
      let M' := fresh "M'" in let Ht := fresh "Ht" in
      destruct (tag_done M L0 p c) as (M' & Ht);
      [ lk; first [reflexivity|assumption]
      | let y := fresh "y" in intros y; lk; apply Hc
      | reflexivity | reflexivity | reflexivity
      | rewrite Ht; fgo; eexists; eexists; eexists; split; [reflexivity|exact I] ]
  end.

Ltac use_tag Hc :=
  match goal with
  | |- context [rfs (FWait ?j false) (mkWorld ?M ?L0) (tag_object ?p ?c)] =>
      let M' := fresh "M'" in let R := fresh "R" in let st' := fresh "st'" in
      let Ht := fresh "Ht" in let Hobj := fresh "Hobj" in let Hpost := fresh "Hpost" in
      destruct (tag_one_off M L0 p c j) as (M' & R & st' & Ht & Hobj & Hpost);
      [ lk; first [reflexivity|assumption]
      | let y := fresh "y" in intros y; lk; apply Hc
      | reflexivity | reflexivity | reflexivity
      | rewrite Ht; destruct R as [?|?]; fgo;
        [ eexists; eexists; eexists; split; [reflexivity|exact I]
        | destruct Hpost as (P1 & P2 & P3);
          eexists; eexists; eexists; split; [reflexivity|];
          split; [exact P1|]; split; [|exact P3];
          let k := fresh "k" in let Hk := fresh "Hk" in
          intros k Hk; rewrite (P2 k Hk); lk; reflexivity ] ]
  end.

Lemma store_one_off : forall m p b n j,
  lookup (APidRef p) m = None ->
  (forall y, lookup (ACidRef b) m = Some y -> exists l, y = CLines l /\ memb Nat.eqb p l = false) ->
  exists M' R st',
    rfs (FWait j false) (mkWorld m []) (store_object (Some p) SrcPath b n VSzNone VCkNone) =
      Some (mkWorld M' [], R, st') /\ store_post m p b M' R.
Proof.
  intros m p b n j Hp Hc. unfold store_post, store_object.
  rewrite rfs_mbind, rfs_peek. fgo.
  unfold open_source, move_and_get_checksums. cbv zeta. fgo.
  destruct j as [|j]; [fgo; pre_fin Hc|].
  fgo. destruct j as [|j]; [fgo; pre_fin Hc|].
  fgo2.
  match goal with
  | |- context [rfs (FWait j false) (mkWorld ?M ?L0) (write_chunks ?t _)] =>
      destruct (rfs_write_chunks n t b n 0 j M L0) as (m1 & Hr & Hm1); [apply lookup_update_eq|]
  end.
  rewrite Hr. cbn [Nat.add] in Hm1.
  destruct (j <? n) eqn:Ejn.
  { (* one of the chunk writes fails (full disk): the temp file is removed, nothing else was touched *)
    fgo. pre_fin Hc. }
  apply Nat.ltb_ge in Ejn. rewrite (Nat.min_r _ _ Ejn) in Hm1.
  generalize (j - n). clear j Ejn Hr. intros j. fgo.
  destruct (lookup (AObj b) m) as [o|] eqn:Ho; cbn [verify_object]; fgo.
  - (* the object exists *)
    destruct j as [|j]; [fgo; pre_fin Hc|]. fgo. use_tag Hc.
  - (* the object is new *)
    destruct j as [|j]; [fgo; pre_fin Hc|]. fgo.
    destruct j as [|j].
    + fgo. use_tag_done Hc.
    + fgo. use_tag Hc.
Qed.

(* the retry: store_object from any well-typed store in which p has no reference *)
Lemma store_object_total_n : forall m p d n, typed m -> lookup (APidRef p) m = None ->
  (forall x, lookup (AObj d) m = Some x -> x = CData d n n) ->
  exists m2, run_seq (mkWorld m []) (store_object (Some p) SrcPath d n VSzNone VCkNone) =
               Some (mkWorld m2 [], Val (VMeta d n)) /\
    lookup (APidRef p) m2 = Some (CCid d) /\
    (exists l, lookup (ACidRef d) m2 = Some (CLines l) /\ memb Nat.eqb p l = true) /\
    lookup (AObj d) m2 = Some (CData d n n).
Proof.
  intros m p d n Ht Hp Hsz. unfold store_object. steps.
  match goal with
  | |- context [run_seq (mkWorld m ?L0) (move_and_get_checksums _ _ _ _ _)] =>
      destruct (run_mgc_gen p d n m L0) as (m1 & Hr & He); rewrite Hr
  end. steps.
  assert (Ht1 : typed m1).
  { intros a v Hl. rewrite He in Hl. unfold obj_added, present in Hl.
    destruct (lookup (AObj d) m) eqn:Ho; [apply Ht; exact Hl|].
    rewrite lookup_update in Hl. destruct (addr_eqb a (AObj d)) eqn:E; [|apply Ht; exact Hl].
    apply addr_eqb_true in E. subst. inversion Hl; subst. simpl. eauto. }
  assert (Hp1 : lookup (APidRef p) m1 = None).
  { rewrite He. unfold obj_added. destruct (present (AObj d) m); [exact Hp|].
    rewrite lookup_update_neq by discriminate. exact Hp. }
  assert (Ho1 : lookup (AObj d) m1 = Some (CData d n n)).
  { rewrite He. unfold obj_added, present. destruct (lookup (AObj d) m) eqn:Ho.
    - rewrite Ho. f_equal. apply Hsz. reflexivity.
    - apply lookup_update_eq. }
  match goal with
  | |- context [run_seq (mkWorld m1 ?L0) (tag_object _ _)] =>
      destruct (tag_object_total m1 L0 p d Ht1 Hp1 eq_refl eq_refl eq_refl) as (m2 & Hr2 & Q1 & Q2 & Q3);
      rewrite Hr2
  end. steps.
  exists m2. split; [reflexivity|]. split; [exact Q1|]. split; [exact Q2|]. rewrite Q3. exact Ho1.
Qed.

(* (F4) for store_object(pid, new or duplicate content), every start state in which p is unbound,
   every one-off fault (a failing write of any of the n chunks included: [rfs_write_chunks]): if the
   call raises, p is unbound — no reference, in no cid list — no lock
   is left, and the same call issued again succeeds and p is then retrievable with its content *)
Theorem store_one_off_fault : forall w0 p b n j w e,
  let c := CStore (Some p) SrcPath b n VSzNone VCkNone in
  Inv w0 -> lookup (APidRef p) (fs w0) = None -> call_size_ok w0 c ->
  run_fault (FWait j false) w0 (api c) = Some (w, Exn e) ->
  locks w = [] /\ unbound_and_retry c p w.
Proof.
  intros [m L] p b n j w e c HI Hp Hsz Hrun. pose proof HI as [(W & I1 & I2) HL].
  simpl in HL, Hp. subst L.
  assert (Hc1 : forall p', call_pid c = Some p' -> p' = p) by (intros p' H; inversion H; reflexivity).
  pose proof (fault_WI (mkWorld m []) c p _ w _ HI Hc1 Hrun) as HW.
  destruct (fault_OP (mkWorld m []) c p _ w _ HI Hc1 Hrun) as [HO _].
  assert (Hnl : forall k l, lookup (ACidRef k) m = Some (CLines l) -> ~ In p l).
  { intros k l Hl Hin. destruct (I2 _ _ Hl) as (_ & _ & Hb). pose proof (Hb _ Hin) as Hb'.
    cbn [fs] in Hb'. congruence. }
  rewrite rfs_run_fault in Hrun. unfold c in Hrun. cbn [api] in Hrun.
  destruct (store_one_off m p b n j Hp) as (M' & R & st' & Hr & Hpost).
  { intros y Hy. destruct (wt_cidref _ _ _ W Hy) as [l ->]. exists l. split; [reflexivity|].
    apply (proj2 (memb_false_not_In Nat.eqb nat_eqb_true Nat.eqb_refl p l)). eapply Hnl; eauto. }
  rewrite Hr in Hrun. destruct R as [u|e']; [discriminate|].
  inversion Hrun; subst w e'; clear Hrun. destruct Hpost as (P1 & P2 & P3). cbn [fs] in *.
  split; [reflexivity|]. split; [exact P1|]. split.
  - intros k l Hl. cbn [fs] in Hl. destruct (Nat.eq_dec k b) as [->|Hk]; [eapply P3; eauto|].
    rewrite (P2 k Hk) in Hl. eapply Hnl; eauto.
  - assert (Hsz' : forall x, lookup (AObj b) M' = Some x -> x = CData b n n).
    { intros x Hx. destruct (HO b x Hx) as [H0|[_ ->]]; [|reflexivity]. apply (Hsz x H0). }
    destruct (store_object_total_n M' p b n (proj1 HW) P1 Hsz') as (m2 & Hr2 & Q1 & (l & Q2 & Q3) & Q4).
    exists (mkWorld m2 []), (VMeta b n). split; [exact Hr2|].
    assert (HW2 : WI (mkWorld m []) p (mkWorld m2 [])).
    { eapply (followup_call_WI (mkWorld m []) p (mkWorld M' []) c); [exact HW|exact Hc1|exact Hr2]. }
    rewrite (retr_spec (mkWorld m2 []) p (proj1 HW2)). unfold retr_fun, sem_find, present. cbn [fs].
    rewrite Q1, Q2, Q3, Q4. cbv beta iota. rewrite Q4. reflexivity.
Qed.
