(* RefsCodec.v -- the byte format of the reference-list files and the line logic
   of `_is_string_in_refs_file` / `_update_refs_file` / `_check_string`
   (/repo/src/hashstore/filehashstore.py, lines 1829-1929 and 2764-2778).

   A reference-list file holds one identifier per newline-terminated line.

     writing the first id  :  f.write(ref_id + "\n")
     adding an id (append) :  ref_file.write(ref_id + "\n")
     membership            :  for line in ref_file: if ref_id == line.strip(): return True
     removal ("r+")        :  keep = [l for l in ref_file.readlines() if l.strip() != ref_id]
                              ref_file.seek(0); ref_file.writelines(keep); ref_file.truncate()
     validation            :  string is None or string.strip() == ""
                              or any(ch.isspace() for ch in string)  ->  ValueError

   The development is generic over the character type [ch] and the whitespace
   predicate [sp] (Python's [str.isspace] on one character); the only thing
   assumed about [sp] is that the newline is a space.  The theorems therefore
   hold for Python's full Unicode whitespace set.

   Note on universal newlines: Python text mode also translates "\r" and
   "\r\n" to "\n" on reading.  Files produced by [unparse] from valid
   identifiers contain no "\r" ("\r".isspace() is True, so a valid id has
   none), so on such files the translation is the identity and [split_lines]
   below (splitting after "\n" only) is exactly what Python iterates over.

   Stdlib only; no axioms (see the [Print Assumptions] at the end). *)

Require Import List Bool Arith Lia.
Import ListNotations.

Section Codec.
  Variable ch : Type.
  Variable ch_eqb : ch -> ch -> bool.
  Hypothesis ch_eqb_spec : forall a b, ch_eqb a b = true <-> a = b.
  Variable sp : ch -> bool.          (* Python's str.isspace on one character *)
  Variable nl : ch.                  (* "\n" *)
  Hypothesis sp_nl : sp nl = true.
  Definition str := list ch.

  (* ------------------------------------------------------------------ *)
  (** * Character and string equality *)

  Lemma ch_eqb_refl : forall a, ch_eqb a a = true.
  Proof. intro a. apply ch_eqb_spec. reflexivity. Qed.

  Lemma ch_eqb_neq : forall a b, a <> b -> ch_eqb a b = false.
  Proof.
    intros a b Hne. destruct (ch_eqb a b) eqn:E; [|reflexivity].
    apply ch_eqb_spec in E. contradiction.
  Qed.

  Fixpoint str_eqb (a b : str) : bool :=
    match a, b with
    | [], [] => true
    | x :: a', y :: b' => ch_eqb x y && str_eqb a' b'
    | _, _ => false
    end.

  Lemma str_eqb_spec : forall a b, str_eqb a b = true <-> a = b.
  Proof.
    induction a as [|x a IH]; intros [|y b]; simpl.
    - split; intros _; reflexivity.
    - split; intro H; discriminate H.
    - split; intro H; discriminate H.
    - rewrite andb_true_iff, ch_eqb_spec, IH. split.
      + intros [Hx Ha]. subst. reflexivity.
      + intro H. inversion H. split; reflexivity.
  Qed.

  Lemma str_eqb_refl : forall a, str_eqb a a = true.
  Proof. intro a. apply str_eqb_spec. reflexivity. Qed.

  Lemma str_eqb_neq : forall a b, a <> b -> str_eqb a b = false.
  Proof.
    intros a b Hne. destruct (str_eqb a b) eqn:E; [|reflexivity].
    apply str_eqb_spec in E. contradiction.
  Qed.

  Lemma str_eqb_false_iff : forall a b, str_eqb a b = false <-> a <> b.
  Proof.
    intros a b. split.
    - intros E Heq. subst b. rewrite str_eqb_refl in E. discriminate E.
    - apply str_eqb_neq.
  Qed.

  (* ------------------------------------------------------------------ *)
  (** * [str.strip()] *)

  Fixpoint lstrip (s : str) : str :=
    match s with
    | [] => []
    | c :: s' => if sp c then lstrip s' else s
    end.

  Definition rstrip (s : str) : str := rev (lstrip (rev s)).

  Definition strip (s : str) : str := rstrip (lstrip s).

  Lemma lstrip_head : forall c s, sp c = false -> lstrip (c :: s) = c :: s.
  Proof. intros c s Hc. simpl. rewrite Hc. reflexivity. Qed.

  Lemma lstrip_space : forall c s, sp c = true -> lstrip (c :: s) = lstrip s.
  Proof. intros c s Hc. simpl. rewrite Hc. reflexivity. Qed.

  Lemma rstrip_snoc_space : forall s c, sp c = true -> rstrip (s ++ [c]) = rstrip s.
  Proof.
    intros s c Hc. unfold rstrip. rewrite rev_app_distr. simpl.
    rewrite Hc. reflexivity.
  Qed.

  Lemma strip_nil : strip [] = [].
  Proof. reflexivity. Qed.

  (* ------------------------------------------------------------------ *)
  (** * Valid identifiers and [_check_string] *)

  Definition valid_id (p : str) : Prop :=
    p <> [] /\ forall c, In c p -> sp c = false.

  Lemma valid_id_no_nl : forall p, valid_id p -> ~ In nl p.
  Proof.
    intros p [_ Hall] Hin. apply Hall in Hin. rewrite sp_nl in Hin. discriminate Hin.
  Qed.

  Lemma valid_id_rev : forall p, valid_id p -> valid_id (rev p).
  Proof.
    intros p [Hne Hall]. split.
    - destruct p as [|c p]; [contradiction Hne; reflexivity|].
      simpl. intro E. apply app_eq_nil in E. destruct E as [_ E]. discriminate E.
    - intros c Hc. apply in_rev in Hc. apply Hall. exact Hc.
  Qed.

  Lemma lstrip_valid_id : forall p, valid_id p -> lstrip p = p.
  Proof.
    intros p [Hne Hall]. destruct p as [|c p]; [reflexivity|].
    apply lstrip_head. apply Hall. left. reflexivity.
  Qed.

  Lemma rstrip_valid_id : forall p, valid_id p -> rstrip p = p.
  Proof.
    intros p Hv. unfold rstrip.
    rewrite (lstrip_valid_id (rev p) (valid_id_rev p Hv)).
    apply rev_involutive.
  Qed.

  Lemma rstrip_valid_nl : forall p, valid_id p -> rstrip (p ++ [nl]) = p.
  Proof.
    intros p Hv. rewrite (rstrip_snoc_space p nl sp_nl).
    apply rstrip_valid_id. exact Hv.
  Qed.

  Lemma lstrip_valid_app : forall p s, valid_id p -> lstrip (p ++ s) = p ++ s.
  Proof.
    intros p s [Hne Hall]. destruct p as [|c p]; [contradiction Hne; reflexivity|].
    simpl app. apply lstrip_head. apply Hall. left. reflexivity.
  Qed.

  Theorem strip_valid_id : forall p, valid_id p -> strip p = p.
  Proof.
    intros p Hv. unfold strip. rewrite (lstrip_valid_id p Hv).
    apply rstrip_valid_id. exact Hv.
  Qed.

  Theorem strip_valid : forall p, valid_id p -> strip (p ++ [nl]) = p.
  Proof.
    intros p Hv. unfold strip. rewrite (lstrip_valid_app p [nl] Hv).
    apply rstrip_valid_nl. exact Hv.
  Qed.

  Definition is_empty (s : str) : bool :=
    match s with
    | [] => true
    | _ :: _ => false
    end.

  Definition check_string (s : option str) : bool :=
    match s with
    | None => false
    | Some s => negb (is_empty (strip s)) && forallb (fun c => negb (sp c)) s
    end.

  Theorem check_string_spec :
    forall s, check_string s = true <-> exists p, s = Some p /\ valid_id p.
  Proof.
    intros [s|]; simpl; split.
    - intro H. apply andb_true_iff in H. destruct H as [Hstrip Hall].
      exists s. split; [reflexivity|]. split.
      + intro E. subst s. rewrite strip_nil in Hstrip. simpl in Hstrip.
        discriminate Hstrip.
      + intros c Hc. rewrite forallb_forall in Hall. apply Hall in Hc.
        apply negb_true_iff in Hc. exact Hc.
    - intros [p [E Hv]]. inversion E as [E']. subst p.
      rewrite (strip_valid_id s Hv). destruct Hv as [Hne Hall].
      apply andb_true_iff. split.
      + destruct s as [|c s]; [contradiction Hne; reflexivity|reflexivity].
      + apply forallb_forall. intros c Hc. rewrite (Hall c Hc). reflexivity.
    - intro H. discriminate H.
    - intros [p [E _]]. discriminate E.
  Qed.

  (* ------------------------------------------------------------------ *)
  (** * Lines of a text file: iteration / [readlines()] *)

  (* Split after each [nl]; every line keeps its terminating [nl]; a final
     fragment without [nl] is a line if it is non-empty; "" gives []. *)
  Fixpoint split_lines (s : str) : list str :=
    match s with
    | [] => []
    | c :: s' =>
        if ch_eqb c nl then [c] :: split_lines s'
        else match split_lines s' with
             | [] => [[c]]
             | line :: rest => (c :: line) :: rest
             end
    end.

  (* [readlines()] loses nothing: the lines concatenate back to the file. *)
  Lemma concat_split_lines : forall s, concat (split_lines s) = s.
  Proof.
    induction s as [|c s IH]; simpl; [reflexivity|].
    destruct (ch_eqb c nl).
    - simpl. rewrite IH. reflexivity.
    - destruct (split_lines s) as [|line rest]; simpl in *.
      + rewrite <- IH. reflexivity.
      + rewrite <- IH. reflexivity.
  Qed.

  Lemma split_lines_app_line :
    forall p rest, ~ In nl p ->
      split_lines (p ++ nl :: rest) = (p ++ [nl]) :: split_lines rest.
  Proof.
    induction p as [|c p IH]; intros rest Hnl; simpl.
    - rewrite ch_eqb_refl. reflexivity.
    - assert (Hc : c <> nl).
      { intro E. apply Hnl. left. exact E. }
      assert (Hp : ~ In nl p).
      { intro Hin. apply Hnl. right. exact Hin. }
      rewrite (ch_eqb_neq c nl Hc). rewrite (IH rest Hp). reflexivity.
  Qed.

  (* The file holding ids [l]. *)
  Definition unparse (l : list str) : str := concat (map (fun p => p ++ [nl]) l).

  Lemma unparse_cons : forall p l, unparse (p :: l) = p ++ nl :: unparse l.
  Proof.
    intros p l. unfold unparse. simpl. rewrite <- app_assoc. reflexivity.
  Qed.

  Lemma unparse_app : forall l1 l2, unparse (l1 ++ l2) = unparse l1 ++ unparse l2.
  Proof.
    intros l1 l2. unfold unparse. rewrite map_app, concat_app. reflexivity.
  Qed.

  Lemma unparse_nil_iff : forall l, unparse l = [] <-> l = [].
  Proof.
    intros [|p l]; split; intro H.
    - reflexivity.
    - reflexivity.
    - rewrite unparse_cons in H. apply app_eq_nil in H. destruct H as [_ H].
      discriminate H.
    - discriminate H.
  Qed.

  Theorem split_unparse :
    forall l, (forall p, In p l -> valid_id p) ->
      split_lines (unparse l) = map (fun p => p ++ [nl]) l.
  Proof.
    induction l as [|p l IH]; intros Hl.
    - reflexivity.
    - rewrite unparse_cons.
      rewrite (split_lines_app_line p (unparse l)
                 (valid_id_no_nl p (Hl p (or_introl eq_refl)))).
      rewrite IH.
      + reflexivity.
      + intros q Hq. apply Hl. right. exact Hq.
  Qed.

  (* parse o unparse = id *)
  Theorem lines_codec :
    forall l, (forall p, In p l -> valid_id p) ->
      map strip (split_lines (unparse l)) = l.
  Proof.
    intros l Hl. rewrite (split_unparse l Hl). rewrite map_map.
    transitivity (map (fun p : str => p) l).
    - apply map_ext_in. intros p Hp. apply strip_valid. apply Hl. exact Hp.
    - apply map_id.
  Qed.

  Theorem unparse_injective :
    forall l1 l2,
      (forall p, In p l1 -> valid_id p) ->
      (forall p, In p l2 -> valid_id p) ->
      unparse l1 = unparse l2 -> l1 = l2.
  Proof.
    intros l1 l2 H1 H2 Heq.
    pose proof (lines_codec l1 H1) as E1.
    pose proof (lines_codec l2 H2) as E2.
    rewrite Heq in E1. rewrite <- E1. exact E2.
  Qed.

  (* ------------------------------------------------------------------ *)
  (** * Membership: [_is_string_in_refs_file] *)

  Definition is_in_refs (p : str) (file : str) : bool :=
    existsb (fun line => str_eqb p (strip line)) (split_lines file).

  (* [p] itself need not be valid for the equivalence. *)
  Theorem member_exact_gen :
    forall p l, (forall q, In q l -> valid_id q) ->
      (is_in_refs p (unparse l) = true <-> In p l).
  Proof.
    intros p l Hl. unfold is_in_refs. rewrite (split_unparse l Hl).
    rewrite existsb_exists. split.
    - intros [line [Hin He]]. apply in_map_iff in Hin.
      destruct Hin as [q [Eq Hq]]. subst line.
      rewrite (strip_valid q (Hl q Hq)) in He.
      apply str_eqb_spec in He. subst q. exact Hq.
    - intro Hin. exists (p ++ [nl]). split.
      + apply in_map_iff. exists p. split; [reflexivity|exact Hin].
      + rewrite (strip_valid p (Hl p Hin)). apply str_eqb_refl.
  Qed.

  (* Whole-line comparison: an id that is a strict prefix / suffix of another
     is not found (corollaries below). *)
  Theorem member_exact :
    forall p l, valid_id p -> (forall q, In q l -> valid_id q) ->
      (is_in_refs p (unparse l) = true <-> In p l).
  Proof. intros p l _ Hl. apply member_exact_gen. exact Hl. Qed.

  Corollary member_strict_prefix_not_found :
    forall p s, s <> [] -> valid_id (p ++ s) ->
      is_in_refs p (unparse [p ++ s]) = false.
  Proof.
    intros p s Hs Hv.
    destruct (is_in_refs p (unparse [p ++ s])) eqn:E; [|reflexivity].
    exfalso. apply member_exact_gen in E.
    - destruct E as [E|[]].
      assert (E' : p ++ s = p ++ []) by (rewrite app_nil_r; exact E).
      apply app_inv_head in E'. contradiction.
    - intros q [Hq|[]]. subst q. exact Hv.
  Qed.

  Corollary member_strict_suffix_not_found :
    forall p s, s <> [] -> valid_id (s ++ p) ->
      is_in_refs p (unparse [s ++ p]) = false.
  Proof.
    intros p s Hs Hv.
    destruct (is_in_refs p (unparse [s ++ p])) eqn:E; [|reflexivity].
    exfalso. apply member_exact_gen in E.
    - destruct E as [E|[]].
      assert (E' : s ++ p = [] ++ p) by exact E.
      apply app_inv_tail in E'. contradiction.
    - intros q [Hq|[]]. subst q. exact Hv.
  Qed.

  (* ------------------------------------------------------------------ *)
  (** * Removal and addition: [_update_refs_file] *)

  Definition remove_ref (p : str) (file : str) : str :=
    concat (filter (fun line => negb (str_eqb (strip line) p)) (split_lines file)).

  Definition add_ref (p : str) (file : str) : str := file ++ p ++ [nl].

  Lemma filter_lines :
    forall p l, (forall q, In q l -> valid_id q) ->
      filter (fun line => negb (str_eqb (strip line) p)) (map (fun q => q ++ [nl]) l)
      = map (fun q => q ++ [nl]) (filter (fun q => negb (str_eqb q p)) l).
  Proof.
    intros p. induction l as [|a l IH]; intros Hl.
    - reflexivity.
    - simpl. rewrite (strip_valid a (Hl a (or_introl eq_refl))).
      assert (Hl' : forall q, In q l -> valid_id q).
      { intros q Hq. apply Hl. right. exact Hq. }
      rewrite (IH Hl'). destruct (str_eqb a p); reflexivity.
  Qed.

  (* [p] itself need not be valid. *)
  Theorem remove_exact_gen :
    forall p l, (forall q, In q l -> valid_id q) ->
      remove_ref p (unparse l) = unparse (filter (fun q => negb (str_eqb q p)) l).
  Proof.
    intros p l Hl. unfold remove_ref. rewrite (split_unparse l Hl).
    rewrite (filter_lines p l Hl). reflexivity.
  Qed.

  (* Removes exactly the lines equal to [p]; all others byte-identical, in order. *)
  Theorem remove_exact :
    forall p l, valid_id p -> (forall q, In q l -> valid_id q) ->
      remove_ref p (unparse l) = unparse (filter (fun q => negb (str_eqb q p)) l).
  Proof. intros p l _ Hl. apply remove_exact_gen. exact Hl. Qed.

  Lemma filter_true_id :
    forall (A : Type) (f : A -> bool) (l : list A),
      (forall x, In x l -> f x = true) -> filter f l = l.
  Proof.
    intros A f. induction l as [|a l IH]; intros Hall.
    - reflexivity.
    - simpl. rewrite (Hall a (or_introl eq_refl)). rewrite IH.
      + reflexivity.
      + intros x Hx. apply Hall. right. exact Hx.
  Qed.

  Lemma filter_nil_iff :
    forall (A : Type) (f : A -> bool) (l : list A),
      filter f l = [] <-> forall x, In x l -> f x = false.
  Proof.
    intros A f. induction l as [|a l IH]; simpl.
    - split; [intros _ x []|reflexivity].
    - destruct (f a) eqn:Ea; split.
      + intro H. discriminate H.
      + intro Hall. rewrite (Hall a (or_introl eq_refl)) in Ea. discriminate Ea.
      + intros H x [Hx|Hx].
        * subst x. exact Ea.
        * apply IH; assumption.
      + intro Hall. apply IH. intros x Hx. apply Hall. right. exact Hx.
  Qed.

  Theorem remove_absent_noop :
    forall p l, valid_id p -> (forall q, In q l -> valid_id q) ->
      ~ In p l -> remove_ref p (unparse l) = unparse l.
  Proof.
    intros p l _ Hl Hnot. rewrite (remove_exact_gen p l Hl).
    rewrite filter_true_id; [reflexivity|].
    intros q Hq. apply negb_true_iff. apply str_eqb_neq.
    intro E. subst q. contradiction.
  Qed.

  Theorem add_exact : forall p l, add_ref p (unparse l) = unparse (l ++ [p]).
  Proof.
    intros p l. unfold add_ref. rewrite unparse_app.
    replace (unparse [p]) with (p ++ [nl]); [reflexivity|].
    unfold unparse. simpl. rewrite app_nil_r. reflexivity.
  Qed.

  (* add then member / add then remove, as corollaries *)
  Corollary add_then_member :
    forall p l, valid_id p -> (forall q, In q l -> valid_id q) ->
      is_in_refs p (add_ref p (unparse l)) = true.
  Proof.
    intros p l Hp Hl. rewrite add_exact. apply member_exact_gen.
    - intros q Hq. apply in_app_or in Hq. destruct Hq as [Hq|[Hq|[]]].
      + apply Hl. exact Hq.
      + subst q. exact Hp.
    - apply in_or_app. right. left. reflexivity.
  Qed.

  (* File size 0 exactly when the last id is removed. *)
  Theorem remove_last_empty :
    forall p, valid_id p -> remove_ref p (unparse [p]) = [].
  Proof.
    intros p Hp. rewrite remove_exact_gen.
    - simpl. rewrite str_eqb_refl. reflexivity.
    - intros q [Hq|[]]. subst q. exact Hp.
  Qed.

  Theorem remove_empty_iff :
    forall p l, valid_id p -> (forall q, In q l -> valid_id q) ->
      (remove_ref p (unparse l) = [] <-> forall q, In q l -> q = p).
  Proof.
    intros p l _ Hl. rewrite (remove_exact_gen p l Hl).
    rewrite unparse_nil_iff. rewrite filter_nil_iff. split.
    - intros Hall q Hq. apply Hall in Hq. apply negb_false_iff in Hq.
      apply str_eqb_spec in Hq. exact Hq.
    - intros Hall q Hq. apply negb_false_iff. apply str_eqb_spec.
      apply Hall. exact Hq.
  Qed.

  (* After removal the id is no longer a member (all its lines are gone). *)
  Corollary remove_then_not_member :
    forall p l, (forall q, In q l -> valid_id q) ->
      is_in_refs p (remove_ref p (unparse l)) = false.
  Proof.
    intros p l Hl. rewrite (remove_exact_gen p l Hl).
    destruct (is_in_refs p (unparse (filter (fun q => negb (str_eqb q p)) l))) eqn:E;
      [|reflexivity].
    exfalso. apply member_exact_gen in E.
    - apply filter_In in E. destruct E as [_ E].
      rewrite str_eqb_refl in E. discriminate E.
    - intros q Hq. apply filter_In in Hq. destruct Hq as [Hq _]. apply Hl. exact Hq.
  Qed.

  (* Membership of any other id is unaffected by removing [p]. *)
  Corollary remove_preserves_others :
    forall p q l, (forall r, In r l -> valid_id r) -> q <> p ->
      is_in_refs q (remove_ref p (unparse l)) = is_in_refs q (unparse l).
  Proof.
    intros p q l Hl Hne. rewrite (remove_exact_gen p l Hl).
    assert (Hf : forall r, In r (filter (fun r => negb (str_eqb r p)) l) -> valid_id r).
    { intros r Hr. apply filter_In in Hr. destruct Hr as [Hr _]. apply Hl. exact Hr. }
    destruct (is_in_refs q (unparse l)) eqn:E.
    - apply (member_exact_gen q _ Hf). apply filter_In. split.
      + apply (member_exact_gen q l Hl). exact E.
      + apply negb_true_iff. apply str_eqb_neq. exact Hne.
    - destruct (is_in_refs q (unparse (filter (fun r => negb (str_eqb r p)) l))) eqn:E';
        [|reflexivity].
      apply (member_exact_gen q _ Hf) in E'. apply filter_In in E'.
      destruct E' as [E' _]. apply (member_exact_gen q l Hl) in E'.
      rewrite E' in E. discriminate E.
  Qed.

  (* ------------------------------------------------------------------ *)
  (** * The in-place rewrite and its crash-intermediate state *)

  (* Python writes the kept lines at offset 0 and THEN truncates.  Between
     the two, the file holds the new content followed by the tail of the old
     content. *)
  Definition overwrite_prefix (new old : str) : str := new ++ skipn (length new) old.

  Lemma overwrite_prefix_firstn :
    forall new old, firstn (length new) (overwrite_prefix new old) = new.
  Proof.
    intros new old. unfold overwrite_prefix.
    rewrite firstn_app, Nat.sub_diag, firstn_all. simpl. apply app_nil_r.
  Qed.

  (* Truncating the intermediate state at the new length yields the new content. *)
  Theorem overwrite_then_truncate :
    forall new old, length new <= length old ->
      firstn (length new) (overwrite_prefix new old) = new.
  Proof. intros new old _. apply overwrite_prefix_firstn. Qed.

  (* Before the truncate the file still has its old length ... *)
  Lemma overwrite_prefix_length :
    forall new old, length new <= length old ->
      length (overwrite_prefix new old) = length old.
  Proof.
    intros new old Hle. unfold overwrite_prefix.
    rewrite app_length, skipn_length. lia.
  Qed.

  (* ... and its bytes past the new content are the old bytes at the same offsets. *)
  Lemma overwrite_prefix_tail :
    forall new old,
      skipn (length new) (overwrite_prefix new old) = skipn (length new) old.
  Proof.
    intros new old. unfold overwrite_prefix.
    rewrite skipn_app, Nat.sub_diag, skipn_all. reflexivity.
  Qed.

  (* If nothing is removed, the intermediate state is the old file. *)
  Lemma overwrite_prefix_same : forall s, overwrite_prefix s s = s.
  Proof.
    intro s. unfold overwrite_prefix. rewrite skipn_all. apply app_nil_r.
  Qed.

  Lemma length_concat_filter :
    forall (f : str -> bool) (l : list str),
      length (concat (filter f l)) <= length (concat l).
  Proof.
    intros f. induction l as [|a l IH]; simpl.
    - apply le_n.
    - destruct (f a); simpl; rewrite ?app_length; lia.
  Qed.

  (* The rewrite never grows the file, for ANY file content (so the write at
     offset 0 stays inside the old extent and the truncate only shrinks). *)
  Theorem remove_shorter :
    forall p file, length (remove_ref p file) <= length file.
  Proof.
    intros p file. unfold remove_ref.
    pose proof (length_concat_filter
                  (fun line => negb (str_eqb (strip line) p)) (split_lines file)) as H.
    rewrite concat_split_lines in H. exact H.
  Qed.

  (* The complete rewrite (write at 0, then truncate at the new length)
     results in exactly [remove_ref p file]. *)
  Corollary rewrite_result :
    forall p file,
      firstn (length (remove_ref p file)) (overwrite_prefix (remove_ref p file) file)
      = remove_ref p file.
  Proof.
    intros p file. apply overwrite_then_truncate. apply remove_shorter.
  Qed.

End Codec.

(* ---------------------------------------------------------------------- *)
(** * Executable instance over code points *)

Definition cp := nat.

(* Large code points are built by multiplication from small literals, so that
   neither Coq's parser nor the extracted OCaml sees a deep unary literal. *)
Definition cp_5760 : nat := 45 * 128.     (* U+1680 *)
Definition cp_8192 : nat := 64 * 128.     (* U+2000 *)
Definition cp_12288 : nat := 96 * 128.    (* U+3000 *)

(* Python's str.isspace set:
   9,10,11,12,13, 28,29,30,31,32, 133, 160, 5760, 8192..8202, 8232, 8233,
   8239, 8287, 12288. *)
Definition py_space (c : nat) : bool :=
  (Nat.leb 9 c && Nat.leb c 13)
  || (Nat.leb 28 c && Nat.leb c 32)
  || Nat.eqb c 133
  || Nat.eqb c 160
  || Nat.eqb c cp_5760
  || (Nat.leb cp_8192 c && Nat.leb c (cp_8192 + 10))
  || Nat.eqb c (cp_8192 + 40)            (* 8232, U+2028 *)
  || Nat.eqb c (cp_8192 + 41)            (* 8233, U+2029 *)
  || Nat.eqb c (cp_8192 + 47)            (* 8239, U+202F *)
  || Nat.eqb c (cp_8192 + 95)            (* 8287, U+205F *)
  || Nat.eqb c cp_12288.

Definition cp_nl : cp := 10.

Lemma py_space_nl : py_space cp_nl = true.
Proof. reflexivity. Qed.

Definition str_eqb_cp : list cp -> list cp -> bool := str_eqb nat Nat.eqb.
Definition strip_cp : list cp -> list cp := strip nat py_space.
Definition split_lines_cp : list cp -> list (list cp) := split_lines nat Nat.eqb cp_nl.
Definition unparse_cp : list (list cp) -> list cp := unparse nat cp_nl.
Definition is_in_refs_cp : list cp -> list cp -> bool :=
  is_in_refs nat Nat.eqb py_space cp_nl.
Definition remove_ref_cp : list cp -> list cp -> list cp :=
  remove_ref nat Nat.eqb py_space cp_nl.
Definition add_ref_cp : list cp -> list cp -> list cp := add_ref nat cp_nl.
Definition check_string_cp : option (list cp) -> bool := check_string nat py_space.
Definition overwrite_prefix_cp : list cp -> list cp -> list cp := overwrite_prefix nat.
Definition valid_id_cp : list cp -> Prop := valid_id nat py_space.

(* The section hypotheses are satisfiable: the generic theorems instantiate. *)
Theorem member_exact_cp :
  forall p l, valid_id_cp p -> (forall q, In q l -> valid_id_cp q) ->
    (is_in_refs_cp p (unparse_cp l) = true <-> In p l).
Proof. exact (member_exact nat Nat.eqb Nat.eqb_eq py_space cp_nl py_space_nl). Qed.

Theorem remove_exact_cp :
  forall p l, valid_id_cp p -> (forall q, In q l -> valid_id_cp q) ->
    remove_ref_cp p (unparse_cp l)
    = unparse_cp (filter (fun q => negb (str_eqb_cp q p)) l).
Proof. exact (remove_exact nat Nat.eqb Nat.eqb_eq py_space cp_nl py_space_nl). Qed.

Theorem lines_codec_cp :
  forall l, (forall p, In p l -> valid_id_cp p) ->
    map strip_cp (split_lines_cp (unparse_cp l)) = l.
Proof. exact (lines_codec nat Nat.eqb Nat.eqb_eq py_space cp_nl py_space_nl). Qed.

Theorem check_string_spec_cp :
  forall s, check_string_cp s = true <-> exists p, s = Some p /\ valid_id_cp p.
Proof. exact (check_string_spec nat py_space). Qed.

(* "a" = [97], "ab" = [97;98], "abc" = [97;98;99], " " = 32, "\t" = 9, "\r" = 13 *)

Example ex_py_space_tab : py_space 9 = true.
Proof. vm_compute; reflexivity. Qed.
Example ex_py_space_nbsp : py_space 160 = true.
Proof. vm_compute; reflexivity. Qed.
Example ex_py_space_a : py_space 97 = false.
Proof. vm_compute; reflexivity. Qed.
Example ex_py_space_us : py_space 27 = false.
Proof. vm_compute; reflexivity. Qed.

Example ex_unparse :
  unparse_cp [[97]; [97;98]] = [97;10; 97;98;10].
Proof. vm_compute; reflexivity. Qed.

Example ex_split :
  split_lines_cp [97;10; 98;99;10; 100] = [[97;10]; [98;99;10]; [100]].
Proof. vm_compute; reflexivity. Qed.

Example ex_split_empty : split_lines_cp [] = [].
Proof. vm_compute; reflexivity. Qed.

Example ex_split_blank : split_lines_cp [10;10] = [[10]; [10]].
Proof. vm_compute; reflexivity. Qed.

Example ex_strip :
  strip_cp [32;9; 97;32;98; 13;10] = [97;32;98].
Proof. vm_compute; reflexivity. Qed.

Example ex_strip_all_space : strip_cp [32;9;160;10] = [].
Proof. vm_compute; reflexivity. Qed.

(* "a" is a strict prefix of both "ab" and "abc": not found. *)
Example ex_member_prefix :
  is_in_refs_cp [97] (unparse_cp [[97;98]; [97;98;99]]) = false.
Proof. vm_compute; reflexivity. Qed.

(* "bc" is a strict suffix of "abc": not found. *)
Example ex_member_suffix :
  is_in_refs_cp [98;99] (unparse_cp [[97;98]; [97;98;99]]) = false.
Proof. vm_compute; reflexivity. Qed.

Example ex_member_present :
  is_in_refs_cp [97;98] (unparse_cp [[97]; [97;98]; [97;98;99]]) = true.
Proof. vm_compute; reflexivity. Qed.

Example ex_member_empty_file : is_in_refs_cp [97] [] = false.
Proof. vm_compute; reflexivity. Qed.

(* removing "ab" from ["a";"ab";"abc"] gives the file of ["a";"abc"] *)
Example ex_remove :
  remove_ref_cp [97;98] (unparse_cp [[97]; [97;98]; [97;98;99]])
  = unparse_cp [[97]; [97;98;99]].
Proof. vm_compute; reflexivity. Qed.

(* duplicates are all removed *)
Example ex_remove_dups :
  remove_ref_cp [97] (unparse_cp [[97]; [98]; [97]]) = unparse_cp [[98]].
Proof. vm_compute; reflexivity. Qed.

Example ex_remove_last :
  remove_ref_cp [97;98] (unparse_cp [[97;98]]) = [].
Proof. vm_compute; reflexivity. Qed.

Example ex_remove_absent :
  remove_ref_cp [97] (unparse_cp [[97;98]; [97;98;99]])
  = unparse_cp [[97;98]; [97;98;99]].
Proof. vm_compute; reflexivity. Qed.

Example ex_add :
  add_ref_cp [97;98] (unparse_cp [[97]]) = unparse_cp [[97]; [97;98]].
Proof. vm_compute; reflexivity. Qed.

(* Non-canonical file content (outside the image of [unparse]): the line
   " a \r\n" matches "a" because of strip(), blank lines are kept by removal,
   and a final fragment without newline is still a line. *)
Example ex_member_noncanonical :
  is_in_refs_cp [97] [32;97;32;13;10; 10; 98] = true.
Proof. vm_compute; reflexivity. Qed.

Example ex_remove_noncanonical :
  remove_ref_cp [97] [32;97;32;13;10; 10; 98] = [10; 98].
Proof. vm_compute; reflexivity. Qed.

Example ex_remove_unterminated :
  remove_ref_cp [98] [97;10; 98] = [97;10].
Proof. vm_compute; reflexivity. Qed.

(* The crash-intermediate state when removing "a" from ["a";"ab";"abc"]:
   new content "ab\nabc\n" followed by the old tail "c\n" -- "ab\nabc\nc\n". *)
Example ex_overwrite_intermediate :
  overwrite_prefix_cp
    (remove_ref_cp [97] (unparse_cp [[97]; [97;98]; [97;98;99]]))
    (unparse_cp [[97]; [97;98]; [97;98;99]])
  = [97;98;10; 97;98;99;10; 99;10].
Proof. vm_compute; reflexivity. Qed.

Example ex_check_ok : check_string_cp (Some [97;98]) = true.
Proof. vm_compute; reflexivity. Qed.
Example ex_check_none : check_string_cp None = false.
Proof. vm_compute; reflexivity. Qed.
Example ex_check_empty : check_string_cp (Some []) = false.
Proof. vm_compute; reflexivity. Qed.
Example ex_check_blank : check_string_cp (Some [32;9]) = false.
Proof. vm_compute; reflexivity. Qed.
Example ex_check_inner_space : check_string_cp (Some [97;32;98]) = false.
Proof. vm_compute; reflexivity. Qed.
Example ex_check_trailing_nl : check_string_cp (Some [97;10]) = false.
Proof. vm_compute; reflexivity. Qed.
Example ex_check_nbsp : check_string_cp (Some [97;160;98]) = false.
Proof. vm_compute; reflexivity. Qed.

(* ---------------------------------------------------------------------- *)
(** * Assumptions *)

Print Assumptions str_eqb_spec.
Print Assumptions check_string_spec.
Print Assumptions strip_valid.
Print Assumptions strip_valid_id.
Print Assumptions split_unparse.
Print Assumptions lines_codec.
Print Assumptions member_exact.
Print Assumptions member_exact_gen.
Print Assumptions member_strict_prefix_not_found.
Print Assumptions member_strict_suffix_not_found.
Print Assumptions remove_exact.
Print Assumptions remove_exact_gen.
Print Assumptions remove_absent_noop.
Print Assumptions add_exact.
Print Assumptions add_then_member.
Print Assumptions remove_last_empty.
Print Assumptions remove_empty_iff.
Print Assumptions remove_then_not_member.
Print Assumptions remove_preserves_others.
Print Assumptions unparse_injective.
Print Assumptions overwrite_then_truncate.
Print Assumptions overwrite_prefix_firstn.
Print Assumptions overwrite_prefix_length.
Print Assumptions overwrite_prefix_tail.
Print Assumptions remove_shorter.
Print Assumptions rewrite_result.
Print Assumptions concat_split_lines.
Print Assumptions member_exact_cp.
Print Assumptions remove_exact_cp.
Print Assumptions lines_codec_cp.
Print Assumptions check_string_spec_cp.
