(* CrashGeneralT.v — the Hoare-style frame of CrashGeneral.v ([Safe] / [step_sound] / [api_ok]) for a
   call issued by ANY thread [th] (CrashGeneral.v: thread 0), and relative to a set [care] of OTHER
   pids whose binding is to be kept (CrashGeneral.v: all of them).
     - The thread number matters only for the names of the call's own temp files ([ownb th],
       [ATmp ar th n]).
     - [care] enters through [bound0] alone ("q is cared for and bound to k in the start world"); with
       it the start world needs "bound implies listed" only for the pids cared for, so the frame
       applies to worlds of which only well-typedness is known (OneCidDel.v: the worlds between
       the complete runs of a pool).
   The two sections below are those of CrashGeneral.v with [th] and [care] as section variables and
   otherwise unchanged proofs; the types before the sections ([ghost], [typed], [good2] ...) are
   shared with CrashGeneral.v.  Results used by OneCidDel.v: [solo_call_keeps_other] (every
   intermediate world of a solo run of tag_object p c / delete_object p, by any thread, leaves
   another pid's reference, list membership and object as they were) and [solo_call_typed]. *)
From HS Require Import Base PyVal FS Ops Spec Sched RefineLemmas Refine SeqProps CrashFault Integrity CrashGeneral.

Lemma ownb_self : forall th ar n, ownb th (ATmp ar th n) = true.
Proof. intros. simpl. apply Nat.eqb_refl. Qed.

Section Frame.
  Variable th : nat.
  Variable w0 : world.          (* the start world *)
  Variable p : pid.             (* the pid the call names *)
  (* the OTHER pids whose binding is to be kept (CrashGeneral.v: all of them) *)
  Variable care : pid -> Prop.
  (* what the call may publish: the content of a new object, the content of p's new reference *)
  Variable pubO : cid -> fcontent -> Prop.
  Variable pubP : fcontent -> Prop.

  Definition pubok (d : addr) (v : fcontent) : Prop :=
    match d with AObj k => pubO k v | APidRef _ => pubP v | _ => True end.

  Definition bound0 (q : pid) (k : cid) : Prop :=
    care q /\ lookup (APidRef q) (fs w0) = Some (CCid k).
  (* no OTHER pid is bound to c in the start world *)
  Definition free (c : cid) : Prop := forall q, q <> p -> ~ bound0 q c.
  (* ... or the start world has no object c *)
  Definition objfree (c : cid) : Prop := free c \/ lookup (AObj c) (fs w0) = None.

  (* the addresses the call may rename from / onto / remove / write *)
  Definition mine (a : addr) : Prop :=
    match a with
    | APidRef q => q = p
    | AMeta q _ => q = p
    | ATmp _ _ _ => True
    | ADel _ => True
    | AObj c => objfree c
    | ACidRef c => free c
    end.

  (* the world invariant, relative to w0 and p *)
  Definition WI (w : world) : Prop :=
    typed (fs w) /\
    (forall q, q <> p -> lookup (APidRef q) (fs w) = lookup (APidRef q) (fs w0)) /\
    (forall q f, q <> p -> lookup (AMeta q f) (fs w) = lookup (AMeta q f) (fs w0)) /\
    (forall q k, q <> p -> bound0 q k ->
       (exists l, lookup (ACidRef k) (fs w) = Some (CLines l) /\ In q l) /\
       (forall x, lookup (AObj k) (fs w0) = Some x -> lookup (AObj k) (fs w) = Some x)).

  Definition agreeG (G : ghost) (w : world) : Prop :=
    (forall a v, ownb th a = true -> gT G a = Some v -> lookup a (fs w) = Some v) /\
    (forall a b, gK G a = Some b -> present a (fs w) = b) /\
    (forall c n, gP G = Some (c, n) ->
       forall l, lookup (ACidRef c) (fs w) = Some (CLines l) ->
       forall q, q <> p -> In q l -> In q (firstn n l)).

  Definition cid_of (a : addr) : option cid := match a with ACidRef c => Some c | _ => None end.

  Definition oppre (o : op) (G : ghost) : Prop :=
    match o with
    | WriteChunk t => ownb th t = true /\ exists b n j, gT G t = Some (CData b n j)
    | OpenWr t _ => ownb th t = true
    | Rename s d =>
        tmpb d = false /\ mine s /\ mine d /\
        (if ownb th s
         then tyb d = true -> exists v, gT G s = Some v /\ good2 d v /\ pubok d v
         else tmpb s = false /\ tyb d = false)
    | Remove a => (tmpb a = true -> ownb th a = true) /\ mine a
    | AppendOpen a | AppendWrite a _ => exists c, a = ACidRef c
    | RewriteWrite a q => (exists c, a = ACidRef c) /\ q = p
    | Truncate a n => exists c, a = ACidRef c /\ gP G = Some (c, n)
    | _ => True
    end.

  Definition absent_fact (a : addr) : Prop :=
    match a with ACidRef c => free c | AObj c => objfree c | _ => True end.

  Definition size_fact (a : addr) : Prop :=
    match a with ACidRef c => free c | _ => True end.

  Definition ansok (o : op) (G : ghost) (x : ans) : Prop :=
    match o with
    | MkTmp ar _ => exists n, x = AAddr (ATmp ar th n) /\ gT G (ATmp ar th n) = None
    | WriteChunk _ => x = AUnit
    | ListDir q => exists l, x = AList l /\ forall a, In a l -> owned_by q a = true
    | Probe a => exists b, x = ABool b /\ (forall b', gK G a = Some b' -> b = b') /\
                           (b = false -> absent_fact a)
    | SizeLines a => x = ANat 0 -> size_fact a
    | _ => True
    end.

  Definition reset (T : tmap) : ghost := mkG T kempty None.

  Definition opnext (o : op) (G : ghost) (x : ans) : ghost :=
    match o with
    | Probe a => match x with ABool b => mkG (gT G) (kupd (gK G) a b) (gP G) | _ => G end
    | MkTmp _ init => match x with AAddr a => reset (tupd (gT G) a init) | _ => reset (gT G) end
    | WriteChunk t =>
        match gT G t with Some (CData b n j) => reset (tupd (gT G) t (CData b n (S j))) | _ => reset (gT G) end
    | OpenWr t c => reset (tupd (gT G) t c)
    | Rename s _ => reset (if ownb th s then tdel (gT G) s else gT G)
    | Remove a => reset (if ownb th a then tdel (gT G) a else gT G)
    | AppendOpen _ | AppendWrite _ _ | Truncate _ _ => reset (gT G)
    | RewriteWrite a _ =>
        match cid_of a, x with
        | Some c, ANat n => mkG (gT G) kempty (Some (c, n))
        | _, _ => reset (gT G)
        end
    | _ => G
    end.

  Fixpoint Safe {A} (m : prog A) (G : ghost) (Q : A -> ghost -> Prop) : Prop :=
    match m with
    | Ret a => Q a G
    | Bad => True
    | Vis o k => oppre o G /\ forall x, ansok o G x -> Safe (k x) (opnext o G x) Q
    end.

  (* ---------- frame lemmas for WI ---------- *)

  Lemma mine_not_other_pid : forall q, q <> p -> ~ mine (APidRef q).
  Proof. intros q H Hm. simpl in Hm. contradiction. Qed.

  (* a step that changes only addresses that are [mine], and leaves changed files well typed *)
  Lemma WI_frame : forall w m',
    WI w ->
    (forall a, lookup a m' = lookup a (fs w) \/ mine a) ->
    (forall a v, lookup a m' = Some v -> lookup a (fs w) = Some v \/ good2 a v) ->
    WI (set_fs w m').
  Proof.
    intros w m' (Ht & H1 & H2 & H3) Hch Hty. unfold WI. simpl.
    split; [|split; [|split]].
    - intros a v Hl. destruct (Hty a v Hl) as [H|H]; auto.
    - intros q Hq. destruct (Hch (APidRef q)) as [H|H]; [rewrite H; auto|].
      simpl in H. contradiction.
    - intros q f Hq. destruct (Hch (AMeta q f)) as [H|H]; [rewrite H; auto|].
      simpl in H. contradiction.
    - intros q k Hq Hb. destruct (H3 q k Hq Hb) as [Hl Ho]. split.
      + destruct (Hch (ACidRef k)) as [H|H]; [rewrite H; exact Hl|].
        simpl in H. exfalso. exact (H q Hq Hb).
      + intros x Hx. destruct (Hch (AObj k)) as [H|H]; [rewrite H; auto|].
        simpl in H. destruct H as [H|H]; [exfalso; exact (H q Hq Hb)|congruence].
  Qed.

  (* an in-place rewrite of a cid list that keeps every other pid listed *)
  Lemma WI_cidref : forall w c l',
    WI w ->
    (forall l q, lookup (ACidRef c) (fs w) = Some (CLines l) -> q <> p -> In q l -> In q l') ->
    WI (set_fs w (update (ACidRef c) (CLines l') (fs w))).
  Proof.
    intros w c l' (Ht & H1 & H2 & H3) Hk. unfold WI. simpl.
    split; [|split; [|split]].
    - intros a v Hl. rewrite lookup_update in Hl.
      destruct (addr_eqb a (ACidRef c)) eqn:E; [|auto].
      apply addr_eqb_true in E. subst. inversion Hl; subst. simpl. eauto.
    - intros q Hq. rewrite lookup_update_neq by discriminate. auto.
    - intros q f Hq. rewrite lookup_update_neq by discriminate. auto.
    - intros q k Hq Hb. destruct (H3 q k Hq Hb) as [[l [Hl Hin]] Ho]. split.
      + rewrite lookup_update. destruct (addr_eqb (ACidRef k) (ACidRef c)) eqn:E.
        * apply addr_eqb_true in E. inversion E; subst k.
          exists l'. split; [reflexivity|]. eapply Hk; eauto.
        * eauto.
      + intros x Hx. rewrite lookup_update_neq by discriminate. auto.
  Qed.

  Lemma agree_reset : forall T w,
    (forall a v, ownb th a = true -> T a = Some v -> lookup a (fs w) = Some v) -> agreeG (reset T) w.
  Proof.
    intros T w H. split; [exact H|]. split.
    - intros a b Hk. discriminate.
    - intros c n Hp. discriminate.
  Qed.

  Lemma own_neq_nontmp0 : forall a d, ownb th a = true -> tmpb d = false -> a <> d.
  Proof. intros a d Ha Hd E. subst. apply ownb_tmpb in Ha. congruence. Qed.

  Lemma mine_tmp : forall a, tmpb a = true -> mine a.
  Proof. destruct a; simpl; intros; try discriminate; exact I. Qed.

  Lemma firstn_filter_keep : forall (l : list pid) q,
    q <> p -> In q l ->
    In q (filter_lines p l ++ skipn (length (filter_lines p l)) l).
  Proof.
    intros l q Hq Hin. apply in_or_app. left. unfold filter_lines. apply filter_In.
    split; [exact Hin|]. apply negb_true_iff. apply Nat.eqb_neq. exact Hq.
  Qed.

  Lemma In_skipn_in : forall (A : Type) n (l : list A) x, In x (skipn n l) -> In x l.
  Proof. intros A n l x H. rewrite <- (firstn_skipn n l). apply in_or_app. auto. Qed.

  Lemma firstn_app_exact : forall (A : Type) (l1 l2 : list A), firstn (length l1) (l1 ++ l2) = l1.
  Proof. induction l1; simpl; intros; [destruct l2; reflexivity|]. f_equal. auto. Qed.

  (* ---------- soundness of one step ---------- *)

  Theorem step_sound : forall o G w x w',
    agreeG G w -> WI w -> oppre o G -> exec_op th o w = Some (x, w') ->
    ansok o G x /\ agreeG (opnext o G x) w' /\ WI w'.
  Proof.
    intros o G [m L] xans w' Hag HW Hpre Hex.
    destruct Hag as (HaT & HaK & HaP).
    destruct o; simpl in Hex, Hpre; simpl ansok; simpl opnext.
    - (* Probe *)
      inversion Hex; subst; clear Hex.
      split; [|split; [|exact HW]].
      + eexists. split; [reflexivity|]. split.
        * intros b' Hk. apply HaK in Hk. unfold present in Hk. simpl in Hk. exact Hk.
        * intros Hb. destruct HW as (Ht & H1 & H2 & H3). simpl in *.
          destruct (lookup a m) eqn:El; [discriminate|].
          destruct a; simpl; auto.
          -- (* AObj *)
             destruct (lookup (AObj c) (fs w0)) as [x0|] eqn:E0; [|right; exact E0].
             left. intros q Hq Hbq. destruct (H3 q c Hq Hbq) as [_ Ho].
             specialize (Ho x0 E0). congruence.
          -- (* ACidRef *)
             intros q Hq Hbq. destruct (H3 q c Hq Hbq) as [[l [Hl _]] _]. congruence.
      + split; [exact HaT|]. split; [|exact HaP].
        intros a' b Hk. simpl in Hk. unfold kupd in Hk.
        destruct (addr_eqb a' a) eqn:E; [|auto].
        apply addr_eqb_true in E. subst. inversion Hk; subst. unfold present. simpl.
        destruct (lookup a m); reflexivity.
    - (* SizeLines *)
      assert (Hfact : xans = ANat 0 -> size_fact a).
      { intros ->. destruct a; simpl; auto.
        destruct (lookup (ACidRef c) m) as [[b' n' i'|c'|l|]|] eqn:El; inversion Hex; subst; try discriminate.
        destruct l; [|discriminate].
        intros q Hq Hbq. destruct HW as (_ & _ & _ & H3).
        destruct (H3 q c Hq Hbq) as [[l [Hl Hin]] _]. simpl in Hl. rewrite El in Hl.
        inversion Hl; subst. contradiction. }
      destruct (lookup a m) as [[]|]; inversion Hex; subst; clear Hex;
        (split; [exact Hfact|split; [split; auto|exact HW]]).
    - (* Read *)
      destruct (lookup a m); inversion Hex; subst; (split; [exact I|split; [split; auto|exact HW]]).
    - (* OpenSrc *) inversion Hex; subst. (split; [exact I|split; [split; auto|exact HW]]).
    - (* MkTmp *)
      inversion Hex; subst; clear Hex.
      destruct (fresh_tmp_shape ar th m) as [n Hn].
      pose proof (fresh_tmp_absent ar th m) as Hab. rewrite Hn in *.
      split; [|split].
      + exists n. split; [reflexivity|].
        destruct (gT G (ATmp ar th n)) eqn:E; auto.
        apply HaT in E; [|apply ownb_self]. simpl in E. congruence.
      + apply agree_reset. intros a v Ha Hv. simpl. rewrite lookup_update. unfold tupd in Hv.
        destruct (addr_eqb a (ATmp ar th n)); auto.
      + apply WI_frame; [exact HW| |].
        * intros a. simpl. rewrite lookup_update.
          destruct (addr_eqb a (ATmp ar th n)) eqn:E; [|auto].
          apply addr_eqb_true in E. subst. right. exact I.
        * intros a v Hl. rewrite lookup_update in Hl.
          destruct (addr_eqb a (ATmp ar th n)) eqn:E; [|auto].
          apply addr_eqb_true in E. subst. right. exact I.
    - (* WriteChunk *)
      destruct Hpre as [Hown [b [n [j HT]]]].
      pose proof (HaT _ _ Hown HT) as Hl. simpl in Hl. rewrite Hl in Hex.
      inversion Hex; subst; clear Hex. rewrite HT.
      split; [reflexivity|]. split.
      + apply agree_reset. intros a v Ha Hv. simpl. rewrite lookup_update. unfold tupd in Hv.
        destruct (addr_eqb a t); auto.
      + apply WI_frame; [exact HW| |].
        * intros a. simpl. rewrite lookup_update.
          destruct (addr_eqb a t) eqn:E; [|auto].
          apply addr_eqb_true in E. subst. right. apply mine_tmp. eapply ownb_tmpb; eauto.
        * intros a v Hl'. rewrite lookup_update in Hl'.
          destruct (addr_eqb a t) eqn:E; [|auto].
          apply addr_eqb_true in E. subst. right. apply good2_untyped.
          destruct t; simpl in Hown; try discriminate; reflexivity.
    - (* OpenWr *)
      inversion Hex; subst; clear Hex.
      split; [exact I|]. split.
      + apply agree_reset. intros a v Ha Hv. simpl. rewrite lookup_update. unfold tupd in Hv.
        destruct (addr_eqb a t); auto.
      + apply WI_frame; [exact HW| |].
        * intros a. simpl. rewrite lookup_update.
          destruct (addr_eqb a t) eqn:E; [|auto].
          apply addr_eqb_true in E. subst. right. apply mine_tmp. eapply ownb_tmpb; eauto.
        * intros a v Hl'. rewrite lookup_update in Hl'.
          destruct (addr_eqb a t) eqn:E; [|auto].
          apply addr_eqb_true in E. subst. right. apply good2_untyped.
          destruct t; simpl in Hpre; try discriminate; reflexivity.
    - (* Rename *)
      destruct Hpre as (Hd & Hms & Hmd & Hs).
      destruct (lookup src m) as [c|] eqn:El.
      + inversion Hex; subst; clear Hex.
        split; [exact I|]. split.
        * apply agree_reset. intros a v Ha Hv. simpl.
          rewrite lookup_update_neq by (apply own_neq_nontmp0; auto).
          rewrite lookup_delete. destruct (ownb th src) eqn:Eo.
          -- unfold tdel in Hv. destruct (addr_eqb a src); [discriminate|]. auto.
          -- destruct (addr_eqb a src) eqn:E; [|auto].
             apply addr_eqb_true in E. subst. congruence.
        * apply WI_frame; [exact HW| |].
          -- intros a. simpl. rewrite lookup_update.
             destruct (addr_eqb a dst) eqn:E; [apply addr_eqb_true in E; subst; auto|].
             rewrite lookup_delete.
             destruct (addr_eqb a src) eqn:E2; [apply addr_eqb_true in E2; subst; auto|auto].
          -- intros a v Hl'. rewrite lookup_update in Hl'.
             destruct (addr_eqb a dst) eqn:E.
             ++ apply addr_eqb_true in E. subst. inversion Hl'; subst. right.
                destruct (tyb dst) eqn:Et; [|apply good2_untyped; exact Et].
                destruct (ownb th src) eqn:Eo; [|destruct Hs; congruence].
                destruct (Hs eq_refl) as [v' [HT [Hg _]]].
                apply HaT in HT; auto. simpl in HT. congruence.
             ++ rewrite lookup_delete in Hl'. destruct (addr_eqb a src); [discriminate|auto].
      + inversion Hex; subst; clear Hex.
        split; [exact I|]. split; [|exact HW].
        apply agree_reset. intros a v Ha Hv. destruct (ownb th src); [|auto].
        unfold tdel in Hv. destruct (addr_eqb a src); [discriminate|auto].
    - (* Remove *)
      destruct Hpre as [Hown Hm].
      destruct (lookup a m) as [c|] eqn:El.
      + inversion Hex; subst; clear Hex.
        split; [exact I|]. split.
        * apply agree_reset. intros y v Hy Hv. simpl. rewrite lookup_delete.
          destruct (ownb th a) eqn:Eo.
          -- unfold tdel in Hv. destruct (addr_eqb y a); [discriminate|auto].
          -- destruct (addr_eqb y a) eqn:E; [|auto].
             apply addr_eqb_true in E. subst. congruence.
        * apply WI_frame; [exact HW| |].
          -- intros y. simpl. rewrite lookup_delete.
             destruct (addr_eqb y a) eqn:E; [apply addr_eqb_true in E; subst; auto|auto].
          -- intros y v Hl'. rewrite lookup_delete in Hl'.
             destruct (addr_eqb y a); [discriminate|auto].
      + inversion Hex; subst; clear Hex.
        split; [exact I|]. split; [|exact HW].
        apply agree_reset. intros y v Hy Hv. destruct (ownb th a); [|auto].
        unfold tdel in Hv. destruct (addr_eqb y a); [discriminate|auto].
    - (* MkDirs *) inversion Hex; subst. (split; [exact I|split; [split; auto|exact HW]]).
    - (* ListDir *)
      inversion Hex; subst; clear Hex. split; [|split; [split; auto|exact HW]].
      eexists. split; [reflexivity|]. intros a Ha. apply filter_In in Ha. apply Ha.
    - (* AppendOpen *)
      destruct Hpre as [c ->].
      destruct (lookup (ACidRef c) m) eqn:El; inversion Hex; subst; clear Hex.
      + split; [exact I|]. split; [apply agree_reset; exact HaT|exact HW].
      + split; [exact I|]. split.
        * apply agree_reset. intros y v Hy Hv. simpl. rewrite lookup_update_neq; auto.
          intros ->. discriminate.
        * apply (WI_cidref (mkWorld m L) c []); [exact HW|].
          intros l q Hl. simpl in Hl. congruence.
    - (* AppendWrite *)
      destruct Hpre as [c ->].
      destruct (lookup (ACidRef c) m) as [[b' n' i'|c'|l|]|] eqn:El; inversion Hex; subst; clear Hex;
        try (split; [exact I|]; split; [apply agree_reset; exact HaT|exact HW]).
      + split; [exact I|]. split.
        * apply agree_reset. intros y v Hy Hv. simpl. rewrite lookup_update_neq; auto.
          intros ->. discriminate.
        * apply (WI_cidref (mkWorld m L) c (l ++ [p0])); [exact HW|].
          intros l1 q Hl. simpl in Hl. rewrite El in Hl. inversion Hl; subst.
          intros _ Hin. apply in_or_app. auto.
      + split; [exact I|]. split.
        * apply agree_reset. intros y v Hy Hv. simpl. rewrite lookup_update_neq; auto.
          intros ->. discriminate.
        * apply (WI_cidref (mkWorld m L) c [p0]); [exact HW|].
          intros l1 q Hl. simpl in Hl. congruence.
    - (* OpenRW *)
      destruct (lookup a m); inversion Hex; subst; (split; [exact I|split; [split; auto|exact HW]]).
    - (* RewriteWrite *)
      destruct Hpre as [[c ->] ->]. simpl.
      destruct (lookup (ACidRef c) m) as [[b' n' i'|c'|l|]|] eqn:El; inversion Hex; subst; clear Hex;
        try (split; [exact I|]; split; [apply agree_reset; exact HaT|exact HW]).
      split; [exact I|]. split.
      + split; [|split].
        * intros y v Hy Hv. simpl in *. rewrite lookup_update_neq; auto. intros ->. discriminate.
        * intros y b Hk. discriminate.
        * intros c' n Hp. simpl in Hp. inversion Hp; subst c' n.
          intros l1 Hl1. simpl in Hl1. rewrite lookup_update_eq in Hl1. inversion Hl1; subst l1.
          intros q Hq Hin. rewrite firstn_app_exact.
          apply in_app_or in Hin. destruct Hin as [Hin|Hin]; [exact Hin|].
          unfold filter_lines. apply filter_In. split.
          -- eapply In_skipn_in. exact Hin.
          -- apply negb_true_iff. apply Nat.eqb_neq. exact Hq.
      + apply (WI_cidref (mkWorld m L) c); [exact HW|].
        intros l1 q Hl. simpl in Hl. rewrite El in Hl. inversion Hl; subst.
        intros Hq Hin. apply firstn_filter_keep; assumption.
    - (* Truncate *)
      destruct Hpre as [c [-> HP]].
      destruct (lookup (ACidRef c) m) as [[b' n' i'|c'|l|]|] eqn:El; inversion Hex; subst; clear Hex;
        try (split; [exact I|]; split; [apply agree_reset; exact HaT|exact HW]).
      split; [exact I|]. split.
      + apply agree_reset. intros y v Hy Hv. simpl. rewrite lookup_update_neq; auto.
        intros ->. discriminate.
      + apply (WI_cidref (mkWorld m L) c); [exact HW|].
        intros l1 q Hl. simpl in Hl. rewrite El in Hl. inversion Hl; subst.
        intros Hq Hin. eapply HaP; eauto.
    - (* Acquire *)
      destruct (memb lock_eqb (cls, i) L); inversion Hex; subst; clear Hex.
      split; [exact I|split; [split; auto|exact HW]].
    - (* Release *)
      destruct (memb lock_eqb (cls, i) L); inversion Hex; subst; clear Hex;
        (split; [exact I|split; [split; auto|exact HW]]).
    - (* Peek *) inversion Hex; subst. (split; [exact I|split; [split; auto|exact HW]]).
    - (* Held *) inversion Hex; subst. (split; [exact I|split; [split; auto|exact HW]]).
  Qed.

  (* ---------- where objects and p's reference come from ---------- *)

  Definition OP (w : world) : Prop :=
    (forall k x, lookup (AObj k) (fs w) = Some x -> lookup (AObj k) (fs w0) = Some x \/ pubO k x) /\
    (forall v, lookup (APidRef p) (fs w) = Some v -> lookup (APidRef p) (fs w0) = Some v \/ pubP v).

  Definition pubaddr (a : addr) : bool := match a with AObj _ | APidRef _ => true | _ => false end.

  Lemma step_new_content : forall o G w x w' a v,
    agreeG G w -> oppre o G -> exec_op th o w = Some (x, w') -> pubaddr a = true ->
    lookup a (fs w') = Some v -> lookup a (fs w) = Some v \/ pubok a v.
  Proof.
    intros o G w x w' a v Hag Hpre Hex Ha Hv.
    destruct (lookup a (fs w)) as [v0|] eqn:E0.
    - destruct (fcontent_eqb v0 v) eqn:Ev; [apply fcontent_eqb_true in Ev; subst; auto|].
      assert (Hne : lookup a (fs w) <> lookup a (fs w')).
      { rewrite E0, Hv. intros H. inversion H; subst.
        assert (fcontent_eqb v v = true).
        { destruct v; simpl; rewrite ?Nat.eqb_refl; auto.
          apply (list_eqb_refl Nat.eqb Nat.eqb_refl). }
        congruence. }
      destruct (change_needs_rename_or_remove th o w x w' a Hex Hne) as [[s ->]|[[d ->]|[->|[Hi|Hm]]]].
      + destruct w as [m L]. simpl in *. destruct Hpre as (Hd & _ & _ & Hs).
        destruct (lookup s m) as [c|] eqn:El; inversion Hex; subst; clear Hex; [|simpl in Hv; first [congruence | left; congruence]].
        simpl in Hv. rewrite lookup_update_eq in Hv. inversion Hv; subst c.
        destruct (ownb th s) eqn:Eo.
        * assert (Ht : tyb a = true) by (destruct a; simpl in *; congruence).
          destruct (Hs Ht) as [v' [HT [_ Hp]]]. destruct Hag as (HaT & _).
          apply HaT in HT; auto. simpl in HT. right. congruence.
        * destruct Hs as [_ Ht]. destruct a; simpl in *; congruence.
      + destruct w as [m L]. simpl in *.
        destruct (lookup a m) as [c|] eqn:El; inversion Hex; subst; clear Hex; [|simpl in Hv; first [congruence | left; congruence]].
        simpl in Hv. rewrite lookup_update in Hv.
        destruct (addr_eqb a d) eqn:E; [inversion Hv; subst; left; congruence|].
        rewrite lookup_delete_eq in Hv. discriminate.
      + destruct w as [m L]. simpl in *.
        destruct (lookup a m) as [c|] eqn:El; inversion Hex; subst; clear Hex; [|simpl in Hv; first [congruence | left; congruence]].
        simpl in Hv. rewrite lookup_delete_eq in Hv. discriminate.
      + exfalso. destruct o; simpl in Hi; try discriminate; inversion Hi; subst; simpl in Hpre.
        * destruct Hpre as [H _]. destruct a; simpl in *; discriminate.
        * destruct a; simpl in *; discriminate.
        * destruct Hpre as [c ->]. discriminate.
        * destruct Hpre as [c ->]. discriminate.
        * destruct Hpre as [[c ->] _]. discriminate.
        * destruct Hpre as [c [-> _]]. discriminate.
      + exfalso. destruct Hm as [ar [init [_ Ht]]]. destruct a; simpl in *; discriminate.
    - assert (Hne : lookup a (fs w) <> lookup a (fs w')) by (rewrite E0, Hv; discriminate).
      destruct (change_needs_rename_or_remove th o w x w' a Hex Hne) as [[s ->]|[[d ->]|[->|[Hi|Hm]]]].
      + destruct w as [m L]. simpl in *. destruct Hpre as (Hd & _ & _ & Hs).
        destruct (lookup s m) as [c|] eqn:El; inversion Hex; subst; clear Hex; [|simpl in Hv; first [congruence | left; congruence]].
        simpl in Hv. rewrite lookup_update_eq in Hv. inversion Hv; subst c.
        destruct (ownb th s) eqn:Eo.
        * assert (Ht : tyb a = true) by (destruct a; simpl in *; congruence).
          destruct (Hs Ht) as [v' [HT [_ Hp]]]. destruct Hag as (HaT & _).
          apply HaT in HT; auto. simpl in HT. right. congruence.
        * destruct Hs as [_ Ht]. destruct a; simpl in *; congruence.
      + destruct w as [m L]. simpl in *. rewrite E0 in Hex. inversion Hex; subst. simpl in Hv. congruence.
      + destruct w as [m L]. simpl in *. rewrite E0 in Hex. inversion Hex; subst. simpl in Hv. congruence.
      + exfalso. destruct o; simpl in Hi; try discriminate; inversion Hi; subst; simpl in Hpre.
        * destruct Hpre as [H _]. destruct a; simpl in *; discriminate.
        * destruct a; simpl in *; discriminate.
        * destruct Hpre as [c ->]. discriminate.
        * destruct Hpre as [c ->]. discriminate.
        * destruct Hpre as [[c ->] _]. discriminate.
        * destruct Hpre as [c [-> _]]. discriminate.
      + exfalso. destruct Hm as [ar [init [_ Ht]]]. destruct a; simpl in *; discriminate.
  Qed.

  Lemma step_OP : forall o G w x w',
    agreeG G w -> oppre o G -> exec_op th o w = Some (x, w') -> OP w -> OP w'.
  Proof.
    intros o G w x w' Hag Hpre Hex [HO HP]. split.
    - intros k y Hy.
      destruct (step_new_content o G w x w' (AObj k) y Hag Hpre Hex eq_refl Hy) as [H|H]; auto.
    - intros v Hv.
      destruct (step_new_content o G w x w' (APidRef p) v Hag Hpre Hex eq_refl Hv) as [H|H]; auto.
  Qed.
End Frame.

Arguments Safe th w0 p care pubO pubP {A} m G Q.

(* ================================================================================== *)
(* Combinators and the API discipline                                                 *)
(* ================================================================================== *)

Section ApiFrame.
  Variable th : nat.
  Variable w0 : world.
  Variable p : pid.
  Variable care : pid -> Prop.
  Variable pubO : cid -> fcontent -> Prop.
  Variable pubP : fcontent -> Prop.
  Notation Safe := (Safe th w0 p care pubO pubP).
  Notation oppre := (oppre th w0 p care pubO pubP).
  Notation free := (free w0 p care).
  Notation objfree := (objfree w0 p care).
  Notation mine := (mine w0 p care).

  Lemma safe_weaken : forall A (m : prog A) G (Q Q' : A -> ghost -> Prop),
    Safe m G Q -> (forall a G', Q a G' -> Q' a G') -> Safe m G Q'.
  Proof.
    induction m as [a|o k IH|]; simpl; intros G Q Q' H HQ; auto.
    destruct H as [H1 H2]. split; auto. intros x Hx. eapply IH; eauto.
  Qed.

  Lemma safe_bind : forall A B (m : prog A) (f : A -> prog B) G Q1 Q,
    Safe m G Q1 -> (forall a G', Q1 a G' -> Safe (f a) G' Q) -> Safe (bind m f) G Q.
  Proof.
    induction m as [a|o k IH|]; simpl; intros f G Q1 Q H Hf; auto.
    destruct H as [H1 H2]. split; auto. intros x Hx. eapply IH; eauto.
  Qed.

  Lemma safe_mbind : forall A B (m : M A) (f : A -> M B) G Q1 Q,
    Safe m G Q1 ->
    (forall a G', Q1 (Val a) G' -> Safe (f a) G' Q) ->
    (forall e G', Q1 (Exn e) G' -> Q (Exn e) G') ->
    Safe (mbind m f) G Q.
  Proof.
    intros A B m f G Q1 Q H Hf He. unfold mbind. eapply safe_bind; [exact H|].
    intros [a|e] G' HQ; simpl; auto.
  Qed.

  Definition post_v {A} (P : A -> Prop) : outcome A -> ghost -> Prop :=
    fun r _ => match r with Val a => P a | Exn _ => True end.

  Definition OkV {A} (m : M A) (P : A -> Prop) : Prop := forall G, Safe m G (post_v P).
  Notation Ok m := (OkV m (fun _ => True)).

  Lemma okv_ret : forall A (a : A) (P : A -> Prop), P a -> OkV (ret a) P.
  Proof. intros A a P H G. exact H. Qed.
  Lemma ok_ret : forall A (a : A), Ok (ret a).
  Proof. intros A a G. exact I. Qed.
  Lemma okv_raise : forall A e (P : A -> Prop), OkV (raise e) P.
  Proof. intros A e P G. exact I. Qed.
  Lemma okv_bad : forall A (P : A -> Prop), OkV Bad P.
  Proof. intros A P G. exact I. Qed.

  Lemma okv_weaken : forall A (m : M A) (P P' : A -> Prop),
    OkV m P -> (forall a, P a -> P' a) -> OkV m P'.
  Proof.
    intros A m P P' H HP G. eapply safe_weaken; [apply H|].
    intros [a|e] G' HQ; simpl in *; auto.
  Qed.

  Lemma okv_mbind : forall A B (m : M A) (f : A -> M B) (P : A -> Prop) (Q : B -> Prop),
    OkV m P -> (forall a, P a -> OkV (f a) Q) -> OkV (mbind m f) Q.
  Proof.
    intros A B m f P Q Hm Hf G. eapply safe_mbind; [apply Hm| |].
    - intros a G' HP. apply Hf. exact HP.
    - intros e G' _. exact I.
  Qed.

  Lemma ok_mbind : forall A B (m : M A) (f : A -> M B) (Q : B -> Prop),
    Ok m -> (forall a, OkV (f a) Q) -> OkV (mbind m f) Q.
  Proof. intros. eapply okv_mbind; [eassumption|]. intros a _. auto. Qed.

  Lemma okv_catch : forall A (m : M A) (P : A -> Prop),
    OkV m P -> OkV (catch m) (fun r => match r with Val a => P a | Exn _ => True end).
  Proof.
    intros A m P H G. unfold catch. eapply safe_bind; [apply H|].
    intros [a|e] G' HQ; simpl in *; auto.
  Qed.
  Lemma ok_catch : forall A (m : M A), Ok m -> Ok (catch m).
  Proof. intros A m H. eapply okv_weaken; [apply okv_catch; exact H|]. auto. Qed.

  Lemma safe_try_finally : forall A (m : M A) (fin : M unit) G (P : A -> Prop),
    Safe m G (post_v P) -> Ok fin -> Safe (try_finally m fin) G (post_v P).
  Proof.
    intros A m fin G P Hm Hf. unfold try_finally. eapply safe_bind; [exact Hm|].
    intros r G' Hr. eapply safe_bind; [apply Hf|].
    intros [[]|e] G'' _; simpl; auto.
  Qed.

  Lemma okv_try_finally : forall A (m : M A) (fin : M unit) (P : A -> Prop),
    OkV m P -> Ok fin -> OkV (try_finally m fin) P.
  Proof. intros A m fin P Hm Hf G. apply safe_try_finally; auto. Qed.

  Lemma okv_vis : forall A o (k : ans -> M A) (P : A -> Prop),
    (forall G, oppre o G) -> (forall x, OkV (k x) P) -> OkV (Vis o k) P.
  Proof. intros A o k P Hpre Hk G. simpl. split; [apply Hpre|]. intros x _. apply Hk. Qed.

  (* ---------- the typed wrappers ---------- *)

  Lemma okv_probe : forall a, OkV (probe a) (fun b => b = false -> absent_fact w0 p care a).
  Proof.
    intros a G. simpl. split; [exact I|]. intros x [b [-> [_ Hf]]]. simpl. exact Hf.
  Qed.
  Lemma ok_probe : forall a, Ok (probe a).
  Proof. intros a. eapply okv_weaken; [apply okv_probe|]. auto. Qed.
  Lemma ok_read : forall a, Ok (read a).
  Proof.
    intros a. apply okv_vis; [intros; exact I|].
    intros []; try apply okv_bad; try apply ok_ret; apply okv_raise.
  Qed.
  Lemma okv_size_lines : forall a, OkV (size_lines a) (fun n => n = 0 -> size_fact w0 p care a).
  Proof.
    intros a G. simpl. split; [exact I|]. intros x Hx. destruct x; simpl; auto;
      try (intros ->; apply Hx; reflexivity).
  Qed.
  Lemma ok_size_lines : forall a, Ok (size_lines a).
  Proof. intros a. eapply okv_weaken; [apply okv_size_lines|]. auto. Qed.
  Lemma ok_peek : forall cls x, Ok (peek cls x).
  Proof. intros. apply okv_vis; [intros; exact I|]. intros []; try apply okv_bad. apply ok_ret. Qed.
  Lemma ok_held : forall cls x, Ok (held cls x).
  Proof. intros. apply okv_vis; [intros; exact I|]. intros []; try apply okv_bad. apply ok_ret. Qed.
  Lemma ok_acquire : forall cls x, Ok (acquire cls x).
  Proof. intros. apply okv_vis; [intros; exact I|]. intros []; try apply okv_bad. apply ok_ret. Qed.
  Lemma ok_release : forall cls x, Ok (release cls x).
  Proof.
    intros. apply okv_vis; [intros; exact I|].
    intros []; try apply okv_bad; try apply ok_ret; apply okv_raise.
  Qed.
  Lemma ok_funlock : forall a, Ok (funlock a).
  Proof. intros. apply okv_vis; [intros; exact I|]. intros []; try apply okv_bad; apply ok_ret. Qed.

  Lemma ok_unit_op : forall o, (forall G, oppre o G) -> Ok (unit_op o).
  Proof.
    intros o H. apply okv_vis; [exact H|].
    intros []; try apply okv_bad; try apply ok_ret; apply okv_raise.
  Qed.
  Lemma ok_swallow_op : forall o, (forall G, oppre o G) -> Ok (swallow_op o).
  Proof.
    intros o H. apply okv_vis; [exact H|]. intros []; try apply okv_bad; apply ok_ret.
  Qed.

  Definition ol (l : list addr) : Prop := forall a, In a l -> owned_by p a = true.
  Definition dl (l : list addr) : Prop := forall a, In a l -> exists x, a = ADel x.

  Lemma okv_listdir : OkV (listdir p) ol.
  Proof. intros G. simpl. split; [exact I|]. intros x [l [-> Hl]]. simpl. exact Hl. Qed.

  Lemma owned_mine : forall a, owned_by p a = true -> tmpb a = false /\ mine a.
  Proof.
    intros a H. unfold owned_by in H. destruct a; simpl in *; try discriminate.
    - apply Nat.eqb_eq in H. auto.
    - auto.
  Qed.

  Lemma pre_rename_del : forall a G, tmpb a = false -> mine a -> oppre (Rename a (ADel a)) G.
  Proof.
    intros a G H Hm. simpl. split; [reflexivity|]. split; [exact Hm|]. split; [exact I|].
    assert (Ho : ownb th a = false) by (destruct a; simpl in *; congruence).
    rewrite Ho. auto.
  Qed.
  Lemma pre_remove_nt : forall a G, tmpb a = false -> mine a -> oppre (Remove a) G.
  Proof. intros a G H Hm. simpl. split; [congruence|exact Hm]. Qed.
  Lemma pre_remove_own : forall a G, ownb th a = true -> oppre (Remove a) G.
  Proof.
    intros a G H. simpl. split; [auto|]. apply mine_tmp. eapply ownb_tmpb. exact H.
  Qed.

  Lemma ok_unit_remove_own : forall t, ownb th t = true -> Ok (unit_op (Remove t)).
  Proof. intros. apply ok_unit_op. intros. apply pre_remove_own. assumption. Qed.
  Lemma ok_swallow_remove_own : forall t, ownb th t = true -> Ok (swallow_op (Remove t)).
  Proof. intros. apply ok_swallow_op. intros. apply pre_remove_own. assumption. Qed.
  Lemma ok_unit_remove_nt : forall a, tmpb a = false -> mine a -> Ok (unit_op (Remove a)).
  Proof. intros. apply ok_unit_op. intros. apply pre_remove_nt; assumption. Qed.
  Lemma ok_swallow_remove_nt : forall a, tmpb a = false -> mine a -> Ok (swallow_op (Remove a)).
  Proof. intros. apply ok_swallow_op. intros. apply pre_remove_nt; assumption. Qed.
  Lemma ok_unit_mkdirs : forall a, Ok (unit_op (MkDirs a)).
  Proof. intros. apply ok_unit_op. intros. exact I. Qed.
  Lemma ok_unit_openrw : forall a, Ok (unit_op (OpenRW a)).
  Proof. intros. apply ok_unit_op. intros. exact I. Qed.
  Lemma ok_unit_opensrc : Ok (unit_op OpenSrc).
  Proof. intros. apply ok_unit_op. intros. exact I. Qed.
  Lemma ok_unit_acquire : forall cls x, Ok (unit_op (Acquire cls x)).
  Proof. intros. apply ok_unit_op. intros. exact I. Qed.
  Lemma ok_unit_appendopen : forall c, Ok (unit_op (AppendOpen (ACidRef c))).
  Proof. intros. apply ok_unit_op. intros. simpl. eauto. Qed.
  Lemma ok_unit_appendwrite : forall c q, Ok (unit_op (AppendWrite (ACidRef c) q)).
  Proof. intros. apply ok_unit_op. intros. simpl. eauto. Qed.

  Hint Resolve ok_probe ok_read ok_size_lines ok_peek ok_held ok_acquire ok_release ok_funlock
       ok_unit_remove_own ok_swallow_remove_own ok_unit_mkdirs ok_unit_openrw ok_unit_opensrc
       ok_unit_acquire ok_unit_appendopen ok_unit_appendwrite ok_ret okv_raise okv_bad : okdb.

  Ltac okauto :=
    repeat (intros; first
      [ solve [eauto 3 with okdb]
      | apply ok_mbind
      | apply ok_catch
      | apply okv_try_finally
      | apply okv_ret; reflexivity
      | match goal with
        | |- OkV (match ?x with _ => _ end) _ => destruct x
        end ]).
  Ltac okd := solve [okauto].

  Lemma ok_read_cid : forall a, Ok (read_cid a).
  Proof. unfold read_cid. okauto. Qed.
  Hint Resolve ok_read_cid : okdb.
  Lemma ok_read_lines : forall a, Ok (read_lines a).
  Proof. unfold read_lines. okauto. Qed.
  Hint Resolve ok_read_lines : okdb.
  Lemma ok_is_in_refs : forall q a, Ok (is_in_refs q a).
  Proof. unfold is_in_refs. okauto. Qed.
  Hint Resolve ok_is_in_refs : okdb.
  Lemma ok_find_object : forall q, Ok (find_object q).
  Proof. unfold find_object. okauto. Qed.
  Hint Resolve ok_find_object : okdb.
  Lemma ok_open_object : forall c, Ok (open_object c).
  Proof. unfold open_object. okauto. Qed.
  Hint Resolve ok_open_object : okdb.
  Lemma ok_retrieve_object : forall q, Ok (retrieve_object q).
  Proof. unfold retrieve_object. okauto. Qed.
  Hint Resolve ok_retrieve_object : okdb.
  Lemma ok_get_hex_digest : forall q, Ok (get_hex_digest q).
  Proof. unfold get_hex_digest. okauto. Qed.
  Hint Resolve ok_get_hex_digest : okdb.

  Definition isdel (d : addr) : Prop := exists x, d = ADel x.

  Lemma okv_rename_for_deletion : forall a, tmpb a = false -> mine a ->
    OkV (rename_for_deletion a) isdel.
  Proof.
    intros a H Hm. unfold rename_for_deletion. apply ok_mbind.
    - apply ok_unit_op. intros. apply pre_rename_del; assumption.
    - intros _. apply okv_ret. exists a. reflexivity.
  Qed.

  Lemma dl_nil : dl [].
  Proof. intros a []. Qed.
  Lemma dl_cons : forall a l, isdel a -> dl l -> dl (a :: l).
  Proof. intros a l H Hl x [<-|Hx]; auto. Qed.
  Lemma dl_app : forall l1 l2, dl l1 -> dl l2 -> dl (l1 ++ l2).
  Proof. intros l1 l2 H1 H2 x Hx. apply in_app_or in Hx. destruct Hx; auto. Qed.
  Lemma dl_inv : forall a l, dl (a :: l) -> isdel a /\ dl l.
  Proof. intros a l H. split; [apply H; left; reflexivity|]. intros x Hx. apply H. right. exact Hx. Qed.
  Hint Resolve dl_nil dl_cons dl_app : okdb.

  Lemma ok_delete_marked : forall l, dl l -> Ok (delete_marked l).
  Proof.
    induction l as [|a l IH]; intros H; simpl.
    - apply ok_ret.
    - apply dl_inv in H. destruct H as [[x ->] Hl]. apply ok_mbind.
      + apply ok_swallow_remove_nt; [reflexivity|exact I].
      + intros _. auto.
  Qed.
  Hint Resolve ok_delete_marked : okdb.

  (* the rewrite of a cid list and its truncation: only p is dropped *)
  Lemma ok_rewrite_truncate : forall c,
    Ok (k <- rewrite_write (ACidRef c) p ;; unit_op (Truncate (ACidRef c) k)).
  Proof.
    intros c G. unfold rewrite_write, unit_op, mbind, ret, raise. simpl.
    split; [split; eauto|]. intros x _. destruct x; simpl; auto.
    split; [exists c; split; reflexivity|]. intros x _. destruct x; simpl; auto.
  Qed.

  Lemma ok_update_refs_remove : forall c, Ok (update_refs_remove (ACidRef c) p).
  Proof.
    intros. unfold update_refs_remove.
    apply ok_mbind; [okd|]. intros b. destruct (negb b); [apply okv_raise|].
    apply ok_mbind; [okd|]. intros _.
    apply okv_try_finally; [|okd].
    apply ok_mbind; [okd|]. intros _. apply ok_rewrite_truncate.
  Qed.
  Hint Resolve ok_update_refs_remove : okdb.
  Lemma ok_update_refs_add : forall c q, Ok (update_refs_add (ACidRef c) q).
  Proof. intros. unfold update_refs_add. okauto. Qed.
  Hint Resolve ok_update_refs_add : okdb.
  Lemma ok_verify_refs : forall q c, Ok (verify_refs q c).
  Proof. intros. unfold verify_refs. okauto. Qed.
  Hint Resolve ok_verify_refs : okdb.
  Lemma ok_validate : forall c c', Ok (validate_and_check_cid_lock c c').
  Proof. intros. unfold validate_and_check_cid_lock. okauto. Qed.
  Hint Resolve ok_validate : okdb.

  Lemma mine_pidref : mine (APidRef p).
  Proof. reflexivity. Qed.

  Lemma okv_mark_pid_refs : OkV (mark_pid_refs p) dl.
  Proof.
    unfold mark_pid_refs.
    eapply okv_mbind;
      [apply okv_catch; apply (okv_rename_for_deletion (APidRef p)); [reflexivity|apply mine_pidref]|].
    intros [d|e] H; apply okv_ret; auto with okdb.
  Qed.

  Lemma okv_remove_pid_and_handle_cid : forall c, OkV (remove_pid_and_handle_cid p c) dl.
  Proof.
    intros c. unfold remove_pid_and_handle_cid.
    eapply okv_mbind with (P := fun r => match r with Val l => dl l | Exn _ => True end).
    - apply okv_catch. apply ok_mbind; [okd|]. intros _.
      eapply okv_mbind; [apply okv_size_lines|]. intros n Hn. destruct (Nat.eqb n 0) eqn:En.
      + apply Nat.eqb_eq in En. specialize (Hn En). simpl in Hn.
        eapply okv_mbind; [apply (okv_rename_for_deletion (ACidRef c)); [reflexivity|exact Hn]|].
        intros d Hd. apply okv_ret. auto with okdb.
      + apply okv_ret. auto with okdb.
    - intros [l|e] H; apply okv_ret; auto with okdb.
  Qed.

  Lemma ok_untag_object : forall c, Ok (untag_object p c).
  Proof.
    intros c. unfold untag_object.
    apply ok_mbind; [okd|]. intros h. destruct (negb h); [apply okv_raise|].
    apply ok_mbind; [okd|]. intros r.
    assert (H12 : Ok (l1 <- mark_pid_refs p ;; l2 <- remove_pid_and_handle_cid p c ;; delete_marked (l1 ++ l2))).
    { eapply okv_mbind; [apply okv_mark_pid_refs|]. intros l1 H1.
      eapply okv_mbind; [apply okv_remove_pid_and_handle_cid|]. intros l2 H2.
      auto with okdb. }
    assert (H1 : Ok (l1 <- mark_pid_refs p ;; delete_marked l1)).
    { eapply okv_mbind; [apply okv_mark_pid_refs|]. intros l1 H1. auto with okdb. }
    assert (H2 : Ok (l2 <- remove_pid_and_handle_cid p c ;; delete_marked l2)).
    { eapply okv_mbind; [apply okv_remove_pid_and_handle_cid|]. intros l1 H1'. auto with okdb. }
    destruct r as [c'|e]; [okauto|].
    destruct e; okauto.
  Qed.
  Hint Resolve ok_untag_object : okdb.

  Lemma ok_and_sc : forall m1 m2, Ok m1 -> Ok m2 -> Ok (and_sc m1 m2).
  Proof. intros. unfold and_sc. okauto. Qed.
  Lemma ok_notm : forall m, Ok m -> Ok (notm m).
  Proof. intros. unfold notm. okauto. Qed.
  Hint Resolve ok_and_sc ok_notm : okdb.
  (* ---------- the staging sequences ---------- *)

  Lemma write_refs_tmp_safe : forall content G,
    Safe (write_refs_tmp content) G
      (fun r G' => match r with
                   | Val t => ownb th t = true /\ gT G' t = Some content /\
                              (forall x v, gT G x = Some v -> gT G' x = Some v)
                   | Exn _ => True
                   end).
  Proof.
    intros content G. unfold write_refs_tmp, mktmp, unit_op, mbind, ret, raise. simpl.
    split; [exact I|]. intros x [n [-> Hn]]. simpl.
    split; [apply Nat.eqb_refl|]. intros x _. destruct x; simpl; auto.
    split; [apply Nat.eqb_refl|]. split; [apply tupd_eq|].
    intros x v Hx. unfold tupd. destruct (addr_eqb x (ATmp ArRefs th n)) eqn:E; auto.
    apply addr_eqb_true in E. subst. congruence.
  Qed.

  Lemma safe_rename_own : forall t d G v (Q : outcome unit -> ghost -> Prop),
    ownb th t = true -> tmpb d = false -> mine d -> gT G t = Some v -> good2 d v ->
    pubok pubO pubP d v ->
    (forall r, Q r (reset (tdel (gT G) t))) ->
    Safe (unit_op (Rename t d)) G Q.
  Proof.
    intros t d G v Q Hown Hd Hm HT Hg Hpub HQ. unfold unit_op. simpl.
    split.
    - split; [exact Hd|]. split; [apply mine_tmp; eapply ownb_tmpb; eauto|]. split; [exact Hm|].
      rewrite Hown. intros _. eauto.
    - intros x _. rewrite Hown. destruct x; simpl; auto.
  Qed.

  (* one probe, as a step that records its answer *)
  Definition Gk (G : ghost) (a : addr) (b : bool) : ghost := mkG (gT G) (kupd (gK G) a b) (gP G).

  Lemma safe_probe_mbind : forall B a (f : bool -> M B) G Q,
    (forall b, (forall b', gK G a = Some b' -> b = b') -> (b = false -> absent_fact w0 p care a) ->
               Safe (f b) (Gk G a b) Q) ->
    Safe (mbind (probe a) f) G Q.
  Proof.
    intros B a f G Q H. unfold mbind, probe. simpl. split; [exact I|].
    intros x [b [-> [Hk Hf]]]. simpl. apply H; assumption.
  Qed.

  Lemma safe_probe : forall a G (Q : outcome bool -> ghost -> Prop),
    (forall b, (forall b', gK G a = Some b' -> b = b') -> (b = false -> absent_fact w0 p care a) ->
               Q (Val b) (Gk G a b)) ->
    Safe (probe a) G Q.
  Proof.
    intros a G Q H. unfold probe. simpl. split; [exact I|].
    intros x [b [-> [Hk Hf]]]. simpl. apply H; assumption.
  Qed.

  Lemma kupd_eq : forall K a b, kupd K a b a = Some b.
  Proof. intros. unfold kupd. rewrite addr_eqb_refl. reflexivity. Qed.

  (* the three tests of _store_hashstore_refs_files, which re-probe the same two files *)
  Lemma round1 : forall c G,
    Safe (and_sc (probe (APidRef p)) (probe (ACidRef c))) G
      (fun r G' => exists b, r = Val b /\
         (b = false -> gK G' (APidRef p) = Some false \/
                       (gK G' (APidRef p) = Some true /\ gK G' (ACidRef c) = Some false))).
  Proof.
    intros c G. unfold and_sc. apply safe_probe_mbind. intros b1 _ _. destruct b1.
    - apply safe_probe. intros b2 _ _. simpl. exists b2. split; [reflexivity|].
      intros ->. right. split; [|apply kupd_eq]. unfold Gk, kupd. simpl. rewrite Nat.eqb_refl. reflexivity.
    - simpl. exists false. split; [reflexivity|]. intros _. left. apply kupd_eq.
  Qed.

  Lemma round2 : forall c G,
    gK G (APidRef p) = Some false \/ (gK G (APidRef p) = Some true /\ gK G (ACidRef c) = Some false) ->
    Safe (and_sc (probe (APidRef p)) (notm (probe (ACidRef c)))) G
      (fun r G' => exists b, r = Val b /\ (b = false -> gK G' (APidRef p) = Some false)).
  Proof.
    intros c G HK. unfold and_sc, notm. apply safe_probe_mbind. intros b1 Hk1 _. destruct b1.
    - apply safe_probe_mbind. intros b2 Hk2 _. simpl. exists (negb b2). split; [reflexivity|].
      intros Hb. exfalso. destruct HK as [HK|[_ HK]].
      + specialize (Hk1 _ HK). discriminate.
      + simpl in Hk2. specialize (Hk2 _ HK). subst. discriminate.
    - simpl. exists false. split; [reflexivity|]. intros _. apply kupd_eq.
  Qed.

  Lemma round3 : forall c G,
    gK G (APidRef p) = Some false ->
    Safe (and_sc (notm (probe (APidRef p))) (probe (ACidRef c))) G
      (fun r G' => exists b, r = Val b /\ (b = false -> free c)).
  Proof.
    intros c G HK. unfold and_sc, notm.
    unfold mbind at 1. unfold mbind at 1.
    (* notm (probe P) then the second probe *)
    unfold probe at 1. simpl. split; [exact I|].
    intros x [b1 [-> [Hk1 _]]]. simpl. specialize (Hk1 _ HK). subst b1. simpl.
    split; [exact I|]. intros x [b2 [-> [_ Hf]]]. simpl. exists b2. split; [reflexivity|exact Hf].
  Qed.

  Lemma ok_store_refs_body : forall c, pubP (CCid c) -> Ok (store_refs_body p c).
  Proof.
    intros c HpubP. unfold store_refs_body.
    apply ok_mbind; [okd|]. intros _.
    apply ok_mbind; [okd|]. intros _.
    intros G. eapply safe_mbind; [apply round1| |intros e G' [b [H _]]; discriminate].
    intros c1 G1 [b [Hb HK1]]. inversion Hb; subst b; clear Hb.
    destruct c1.
    { assert (H : Ok (catch (verify_refs p c) ;;; @raise unit EHashStoreRefsAlreadyExists)) by okauto.
      apply H. }
    specialize (HK1 eq_refl).
    eapply safe_mbind; [apply round2; exact HK1| |intros e G' [b [H _]]; discriminate].
    intros c2 G2 [b [Hb HK2]]. inversion Hb; subst b; clear Hb.
    destruct c2; [exact I|]. specialize (HK2 eq_refl).
    eapply safe_mbind; [apply round3; exact HK2| |intros e G' [b [H _]]; discriminate].
    intros c3 G3 [b [Hb Hfree]]. inversion Hb; subst b; clear Hb.
    destruct c3.
    - eapply safe_mbind; [apply write_refs_tmp_safe| |intros; exact I].
      intros t T1 (Hown & Ht & _).
      eapply safe_mbind with (Q1 := fun _ _ => True); [|intros _ T2 _|intros; exact I].
      + eapply safe_rename_own; eauto; simpl; eauto.
      + assert (Hrest : Ok (m <- is_in_refs p (ACidRef c) ;;
                            (if m then ret tt else update_refs_add (ACidRef c) p) ;;; verify_refs p c))
          by okauto.
        apply Hrest.
    - specialize (Hfree eq_refl).
      eapply safe_mbind; [apply write_refs_tmp_safe| |intros; exact I].
      intros t1 T1 (Hown1 & Ht1 & _).
      eapply safe_mbind; [apply write_refs_tmp_safe| |intros; exact I].
      intros t2 T2 (Hown2 & Ht2 & Hkeep). apply Hkeep in Ht1.
      assert (Hne : t2 <> t1) by (intros ->; congruence).
      eapply safe_mbind with (Q1 := fun _ G' => G' = reset (tdel (gT T2) t1));
        [|intros _ T3 ->|intros; exact I].
      + eapply safe_rename_own; eauto; simpl; eauto.
      + eapply safe_mbind with (Q1 := fun _ _ => True); [|intros _ T3 _|intros; exact I].
        * eapply safe_rename_own with (v := CLines [p]); eauto; simpl; eauto.
          unfold tdel. apply addr_eqb_neq in Hne. rewrite Hne. exact Ht2.
        * apply (ok_verify_refs p c).
  Qed.
  Hint Resolve ok_store_refs_body : okdb.

  Lemma ok_tag_object : forall c, pubP (CCid c) -> Ok (tag_object p c).
  Proof.
    intros c HpubP. unfold tag_object.
    apply okv_try_finally; [|okauto].
    apply ok_mbind; [okd|]. intros _.
    apply ok_mbind; [okd|]. intros _.
    apply ok_mbind; [okd|]. intros r.
    destruct r as [u|e]; [okauto|]. destruct e; okauto.
  Qed.
  Hint Resolve ok_tag_object : okdb.

  Lemma ok_verify_object : forall pg t sz ck, ownb th t = true -> Ok (verify_object pg t sz ck).
  Proof. intros pg t sz ck H. unfold verify_object. destruct sz, ck, pg; okauto. Qed.
  Hint Resolve ok_verify_object : okdb.

  Lemma verify_object_keep : forall pg t sz ck G, ownb th t = true ->
    Safe (verify_object pg t sz ck) G
      (fun r G' => match r with Val _ => G' = G | Exn _ => True end).
  Proof.
    intros pg t sz ck G H. unfold verify_object, unit_op, mbind, ret, raise.
    destruct sz, ck, pg; simpl; auto;
      (split; [split; [auto|apply mine_tmp; eapply ownb_tmpb; eauto]|];
       intros x _; destruct x; simpl; auto).
  Qed.

  Lemma keep_mkdirs : forall a G, Safe (unit_op (MkDirs a)) G (fun _ G' => G' = G).
  Proof. intros a G. unfold unit_op. simpl. split; [exact I|]. intros x _. destruct x; simpl; auto. Qed.

  Lemma write_chunks_safe : forall k G t b n j,
    ownb th t = true -> gT G t = Some (CData b n j) ->
    Safe (write_chunks t k) G
      (fun r G' => match r with Val _ => gT G' t = Some (CData b n (j + k)) | Exn _ => True end).
  Proof.
    induction k as [|k IH]; intros G t b n j Hown HT.
    - simpl. rewrite Nat.add_0_r. exact HT.
    - simpl. unfold mbind, unit_op. simpl. split; [split; eauto|].
      intros x ->. simpl. rewrite HT.
      replace (j + S k) with (S j + k) by lia.
      apply (IH (reset (tupd (gT G) t (CData b n (S j)))) t b n (S j)); auto. apply tupd_eq.
  Qed.

  Lemma ok_delete_object_file : forall c, objfree c -> Ok (delete_object_file c).
  Proof.
    intros c Hc. unfold delete_object_file.
    apply ok_mbind; [okd|]. intros e. destruct e; [|apply okv_raise].
    apply ok_unit_remove_nt; [reflexivity|exact Hc].
  Qed.

  Lemma ok_move_and_get_checksums : forall po b n sz ck, pubO b (CData b n n) ->
    OkV (move_and_get_checksums po b n sz ck) (fun c0 => c0 = b).
  Proof.
    intros po b n sz ck HpubO G. unfold move_and_get_checksums.
    eapply safe_mbind with
      (Q1 := fun r G' => match r with
                         | Val t => ownb th t = true /\ gT G' t = Some (CData b n 0)
                         | Exn _ => True end); [| |intros; exact I].
    { unfold mktmp. simpl. split; [exact I|]. intros x [k [-> Hk]]. simpl.
      split; [apply Nat.eqb_refl|apply tupd_eq]. }
    intros t G1 [Hown Ht].
    eapply safe_mbind with
      (Q1 := fun r G' => match r with
                         | Val (Val _) => gT G' t = Some (CData b n n)
                         | _ => True end); [| |intros; exact I].
    { unfold catch. eapply safe_bind; [apply (write_chunks_safe n G1 t b n 0 Hown Ht)|].
      intros [u|e] G' H; simpl; auto. }
    intros w G2 Hw. destruct w as [u|e].
    2:{ assert (H : OkV (swallow_op (Remove t) ;;; @raise cid EGeneric) (fun c0 => c0 = b)) by okauto. apply H. }
    apply safe_probe_mbind. intros e _ Hf. destruct e; simpl negb; cbv iota.
    - assert (H : OkV (r <- catch (verify_object match po with Some _ => true | None => false end t sz ck) ;;
                      match r with
                      | Val _ => unit_op (Remove t);;; ret b
                      | Exn ENonMatchingObjSize =>
                          (if match po with Some _ => true | None => false end
                           then ret tt else unit_op (Remove t));;; raise ENonMatchingObjSize
                      | Exn ENonMatchingChecksum =>
                          (if match po with Some _ => true | None => false end
                           then ret tt else unit_op (Remove t));;; raise ENonMatchingChecksum
                      | Exn other => unit_op (Remove t);;; raise other
                      end) (fun c0 => c0 = b)).
      { apply ok_mbind; [okauto|]. intros [u'|e']; [okauto|]. destruct e'; okauto. }
      apply H.
    - specialize (Hf eq_refl). simpl in Hf.
      set (G3 := Gk G2 (AObj b) false).
      assert (Ht3 : gT G3 t = Some (CData b n n)) by exact Hw.
      eapply safe_mbind with
        (Q1 := fun r G' => match r with Val _ => G' = G3 | Exn _ => True end);
        [apply verify_object_keep; exact Hown| |intros; exact I].
      intros _ G4 ->.
      eapply safe_mbind with (Q1 := fun _ G' => G' = G3); [apply keep_mkdirs| |intros; exact I].
      intros _ G4 ->.
      eapply safe_mbind with (Q1 := fun _ _ => True); [| |intros; exact I].
      + unfold catch. eapply safe_bind with (Q1 := fun _ _ => True); [|intros; exact I].
        eapply safe_rename_own; eauto. simpl. eauto.
      + intros r G4 _. destruct r as [u'|err]; [reflexivity|].
        pose proof (ok_delete_object_file b Hf) as Hdel.
        assert (H : OkV (e2 <- probe (AObj b) ;;
                        if e2
                        then match po with
                             | Some p' =>
                                 d <- get_hex_digest p';;
                                 match d with
                                 | CData b' _ _ =>
                                     if b' =? b then raise err else delete_object_file b;;; raise err
                                 | _ => delete_object_file b;;; raise err
                                 end
                             | None => raise EValueError
                             end
                        else unit_op (Remove t);;; @raise cid err) (fun c0 => c0 = b)) by okauto.
        apply H.
  Qed.
  Lemma ok_move_and_get_checksums' : forall po b n sz ck, pubO b (CData b n n) ->
    Ok (move_and_get_checksums po b n sz ck).
  Proof. intros. eapply okv_weaken; [apply ok_move_and_get_checksums; assumption|]. auto. Qed.
  Hint Resolve ok_move_and_get_checksums' : okdb.

  Lemma ok_open_source : forall s, Ok (open_source s).
  Proof. intros []; simpl; auto with okdb. Qed.
  Hint Resolve ok_open_source : okdb.

  Lemma ok_store_object_pid : forall s b n sz ck, pubO b (CData b n n) -> pubP (CCid b) ->
    Ok (store_object (Some p) s b n sz ck).
  Proof.
    intros s b n sz ck HpubO HpubP.
    pose proof (ok_tag_object b HpubP) as Htag.
    unfold store_object.
    apply ok_mbind; [okd|]. intros busy. destruct busy; [apply okv_raise|].
    apply okv_try_finally; [|okd].
    apply ok_mbind; [okd|]. intros _.
    apply ok_mbind; [okd|]. intros _.
    eapply okv_mbind; [apply (ok_move_and_get_checksums (Some p) b n sz ck HpubO)|].
    intros c0 ->. okauto.
  Qed.
  Lemma ok_store_object_nopid : forall s b n sz ck, pubO b (CData b n n) ->
    Ok (store_object None s b n sz ck).
  Proof.
    intros s b n sz ck HpubO.
    pose proof (ok_move_and_get_checksums' None b n VSzNone VCkNone HpubO) as Hmv.
    unfold store_object. okauto.
  Qed.

  Lemma ol_inv : forall a l, ol (a :: l) -> owned_by p a = true /\ ol l.
  Proof. intros a l H. split; [apply H; left; reflexivity|]. intros x Hx. apply H. right. exact Hx. Qed.

  Lemma okv_probe_all : forall l, ol l -> OkV (probe_all l) ol.
  Proof.
    induction l as [|a l IH]; intros H; simpl.
    - apply okv_ret. intros x [].
    - apply ol_inv in H. destruct H as [Ha Hl].
      apply ok_mbind; [okd|]. intros b.
      eapply okv_mbind; [apply IH; exact Hl|]. intros r Hr.
      apply okv_ret. destruct b; auto. intros x [<-|Hx]; auto.
  Qed.

  Lemma okv_mark_docs : forall l, ol l -> OkV (mark_docs l) dl.
  Proof.
    induction l as [|a l IH]; intros H; simpl.
    - apply okv_ret. apply dl_nil.
    - apply ol_inv in H. destruct H as [Ha Hl]. apply owned_mine in Ha. destruct Ha as [Ha Hm].
      apply ok_mbind; [okd|]. intros _.
      eapply okv_mbind with (P := dl).
      + apply okv_try_finally; [|okd].
        apply ok_mbind; [okd|]. intros b. destruct b.
        * eapply okv_mbind; [apply okv_catch; apply okv_rename_for_deletion; assumption|].
          intros [d|e] Hd.
          -- apply okv_ret. auto with okdb.
          -- destruct e; try apply okv_raise. apply okv_ret. apply dl_nil.
        * apply okv_ret. apply dl_nil.
      + intros d Hd. eapply okv_mbind; [apply IH; exact Hl|]. intros r Hr.
        apply okv_ret. auto with okdb.
  Qed.

  Lemma ok_delete_metadata : forall f, Ok (delete_metadata p f).
  Proof.
    intros f. unfold delete_metadata. destruct f as [f'|].
    - apply ok_mbind; [okd|]. intros _. apply okv_try_finally; [|okd].
      apply ok_mbind; [okd|]. intros b. destruct b; [|apply ok_ret].
      apply ok_unit_remove_nt; reflexivity.
    - eapply okv_mbind; [apply okv_listdir|]. intros l Hl.
      eapply okv_mbind; [apply okv_probe_all; exact Hl|]. intros l' Hl'.
      eapply okv_mbind; [apply okv_mark_docs; exact Hl'|]. intros ds Hds.
      auto with okdb.
  Qed.
  Hint Resolve ok_delete_metadata : okdb.

  Lemma free_objfree : forall c, free c -> objfree c.
  Proof. intros c H. left. exact H. Qed.

  Lemma ok_delete_object : Ok (delete_object p).
  Proof.
    unfold delete_object.
    apply okv_try_finally; [|okd].
    apply ok_mbind; [okd|]. intros _.
    apply ok_mbind; [okd|]. intros _.
    apply ok_mbind; [okd|]. intros r.
    assert (Hd : Ok (d <- rename_for_deletion (APidRef p) ;; delete_metadata p None ;;; delete_marked [d])).
    { eapply okv_mbind; [apply (okv_rename_for_deletion (APidRef p)); [reflexivity|apply mine_pidref]|].
      intros d Hd. apply ok_mbind; [okd|]. intros _. auto with okdb. }
    destruct r as [c|e].
    - apply ok_mbind; [okd|]. intros _.
      apply okv_try_finally; [|okd].
      eapply okv_mbind; [apply (okv_rename_for_deletion (APidRef p)); [reflexivity|apply mine_pidref]|].
      intros d1 Hd1.
      apply ok_mbind; [okd|]. intros _.
      eapply okv_mbind; [apply okv_size_lines|]. intros n Hn.
      eapply okv_mbind with (P := dl).
      + destruct (Nat.eqb n 0) eqn:En.
        * apply Nat.eqb_eq in En. specialize (Hn En). simpl in Hn.
          eapply okv_mbind; [apply (okv_rename_for_deletion (ACidRef c)); [reflexivity|exact Hn]|].
          intros d2 Hd2.
          eapply okv_mbind;
            [apply (okv_rename_for_deletion (AObj c)); [reflexivity|apply free_objfree; exact Hn]|].
          intros d3 Hd3. apply okv_ret. auto with okdb.
        * apply okv_ret. auto with okdb.
      + intros l Hl. apply ok_mbind; [okd|]. intros _. auto with okdb.
    - destruct e; try apply okv_raise; try exact Hd.
      apply ok_mbind; [okd|]. intros c.
      eapply okv_mbind; [apply (okv_rename_for_deletion (APidRef p)); [reflexivity|apply mine_pidref]|].
      intros d Hd'.
      eapply okv_mbind with (P := dl).
      + apply okv_try_finally; [|okd].
        apply ok_mbind; [okd|]. intros _.
        apply ok_mbind; [okd|]. intros m.
        apply ok_mbind; [destruct m; okd|]. intros _.
        eapply okv_mbind; [apply okv_size_lines|]. intros n Hn.
        destruct (Nat.eqb n 0) eqn:En.
        * apply Nat.eqb_eq in En. specialize (Hn En). simpl in Hn.
          eapply okv_mbind; [apply (okv_rename_for_deletion (ACidRef c)); [reflexivity|exact Hn]|].
          intros d2 Hd2. apply okv_ret. auto with okdb.
        * apply okv_ret. auto with okdb.
      + intros l Hl. apply ok_mbind; [okd|]. intros _. auto with okdb.
  Qed.

  Lemma ok_delete_object_unfixed : Ok (delete_object_unfixed p).
  Proof.
    unfold delete_object_unfixed.
    apply okv_try_finally; [|okd].
    apply ok_mbind; [okd|]. intros _.
    apply ok_mbind; [okd|]. intros r.
    destruct r as [c|e]; [apply okv_raise|]. destruct e; try apply okv_raise.
    eapply okv_mbind; [apply (okv_rename_for_deletion (APidRef p)); [reflexivity|apply mine_pidref]|].
    intros d Hd.
    apply ok_mbind; [okd|]. intros c.
    apply ok_mbind.
    - apply okv_try_finally; [|okd].
      apply ok_mbind; [okd|]. intros _.
      apply ok_mbind; [okd|]. intros m. destruct m; okd.
    - intros _. apply ok_mbind; [okd|]. intros _. auto with okdb.
  Qed.

  Lemma ok_store_metadata : forall f s v n, Ok (store_metadata p f s v n).
  Proof.
    intros f s v n G. unfold store_metadata.
    eapply safe_mbind; [apply (ok_acquire LMeta (IDoc (AMeta p f)))| |intros; exact I].
    intros _ G0 _. apply safe_try_finally; [|okauto].
    eapply safe_mbind; [apply (ok_open_source s)| |intros; exact I].
    intros _ G0' _.
    eapply safe_mbind with
      (Q1 := fun r G' => match r with
                         | Val t => ownb th t = true /\ gT G' t = Some (CData v n 0)
                         | Exn _ => True end); [| |intros; exact I].
    { unfold mktmp. simpl. split; [exact I|]. intros x [k [-> Hk]]. simpl.
      split; [apply Nat.eqb_refl|apply tupd_eq]. }
    intros t G1 [Hown Ht].
    eapply safe_mbind; [apply (write_chunks_safe n G1 t v n 0 Hown Ht)| |intros; exact I].
    intros u0 G2 Ht2. simpl in Ht2.
    eapply safe_mbind with (Q1 := fun _ _ => True); [| |intros; exact I].
    - unfold catch. eapply safe_bind with (Q1 := fun _ _ => True); [|intros; exact I].
      eapply safe_mbind with (Q1 := fun _ G' => G' = G2); [apply keep_mkdirs| |intros; exact I].
      intros _ G3 ->. eapply safe_rename_own; eauto; simpl; eauto.
    - intros r G3 _. destruct r as [u|e]; [exact I|].
      assert (H : Ok (unit_op (Remove t) ;;; @raise value e)) by okauto.
      apply H.
  Qed.

  Lemma ok_retrieve_metadata : forall q f, Ok (retrieve_metadata q f).
  Proof. intros. unfold retrieve_metadata. okauto. Qed.

  Lemma ok_delete_object_only : forall c, Ok (delete_object_only c).
  Proof.
    intros c. unfold delete_object_only.
    apply okv_try_finally; [|okd].
    apply ok_mbind; [okd|]. intros _.
    eapply okv_mbind; [apply okv_probe|]. intros b Hb. destruct b; [apply ok_ret|].
    apply ok_delete_object_file. apply free_objfree. exact (Hb eq_refl).
  Qed.
  Hint Resolve ok_delete_object_only : okdb.
  Lemma ok_delete_if_invalid : forall c sz pre ok, Ok (delete_if_invalid c sz pre ok).
  Proof.
    intros. unfold delete_if_invalid.
    apply ok_mbind; [apply ok_catch; destruct sz, pre, ok; okauto|].
    intros [u|e]; [okauto|]. destruct e; okauto.
  Qed.

  Lemma ok_lift_unit : forall m, Ok m -> Ok (lift_unit m).
  Proof. intros. unfold lift_unit. okauto. Qed.

  (* every call that names pid p, or no pid at all, obeys the discipline *)
  Definition pub_call (c : call) : Prop :=
    match c with
    | CStore _ _ b n _ _ => pubO b (CData b n n) /\ pubP (CCid b)
    | CTag _ k => pubP (CCid k)
    | _ => True
    end.

  Theorem api_ok : forall c, (forall p', call_pid c = Some p' -> p' = p) -> pub_call c -> Ok (api c).
  Proof.
    intros c Hc Hpub. destruct c; simpl in Hc, Hpub |- *;
      try (assert (Hp : p0 = p) by (apply Hc; reflexivity); subst p0).
    - destruct Hpub as [HO HP]. destruct p0 as [p'|].
      + rewrite (Hc p' eq_refl). apply ok_store_object_pid; assumption.
      + apply ok_store_object_nopid; assumption.
    - apply ok_lift_unit. apply ok_tag_object. exact Hpub.
    - apply ok_lift_unit. apply ok_delete_object.
    - apply ok_lift_unit. apply ok_delete_if_invalid.
    - apply ok_store_metadata.
    - apply ok_retrieve_metadata.
    - apply ok_lift_unit. apply ok_delete_metadata.
    - okauto.
    - okauto.
    - apply okv_raise.
    - apply ok_lift_unit. apply ok_delete_object_unfixed.
  Qed.
End ApiFrame.

(* ================================================================================== *)
(* Solo runs: every intermediate world of a call on p, by any thread                  *)
(* ================================================================================== *)

From HS Require Import Indep.

Lemma pub_call_trivialT : forall c, pub_call pubT1 pubT2 c.
Proof. destruct c; simpl; unfold pubT1, pubT2; auto. Qed.

Lemma agree_g0T : forall th p w, agreeG th p g0 w.
Proof. intros th p w. split; [|split]; intros; discriminate. Qed.

(* the start world satisfies its own invariant when it is well typed and every pid to be kept is
   listed by the cid it is bound to *)
Lemma start_WI : forall w p (care : pid -> Prop),
  typed (fs w) ->
  (forall q k, q <> p -> care q -> lookup (APidRef q) (fs w) = Some (CCid k) ->
     exists l, lookup (ACidRef k) (fs w) = Some (CLines l) /\ In q l) ->
  WI w p care w.
Proof.
  intros w p care Ht Hm. split; [exact Ht|]. split; [auto|]. split; [auto|].
  intros q k Hq [Hc Hb]. split; [apply Hm; auto|auto].
Qed.

Lemma solo_WI : forall th w0 p care pubO pubP A (m : prog A) w hs ws m',
  Solo th m w hs ws m' ->
  forall G, Safe th w0 p care pubO pubP m G (fun _ _ => True) -> agreeG th p G w -> WI w0 p care w ->
  WI w0 p care ws.
Proof.
  intros th w0 p care pubO pubP A m w hs ws m' H.
  induction H as [m w|o k w a w1 hs w' m' Hex Hs IH]; intros G HS Hag HW; [exact HW|].
  simpl in HS. destruct HS as [Hpre Hk].
  destruct (step_sound th w0 p care pubO pubP o G w a w1 Hag HW Hpre Hex) as [Hans [Hag' HW']].
  eapply IH; [apply Hk; exact Hans|exact Hag'|exact HW'].
Qed.

(* every intermediate world of a solo run of tag_object p c or delete_object p, by thread th, from a
   well-typed world in which q is listed by the cid it is bound to: q's reference is untouched, q
   is still listed, and the object of q's cid is untouched *)
Theorem solo_call_keeps_other : forall th (cl : call) p q w hs ws m',
  (cl = CDelete p \/ exists c, cl = CTag p c) ->
  q <> p -> typed (fs w) ->
  (forall k, lookup (APidRef q) (fs w) = Some (CCid k) ->
     exists l, lookup (ACidRef k) (fs w) = Some (CLines l) /\ In q l) ->
  Solo th (api cl) w hs ws m' ->
  typed (fs ws) /\
  lookup (APidRef q) (fs ws) = lookup (APidRef q) (fs w) /\
  (forall k, lookup (APidRef q) (fs w) = Some (CCid k) ->
     (exists l, lookup (ACidRef k) (fs ws) = Some (CLines l) /\ In q l) /\
     (forall x, lookup (AObj k) (fs w) = Some x -> lookup (AObj k) (fs ws) = Some x)).
Proof.
  intros th cl p q w hs ws m' Hcl Hq Ht Hm Hsolo.
  assert (HW : WI w p (fun x => x = q) ws).
  { eapply solo_WI; [exact Hsolo| |apply agree_g0T|].
    - eapply safe_weaken; [apply (api_ok th w p (fun x => x = q) pubT1 pubT2 cl)|].
      + intros p' Hp'. destruct Hcl as [->|[c ->]]; simpl in Hp'; congruence.
      + apply pub_call_trivialT.
      + auto.
    - apply start_WI; [exact Ht|]. intros x k _ -> Hb. apply Hm. exact Hb. }
  destruct HW as (Ht' & H1 & _ & H3).
  split; [exact Ht'|]. split; [apply H1; exact Hq|].
  intros k Hb. apply (H3 q k Hq). split; [reflexivity|exact Hb].
Qed.

(* ... and every intermediate world is well typed *)
Theorem solo_call_typed : forall th (cl : call) p w hs ws m',
  (cl = CDelete p \/ exists c, cl = CTag p c) ->
  typed (fs w) -> Solo th (api cl) w hs ws m' -> typed (fs ws).
Proof.
  intros th cl p w hs ws m' Hcl Ht Hsolo.
  assert (HW : WI w p (fun _ => False) ws).
  { eapply solo_WI; [exact Hsolo| |apply agree_g0T|].
    - eapply safe_weaken; [apply (api_ok th w p (fun _ => False) pubT1 pubT2 cl)|].
      + intros p' Hp'. destruct Hcl as [->|[c ->]]; simpl in Hp'; congruence.
      + apply pub_call_trivialT.
      + auto.
    - apply start_WI; [exact Ht|]. intros x k _ []. }
  destruct HW as (Ht' & _). exact Ht'.
Qed.

Lemma Inv_typed : forall w, Spec.Inv w -> typed (fs w).
Proof. intros w HI. destruct (CrashGeneral.Inv_WI w 0 HI) as [(Ht & _) _]. exact Ht. Qed.

