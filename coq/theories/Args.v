(* ========================================================================= *)
(*  Args.v -- argument checking of the public FileHashStore API              *)
(*                                                                           *)
(*  Transcribes (/repo/src/hashstore/filehashstore.py)                       *)
(*    _check_string                        lines 2764-2778                   *)
(*    _check_arg_data                      lines 2714-2742                   *)
(*    _check_integer                       lines 2744-2762                   *)
(*    _check_arg_format_id                 lines 2128-2147                   *)
(*    _check_arg_algorithms_and_checksum   lines 2097-2126                   *)
(*  and the argument-checking heads of the nine public methods               *)
(*    store_object 509-537, tag_object 584-587, delete_if_invalid_object     *)
(*    600-622, store_metadata 647-655, retrieve_object 707-709,              *)
(*    retrieve_metadata 728-731, delete_object 753-755, delete_metadata      *)
(*    886-889, get_hex_digest 1006-1012.                                     *)
(*                                                                           *)
(*  Coq 8.16.1, stdlib only, no axioms.   Compile: coqc -Q . HS Args.v       *)
(*                                                                           *)
(*  DOMAIN.  Values are [pyval] (PyVal.v); strings are ASCII.  For the       *)
(*  parameters that the API documents as "str or None" only [PNone] and      *)
(*  [PStr s] are modelled faithfully.  For every other constructor the       *)
(*  string-typed checks return [Some EAttributeError]: CPython would fail    *)
(*  with AttributeError or TypeError on [.strip()] / iteration (an int has   *)
(*  no .strip, bytes.strip() == "" is False and iterating bytes yields ints  *)
(*  without .isspace, ...).  The exact class in that region is NOT claimed;  *)
(*  the theorems below only speak about [PNone] / [PStr] there (every        *)
(*  acceptance theorem forces the value to be a [PStr]).  [check_arg_data]   *)
(*  and [check_integer] are isinstance tests and are faithful on all of      *)
(*  [pyval].                                                                 *)
(* ========================================================================= *)

From Coq Require Import String Ascii ZArith List Bool Lia.
From HS Require Import PyVal Algo.
Import ListNotations.
Open Scope string_scope.

(* ------------------------------------------------------------------------- *)
(** * 1. The five checking helpers                                           *)
(* ------------------------------------------------------------------------- *)

Definition is_none (v : pyval) : bool :=
  match v with PNone => true | _ => false end.

(** [_check_string]:
      if string is None or string.strip() == "" or any(ch.isspace() for ch in string):
          raise ValueError                                                          *)
Definition check_string (v : pyval) : option exn :=
  match v with
  | PNone => Some EValueError
  | PStr s => if blank s || str_existsb ascii_space s then Some EValueError else None
  | _ => Some EAttributeError                       (* outside the modelled domain *)
  end.

(** [_check_arg_data]: str / Path / BufferedIOBase, and a str must not be blank.
    Both failures are TypeError.  Faithful on all of [pyval]. *)
Definition check_arg_data (v : pyval) : option exn :=
  match v with
  | PStr s => if blank s then Some ETypeError else None
  | PPath _ => None
  | PStream _ => None
  | _ => Some ETypeError
  end.

(** [_check_integer].  [bool] is a subclass of [int]: True passes (as 1),
    False < 1 raises ValueError.  Faithful on all of [pyval]. *)
Definition check_integer (v : pyval) : option exn :=
  match v with
  | PNone => None
  | PInt z => if (z <? 1)%Z then Some EValueError else None
  | PBool true => None
  | PBool false => Some EValueError
  | _ => Some ETypeError
  end.

(** [_check_arg_format_id]:
      if format_id and not format_id.strip(): raise ValueError
      elif format_id is None: checked = self.sysmeta_ns
      else: checked = format_id                                  ("" is accepted) *)
Definition check_format_id (dflt : string) (v : pyval) : exn + string :=
  match v with
  | PNone => inr dflt
  | PStr s => if negb (String.eqb s "") && blank s then inl EValueError else inr s
  | _ => inl EAttributeError                        (* outside the modelled domain *)
  end.

(** [self._clean_algorithm(v)] applied to a Python value. *)
Definition clean_val (v : pyval) : exn + string :=
  match v with
  | PStr a => match clean_algorithm a with
              | Some x => inr x
              | None => inl EUnsupportedAlgorithm
              end
  | _ => inl EAttributeError                        (* outside the modelled domain *)
  end.

(** First statement of [_check_arg_algorithms_and_checksum]:
      additional_checked = None
      if additional != self.algorithm and additional is not None:
          additional_checked = self._clean_algorithm(additional)
    NB the comparison with [self.algorithm] happens BEFORE cleaning, and the
    additional algorithm is never passed through [_check_string]. *)
Definition check_additional (store_alg : string) (additional : pyval) : exn + option string :=
  if negb (py_eq additional (PStr store_alg)) && negb (is_none additional)
  then match clean_val additional with
       | inl e => inl e
       | inr x => inr (Some x)
       end
  else inr None.

(** [_check_arg_algorithms_and_checksum]. *)
Definition check_algos (store_alg : string) (additional checksum checksum_algo : pyval)
  : exn + (option string * option string) :=
  match check_additional store_alg additional with
  | inl e => inl e
  | inr a =>
      match (if is_none checksum then None else check_string checksum_algo) with
      | Some e => inl e
      | None =>
          if is_none checksum_algo then inr (a, None)
          else match check_string checksum with
               | Some e => inl e
               | None => match clean_val checksum_algo with
                         | inl e => inl e
                         | inr c => inr (a, Some c)
                         end
               end
      end
  end.

(* ------------------------------------------------------------------------- *)
(** * 2. The public methods: first failure in program order                  *)
(* ------------------------------------------------------------------------- *)

(** Statement sequencing: the first exception wins. *)
Definition seq (a b : option exn) : option exn :=
  match a with Some e => Some e | None => b end.
Infix ";;" := seq (at level 61, right associativity).

Definition err_of {A : Type} (r : exn + A) : option exn :=
  match r with inl e => Some e | inr _ => None end.
Definition val_of {A : Type} (r : exn + A) : option A :=
  match r with inl _ => None | inr x => Some x end.

(** [store_object].  [if pid is None and self._check_arg_data(data)]:
    [_check_arg_data] either raises or returns True, so with [pid is None] the
    outcome of the argument phase is exactly that of [_check_arg_data(data)]
    and NOTHING else is looked at. *)
Definition args_store_object (store_alg : string)
           (pid data additional checksum checksum_algo size : pyval) : option exn :=
  match pid with
  | PNone => check_arg_data data
  | _ => check_string pid ;; check_arg_data data ;; check_integer size ;;
         err_of (check_algos store_alg additional checksum checksum_algo)
  end.

Definition args_tag_object (pid cid : pyval) : option exn :=
  check_string pid ;; check_string cid.

Definition args_delete_if_invalid (object_metadata checksum checksum_algo size : pyval)
  : option exn :=
  check_string checksum ;; check_string checksum_algo ;; check_integer size ;;
  match object_metadata with
  | PObjMeta => err_of (clean_val checksum_algo)
  | _ => Some EValueError
  end.

Definition args_store_metadata (dflt : string) (pid metadata format_id : pyval) : option exn :=
  check_string pid ;; check_arg_data metadata ;; err_of (check_format_id dflt format_id).

Definition args_retrieve_object (pid : pyval) : option exn := check_string pid.

Definition args_retrieve_metadata (dflt : string) (pid format_id : pyval) : option exn :=
  check_string pid ;; err_of (check_format_id dflt format_id).

Definition args_delete_object (pid : pyval) : option exn := check_string pid.

Definition args_delete_metadata (dflt : string) (pid format_id : pyval) : option exn :=
  check_string pid ;; err_of (check_format_id dflt format_id).

Definition args_get_hex_digest (pid algorithm : pyval) : option exn :=
  check_string pid ;; check_string algorithm ;; err_of (clean_val algorithm).

(** The values that flow on into the method bodies. *)
Definition checked_format (dflt : string) (v : pyval) : option string :=
  val_of (check_format_id dflt v).

Definition checked_algos (store_alg : string) (additional checksum checksum_algo : pyval)
  : option (option string * option string) :=
  val_of (check_algos store_alg additional checksum checksum_algo).

Definition checked_algorithm (v : pyval) : option string := val_of (clean_val v).

(* ------------------------------------------------------------------------- *)
(** * 3. Generic helpers                                                     *)
(* ------------------------------------------------------------------------- *)

Lemma seq_None : forall a b, a ;; b = None <-> a = None /\ b = None.
Proof.
  intros a b. destruct a as [e|]; cbn [seq].
  - split; [intro H; discriminate H | intros [H _]; discriminate H].
  - split; [intro H; split; [reflexivity | exact H] | intros [_ H]; exact H].
Qed.

Lemma seq_fail : forall a b e, a = Some e -> a ;; b = Some e.
Proof. intros a b e ->. reflexivity. Qed.

Lemma seq_pass : forall a b, a = None -> a ;; b = b.
Proof. intros a b ->. reflexivity. Qed.

Lemma err_of_None : forall (A : Type) (r : exn + A), err_of r = None <-> exists x, r = inr x.
Proof.
  intros A r. destruct r as [e|x]; cbn [err_of].
  - split; [intro H; discriminate H | intros [x H]; discriminate H].
  - split; [intros _; exists x; reflexivity | intros _; reflexivity].
Qed.

Lemma blank_nil : blank "" = true.
Proof. reflexivity. Qed.

Lemma blank_cases : forall s, blank s = true -> s = "" \/ str_existsb ascii_space s = true.
Proof.
  intros s H. destruct s as [|c s'].
  - left. reflexivity.
  - right. unfold blank in H. cbn [str_forallb] in H. cbn [str_existsb].
    apply andb_true_iff in H. destruct H as [Hc _]. rewrite Hc. reflexivity.
Qed.

(* ------------------------------------------------------------------------- *)
(** * 4. [_check_string]                                                     *)
(* ------------------------------------------------------------------------- *)

Theorem check_string_ok_iff :
  forall v, check_string v = None <->
            exists s, v = PStr s /\ s <> "" /\ str_existsb ascii_space s = false.
Proof.
  intro v. split.
  - intro H. destruct v as [| b | z | | s | | p | nm | | |]; cbn [check_string] in H;
      try discriminate H.
    exists s. split; [reflexivity |].
    destruct (blank s) eqn:Eb; [discriminate H |].
    destruct (str_existsb ascii_space s) eqn:Ee; [discriminate H |].
    split; [| reflexivity].
    intro Hs. subst s. rewrite blank_nil in Eb. discriminate Eb.
  - intros [s [-> [Hne He]]]. cbn [check_string]. rewrite He.
    destruct (blank s) eqn:Eb; [| reflexivity].
    apply blank_cases in Eb. destruct Eb as [Eb | Eb].
    + contradiction.
    + rewrite He in Eb. discriminate Eb.
Qed.

Theorem check_string_rejects :
  check_string PNone = Some EValueError /\
  check_string (PStr "") = Some EValueError /\
  forall s, str_existsb ascii_space s = true -> check_string (PStr s) = Some EValueError.
Proof.
  split; [reflexivity |]. split; [reflexivity |].
  intros s H. cbn [check_string]. rewrite H. rewrite orb_true_r. reflexivity.
Qed.

(** On [None]/[str] the only failure class is ValueError. *)
Lemma check_string_str_class :
  forall s e, check_string (PStr s) = Some e -> e = EValueError.
Proof.
  intros s e H. cbn [check_string] in H.
  destruct (blank s || str_existsb ascii_space s); [| discriminate H].
  injection H as <-. reflexivity.
Qed.

Lemma check_string_ok_str : forall v, check_string v = None -> exists s, v = PStr s.
Proof.
  intros v H. apply check_string_ok_iff in H. destruct H as [s [Hs _]].
  exists s. exact Hs.
Qed.

Lemma check_string_ok_not_none : forall v, check_string v = None -> v <> PNone.
Proof. intros v H Hn. subst v. discriminate H. Qed.

(* ------------------------------------------------------------------------- *)
(** * 5. [_check_arg_data]                                                   *)
(* ------------------------------------------------------------------------- *)

Theorem check_arg_data_ok_iff :
  forall v, check_arg_data v = None <->
            (exists s, v = PStr s /\ blank s = false) \/
            (exists p, v = PPath p) \/
            (exists nm, v = PStream nm).
Proof.
  intro v. split.
  - intro H. destruct v as [| b | z | | s | | p | nm | | |]; cbn [check_arg_data] in H;
      try discriminate H.
    + left. exists s. split; [reflexivity |].
      destruct (blank s) eqn:Eb; [discriminate H | reflexivity].
    + right. left. exists p. reflexivity.
    + right. right. exists nm. reflexivity.
  - intros [[s [-> Hb]] | [[p ->] | [nm ->]]]; cbn [check_arg_data].
    + rewrite Hb. reflexivity.
    + reflexivity.
    + reflexivity.
Qed.

(** Every failure of [_check_arg_data] is a TypeError (on all of [pyval]). *)
Theorem check_arg_data_class :
  forall v e, check_arg_data v = Some e -> e = ETypeError.
Proof.
  intros v e H. destruct v as [| b | z | | s | | p | nm | | |]; cbn [check_arg_data] in H;
    try (injection H as <-; reflexivity); try discriminate H.
  destruct (blank s); [injection H as <-; reflexivity | discriminate H].
Qed.

(* ------------------------------------------------------------------------- *)
(** * 6. [_check_integer]                                                    *)
(* ------------------------------------------------------------------------- *)

Theorem check_integer_ok_iff :
  forall v, check_integer v = None <->
            v = PNone \/ v = PBool true \/ exists z, v = PInt z /\ (1 <= z)%Z.
Proof.
  intro v. split.
  - intro H. destruct v as [| b | z | | s | | p | nm | | |]; cbn [check_integer] in H;
      try discriminate H.
    + left. reflexivity.
    + destruct b; [right; left; reflexivity | discriminate H].
    + destruct (z <? 1)%Z eqn:E; [discriminate H |].
      apply Z.ltb_ge in E. right. right. exists z. split; [reflexivity | exact E].
  - intros [-> | [-> | [z [-> Hz]]]]; cbn [check_integer]; try reflexivity.
    destruct (z <? 1)%Z eqn:E; [| reflexivity].
    apply Z.ltb_lt in E. lia.
Qed.

(** Failure classes: a non-int (and non-None) is a TypeError; an int below 1
    is a ValueError; [False] is an int below 1. *)
Theorem check_integer_classes :
  (forall v, v <> PNone -> (forall b, v <> PBool b) -> (forall z, v <> PInt z) ->
             check_integer v = Some ETypeError) /\
  (forall z, (z < 1)%Z -> check_integer (PInt z) = Some EValueError) /\
  check_integer (PBool false) = Some EValueError.
Proof.
  split; [| split].
  - intros v Hn Hb Hz. destruct v as [| b | z | | s | | p | nm | | |]; cbn [check_integer];
      try reflexivity.
    + exfalso. apply Hn. reflexivity.
    + exfalso. apply (Hb b). reflexivity.
    + exfalso. apply (Hz z). reflexivity.
  - intros z Hz. cbn [check_integer].
    destruct (z <? 1)%Z eqn:E; [reflexivity |].
    apply Z.ltb_ge in E. lia.
  - reflexivity.
Qed.

(* ------------------------------------------------------------------------- *)
(** * 7. [_check_arg_format_id]                                              *)
(* ------------------------------------------------------------------------- *)

Theorem check_format_id_spec :
  forall d v,
    (v = PNone -> check_format_id d v = inr d) /\
    (forall s, v = PStr s -> (s = "" \/ blank s = false) -> check_format_id d v = inr s) /\
    (forall s, v = PStr s -> s <> "" -> blank s = true -> check_format_id d v = inl EValueError).
Proof.
  intros d v. split; [| split].
  - intros ->. reflexivity.
  - intros s -> [-> | Hb]; cbn [check_format_id].
    + reflexivity.
    + rewrite Hb. rewrite andb_false_r. reflexivity.
  - intros s -> Hne Hb. cbn [check_format_id]. rewrite Hb.
    apply String.eqb_neq in Hne. rewrite Hne. reflexivity.
Qed.

(** Acceptance, as an equivalence. *)
Theorem check_format_id_ok_iff :
  forall d v f,
    check_format_id d v = inr f <->
    (v = PNone /\ f = d) \/ (v = PStr f /\ (f = "" \/ blank f = false)).
Proof.
  intros d v f. split.
  - intro H. destruct v as [| b | z | | s | | p | nm | | |]; cbn [check_format_id] in H;
      try discriminate H.
    + injection H as <-. left. split; reflexivity.
    + destruct (String.eqb s "") eqn:Es; cbn [negb andb] in H.
      * injection H as <-. apply String.eqb_eq in Es. right. split; [reflexivity | left; exact Es].
      * destruct (blank s) eqn:Eb; [discriminate H |].
        injection H as <-. right. split; [reflexivity | right; exact Eb].
  - intros [[-> ->] | [-> Hf]].
    + reflexivity.
    + exact (proj1 (proj2 (check_format_id_spec d (PStr f))) f eq_refl Hf).
Qed.

(** An omitted format is checked exactly like the configured default, provided
    the default is itself a usable namespace.  All three metadata methods call
    this one function.

    SCOPE.  This is a statement about [_check_arg_format_id] only.  It does
    carry over to the bodies of [store_metadata] and [retrieve_metadata]
    (both build the document name from the checked value; retrieve_metadata's
    [if format_id is None] branch uses [self.sysmeta_ns], the same string).
    It does NOT carry over to [delete_metadata], whose body (line 893) tests
    [format_id is None] on the ORIGINAL argument and then deletes ALL metadata
    documents of the pid; there the checked default is only used in log
    messages.  So for delete_metadata "omitted" means "every format", not
    "the default format". *)
Theorem default_subst_consistent :
  forall d, (d = "" \/ blank d = false) ->
            check_format_id d PNone = check_format_id d (PStr d).
Proof.
  intros d Hd.
  rewrite (proj1 (check_format_id_spec d PNone) eq_refl).
  rewrite (proj1 (proj2 (check_format_id_spec d (PStr d))) d eq_refl Hd).
  reflexivity.
Qed.

(** The side condition is necessary: a non-empty all-whitespace default is
    silently used when the format is omitted but refused when spelled out. *)
Theorem default_subst_consistent_counterexample :
  exists d, check_format_id d PNone <> check_format_id d (PStr d).
Proof. exists " ". vm_compute. intro H. discriminate H. Qed.

Corollary default_subst_methods :
  forall d pid md,
    (d = "" \/ blank d = false) ->
    args_store_metadata d pid md PNone = args_store_metadata d pid md (PStr d) /\
    args_retrieve_metadata d pid PNone = args_retrieve_metadata d pid (PStr d) /\
    args_delete_metadata d pid PNone = args_delete_metadata d pid (PStr d) /\
    checked_format d PNone = checked_format d (PStr d).
Proof.
  intros d pid md Hd.
  unfold args_store_metadata, args_retrieve_metadata, args_delete_metadata, checked_format.
  rewrite (default_subst_consistent d Hd). repeat split; reflexivity.
Qed.

(* ------------------------------------------------------------------------- *)
(** * 8. [_check_arg_algorithms_and_checksum]                                *)
(* ------------------------------------------------------------------------- *)

(** The additional algorithm "passes": omitted, literally the store algorithm,
    or a string that [_clean_algorithm] accepts. *)
Definition additional_ok (store_alg : string) (additional : pyval) : Prop :=
  additional = PNone \/ additional = PStr store_alg \/
  exists a x, additional = PStr a /\ clean_algorithm a = Some x.

Lemma clean_val_ok_iff :
  forall v x, clean_val v = inr x <-> exists a, v = PStr a /\ clean_algorithm a = Some x.
Proof.
  intros v x. split.
  - intro H. destruct v as [| b | z | | s | | p | nm | | |]; cbn [clean_val] in H;
      try discriminate H.
    destruct (clean_algorithm s) as [y|] eqn:Ec; [| discriminate H].
    injection H as <-. exists s. split; [reflexivity | exact Ec].
  - intros [a [-> Hc]]. cbn [clean_val]. rewrite Hc. reflexivity.
Qed.

Lemma clean_val_unsupported :
  forall a, clean_algorithm a = None -> clean_val (PStr a) = inl EUnsupportedAlgorithm.
Proof. intros a H. cbn [clean_val]. rewrite H. reflexivity. Qed.

Lemma check_additional_ok_iff :
  forall sa add, (exists r, check_additional sa add = inr r) <-> additional_ok sa add.
Proof.
  intros sa add. unfold check_additional, additional_ok. split.
  - intros [r H].
    destruct (py_eq add (PStr sa)) eqn:Ep; cbn [negb andb] in H.
    + right. left.
      destruct add as [| b | z | | s | | p | nm | | |]; cbn [py_eq] in Ep; try discriminate Ep.
      apply String.eqb_eq in Ep. subst s. reflexivity.
    + destruct (is_none add) eqn:En; cbn [negb] in H.
      * left. destruct add; cbn [is_none] in En; try discriminate En. reflexivity.
      * destruct (clean_val add) as [e|x] eqn:Ec; [discriminate H |].
        apply clean_val_ok_iff in Ec. destruct Ec as [a [Ha Hc]].
        right. right. exists a, x. split; assumption.
  - intros [-> | [-> | [a [x [-> Hc]]]]].
    + exists None. reflexivity.
    + exists None. cbn [py_eq]. rewrite String.eqb_refl. reflexivity.
    + destruct (py_eq (PStr a) (PStr sa)) eqn:Ep; cbn [negb andb].
      * exists None. reflexivity.
      * exists (Some x). cbn [is_none negb clean_val]. rewrite Hc. reflexivity.
Qed.

Lemma additional_ok_pass :
  forall sa add, additional_ok sa add -> exists r, check_additional sa add = inr r.
Proof. intros sa add H. apply check_additional_ok_iff. exact H. Qed.

(** checksum and checksum_algorithm must come as a pair.  A checksum (anything
    but None) without an algorithm is a ValueError ... *)
Theorem pairing_checksum_without_algo_strong :
  forall sa add ck,
    additional_ok sa add -> ck <> PNone ->
    check_algos sa add ck PNone = inl EValueError.
Proof.
  intros sa add ck Ha Hck. unfold check_algos.
  destruct (additional_ok_pass sa add Ha) as [r Hr]. rewrite Hr.
  destruct (is_none ck) eqn:En.
  - destruct ck; cbn [is_none] in En; try discriminate En. exfalso. apply Hck. reflexivity.
  - reflexivity.
Qed.

Theorem pairing_checksum_without_algo :
  forall sa add ck,
    additional_ok sa add -> check_string ck = None ->
    check_algos sa add ck PNone = inl EValueError.
Proof.
  intros sa add ck Ha Hck. apply pairing_checksum_without_algo_strong.
  - exact Ha.
  - apply check_string_ok_not_none. exact Hck.
Qed.

(** ... and so is an algorithm (anything but None) without a checksum. *)
Theorem pairing_algo_without_checksum_strong :
  forall sa add cka,
    additional_ok sa add -> cka <> PNone ->
    check_algos sa add PNone cka = inl EValueError.
Proof.
  intros sa add cka Ha Hcka. unfold check_algos.
  destruct (additional_ok_pass sa add Ha) as [r Hr]. rewrite Hr.
  cbn [is_none].
  destruct (is_none cka) eqn:En.
  - destruct cka; cbn [is_none] in En; try discriminate En. exfalso. apply Hcka. reflexivity.
  - reflexivity.
Qed.

Theorem pairing_algo_without_checksum :
  forall sa add alg,
    additional_ok sa add ->
    check_algos sa add PNone (PStr alg) = inl EValueError.
Proof.
  intros sa add alg Ha. apply pairing_algo_without_checksum_strong.
  - exact Ha.
  - intro H. discriminate H.
Qed.

(** Complete characterisation of acceptance. *)
Theorem check_algos_ok_iff :
  forall sa add ck cka,
    (exists r, check_algos sa add ck cka = inr r) <->
    additional_ok sa add /\
    ((ck = PNone /\ cka = PNone) \/
     (check_string ck = None /\ check_string cka = None /\
      exists a x, cka = PStr a /\ clean_algorithm a = Some x)).
Proof.
  intros sa add ck cka. split.
  - intros [r H]. unfold check_algos in H.
    destruct (check_additional sa add) as [e|a0] eqn:Ea; [discriminate H |].
    split; [apply check_additional_ok_iff; exists a0; exact Ea |].
    destruct (is_none ck) eqn:Enk.
    + (* checksum is None *)
      assert (Hck : ck = PNone)
        by (destruct ck; cbn [is_none] in Enk; try discriminate Enk; reflexivity).
      subst ck.
      destruct (is_none cka) eqn:Ena.
      * left. split; [reflexivity |].
        destruct cka; cbn [is_none] in Ena; try discriminate Ena; reflexivity.
      * cbn [check_string] in H. discriminate H.
    + destruct (check_string cka) as [e|] eqn:Esa; [discriminate H |].
      destruct (is_none cka) eqn:Ena.
      * destruct cka; cbn [is_none] in Ena; try discriminate Ena. discriminate Esa.
      * destruct (check_string ck) as [e|] eqn:Esk; [discriminate H |].
        destruct (clean_val cka) as [e|c] eqn:Ec; [discriminate H |].
        apply clean_val_ok_iff in Ec. destruct Ec as [a [Hcka Hc]].
        right. split; [reflexivity |]. split; [reflexivity |].
        exists a, c. split; assumption.
  - intros [Ha [[-> ->] | [Hck [Hcka [a [x [Heq Hc]]]]]]].
    + unfold check_algos. destruct (additional_ok_pass sa add Ha) as [r Hr]. rewrite Hr.
      cbn [is_none]. exists (r, None). reflexivity.
    + unfold check_algos. destruct (additional_ok_pass sa add Ha) as [r Hr]. rewrite Hr.
      rewrite Hcka, Hck. subst cka. cbn [is_none clean_val]. rewrite Hc.
      exists (r, Some x). destruct (is_none ck); reflexivity.
Qed.

(** What flows on: the checksum algorithm is the cleaned name. *)
Theorem check_algos_value :
  forall sa add ck cka a c,
    check_algos sa add ck cka = inr (a, c) ->
    check_additional sa add = inr a /\
    ((cka = PNone /\ c = None) \/ (exists x, c = Some x /\ clean_val cka = inr x)).
Proof.
  intros sa add ck cka a c H. unfold check_algos in H.
  destruct (check_additional sa add) as [e|a0] eqn:Ea; [discriminate H |].
  destruct (if is_none ck then None else check_string cka) as [e|]; [discriminate H |].
  destruct (is_none cka) eqn:Ena.
  - injection H as <- <-. split; [reflexivity |]. left. split; [| reflexivity].
    destruct cka; cbn [is_none] in Ena; try discriminate Ena; reflexivity.
  - destruct (check_string ck) as [e|]; [discriminate H |].
    destruct (clean_val cka) as [e|x] eqn:Ec; [discriminate H |].
    injection H as <- <-. split; [reflexivity |]. right. exists x. split; reflexivity.
Qed.

(* ------------------------------------------------------------------------- *)
(** * 9. [store_object]                                                      *)
(* ------------------------------------------------------------------------- *)

Lemma args_store_object_pid :
  forall sa pid data add ck cka size,
    pid <> PNone ->
    args_store_object sa pid data add ck cka size =
    check_string pid ;; check_arg_data data ;; check_integer size ;;
    err_of (check_algos sa add ck cka).
Proof.
  intros sa pid data add ck cka size Hp. unfold args_store_object.
  destruct pid; try reflexivity. exfalso. apply Hp. reflexivity.
Qed.

Theorem store_object_args_ok_iff :
  forall sa pid data add ck cka size,
    pid <> PNone ->
    (args_store_object sa pid data add ck cka size = None <->
     check_string pid = None /\ check_arg_data data = None /\ check_integer size = None /\
     exists r, check_algos sa add ck cka = inr r).
Proof.
  intros sa pid data add ck cka size Hp.
  rewrite (args_store_object_pid sa pid data add ck cka size Hp).
  rewrite !seq_None. rewrite err_of_None. tauto.
Qed.

(** The class reported is that of the FIRST failing check, in the order
    pid, data, size, algorithms. *)
Theorem store_object_first_failure_pid :
  forall sa pid data add ck cka size e,
    pid <> PNone -> check_string pid = Some e ->
    args_store_object sa pid data add ck cka size = Some e.
Proof.
  intros sa pid data add ck cka size e Hp H1.
  rewrite (args_store_object_pid sa pid data add ck cka size Hp).
  apply seq_fail. exact H1.
Qed.

Theorem store_object_first_failure_data :
  forall sa pid data add ck cka size e,
    check_string pid = None -> check_arg_data data = Some e ->
    args_store_object sa pid data add ck cka size = Some e.
Proof.
  intros sa pid data add ck cka size e H1 H2.
  rewrite (args_store_object_pid sa pid data add ck cka size (check_string_ok_not_none pid H1)).
  rewrite (seq_pass _ _ H1). apply seq_fail. exact H2.
Qed.

Theorem store_object_first_failure_size :
  forall sa pid data add ck cka size e,
    check_string pid = None -> check_arg_data data = None -> check_integer size = Some e ->
    args_store_object sa pid data add ck cka size = Some e.
Proof.
  intros sa pid data add ck cka size e H1 H2 H3.
  rewrite (args_store_object_pid sa pid data add ck cka size (check_string_ok_not_none pid H1)).
  rewrite (seq_pass _ _ H1), (seq_pass _ _ H2). apply seq_fail. exact H3.
Qed.

Theorem store_object_first_failure_algos :
  forall sa pid data add ck cka size e,
    check_string pid = None -> check_arg_data data = None -> check_integer size = None ->
    check_algos sa add ck cka = inl e ->
    args_store_object sa pid data add ck cka size = Some e.
Proof.
  intros sa pid data add ck cka size e H1 H2 H3 H4.
  rewrite (args_store_object_pid sa pid data add ck cka size (check_string_ok_not_none pid H1)).
  rewrite (seq_pass _ _ H1), (seq_pass _ _ H2), (seq_pass _ _ H3). rewrite H4. reflexivity.
Qed.

(** The four lemmas bundled under the name asked for. *)
Theorem store_object_first_failure :
  forall sa pid data add ck cka size e,
    (pid <> PNone -> check_string pid = Some e ->
     args_store_object sa pid data add ck cka size = Some e) /\
    (check_string pid = None -> check_arg_data data = Some e ->
     args_store_object sa pid data add ck cka size = Some e) /\
    (check_string pid = None -> check_arg_data data = None -> check_integer size = Some e ->
     args_store_object sa pid data add ck cka size = Some e) /\
    (check_string pid = None -> check_arg_data data = None -> check_integer size = None ->
     check_algos sa add ck cka = inl e ->
     args_store_object sa pid data add ck cka size = Some e).
Proof.
  intros sa pid data add ck cka size e. repeat split.
  - apply store_object_first_failure_pid.
  - apply store_object_first_failure_data.
  - apply store_object_first_failure_size.
  - apply store_object_first_failure_algos.
Qed.

(** Without a pid, [store_object] looks at [data] and at nothing else:
    size, checksum, algorithms are silently ignored (so e.g. a supplied
    checksum is NOT verified on this path). *)
Theorem store_object_nopid_ignores_rest :
  forall sa data add ck cka size,
    args_store_object sa PNone data add ck cka size = check_arg_data data.
Proof. intros. reflexivity. Qed.

(* ------------------------------------------------------------------------- *)
(** * 10. The other eight methods                                            *)
(* ------------------------------------------------------------------------- *)

Theorem tag_object_args_ok_iff :
  forall pid cid,
    args_tag_object pid cid = None <-> check_string pid = None /\ check_string cid = None.
Proof. intros pid cid. unfold args_tag_object. apply seq_None. Qed.

Theorem delete_if_invalid_args_ok_iff :
  forall om ck cka size,
    args_delete_if_invalid om ck cka size = None <->
    check_string ck = None /\ check_string cka = None /\ check_integer size = None /\
    om = PObjMeta /\ exists a x, cka = PStr a /\ clean_algorithm a = Some x.
Proof.
  intros om ck cka size. unfold args_delete_if_invalid. rewrite !seq_None.
  assert (Hlast :
            match om with PObjMeta => err_of (clean_val cka) | _ => Some EValueError end = None
            <-> om = PObjMeta /\ exists a x, cka = PStr a /\ clean_algorithm a = Some x).
  { split.
    - intro H. destruct om; try discriminate H. split; [reflexivity |].
      apply err_of_None in H. destruct H as [x Hx].
      apply clean_val_ok_iff in Hx. destruct Hx as [a [Ha Hc]].
      exists a, x. split; assumption.
    - intros [-> [a [x [Ha Hc]]]]. apply err_of_None. exists x.
      apply clean_val_ok_iff. exists a. split; assumption. }
  rewrite Hlast. tauto.
Qed.

Theorem store_metadata_args_ok_iff :
  forall d pid md fmt,
    args_store_metadata d pid md fmt = None <->
    check_string pid = None /\ check_arg_data md = None /\
    exists f, check_format_id d fmt = inr f.
Proof.
  intros d pid md fmt. unfold args_store_metadata.
  rewrite !seq_None. rewrite err_of_None. tauto.
Qed.

Theorem retrieve_object_args_ok_iff :
  forall pid, args_retrieve_object pid = None <-> check_string pid = None.
Proof. intro pid. unfold args_retrieve_object. tauto. Qed.

Theorem retrieve_metadata_args_ok_iff :
  forall d pid fmt,
    args_retrieve_metadata d pid fmt = None <->
    check_string pid = None /\ exists f, check_format_id d fmt = inr f.
Proof.
  intros d pid fmt. unfold args_retrieve_metadata.
  rewrite seq_None. rewrite err_of_None. tauto.
Qed.

Theorem delete_object_args_ok_iff :
  forall pid, args_delete_object pid = None <-> check_string pid = None.
Proof. intro pid. unfold args_delete_object. tauto. Qed.

Theorem delete_metadata_args_ok_iff :
  forall d pid fmt,
    args_delete_metadata d pid fmt = None <->
    check_string pid = None /\ exists f, check_format_id d fmt = inr f.
Proof.
  intros d pid fmt. unfold args_delete_metadata.
  rewrite seq_None. rewrite err_of_None. tauto.
Qed.

Theorem get_hex_digest_args_ok_iff :
  forall pid alg,
    args_get_hex_digest pid alg = None <->
    check_string pid = None /\ check_string alg = None /\
    exists a x, alg = PStr a /\ clean_algorithm a = Some x.
Proof.
  intros pid alg. unfold args_get_hex_digest. rewrite !seq_None. rewrite err_of_None.
  split.
  - intros [H1 [H2 [x Hx]]]. split; [exact H1 |]. split; [exact H2 |].
    apply clean_val_ok_iff in Hx. destruct Hx as [a [Ha Hc]]. exists a, x. split; assumption.
  - intros [H1 [H2 [a [x [Ha Hc]]]]]. split; [exact H1 |]. split; [exact H2 |].
    exists x. apply clean_val_ok_iff. exists a. split; assumption.
Qed.

(** retrieve_metadata and delete_metadata have literally the same argument phase. *)
Theorem retrieve_delete_metadata_same_args :
  forall d pid fmt, args_retrieve_metadata d pid fmt = args_delete_metadata d pid fmt.
Proof. intros. reflexivity. Qed.

(* ------------------------------------------------------------------------- *)
(** * 11. Unsupported algorithms                                             *)
(* ------------------------------------------------------------------------- *)

Theorem unsupported_algorithm_rejected :
  forall pid alg,
    check_string pid = None -> check_string (PStr alg) = None -> clean_algorithm alg = None ->
    args_get_hex_digest pid (PStr alg) = Some EUnsupportedAlgorithm.
Proof.
  intros pid alg H1 H2 Hc. unfold args_get_hex_digest.
  rewrite (seq_pass _ _ H1), (seq_pass _ _ H2).
  rewrite (clean_val_unsupported alg Hc). reflexivity.
Qed.

Theorem unsupported_algorithm_rejected_delete_if_invalid :
  forall ck alg size,
    check_string ck = None -> check_string (PStr alg) = None -> check_integer size = None ->
    clean_algorithm alg = None ->
    args_delete_if_invalid PObjMeta ck (PStr alg) size = Some EUnsupportedAlgorithm.
Proof.
  intros ck alg size H1 H2 H3 Hc. unfold args_delete_if_invalid.
  rewrite (seq_pass _ _ H1), (seq_pass _ _ H2), (seq_pass _ _ H3).
  rewrite (clean_val_unsupported alg Hc). reflexivity.
Qed.

(** additional_algorithm: checked first inside [_check_arg_algorithms_and_checksum],
    so it wins over any checksum/checksum_algorithm problem. *)
Theorem unsupported_additional_rejected :
  forall sa pid data alg ck cka size,
    check_string pid = None -> check_arg_data data = None -> check_integer size = None ->
    alg <> sa -> clean_algorithm alg = None ->
    args_store_object sa pid data (PStr alg) ck cka size = Some EUnsupportedAlgorithm.
Proof.
  intros sa pid data alg ck cka size H1 H2 H3 Hne Hc.
  apply store_object_first_failure_algos; try assumption.
  unfold check_algos, check_additional. cbn [py_eq is_none negb].
  apply String.eqb_neq in Hne. rewrite Hne. cbn [negb andb].
  rewrite (clean_val_unsupported alg Hc). reflexivity.
Qed.

Theorem unsupported_checksum_algorithm_rejected :
  forall sa pid data add ck alg size,
    check_string pid = None -> check_arg_data data = None -> check_integer size = None ->
    additional_ok sa add ->
    check_string ck = None -> check_string (PStr alg) = None -> clean_algorithm alg = None ->
    args_store_object sa pid data add ck (PStr alg) size = Some EUnsupportedAlgorithm.
Proof.
  intros sa pid data add ck alg size H1 H2 H3 Ha Hck Halg Hc.
  apply store_object_first_failure_algos; try assumption.
  unfold check_algos. destruct (additional_ok_pass sa add Ha) as [r Hr]. rewrite Hr.
  rewrite Halg, Hck. cbn [is_none]. rewrite (clean_val_unsupported alg Hc).
  destruct (is_none ck); reflexivity.
Qed.

(* ------------------------------------------------------------------------- *)
(** * 12. Non-vacuity: concrete argument vectors (checked by computation)    *)
(* ------------------------------------------------------------------------- *)

Definition pid1 := PStr "doi:10.18739/A2901ZH2M".
Definition cid1 := PStr "94f9b6c88f1f458e410c30c351c6384ea42ac1b5ee1f8430d3e365e43b78a38a".
Definition sum1 := PStr "94F9B6C88F1F458E410C30C351C6384EA42AC1B5EE1F8430D3E365E43B78A38A".
Definition ns1 := "https://ns.dataone.org/service/types/v2.0#SystemMetadata".
Definition TAB : string := String (ascii_of_nat 9) "".
Definition NL  : string := String (ascii_of_nat 10) "".

(* helpers *)
Example ex_check_string_ok   : check_string pid1 = None.                         Proof. vm_compute. reflexivity. Qed.
Example ex_check_string_tab  : check_string (PStr ("a" ++ TAB ++ "b")) = Some EValueError. Proof. vm_compute. reflexivity. Qed.
Example ex_check_string_nl   : check_string (PStr ("ab" ++ NL)) = Some EValueError.  Proof. vm_compute. reflexivity. Qed.
Example ex_check_data_path   : check_arg_data (PPath "/tmp/x") = None.           Proof. vm_compute. reflexivity. Qed.
Example ex_check_data_bytes  : check_arg_data PBytes = Some ETypeError.          Proof. vm_compute. reflexivity. Qed.
Example ex_check_data_text   : check_arg_data PTextStream = Some ETypeError.     Proof. vm_compute. reflexivity. Qed.
Example ex_check_data_none   : check_arg_data PNone = Some ETypeError.           Proof. vm_compute. reflexivity. Qed.
Example ex_check_int_true    : check_integer (PBool true) = None.                Proof. vm_compute. reflexivity. Qed.
Example ex_check_int_false   : check_integer (PBool false) = Some EValueError.   Proof. vm_compute. reflexivity. Qed.
Example ex_check_int_zero    : check_integer (PInt 0) = Some EValueError.        Proof. vm_compute. reflexivity. Qed.
Example ex_check_int_float   : check_integer PFloat = Some ETypeError.           Proof. vm_compute. reflexivity. Qed.
Example ex_check_int_str     : check_integer (PStr "5") = Some ETypeError.       Proof. vm_compute. reflexivity. Qed.
Example ex_format_default    : check_format_id ns1 PNone = inr ns1.              Proof. vm_compute. reflexivity. Qed.
Example ex_format_empty      : check_format_id ns1 (PStr "") = inr "".           Proof. vm_compute. reflexivity. Qed.
Example ex_format_blank      : check_format_id ns1 (PStr "  ") = inl EValueError. Proof. vm_compute. reflexivity. Qed.
(* unlike pid, an accepted format may CONTAIN whitespace *)
Example ex_format_inner_ws   : check_format_id ns1 (PStr "a b") = inr "a b".     Proof. vm_compute. reflexivity. Qed.

(* _check_arg_algorithms_and_checksum *)
Example ex_algos_all_none :
  check_algos "sha256" PNone PNone PNone = inr (None, None).
Proof. vm_compute. reflexivity. Qed.
Example ex_algos_full :
  check_algos "sha256" (PStr "SHA-384") sum1 (PStr "SHA-256") = inr (Some "sha384", Some "sha256").
Proof. vm_compute. reflexivity. Qed.
(* literally the store algorithm: not cleaned, no additional digest *)
Example ex_algos_store_alg :
  check_algos "sha256" (PStr "sha256") PNone PNone = inr (None, None).
Proof. vm_compute. reflexivity. Qed.
(* another spelling of the store algorithm IS passed on (compared before cleaning) *)
Example ex_algos_store_alg_respelled :
  check_algos "sha256" (PStr "SHA-256") PNone PNone = inr (Some "sha256", None).
Proof. vm_compute. reflexivity. Qed.
(* additional_algorithm is not _check_string'ed: "" is an UnsupportedAlgorithm, not a ValueError *)
Example ex_algos_additional_empty :
  check_algos "sha256" (PStr "") PNone PNone = inl EUnsupportedAlgorithm.
Proof. vm_compute. reflexivity. Qed.
Example ex_algos_unpaired_1 :
  check_algos "sha256" PNone sum1 PNone = inl EValueError.
Proof. vm_compute. reflexivity. Qed.
Example ex_algos_unpaired_2 :
  check_algos "sha256" PNone PNone (PStr "sha256") = inl EValueError.
Proof. vm_compute. reflexivity. Qed.
(* the additional algorithm is examined before the pairing *)
Example ex_algos_order :
  check_algos "sha256" (PStr "crc32") sum1 PNone = inl EUnsupportedAlgorithm.
Proof. vm_compute. reflexivity. Qed.

(* store_object *)
Example ex_store_object_ok :
  args_store_object "sha256" pid1 (PPath "/data/a.csv") (PStr "md5") sum1 (PStr "SHA-256") (PInt 1024)
  = None.
Proof. vm_compute. reflexivity. Qed.
Example ex_store_object_ok_minimal :
  args_store_object "sha256" pid1 (PStream true) PNone PNone PNone PNone = None.
Proof. vm_compute. reflexivity. Qed.
Example ex_store_object_bad_pid :
  args_store_object "sha256" (PStr "a b") (PPath "/data/a.csv") PNone PNone PNone PNone
  = Some EValueError.
Proof. vm_compute. reflexivity. Qed.
Example ex_store_object_bad_size :
  args_store_object "sha256" pid1 (PPath "/data/a.csv") PNone PNone PNone (PInt 0)
  = Some EValueError.
Proof. vm_compute. reflexivity. Qed.
Example ex_store_object_float_size :
  args_store_object "sha256" pid1 (PPath "/data/a.csv") PNone PNone PNone PFloat
  = Some ETypeError.
Proof. vm_compute. reflexivity. Qed.
(* order: bad pid (ValueError) reported although data is also bad (TypeError) *)
Example ex_store_object_order :
  args_store_object "sha256" (PStr "") PBytes (PStr "crc32") PNone PNone (PInt 0)
  = Some EValueError.
Proof. vm_compute. reflexivity. Qed.
(* no pid: everything except data is ignored, even nonsense *)
Example ex_store_object_nopid_ok :
  args_store_object "sha256" PNone (PPath "/data/a.csv") (PStr "crc32") sum1 PNone (PInt (-5))
  = None.
Proof. vm_compute. reflexivity. Qed.
Example ex_store_object_nopid_bad :
  args_store_object "sha256" PNone PNone PNone PNone PNone PNone = Some ETypeError.
Proof. vm_compute. reflexivity. Qed.

(* tag_object *)
Example ex_tag_ok      : args_tag_object pid1 cid1 = None.                       Proof. vm_compute. reflexivity. Qed.
Example ex_tag_bad_pid : args_tag_object PNone cid1 = Some EValueError.          Proof. vm_compute. reflexivity. Qed.
Example ex_tag_bad_cid : args_tag_object pid1 (PStr " ") = Some EValueError.     Proof. vm_compute. reflexivity. Qed.

(* delete_if_invalid_object *)
Example ex_dii_ok :
  args_delete_if_invalid PObjMeta sum1 (PStr "SHA-256") (PInt 1024) = None.
Proof. vm_compute. reflexivity. Qed.
Example ex_dii_bad_meta :
  args_delete_if_invalid PNone sum1 (PStr "sha256") (PInt 1024) = Some EValueError.
Proof. vm_compute. reflexivity. Qed.
Example ex_dii_bad_algo :
  args_delete_if_invalid PObjMeta sum1 (PStr "crc32") (PInt 1024) = Some EUnsupportedAlgorithm.
Proof. vm_compute. reflexivity. Qed.
Example ex_dii_bad_size :
  args_delete_if_invalid PObjMeta sum1 (PStr "sha256") (PStr "1024") = Some ETypeError.
Proof. vm_compute. reflexivity. Qed.
(* here the size is optional in effect: None passes _check_integer *)
Example ex_dii_no_size :
  args_delete_if_invalid PObjMeta sum1 (PStr "sha256") PNone = None.
Proof. vm_compute. reflexivity. Qed.

(* store_metadata *)
Example ex_store_md_ok :
  args_store_metadata ns1 pid1 (PPath "/data/sysmeta.xml") PNone = None.
Proof. vm_compute. reflexivity. Qed.
Example ex_store_md_bad_data :
  args_store_metadata ns1 pid1 PBytes PNone = Some ETypeError.
Proof. vm_compute. reflexivity. Qed.
Example ex_store_md_bad_format :
  args_store_metadata ns1 pid1 (PPath "/data/sysmeta.xml") (PStr " ") = Some EValueError.
Proof. vm_compute. reflexivity. Qed.

(* retrieve_object *)
Example ex_retr_obj_ok    : args_retrieve_object pid1 = None.                    Proof. vm_compute. reflexivity. Qed.
Example ex_retr_obj_none  : args_retrieve_object PNone = Some EValueError.       Proof. vm_compute. reflexivity. Qed.
Example ex_retr_obj_empty : args_retrieve_object (PStr "") = Some EValueError.   Proof. vm_compute. reflexivity. Qed.

(* retrieve_metadata *)
Example ex_retr_md_ok :
  args_retrieve_metadata ns1 pid1 (PStr "http://ns.dataone.org/service/types/v1") = None.
Proof. vm_compute. reflexivity. Qed.
Example ex_retr_md_bad_pid :
  args_retrieve_metadata ns1 (PStr ("a" ++ NL ++ "b")) PNone = Some EValueError.
Proof. vm_compute. reflexivity. Qed.
Example ex_retr_md_bad_format :
  args_retrieve_metadata ns1 pid1 (PStr TAB) = Some EValueError.
Proof. vm_compute. reflexivity. Qed.

(* delete_object *)
Example ex_del_obj_ok    : args_delete_object pid1 = None.                       Proof. vm_compute. reflexivity. Qed.
Example ex_del_obj_none  : args_delete_object PNone = Some EValueError.          Proof. vm_compute. reflexivity. Qed.
Example ex_del_obj_space : args_delete_object (PStr "p id") = Some EValueError.  Proof. vm_compute. reflexivity. Qed.

(* delete_metadata *)
Example ex_del_md_ok         : args_delete_metadata ns1 pid1 PNone = None.       Proof. vm_compute. reflexivity. Qed.
Example ex_del_md_bad_pid    : args_delete_metadata ns1 PNone PNone = Some EValueError.
Proof. vm_compute. reflexivity. Qed.
Example ex_del_md_bad_format : args_delete_metadata ns1 pid1 (PStr "   ") = Some EValueError.
Proof. vm_compute. reflexivity. Qed.

(* get_hex_digest *)
Example ex_ghd_ok        : args_get_hex_digest pid1 (PStr "SHA-256") = None.     Proof. vm_compute. reflexivity. Qed.
Example ex_ghd_bad_algo  : args_get_hex_digest pid1 (PStr "crc32") = Some EUnsupportedAlgorithm.
Proof. vm_compute. reflexivity. Qed.
Example ex_ghd_none_algo : args_get_hex_digest pid1 PNone = Some EValueError.    Proof. vm_compute. reflexivity. Qed.
(* "sha 256": _check_string fires before _clean_algorithm *)
Example ex_ghd_space_algo : args_get_hex_digest pid1 (PStr "sha 256") = Some EValueError.
Proof. vm_compute. reflexivity. Qed.

(* values that flow on *)
Example ex_checked_format_default : checked_format ns1 PNone = Some ns1.        Proof. vm_compute. reflexivity. Qed.
Example ex_checked_algos :
  checked_algos "sha256" (PStr "MD5") sum1 (PStr "SHA-512") = Some (Some "md5", Some "sha512").
Proof. vm_compute. reflexivity. Qed.
Example ex_checked_algorithm : checked_algorithm (PStr "SHA-1") = Some "sha1".  Proof. vm_compute. reflexivity. Qed.

(* ------------------------------------------------------------------------- *)
(** * 13. Assumption audit                                                   *)
(* ------------------------------------------------------------------------- *)

Print Assumptions check_string_ok_iff.
Print Assumptions check_string_rejects.
Print Assumptions check_arg_data_ok_iff.
Print Assumptions check_arg_data_class.
Print Assumptions check_integer_ok_iff.
Print Assumptions check_integer_classes.
Print Assumptions check_format_id_spec.
Print Assumptions check_format_id_ok_iff.
Print Assumptions default_subst_consistent.
Print Assumptions default_subst_consistent_counterexample.
Print Assumptions default_subst_methods.
Print Assumptions pairing_checksum_without_algo_strong.
Print Assumptions pairing_checksum_without_algo.
Print Assumptions pairing_algo_without_checksum_strong.
Print Assumptions pairing_algo_without_checksum.
Print Assumptions check_algos_ok_iff.
Print Assumptions check_algos_value.
Print Assumptions store_object_args_ok_iff.
Print Assumptions store_object_first_failure_pid.
Print Assumptions store_object_first_failure_data.
Print Assumptions store_object_first_failure_size.
Print Assumptions store_object_first_failure_algos.
Print Assumptions store_object_first_failure.
Print Assumptions store_object_nopid_ignores_rest.
Print Assumptions tag_object_args_ok_iff.
Print Assumptions delete_if_invalid_args_ok_iff.
Print Assumptions store_metadata_args_ok_iff.
Print Assumptions retrieve_object_args_ok_iff.
Print Assumptions retrieve_metadata_args_ok_iff.
Print Assumptions delete_object_args_ok_iff.
Print Assumptions delete_metadata_args_ok_iff.
Print Assumptions get_hex_digest_args_ok_iff.
Print Assumptions retrieve_delete_metadata_same_args.
Print Assumptions unsupported_algorithm_rejected.
Print Assumptions unsupported_algorithm_rejected_delete_if_invalid.
Print Assumptions unsupported_additional_rejected.
Print Assumptions unsupported_checksum_algorithm_rejected.
