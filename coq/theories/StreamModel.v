(* StreamModel.v — model of filehashstore.Stream (filehashstore.py 2792-2849) and of
   the chunked writer/hasher loop of _write_to_tmp_file_and_get_hex_digests
   (filehashstore.py 1367-1393).  Self-contained: Coq stdlib only, no axioms.

   Trusted base recorded here (Section hypotheses, explicit premises after the
   Section closes):
     hupdate_app : h.update(x); h.update(y)  ==  h.update(x + y)      (hashlib contract)
     hupdate_nil : h.update(b"")             ==  no-op                (hashlib contract)

   Modelling decisions
   - A binary file object is (content, position, closed).  [seek n] sets the
     position to n even when n is beyond EOF (as in Python); a read there
     returns b"" and leaves the position unchanged.
   - Operations on a CLOSED file object raise ValueError in Python.  The model
     collapses that into "read returns b"", seek is a no-op"; every theorem that
     depends on the object being open carries [fclosed = false] as a premise
     (or obtains it from [stream_init]).
   - [Stream.__iter__] is a generator; the "restore the position" step only runs
     when the generator is exhausted.  The consumer modelled here is a plain
     [for data in stream] without break, so [iterate] models one full exhaustion.
   - The read loop is fuel-based.  [read_loop_ended] tells whether the loop
     stopped on an empty read (true) or ran out of fuel (false);
     [read_loop_fuel_ok] proves the fuel used everywhere, S (remaining bytes),
     is always enough, and [read_loop_fuel_irrelevant] that more fuel changes
     nothing. *)

From Coq Require Import List Arith Lia Bool NArith.
Import ListNotations.

Section Stream.

  Variable byte : Type.
  Definition bytes := list byte.

  (* ------------------------------------------------------------------ *)
  (* Binary file objects                                                 *)
  (* ------------------------------------------------------------------ *)

  Record fobj := { fdata : bytes; fpos : nat; fclosed : bool }.

  (* obj.read(k).  New position = old position + number of bytes returned. *)
  Definition f_read (k : nat) (f : fobj) : bytes * fobj :=
    if fclosed f then ([], f)
    else
      let out := firstn k (skipn (fpos f) (fdata f)) in
      (out, {| fdata := fdata f; fpos := fpos f + length out; fclosed := false |}).

  (* obj.seek(n): allowed beyond EOF. *)
  Definition f_seek (n : nat) (f : fobj) : fobj :=
    if fclosed f then f
    else {| fdata := fdata f; fpos := n; fclosed := false |}.

  Definition f_close (f : fobj) : fobj :=
    {| fdata := fdata f; fpos := fpos f; fclosed := true |}.

  (* io.open(path, "rb") on a file with the given content. *)
  Definition f_open (data : bytes) : fobj :=
    {| fdata := data; fpos := 0; fclosed := false |}.

  (* ------------------------------------------------------------------ *)
  (* Stream                                                              *)
  (* ------------------------------------------------------------------ *)

  (* The four accepted kinds of [data] argument of store_object. *)
  Inductive kind := KPathStr | KPath | KFileStream | KMemStream.

  (* spos = None  <->  "we opened it ourselves" (self._pos is None). *)
  Record stream := { sobj : fobj; spos : option nat; sbuf : nat }.

  (* Fallback buffer size of Stream.__init__ (8192). *)
  Definition default_bufsize : nat := 8 * 1024.

  (* Stream.__init__.  None = an exception escapes.
     [fixed] = false : today's code (AttributeError escapes for objects without
                       .name such as io.BytesIO — defect D6);
     [fixed] = true  : repaired code (AttributeError caught, buffer_size = 8192). *)
  Definition stream_init (fixed : bool) (k : kind) (data : bytes)
             (offset : nat) (blksize : nat) : option stream :=
    match k with
    | KPathStr | KPath =>
        Some {| sobj := f_open data; spos := None; sbuf := blksize |}
    | KFileStream =>
        Some {| sobj := {| fdata := data; fpos := offset; fclosed := false |};
                spos := Some offset; sbuf := blksize |}
    | KMemStream =>
        if fixed
        then Some {| sobj := {| fdata := data; fpos := offset; fclosed := false |};
                     spos := Some offset; sbuf := default_bufsize |}
        else None
    end.

  (* while True: data = obj.read(bs); if not data: break; yield data *)
  Fixpoint read_loop (fuel : nat) (bs : nat) (f : fobj) : list bytes * fobj :=
    match fuel with
    | 0 => ([], f)
    | S fuel' =>
        let '(c, f') := f_read bs f in
        match c with
        | [] => ([], f')
        | _ :: _ => let '(cs, f'') := read_loop fuel' bs f' in (c :: cs, f'')
        end
    end.

  (* true  = the loop stopped because a read returned b"";
     false = fuel ran out first. *)
  Fixpoint read_loop_ended (fuel : nat) (bs : nat) (f : fobj) : bool :=
    match fuel with
    | 0 => false
    | S fuel' =>
        let '(c, f') := f_read bs f in
        match c with
        | [] => true
        | _ :: _ => read_loop_ended fuel' bs f'
        end
    end.

  (* The sequence of chunks yielded when iterating a stream over [data]
     with buffer size [bs]. *)
  Definition stream_chunks (bs : nat) (data : bytes) : list bytes :=
    fst (read_loop (S (length data)) bs (f_seek 0 (f_open data))).

  (* Stream.__iter__, run to exhaustion. *)
  Definition iterate (s : stream) : list bytes * stream :=
    let f0 := f_seek 0 (sobj s) in
    let '(cs, f1) := read_loop (S (length (fdata f0))) (sbuf s) f0 in
    let f2 := match spos s with
              | Some p => f_seek p f1
              | None => f1
              end in
    (cs, {| sobj := f2; spos := spos s; sbuf := sbuf s |}).

  (* Stream.close *)
  Definition close (s : stream) : stream :=
    {| sobj := match spos s with
               | None => f_close (sobj s)
               | Some p => f_seek p (sobj s)
               end;
       spos := spos s; sbuf := sbuf s |}.

  (* ------------------------------------------------------------------ *)
  (* Pure characterisation of the chunk sequence                         *)
  (* ------------------------------------------------------------------ *)

  Fixpoint chunk (fuel bs : nat) (l : bytes) : list bytes :=
    match fuel with
    | 0 => []
    | S fuel' =>
        match firstn bs l with
        | [] => []
        | _ :: _ => firstn bs l :: chunk fuel' bs (skipn bs l)
        end
    end.

  Lemma skipn_add : forall (p k : nat) (d : bytes),
      skipn (p + k) d = skipn k (skipn p d).
  Proof.
    induction p as [|p IHp]; intros k d.
    - reflexivity.
    - destruct d as [|x d].
      + simpl. now rewrite skipn_nil.
      + simpl. apply IHp.
  Qed.

  Lemma skipn_firstn_length : forall (bs : nat) (r : bytes),
      skipn (length (firstn bs r)) r = skipn bs r.
  Proof.
    intros bs r. rewrite firstn_length.
    destruct (Nat.le_gt_cases bs (length r)) as [Hle|Hgt].
    - now rewrite Nat.min_l.
    - rewrite Nat.min_r by lia.
      rewrite skipn_all. symmetry. apply skipn_all2. lia.
  Qed.

  Lemma read_loop_chunk : forall fuel bs f,
      fclosed f = false ->
      fst (read_loop fuel bs f) = chunk fuel bs (skipn (fpos f) (fdata f)).
  Proof.
    induction fuel as [|n IHn]; intros bs f Hopen.
    - reflexivity.
    - cbn [read_loop chunk]. unfold f_read. rewrite Hopen.
      remember (skipn (fpos f) (fdata f)) as r eqn:Hr.
      destruct (firstn bs r) as [|b c] eqn:Hc.
      + reflexivity.
      + match goal with
        | |- context [read_loop n bs ?g] =>
            specialize (IHn bs g eq_refl); destruct (read_loop n bs g) as [cs f'']
        end.
        cbn [fst] in *. rewrite IHn. cbn [fpos fdata].
        rewrite skipn_add, <- Hr, <- Hc, skipn_firstn_length. reflexivity.
  Qed.

  Lemma stream_chunks_chunk : forall bs data,
      stream_chunks bs data = chunk (S (length data)) bs data.
  Proof.
    intros bs data. unfold stream_chunks.
    rewrite read_loop_chunk by reflexivity. reflexivity.
  Qed.

  Lemma chunk_nil : forall fuel bs, chunk fuel bs [] = [].
  Proof.
    intros [|n] bs; [reflexivity|]. cbn [chunk]. now rewrite firstn_nil.
  Qed.

  Lemma firstn_nonempty : forall bs (l : bytes),
      0 < bs -> l <> [] -> firstn bs l <> [].
  Proof.
    intros [|b] [|x l] Hbs Hl; try lia; try congruence. simpl. discriminate.
  Qed.

  Lemma chunk_concat : forall fuel bs l,
      0 < bs -> length l < fuel -> concat (chunk fuel bs l) = l.
  Proof.
    induction fuel as [|n IHn]; intros bs l Hbs Hfuel; [lia|].
    cbn [chunk].
    destruct (firstn bs l) as [|b c] eqn:Hc.
    - destruct l as [|x l]; [reflexivity|].
      exfalso. apply (@firstn_nonempty bs (x :: l) Hbs); [discriminate|exact Hc].
    - rewrite <- Hc. cbn [concat].
      rewrite IHn.
      + apply firstn_skipn.
      + exact Hbs.
      + rewrite skipn_length.
        assert (Hlen : 0 < length l) by (destruct l; [rewrite firstn_nil in Hc; discriminate|simpl; lia]).
        lia.
  Qed.

  Lemma chunk_bounds : forall fuel bs l c,
      In c (chunk fuel bs l) -> c <> [] /\ length c <= bs.
  Proof.
    induction fuel as [|n IHn]; intros bs l c Hin; [destruct Hin|].
    cbn [chunk] in Hin.
    destruct (firstn bs l) as [|b c0] eqn:Hc; [destruct Hin|].
    destruct Hin as [Heq|Hin].
    - subst c. split; [discriminate|].
      rewrite <- Hc. apply firstn_le_length.
    - eapply IHn; eassumption.
  Qed.

  (* Ceiling characterisation, division-free. *)
  Lemma chunk_count_bounds : forall fuel bs l,
      0 < bs -> length l < fuel ->
      length (chunk fuel bs l) * bs < length l + bs /\
      length l <= length (chunk fuel bs l) * bs.
  Proof.
    induction fuel as [|n IHn]; intros bs l Hbs Hfuel; [lia|].
    cbn [chunk].
    destruct (firstn bs l) as [|b c] eqn:Hc.
    - destruct l as [|x l]; [simpl; lia|].
      exfalso. apply (@firstn_nonempty bs (x :: l) Hbs); [discriminate|exact Hc].
    - assert (Hlen : 0 < length l)
        by (destruct l; [rewrite firstn_nil in Hc; discriminate|simpl; lia]).
      cbn [length].
      destruct (Nat.le_gt_cases (length l) bs) as [Hle|Hgt].
      + rewrite (skipn_all2 l Hle), chunk_nil. simpl. lia.
      + destruct (IHn bs (skipn bs l) Hbs) as [H1 H2].
        * rewrite skipn_length. lia.
        * rewrite skipn_length in H1, H2. lia.
  Qed.

  Lemma ceil_div_unique : forall n len bs,
      0 < bs -> n * bs < len + bs -> len <= n * bs ->
      n = (len + bs - 1) / bs.
  Proof.
    intros n len bs Hbs H1 H2.
    apply Nat.div_unique with (r := len + bs - 1 - bs * n); lia.
  Qed.

  Lemma chunk_all_full_but_last : forall fuel bs l i,
      S i < length (chunk fuel bs l) ->
      length (nth i (chunk fuel bs l) []) = bs.
  Proof.
    induction fuel as [|n IHn]; intros bs l i Hi; [simpl in Hi; lia|].
    cbn [chunk] in *.
    destruct (firstn bs l) as [|b c] eqn:Hc; [simpl in Hi; lia|].
    cbn [length] in Hi.
    destruct i as [|j].
    - cbn [nth]. rewrite <- Hc.
      destruct (Nat.le_gt_cases (length l) bs) as [Hle|Hgt].
      + rewrite (skipn_all2 l Hle), chunk_nil in Hi. simpl in Hi. lia.
      + apply firstn_length_le. lia.
    - cbn [nth]. apply IHn. lia.
  Qed.

  (* ------------------------------------------------------------------ *)
  (* Fuel                                                                *)
  (* ------------------------------------------------------------------ *)

  (* With fuel > number of remaining bytes the loop always ends by an empty
     read.  (Holds for every bs: with bs = 0 the very first read is empty.) *)
  Lemma read_loop_fuel_ok : forall fuel bs f,
      length (fdata f) - fpos f < fuel ->
      read_loop_ended fuel bs f = true.
  Proof.
    induction fuel as [|n IHn]; intros bs f Hfuel; [lia|].
    cbn [read_loop_ended]. unfold f_read.
    destruct (fclosed f) eqn:Hcl; [reflexivity|].
    destruct (firstn bs (skipn (fpos f) (fdata f))) as [|b c] eqn:Hc; [reflexivity|].
    apply IHn. cbn [fdata fpos length].
    assert (Hrem : 0 < length (skipn (fpos f) (fdata f))).
    { destruct (skipn (fpos f) (fdata f)); [rewrite firstn_nil in Hc; discriminate|simpl; lia]. }
    rewrite skipn_length in Hrem. lia.
  Qed.

  Corollary read_loop_fuel_ok' : forall bs f,
      0 < bs ->
      read_loop_ended (S (length (fdata f) - fpos f)) bs f = true.
  Proof. intros bs f _. apply read_loop_fuel_ok. lia. Qed.

  Corollary stream_chunks_fuel_ok : forall bs data,
      read_loop_ended (S (length data)) bs (f_seek 0 (f_open data)) = true.
  Proof. intros bs data. apply read_loop_fuel_ok. simpl. lia. Qed.

  (* Once the loop has ended by an empty read, extra fuel is irrelevant. *)
  Lemma read_loop_fuel_irrelevant : forall fuel1 fuel2 bs f,
      read_loop_ended fuel1 bs f = true -> fuel1 <= fuel2 ->
      read_loop fuel2 bs f = read_loop fuel1 bs f.
  Proof.
    induction fuel1 as [|n IHn]; intros fuel2 bs f Hend Hle; [discriminate|].
    destruct fuel2 as [|m]; [lia|].
    cbn [read_loop read_loop_ended] in *.
    destruct (f_read bs f) as [c f'].
    destruct c as [|b c]; [reflexivity|].
    rewrite (IHn m bs f' Hend) by lia. reflexivity.
  Qed.

  (* The loop never changes content or open/closed state. *)
  Lemma read_loop_preserves : forall fuel bs f,
      fdata (snd (read_loop fuel bs f)) = fdata f /\
      fclosed (snd (read_loop fuel bs f)) = fclosed f.
  Proof.
    induction fuel as [|n IHn]; intros bs f; [split; reflexivity|].
    cbn [read_loop]. unfold f_read.
    destruct (fclosed f) eqn:Hcl; [cbn [snd]; auto|].
    destruct (firstn bs (skipn (fpos f) (fdata f))) as [|b c] eqn:Hc.
    - cbn [snd fdata fclosed]. auto.
    - match goal with
      | |- context [read_loop n bs ?g] =>
          specialize (IHn bs g); destruct (read_loop n bs g) as [cs f'']
      end.
      cbn [snd fdata fclosed] in *. exact IHn.
  Qed.

  (* Key lemma in file-object form: reading from position p yields exactly
     the bytes from p on. *)
  Lemma read_loop_concat : forall bs f,
      0 < bs -> fclosed f = false ->
      concat (fst (read_loop (S (length (fdata f) - fpos f)) bs f))
      = skipn (fpos f) (fdata f).
  Proof.
    intros bs f Hbs Hopen. rewrite read_loop_chunk by exact Hopen.
    apply chunk_concat; [exact Hbs|]. rewrite skipn_length. lia.
  Qed.

  (* ------------------------------------------------------------------ *)
  (* 1-4  Chunk sequence                                                 *)
  (* ------------------------------------------------------------------ *)

  Theorem chunks_concat : forall bs data,
      0 < bs -> concat (stream_chunks bs data) = data.
  Proof.
    intros bs data Hbs. rewrite stream_chunks_chunk.
    apply chunk_concat; [exact Hbs|lia].
  Qed.

  Theorem chunks_bounds : forall bs data c,
      0 < bs -> In c (stream_chunks bs data) -> c <> [] /\ length c <= bs.
  Proof.
    intros bs data c _ Hin. rewrite stream_chunks_chunk in Hin.
    eapply chunk_bounds; eassumption.
  Qed.

  (* Division-free form of the count (ceiling characterisation). *)
  Theorem chunks_count_bounds : forall bs data,
      0 < bs ->
      length (stream_chunks bs data) * bs < length data + bs /\
      length data <= length (stream_chunks bs data) * bs.
  Proof.
    intros bs data Hbs. rewrite stream_chunks_chunk.
    apply chunk_count_bounds; [exact Hbs|lia].
  Qed.

  Theorem chunks_count : forall bs data,
      0 < bs ->
      length (stream_chunks bs data) = (length data + bs - 1) / bs.
  Proof.
    intros bs data Hbs.
    destruct (@chunks_count_bounds bs data Hbs) as [H1 H2].
    apply ceil_div_unique; assumption.
  Qed.

  Theorem chunks_all_full_but_last : forall bs data i,
      0 < bs -> S i < length (stream_chunks bs data) ->
      length (nth i (stream_chunks bs data) []) = bs.
  Proof.
    intros bs data i _ Hi. rewrite stream_chunks_chunk in *.
    apply chunk_all_full_but_last; exact Hi.
  Qed.

  (* Why 0 < bs is needed: st_blksize = 0 makes the first read return b"",
     the loop ends at once and NOTHING is yielded. *)
  Theorem chunks_bs0 : forall data, stream_chunks 0 data = [].
  Proof.
    intros data. rewrite stream_chunks_chunk. reflexivity.
  Qed.

  (* ------------------------------------------------------------------ *)
  (* 5-6  Offsets, restore, close                                        *)
  (* ------------------------------------------------------------------ *)

  Theorem iterate_ignores_offset : forall s,
      fclosed (sobj s) = false ->
      fst (iterate s) = stream_chunks (sbuf s) (fdata (sobj s)).
  Proof.
    intros [[d p cl] sp sb] Hopen. cbn [sobj fclosed] in Hopen. subst cl.
    unfold iterate, stream_chunks, f_seek, f_open. cbn [sobj sbuf spos fclosed fdata].
    destruct (read_loop (S (length d)) sb {| fdata := d; fpos := 0; fclosed := false |})
      as [cs f1].
    reflexivity.
  Qed.

  Lemma stream_init_inv : forall fixed k data off bs s,
      stream_init fixed k data off bs = Some s ->
      fdata (sobj s) = data /\ fclosed (sobj s) = false /\
      ((k = KPathStr \/ k = KPath) -> spos s = None) /\
      ((k = KFileStream \/ k = KMemStream) -> spos s = Some off /\ fpos (sobj s) = off).
  Proof.
    intros fixed k data off bs s Hinit.
    destruct k; cbn [stream_init] in Hinit;
      try (destruct fixed; [|discriminate Hinit]);
      injection Hinit as Hs; subst s; cbn [sobj spos fdata fclosed fpos f_open];
      (split; [reflexivity|]); (split; [reflexivity|]);
      (split; [intros Hk|intros Hk]);
      try (destruct Hk as [Hk|Hk]; discriminate Hk);
      try reflexivity; try (split; reflexivity).
  Qed.

  Lemma iterate_sobj : forall s,
      fdata (sobj (snd (iterate s))) = fdata (sobj s) /\
      fclosed (sobj (snd (iterate s))) = fclosed (sobj s) /\
      spos (snd (iterate s)) = spos s /\
      (fclosed (sobj s) = false ->
       forall p, spos s = Some p -> fpos (sobj (snd (iterate s))) = p).
  Proof.
    intros [[d p cl] sp sb]. unfold iterate. cbn [sobj sbuf spos].
    set (f0 := f_seek 0 {| fdata := d; fpos := p; fclosed := cl |}).
    assert (Hf0 : fdata f0 = d /\ fclosed f0 = cl)
      by (unfold f0, f_seek; cbn [fclosed]; destruct cl; cbn; auto).
    destruct Hf0 as [Hd0 Hc0].
    pose proof (read_loop_preserves (S (length (fdata f0))) sb f0) as [Hd1 Hc1].
    destruct (read_loop (S (length (fdata f0))) sb f0) as [cs f1].
    cbn [snd sobj spos fdata fclosed] in *.
    rewrite Hd0 in Hd1. rewrite Hc0 in Hc1.
    destruct sp as [q|].
    - unfold f_seek. rewrite Hc1. destruct cl; cbn [fdata fclosed fpos].
      + repeat split; auto. intros Hcl; discriminate.
      + repeat split; auto. intros _ p' Hp'. congruence.
    - repeat split; auto. intros _ p' Hp'. discriminate.
  Qed.

  Theorem stream_restores : forall fixed k data off bs s,
      stream_init fixed k data off bs = Some s ->
      (k = KFileStream \/ k = KMemStream) ->
      let s' := close (snd (iterate s)) in
      fpos (sobj s') = off /\ fclosed (sobj s') = false /\ fdata (sobj s') = data.
  Proof.
    intros fixed k data off bs s Hinit Hk.
    destruct (stream_init_inv _ _ _ _ _ _ Hinit) as (Hd & Hcl & _ & Hstream).
    destruct (Hstream Hk) as [Hsp _].
    destruct (iterate_sobj s) as (Hd' & Hcl' & Hsp' & _).
    cbv zeta. unfold close. cbn [sobj].
    rewrite Hsp', Hsp. unfold f_seek. rewrite Hcl', Hcl. cbn [fpos fclosed fdata].
    rewrite Hd', Hd. auto.
  Qed.

  (* Already after the (exhausted) iteration the caller's offset is back. *)
  Theorem iterate_restores : forall fixed k data off bs s,
      stream_init fixed k data off bs = Some s ->
      (k = KFileStream \/ k = KMemStream) ->
      fpos (sobj (snd (iterate s))) = off.
  Proof.
    intros fixed k data off bs s Hinit Hk.
    destruct (stream_init_inv _ _ _ _ _ _ Hinit) as (_ & Hcl & _ & Hstream).
    destruct (Hstream Hk) as [Hsp _].
    destruct (iterate_sobj s) as (_ & _ & _ & Hpos).
    apply Hpos; assumption.
  Qed.

  Theorem stream_closes_own : forall fixed k data off bs s,
      stream_init fixed k data off bs = Some s ->
      (k = KPathStr \/ k = KPath) ->
      fclosed (sobj (close (snd (iterate s)))) = true.
  Proof.
    intros fixed k data off bs s Hinit Hk.
    destruct (stream_init_inv _ _ _ _ _ _ Hinit) as (_ & _ & Hpath & _).
    destruct (iterate_sobj s) as (_ & _ & Hsp' & _).
    unfold close. cbn [sobj]. rewrite Hsp', (Hpath Hk). reflexivity.
  Qed.

  Theorem stream_init_accepts_fixed : forall k data off bs,
      stream_init true k data off bs <> None.
  Proof. intros [] data off bs; discriminate. Qed.

  (* Today's code: EVERY in-memory stream is rejected (AttributeError, D6). *)
  Theorem stream_init_today_raises : forall data off bs,
      stream_init false KMemStream data off bs = None.
  Proof. reflexivity. Qed.

  Theorem stream_init_today_refuted : exists data off bs,
      stream_init false KMemStream data off bs = None.
  Proof. exists [], 0, 0. reflexivity. Qed.

  (* ------------------------------------------------------------------ *)
  (* 7-9  The consumer: temp-file writer + incremental hashing           *)
  (* ------------------------------------------------------------------ *)

  Variable hstate : Type.
  Variable hinit : hstate.
  Variable hupdate : hstate -> bytes -> hstate.

  (* Assumptions about hashlib (trusted base). *)
  Hypothesis hupdate_app : forall h x y, hupdate (hupdate h x) y = hupdate h (x ++ y).
  Hypothesis hupdate_nil : forall h, hupdate h [] = h.

  (* for data in stream: tmp_file.write(data); h.update(data) *)
  Definition consume (chunks : list bytes) : bytes * hstate :=
    fold_left (fun '(t, h) c => (t ++ c, hupdate h c)) chunks ([], hinit).

  Lemma consume_gen : forall chunks t h,
      fold_left (fun '(t, h) c => (t ++ c, hupdate h c)) chunks (t, h)
      = (t ++ concat chunks, hupdate h (concat chunks)).
  Proof.
    induction chunks as [|c cs IH]; intros t h.
    - cbn. now rewrite app_nil_r, hupdate_nil.
    - cbn [fold_left concat]. rewrite IH, hupdate_app, app_assoc. reflexivity.
  Qed.

  Lemma consume_concat : forall chunks,
      consume chunks = (concat chunks, hupdate hinit (concat chunks)).
  Proof. intros chunks. unfold consume. now rewrite consume_gen. Qed.

  Theorem consume_correct : forall bs data,
      0 < bs -> consume (stream_chunks bs data) = (data, hupdate hinit data).
  Proof.
    intros bs data Hbs. rewrite consume_concat, chunks_concat by exact Hbs.
    reflexivity.
  Qed.

  (* os.path.getsize(tmp.name) *)
  Corollary consume_size : forall bs data,
      0 < bs -> length (fst (consume (stream_chunks bs data))) = length data.
  Proof. intros bs data Hbs. now rewrite consume_correct. Qed.

  (* With st_blksize = 0 an EMPTY object (and the digest of b"") is stored,
     whatever the content. *)
  Theorem consume_bs0 : forall data,
      consume (stream_chunks 0 data) = ([], hinit).
  Proof. intros data. rewrite chunks_bs0. reflexivity. Qed.

  Theorem store_cid_size : forall fixed k data off bs s,
      stream_init fixed k data off bs = Some s ->
      0 < sbuf s ->
      consume (fst (iterate s)) = (data, hupdate hinit data).
  Proof.
    intros fixed k data off bs s Hinit Hbuf.
    destruct (stream_init_inv _ _ _ _ _ _ Hinit) as (Hd & Hcl & _ & _).
    rewrite iterate_ignores_offset by exact Hcl.
    rewrite Hd. apply consume_correct. exact Hbuf.
  Qed.

  Lemma default_bufsize_pos : 0 < default_bufsize.
  Proof. unfold default_bufsize. apply Nat.ltb_lt. vm_compute. reflexivity. Qed.

  (* Same, with the premise on the INPUT (st_blksize) instead of on sbuf:
     the 8192 fallback is always positive. *)
  Corollary store_cid_size_blk : forall fixed k data off bs s,
      stream_init fixed k data off bs = Some s ->
      0 < bs ->
      consume (fst (iterate s)) = (data, hupdate hinit data).
  Proof.
    intros fixed k data off bs s Hinit Hbs.
    apply (store_cid_size _ _ _ _ _ _ Hinit).
    destruct k; cbn [stream_init] in Hinit;
      try (destruct fixed; [|discriminate Hinit]);
      injection Hinit as Hs; subst s; cbn [sbuf];
      first [exact Hbs | exact default_bufsize_pos].
  Qed.

  (* A list of hash objects fed in lock-step:
       for h in hash_algorithms: h.update(data)                         *)
  Theorem consume_many : forall (hs : list hstate) (chunks : list bytes),
      fold_left (fun hs c => map (fun h => hupdate h c) hs) chunks hs
      = map (fun h => hupdate h (concat chunks)) hs.
  Proof.
    intros hs chunks. revert hs.
    induction chunks as [|c cs IH]; intros hs.
    - cbn. rewrite <- (map_id hs) at 1. apply map_ext. intros h. now rewrite hupdate_nil.
    - cbn [fold_left concat]. rewrite IH, map_map.
      apply map_ext. intros h. apply hupdate_app.
  Qed.

  Corollary consume_many_stream : forall (hs : list hstate) bs data,
      0 < bs ->
      fold_left (fun hs c => map (fun h => hupdate h c) hs) (stream_chunks bs data) hs
      = map (fun h => hupdate h data) hs.
  Proof.
    intros hs bs data Hbs. rewrite consume_many, chunks_concat by exact Hbs.
    reflexivity.
  Qed.

End Stream.

(* ==================================================================== *)
(* Instantiation: byte := nat, toy hash = concatenation                  *)
(* ==================================================================== *)

Arguments fdata {byte}. Arguments fpos {byte}. Arguments fclosed {byte}.
Arguments sobj {byte}. Arguments spos {byte}. Arguments sbuf {byte}.
Arguments f_read {byte}. Arguments f_seek {byte}. Arguments f_close {byte}.
Arguments f_open {byte}.
Arguments stream_init {byte}. Arguments read_loop {byte}.
Arguments read_loop_ended {byte}. Arguments stream_chunks {byte}.
Arguments iterate {byte}. Arguments close {byte}.
Arguments consume {byte hstate}.

Definition toy_hstate := list nat.
Definition toy_hinit : toy_hstate := [].
Definition toy_hupdate (h : toy_hstate) (x : list nat) : toy_hstate := h ++ x.

Lemma toy_hupdate_app : forall h x y,
    toy_hupdate (toy_hupdate h x) y = toy_hupdate h (x ++ y).
Proof. intros h x y. unfold toy_hupdate. now rewrite app_assoc. Qed.

Lemma toy_hupdate_nil : forall h, toy_hupdate h [] = h.
Proof. intros h. unfold toy_hupdate. apply app_nil_r. Qed.

Definition toy_consume := consume toy_hinit toy_hupdate.

(* The general theorem specialised to the toy hash: hypotheses discharged. *)
Lemma toy_consume_correct : forall bs data,
    0 < bs -> toy_consume (stream_chunks bs data) = (data, data).
Proof.
  intros bs data Hbs. unfold toy_consume.
  rewrite (@consume_correct nat toy_hstate toy_hinit toy_hupdate
             toy_hupdate_app toy_hupdate_nil bs data Hbs).
  reflexivity.
Qed.

(* bs = 4; sizes 0, 1, bs-1, bs, bs+1, 2*bs+3 *)
Example ex_size0 : stream_chunks 4 (@nil nat) = [].
Proof. vm_compute. reflexivity. Qed.
Example ex_size1 : stream_chunks 4 (seq 1 1) = [[1]].
Proof. vm_compute. reflexivity. Qed.
Example ex_size3 : stream_chunks 4 (seq 1 3) = [[1;2;3]].
Proof. vm_compute. reflexivity. Qed.
Example ex_size4 : stream_chunks 4 (seq 1 4) = [[1;2;3;4]].
Proof. vm_compute. reflexivity. Qed.
Example ex_size5 : stream_chunks 4 (seq 1 5) = [[1;2;3;4];[5]].
Proof. vm_compute. reflexivity. Qed.
Example ex_size11 : stream_chunks 4 (seq 1 11) = [[1;2;3;4];[5;6;7;8];[9;10;11]].
Proof. vm_compute. reflexivity. Qed.

Example ex_count :
  map (fun n => length (stream_chunks 4 (seq 1 n))) [0;1;3;4;5;11] = [0;1;1;1;2;3]
  /\ map (fun n => (n + 4 - 1) / 4) [0;1;3;4;5;11] = [0;1;1;1;2;3].
Proof. vm_compute. split; reflexivity. Qed.

Example ex_consume :
  map (fun n => toy_consume (stream_chunks 4 (seq 1 n))) [0;1;3;4;5;11]
  = map (fun n => (seq 1 n, seq 1 n)) [0;1;3;4;5;11].
Proof. vm_compute. reflexivity. Qed.

(* Every fuel-bounded run above ended by an empty read. *)
Example ex_fuel :
  forallb (fun n => read_loop_ended (S n) 4 (f_seek 0 (f_open (seq 1 n)))) [0;1;3;4;5;11]
  = true.
Proof. vm_compute. reflexivity. Qed.

(* st_blksize = 0: the content is lost, an empty object is stored. *)
Example chunks_bs0_loses_data :
  stream_chunks 0 [1;2;3] = []
  /\ toy_consume (stream_chunks 0 [1;2;3]) = ([], [])
  /\ toy_consume (stream_chunks 0 [1;2;3]) <> ([1;2;3], [1;2;3]).
Proof. vm_compute. repeat split; discriminate. Qed.

(* A caller-supplied file stream positioned at offset 3: everything from
   offset 0 is read, and the offset is back at 3 afterwards, still open. *)
Example ex_filestream_offset3 :
  match stream_init false KFileStream (seq 1 11) 3 4 with
  | None => False
  | Some s =>
      let (cs, s1) := iterate s in
      let s2 := close s1 in
      cs = [[1;2;3;4];[5;6;7;8];[9;10;11]]
      /\ fpos (sobj s1) = 3
      /\ fpos (sobj s2) = 3 /\ fclosed (sobj s2) = false /\ fdata (sobj s2) = seq 1 11
      /\ toy_consume cs = (seq 1 11, seq 1 11)
  end.
Proof. vm_compute. repeat split; reflexivity. Qed.

(* An offset beyond EOF is legal and restored too. *)
Example ex_filestream_offset_beyond_eof :
  match stream_init false KFileStream (seq 1 5) 9 4 with
  | None => False
  | Some s =>
      let (cs, s1) := iterate s in
      cs = [[1;2;3;4];[5]] /\ fpos (sobj (close s1)) = 9
  end.
Proof. vm_compute. split; reflexivity. Qed.

(* A path: we opened it, so close() closes it. *)
Example ex_path_closed :
  match stream_init false KPath (seq 1 5) 0 4 with
  | None => False
  | Some s => fclosed (sobj (close (snd (iterate s)))) = true
  end.
Proof. vm_compute. reflexivity. Qed.

(* In-memory stream: raises today (D6), accepted with buffer 8192 when fixed. *)
Example ex_memstream_today : stream_init false KMemStream (seq 1 5) 2 4 = None.
Proof. reflexivity. Qed.

Example ex_memstream_fixed :
  match stream_init true KMemStream (seq 1 5) 2 4 with
  | None => False
  | Some s =>
      N.of_nat (sbuf s) = 8192%N
      /\ fst (iterate s) = [[1;2;3;4;5]]
      /\ fpos (sobj (close (snd (iterate s)))) = 2
  end.
Proof. vm_compute. repeat split; reflexivity. Qed.

(* Why iterate_ignores_offset needs an open object: on a closed object
   (ValueError in Python) the model yields nothing. *)
Example iterate_closed_counterexample :
  let s := {| sobj := {| fdata := [1;2;3]; fpos := 0; fclosed := true |};
              spos := Some 0; sbuf := 4 |} in
  fst (iterate s) = [] /\ stream_chunks (sbuf s) (fdata (sobj s)) = [[1;2;3]].
Proof. vm_compute. split; reflexivity. Qed.

(* Lock-step hashers with different initial states. *)
Example ex_many :
  fold_left (fun hs c => map (fun h => toy_hupdate h c) hs)
            (stream_chunks 4 (seq 1 6)) [[]; [100]]
  = [seq 1 6; 100 :: seq 1 6].
Proof. vm_compute. reflexivity. Qed.

Print Assumptions chunks_concat.
Print Assumptions chunks_bounds.
Print Assumptions chunks_count.
Print Assumptions chunks_count_bounds.
Print Assumptions chunks_all_full_but_last.
Print Assumptions chunks_bs0.
Print Assumptions chunks_bs0_loses_data.
Print Assumptions read_loop_fuel_ok.
Print Assumptions read_loop_fuel_irrelevant.
Print Assumptions read_loop_concat.
Print Assumptions iterate_ignores_offset.
Print Assumptions stream_restores.
Print Assumptions iterate_restores.
Print Assumptions stream_closes_own.
Print Assumptions consume_correct.
Print Assumptions consume_size.
Print Assumptions consume_bs0.
Print Assumptions store_cid_size.
Print Assumptions store_cid_size_blk.
Print Assumptions stream_init_accepts_fixed.
Print Assumptions stream_init_today_raises.
Print Assumptions stream_init_today_refuted.
Print Assumptions consume_many.
Print Assumptions consume_many_stream.
Print Assumptions toy_consume_correct.
