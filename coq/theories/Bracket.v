(* Bracket.v — property C08, the general theorem: lock discipline of every API program, for every
   well-typed answer (hence every value read, every interleaving, every fault plan), and its
   consequence for pools of any size under any schedule: no deadlock, every call returns, no lock
   is left behind.

   Structure
     §1  local state of a thread (held locks; knowledge about the content of its own temp files
         in refs/tmp, needed to show that what is renamed onto a reference file has reference
         content), the obligations [pre] an operation must meet, the admissible answers [ans_ok]
     §2  [Br]: the discipline predicate over programs (a weakest precondition over ALL
         admissible answers; [Bad] is forbidden), with the rules for bind / mbind / catch /
         try_finally and the three bracket shapes
     §3  every API program is bracketed: [api_bracketed] (all calls, CDeleteUnfixed included)
     §4  soundness of one operation against the real [exec_op]: [exec_op_sound]
     §5  pools: steps with faults, the global invariant, preservation, stuck => finished
     §6  the theorems: [no_deadlock_no_leak], [no_deadlock_fault_free], [progress],
         [afterwards_every_call_returns], [gstep_terminates], [runs_to_completion]

   The lock order is LObjPid < LRefPid < LCid < LMeta = LFile (LMeta and LFile are never nested).
   A thread only ever waits for a lock ranked strictly above everything it holds; the holder of
   that lock has not returned (a returned call holds nothing), so in a configuration that cannot
   move it waits, too, for a lock ranked strictly higher; ranks are bounded: contradiction.

   What is excluded, and why
     * A failure of flock itself ([Acquire LFile _] answered [AErr EFault]) is NOT among the
       faults of this theorem: the model's [Release LFile] is not owner-aware, so a failed flock
       followed by the unconditional close ([funlock]) would release the flock of ANOTHER
       thread.  That case is covered by the C13 menu sweep only.  Every other fault site of
       [Sched.is_site] may fail at any time, any number of times, in any thread.
     * The start world must be typed as far as the programs rely on it ([refs_typed]: a pid
       reference holds a cid, a cid reference holds lines).  Without it a program receives an
       ill-typed answer and stops at [Bad], which [Sched.finished] counts as "not returned";
       see props/C08.v for the concrete witness.  [Spec.well_typed] (part of the invariant
       C05) implies [refs_typed], and [refs_typed] is preserved by every step, so it holds again
       afterwards. *)
From HS Require Import Base PyVal FS Ops Sched Spec.

Set Implicit Arguments.

(* ====================================================================================== *)
(* §1  local state, obligations, admissible answers                                        *)
(* ====================================================================================== *)

Inductive kind := KCid | KLines.

Definition has_kind (c : fcontent) (k : kind) : Prop :=
  match k, c with
  | KCid, CCid _ => True
  | KLines, CLines _ => True
  | KLines, CEmpty => True
  | _, _ => False
  end.

Definition kind_of (c : fcontent) : option kind :=
  match c with
  | CCid _ => Some KCid
  | CLines _ | CEmpty => Some KLines
  | CData _ _ _ => None
  end.

Lemma kind_of_has : forall c k, kind_of c = Some k -> has_kind c k.
Proof. destruct c; simpl; intros k H; inversion H; subst; exact I. Qed.

(* what a thread knows about the content of its own temp files in refs/tmp *)
Definition knowl := list (addr * kind).

(* the lock order.  LFile and LMeta are never nested, they share the top rank. *)
Definition rank (c : lockcls) : nat :=
  match c with LObjPid => 0 | LRefPid => 1 | LCid => 2 | LMeta => 3 | LFile => 3 end.

Lemma rank_le_3 : forall c, rank c <= 3.
Proof. destruct c; simpl; lia. Qed.

Definition lt_all (R : nat) (h : list lock) : Prop := forall l, In l h -> rank (fst l) < R.

Lemma lt_all_nil : forall R, lt_all R [].
Proof. intros R l []. Qed.
Lemma lt_all_cons : forall R cls x h, rank cls < R -> lt_all R h -> lt_all R ((cls, x) :: h).
Proof. intros R cls x h H1 H2 l [<-|H]; simpl; auto. Qed.
Lemma lt_all_mono : forall R R' h, R <= R' -> lt_all R h -> lt_all R' h.
Proof. intros R R' h H1 H2 l Hl. specialize (H2 l Hl). lia. Qed.

(* [mine i a]: a is not a temp file of another thread *)
Definition mine (i : nat) (a : addr) : Prop :=
  match a with ATmp _ t _ => t = i | _ => True end.
Definition nontmp (a : addr) : Prop :=
  match a with ATmp _ _ _ => False | _ => True end.

Lemma nontmp_mine : forall i a, nontmp a -> mine i a.
Proof. destruct a; simpl; tauto. Qed.

Definition kdrop (a : addr) (kn : knowl) : knowl :=
  match a with
  | ATmp ArRefs _ _ => filter (fun e => negb (addr_eqb a (fst e))) kn
  | _ => kn
  end.

Definition kset (a : addr) (c : fcontent) (kn : knowl) : knowl :=
  match a with
  | ATmp ArRefs _ _ =>
      match kind_of c with Some k => (a, k) :: kdrop a kn | None => kdrop a kn end
  | _ => kn
  end.

Lemma kdrop_nontmp : forall a kn, nontmp a -> kdrop a kn = kn.
Proof. destruct a; simpl; tauto. Qed.

Lemma kdrop_In : forall a b k kn, In (b, k) (kdrop a kn) -> In (b, k) kn.
Proof.
  intros a b k kn H. unfold kdrop in H. destruct a; auto. destruct ar; auto.
  apply filter_In in H. tauto.
Qed.

Lemma filter_absent : forall (a : addr) (kn : knowl), (forall k, ~ In (a, k) kn) ->
  filter (fun e => negb (addr_eqb a (fst e))) kn = kn.
Proof.
  intros a kn H.
  induction kn as [|[b k] kn IH]; cbn [filter fst]; auto.
  destruct (addr_eqb a b) eqn:E.
  - apply addr_eqb_true in E. subst b. exfalso. apply (H k). left. reflexivity.
  - cbn [negb]. f_equal. apply IH. intros k' Hk'. apply (H k'). right. exact Hk'.
Qed.

Lemma kdrop_absent : forall a kn, (forall k, ~ In (a, k) kn) -> kdrop a kn = kn.
Proof.
  intros a kn H. unfold kdrop. destruct a; auto. destruct ar; auto.
  apply filter_absent. exact H.
Qed.

Lemma kdrop_In_neq : forall n t b k kn, In (b, k) (kdrop (ATmp ArRefs t n) kn) -> b <> ATmp ArRefs t n.
Proof.
  intros n t b k kn H. unfold kdrop in H. apply filter_In in H. destruct H as [_ H].
  cbn [fst] in H. intros ->. rewrite addr_eqb_refl in H. discriminate.
Qed.

Lemma kdrop_In_keep : forall a b k kn, In (b, k) kn -> b <> a -> In (b, k) (kdrop a kn).
Proof.
  intros a b k kn H Hne. unfold kdrop. destruct a; auto. destruct ar; auto.
  apply filter_In. split; auto. cbn [fst].
  destruct (addr_eqb (ATmp ArRefs t n) b) eqn:E; auto. apply addr_eqb_true in E. congruence.
Qed.

(* obligations of thread i, holding h and knowing kn, when it issues o *)
Definition pre (i : nat) (h : list lock) (kn : knowl) (o : op) : Prop :=
  match o with
  | Acquire cls _ => lt_all (rank cls) h
  | Release cls x => In (cls, x) h
  | WriteChunk a | Remove a | AppendWrite a _ | RewriteWrite a _ | Truncate a _ => mine i a
  | OpenWr a _ => exists ar n, a = ATmp ar i n
  | Rename s d =>
      mine i s /\
      match d with
      | APidRef _ => In (s, KCid) kn
      | ACidRef _ => In (s, KLines) kn
      | ATmp _ _ _ => False
      | _ => True
      end
  | AppendOpen a => match a with ACidRef _ => True | _ => False end
  | _ => True
  end.

Definition unit_or_err (a : ans) : Prop := match a with AUnit | AErr _ => True | _ => False end.

(* the answers thread i may receive for o: the type the wrapper expects, an error wherever an
   error can be delivered (every fault site except flock), a reference file read yields
   reference content, a fresh temp file is the thread's own and new *)
Definition ans_ok (i : nat) (kn : knowl) (o : op) (a : ans) : Prop :=
  match o with
  | Probe _ | Peek _ _ | Held _ _ => match a with ABool _ => True | _ => False end
  | SizeLines _ | RewriteWrite _ _ => match a with ANat _ | AErr _ => True | _ => False end
  | Read x =>
      match a with
      | AErr _ => True
      | ACont c => match x with
                   | APidRef _ => has_kind c KCid
                   | ACidRef _ => has_kind c KLines
                   | _ => True
                   end
      | _ => False
      end
  | MkTmp ar _ =>
      match a with
      | AErr _ => True
      | AAddr t => (exists n, t = ATmp ar i n) /\ forall k, ~ In (t, k) kn
      | _ => False
      end
  | ListDir _ => match a with AErr _ => True | AList l => Forall nontmp l | _ => False end
  | Acquire _ _ | Release _ _ => a = AUnit
  | _ => unit_or_err a
  end.

Definition next_h (h : list lock) (o : op) : list lock :=
  match o with
  | Acquire cls x => (cls, x) :: h
  | Release cls x => remove1 lock_eqb (cls, x) h
  | _ => h
  end.

Definition next_k (kn : knowl) (o : op) (a : ans) : knowl :=
  match o with
  | OpenWr t c => match a with AUnit => kset t c kn | _ => kn end
  | Rename s _ => kdrop s kn
  | Remove s => kdrop s kn
  | _ => kn
  end.

(* the faults of the general theorem: every site except flock *)
Definition faultable (o : op) : bool :=
  is_site o && negb (match o with Acquire LFile _ => true | _ => false end).

Lemma faultable_ans_ok : forall i kn o, faultable o = true -> ans_ok i kn o (AErr EFault).
Proof.
  intros i kn o H. destruct o; simpl in *; try discriminate; try exact I.
  destruct cls; discriminate.
Qed.

(* ====================================================================================== *)
(* §2  the discipline predicate                                                            *)
(* ====================================================================================== *)

Fixpoint Br {A} (i : nat) (m : prog A) (h : list lock) (kn : knowl)
         (Q : A -> list lock -> knowl -> Prop) : Prop :=
  match m with
  | Ret a => Q a h kn
  | Bad => False
  | Vis o k => pre i h kn o /\ forall a, ans_ok i kn o a -> Br i (k a) (next_h h o) (next_k kn o a) Q
  end.

Lemma Br_mono : forall A i (m : prog A) h kn (Q Q' : A -> list lock -> knowl -> Prop),
  Br i m h kn Q -> (forall a h' kn', Q a h' kn' -> Q' a h' kn') -> Br i m h kn Q'.
Proof.
  induction m as [a|o k IH|]; simpl; intros h kn Q Q' H HQ; auto.
  destruct H as [Hp H]. split; auto. intros a Ha. eapply IH; eauto.
Qed.

Lemma Br_bind : forall A B i (m : prog A) (f : A -> prog B) h kn Q,
  Br i m h kn (fun a h' kn' => Br i (f a) h' kn' Q) -> Br i (bind m f) h kn Q.
Proof.
  induction m as [a|o k IH|]; simpl; intros f h kn Q H; auto.
  destruct H as [Hp H]. split; auto.
Qed.

Lemma Br_mbind : forall A B i (m : M A) (f : A -> M B) h kn Q,
  Br i m h kn (fun r h' kn' => match r with Val a => Br i (f a) h' kn' Q | Exn e => Q (Exn e) h' kn' end) ->
  Br i (mbind m f) h kn Q.
Proof.
  intros. unfold mbind. apply Br_bind. eapply Br_mono; [exact H|].
  intros [a|e] h' kn' H'; simpl; auto.
Qed.

Lemma Br_catch : forall A i (m : M A) h kn (Q : outcome (outcome A) -> _),
  Br i m h kn (fun r h' kn' => Q (Val r) h' kn') -> Br i (catch m) h kn Q.
Proof. intros. unfold catch. apply Br_bind. eapply Br_mono; [exact H|]. simpl. auto. Qed.

Lemma Br_try_finally : forall A i (m : M A) (fin : M unit) h kn Q,
  Br i m h kn (fun r h' kn' =>
    Br i fin h' kn' (fun rf h'' kn'' => match rf with Val _ => Q r h'' kn'' | Exn e => Q (Exn e) h'' kn'' end)) ->
  Br i (try_finally m fin) h kn Q.
Proof.
  intros. unfold try_finally. apply Br_bind. eapply Br_mono; [exact H|].
  intros r h' kn' H'. simpl. apply Br_bind. eapply Br_mono; [exact H'|].
  intros [u|e] h'' kn'' H''; simpl; auto.
Qed.

(* [Bal kp i R m P]: started with locks of rank < R only, m returns with exactly the same locks
   (and, when kp = true, the same knowledge), and a returned value satisfies P *)
Definition Bal {A} (kp : bool) (i R : nat) (m : M A) (P : A -> Prop) : Prop :=
  forall h kn, lt_all R h ->
    Br i m h kn (fun r h' kn' => h' = h /\ (kp = true -> kn' = kn) /\ forall a, r = Val a -> P a).

Definition TT {A} : A -> Prop := fun _ => True.

Lemma Bal_forget : forall A kp i R (m : M A) P, Bal true i R m P -> Bal kp i R m P.
Proof.
  intros A kp i R m P H h kn Hh. eapply Br_mono; [apply H; exact Hh|]. simpl.
  intros r h' kn' (H1 & H2 & H3). repeat split; auto.
Qed.

Lemma Bal_weaken : forall A kp i R R' (m : M A) P, Bal kp i R m P -> R' <= R -> Bal kp i R' m P.
Proof. intros A kp i R R' m P H Hle h kn Hh. apply H. eapply lt_all_mono; eauto. Qed.

Lemma Bal_conseq : forall A kp i R (m : M A) (P P' : A -> Prop),
  Bal kp i R m P -> (forall a, P a -> P' a) -> Bal kp i R m P'.
Proof.
  intros A kp i R m P P' H HP h kn Hh. eapply Br_mono; [apply H; exact Hh|].
  simpl. intros r h' kn' (H1 & H2 & H3). repeat split; auto.
Qed.

Lemma Bal_TT : forall A kp i R (m : M A) P, Bal kp i R m P -> Bal kp i R m TT.
Proof. intros. eapply Bal_conseq; eauto. intros; exact I. Qed.

Lemma Bal_ret : forall A kp i R (a : A) (P : A -> Prop), P a -> Bal kp i R (ret a) P.
Proof. intros A kp i R a P H h kn _. simpl. repeat split; auto. intros a' E. inversion E; subst; auto. Qed.

Lemma Bal_raise : forall A kp i R e (P : A -> Prop), Bal kp i R (raise e) P.
Proof. intros A kp i R e P h kn _. simpl. repeat split; auto. intros a' E. discriminate. Qed.

Lemma Bal_mbind : forall A B kp i R (m : M A) (f : A -> M B) P1 P,
  Bal kp i R m P1 -> (forall a, P1 a -> Bal kp i R (f a) P) -> Bal kp i R (mbind m f) P.
Proof.
  intros A B kp i R m f P1 P Hm Hf h kn Hh. apply Br_mbind.
  eapply Br_mono; [apply Hm; exact Hh|]. simpl.
  intros [a|e] h' kn' (-> & H2 & H3).
  - eapply Br_mono; [apply Hf; auto|]. simpl.
    intros r h'' kn'' (-> & H2' & H3'). repeat split; auto.
    intros Hk. rewrite (H2' Hk). auto.
  - repeat split; auto. intros a E; discriminate.
Qed.

Lemma Bal_catch : forall A kp i R (m : M A) P,
  Bal kp i R m P -> Bal kp i R (catch m) (fun r => match r with Val a => P a | Exn _ => True end).
Proof.
  intros A kp i R m P Hm h kn Hh. apply Br_catch.
  eapply Br_mono; [apply Hm; exact Hh|]. simpl.
  intros r h' kn' (-> & H2 & H3). repeat split; auto.
  intros a E. inversion E; subst. destruct a; auto.
Qed.

Lemma Bal_catch_TT : forall A kp i R (m : M A),
  Bal kp i R m TT -> Bal kp i R (catch m) TT.
Proof. intros. eapply Bal_TT. apply Bal_catch. eassumption. Qed.

Lemma Bal_try_finally : forall A kp i R (m : M A) fin P Pf,
  Bal kp i R m P -> Bal kp i R fin Pf -> Bal kp i R (try_finally m fin) P.
Proof.
  intros A kp i R m fin P Pf Hm Hf h kn Hh. apply Br_try_finally.
  eapply Br_mono; [apply Hm; exact Hh|]. simpl.
  intros r h' kn' (-> & H2 & H3).
  eapply Br_mono; [apply Hf; exact Hh|]. simpl.
  intros [u|e] h' kn'' (-> & H2' & _); repeat split; auto;
    try (intros Hk; rewrite (H2' Hk); auto).
  intros a E; discriminate.
Qed.

(* one operation that changes neither the locks nor the knowledge: the generic leaf rule *)
Lemma Bal_vis : forall A kp i R o (k : ans -> M A) (P : A -> Prop),
  (forall h kn, lt_all R h -> pre i h kn o) ->
  (forall h, next_h h o = h) ->
  (forall kn a, ans_ok i kn o a -> next_k kn o a = kn) ->
  (forall kn a, ans_ok i kn o a -> Bal kp i R (k a) P) ->
  Bal kp i R (Vis o k) P.
Proof.
  intros A kp i R o k P Hpre Hh Hk Hc h kn Hlt. simpl. split; [auto|].
  intros a Ha. rewrite Hh, (Hk _ _ Ha). eapply Hc; eauto.
Qed.

(* the bracket shapes *)
Lemma remove1_head : forall (l : lock) h, remove1 lock_eqb l (l :: h) = h.
Proof. intros. simpl. rewrite lock_eqb_refl. reflexivity. Qed.

Lemma Bal_bracket_in : forall A kp i R cls x (body : M A) P,
  R <= rank cls -> Bal kp i (S (rank cls)) body P ->
  Bal kp i R (try_finally (acquire cls x ;;; body) (release cls x)) P.
Proof.
  intros A kp i R cls x body P HR Hb h kn Hh. apply Br_try_finally. apply Br_mbind.
  simpl. split; [eapply lt_all_mono; eauto|].
  intros a ->. simpl.
  eapply Br_mono; [apply Hb; apply lt_all_cons; [lia | eapply lt_all_mono; [|exact Hh]; lia]|].
  simpl. intros r h' kn' (-> & H2 & H3).
  assert (Hrel : forall r' : outcome A, (forall a, r' = Val a -> P a) ->
            Br i (release cls x) ((cls, x) :: h) kn'
            (fun rf h'' kn'' => match rf with
                                | Val _ => h'' = h /\ (kp = true -> kn'' = kn) /\ (forall a, r' = Val a -> P a)
                                | Exn e => h'' = h /\ (kp = true -> kn'' = kn) /\ (forall a : A, Exn e = Val a -> P a)
                                end)).
  { intros r' Hr'. simpl. split; [left; reflexivity|]. intros a ->. simpl. rewrite lock_eqb_refl. auto. }
  destruct r; apply Hrel; auto; intros a E; discriminate.
Qed.

(* two locks taken in rank order, released in the reverse order by one finaliser *)
Lemma Bal_bracket_in2 : forall A kp i R c1 x1 c2 x2 (body : M A) P,
  R <= rank c1 -> rank c1 < rank c2 -> Bal kp i (S (rank c2)) body P ->
  Bal kp i R (try_finally (acquire c1 x1 ;;; acquire c2 x2 ;;; body)
                          (release c2 x2 ;;; release c1 x1)) P.
Proof.
  intros A kp i R c1 x1 c2 x2 body P HR H12 Hb h kn Hh. apply Br_try_finally. apply Br_mbind.
  cbn [acquire Br]. split; [simpl; eapply lt_all_mono; eauto|].
  intros a ->. cbn [Br ret next_h next_k]. apply Br_mbind. cbn [acquire Br].
  split; [simpl; apply lt_all_cons; [exact H12 | eapply lt_all_mono; [|exact Hh]; lia]|].
  intros a ->. cbn [Br ret next_h next_k].
  eapply Br_mono.
  { apply Hb. apply lt_all_cons; [lia|]. apply lt_all_cons; [lia|].
    eapply lt_all_mono; [|exact Hh]. lia. }
  cbn beta. intros r h' kn' (-> & H2 & H3).
  apply Br_mbind. cbn [release Br]. split; [left; reflexivity|].
  intros a ->. cbn [Br ret next_h next_k]. rewrite remove1_head.
  split; [left; reflexivity|].
  intros a ->. cbn [Br ret next_h next_k]. rewrite remove1_head.
  destruct r; repeat split; auto; intros a E; discriminate.
Qed.

Lemma Bal_bracket_out : forall A kp i R cls x (body : M A) P,
  R <= rank cls -> Bal kp i (S (rank cls)) body P ->
  Bal kp i R (acquire cls x ;;; try_finally body (release cls x)) P.
Proof.
  intros A kp i R cls x body P HR Hb h kn Hh. apply Br_mbind.
  simpl. split; [eapply lt_all_mono; eauto|].
  intros a ->. simpl. apply Br_try_finally.
  eapply Br_mono; [apply Hb; apply lt_all_cons; [lia | eapply lt_all_mono; [|exact Hh]; lia]|].
  simpl. intros r h' kn' (-> & H2 & H3).
  split; [left; reflexivity|]. intros a ->. simpl. rewrite lock_eqb_refl. auto.
Qed.

(* flock ... close *)
Lemma Bal_bracket_file : forall A kp i R a (body : M A) P,
  R <= 3 -> Bal kp i 4 body P ->
  Bal kp i R (try_finally (unit_op (Acquire LFile (IDoc a)) ;;; body) (funlock a)) P.
Proof.
  intros A kp i R a body P HR Hb h kn Hh. apply Br_try_finally. apply Br_mbind.
  simpl. split; [eapply lt_all_mono; eauto|].
  intros x ->. simpl.
  eapply Br_mono; [apply Hb; apply lt_all_cons; [simpl; lia | eapply lt_all_mono; [|exact Hh]; lia]|].
  simpl. intros r h' kn' (-> & H2 & H3).
  split; [left; reflexivity|]. intros x ->. cbn [next_h next_k]. rewrite remove1_head. simpl.
  destruct r; repeat split; auto.
Qed.

(* ====================================================================================== *)
(* §3  every API program is bracketed                                                      *)
(* ====================================================================================== *)

Section API.
  Variable i : nat.

  Local Ltac leaf_ans :=
    let kn := fresh "kn" in let a := fresh "a" in let Ha := fresh "Ha" in
    intros kn a Ha; destruct a; simpl in Ha; try contradiction; try discriminate.

  Lemma Bal_probe : forall kp R a, Bal kp i R (probe a) TT.
  Proof.
    intros. apply Bal_vis; [intros; exact I | reflexivity | reflexivity |].
    leaf_ans. apply Bal_ret. exact I.
  Qed.

  Lemma Bal_peek : forall kp R cls x, Bal kp i R (peek cls x) TT.
  Proof.
    intros. apply Bal_vis; [intros; exact I | reflexivity | reflexivity |].
    leaf_ans. apply Bal_ret. exact I.
  Qed.

  Lemma Bal_held : forall kp R cls x, Bal kp i R (held cls x) TT.
  Proof.
    intros. apply Bal_vis; [intros; exact I | reflexivity | reflexivity |].
    leaf_ans. apply Bal_ret. exact I.
  Qed.

  Definition read_post (a : addr) (c : fcontent) : Prop :=
    match a with
    | APidRef _ => has_kind c KCid
    | ACidRef _ => has_kind c KLines
    | _ => True
    end.

  Lemma Bal_read : forall kp R a, Bal kp i R (read a) (read_post a).
  Proof.
    intros. apply Bal_vis; [intros; exact I | reflexivity | reflexivity |].
    leaf_ans; [apply Bal_ret; exact Ha | apply Bal_raise].
  Qed.

  Lemma Bal_size_lines : forall kp R a, Bal kp i R (size_lines a) TT.
  Proof.
    intros. apply Bal_vis; [intros; exact I | reflexivity | reflexivity |].
    leaf_ans; [apply Bal_ret; exact I | apply Bal_raise].
  Qed.

  Lemma Bal_listdir : forall kp R p, Bal kp i R (listdir p) (Forall nontmp).
  Proof.
    intros. apply Bal_vis; [intros; exact I | reflexivity | reflexivity |].
    leaf_ans; [apply Bal_ret; exact Ha | apply Bal_raise].
  Qed.

  Lemma Bal_rewrite_write : forall kp R a p, mine i a -> Bal kp i R (rewrite_write a p) TT.
  Proof.
    intros. apply Bal_vis; [intros; assumption | reflexivity | reflexivity |].
    leaf_ans; [apply Bal_ret; exact I | apply Bal_raise].
  Qed.

  Lemma Bal_unit_op : forall kp R o,
    (forall h kn, lt_all R h -> pre i h kn o) ->
    (forall h, next_h h o = h) ->
    (forall kn a, next_k kn o a = kn) ->
    (forall kn a, ans_ok i kn o a -> unit_or_err a) ->
    Bal kp i R (unit_op o) TT.
  Proof.
    intros kp R o H1 H2 H3 H4. apply Bal_vis; auto.
    intros kn a Ha. apply H4 in Ha. destruct a; simpl in Ha; try contradiction;
      [apply Bal_ret; exact I | apply Bal_raise].
  Qed.

  Lemma Bal_swallow_op : forall kp R o,
    (forall h kn, lt_all R h -> pre i h kn o) ->
    (forall h, next_h h o = h) ->
    (forall kn a, next_k kn o a = kn) ->
    (forall kn a, ans_ok i kn o a -> unit_or_err a) ->
    Bal kp i R (swallow_op o) TT.
  Proof.
    intros kp R o H1 H2 H3 H4. apply Bal_vis; auto.
    intros kn a Ha. apply H4 in Ha. destruct a; simpl in Ha; try contradiction;
      apply Bal_ret; exact I.
  Qed.

  (* a fresh temp file outside refs/tmp: the knowledge is not concerned *)
  Lemma Bal_mktmp_bind : forall A kp R ar init (f : addr -> M A) P,
    (forall n, Bal kp i R (f (ATmp ar i n)) P) ->
    Bal kp i R (mbind (mktmp ar init) f) P.
  Proof.
    intros A kp R ar init f P H h kn Hh. apply Br_mbind. simpl. split; [exact I|].
    intros a Ha. destruct a; simpl in Ha; try contradiction; simpl.
    - destruct Ha as [[n ->] _]. apply H. exact Hh.
    - repeat split; auto. intros x E; discriminate.
  Qed.
End API.

Global Hint Resolve Bal_probe Bal_peek Bal_held Bal_read Bal_size_lines Bal_listdir
  Bal_rewrite_write : bal.
Global Hint Extern 1 (nontmp _) => exact I : bal.
Global Hint Extern 1 (mine _ _) => first [exact I | reflexivity | apply nontmp_mine; assumption] : bal.
Global Hint Extern 1 (_ <= _) => simpl; lia : bal.

(* side conditions of a neutral operation *)
Ltac op_side :=
  first
    [ apply Bal_unit_op | apply Bal_swallow_op ];
  [ intros; simpl; auto with bal
  | reflexivity
  | intros; simpl; first [reflexivity | apply kdrop_nontmp; auto with bal]
  | let kn := fresh in let a := fresh in let H := fresh in
    intros kn a H; first [exact H | simpl in H; subst; exact I] ].

Ltac bal :=
  lazymatch goal with
  | |- Bal _ _ _ (ret _) _ =>
      apply Bal_ret; first [exact I | solve [repeat constructor; auto with bal] | auto with bal]
  | |- Bal _ _ _ (raise _) _ => apply Bal_raise
  | |- Bal _ _ _ (if ?b then _ else _) _ => destruct b; bal
  | |- Bal _ _ _ (match ?x with _ => _ end) _ => destruct x; bal
  | |- Bal _ _ _ (try_finally (mbind (unit_op (Acquire LFile (IDoc ?a))) _) (funlock ?a)) _ =>
      apply Bal_bracket_file; [auto with bal | bal]
  | |- Bal _ _ _ (try_finally (mbind (acquire ?c1 ?x1) (fun _ => mbind (acquire ?c2 ?x2) _))
                              (mbind (release ?c2 ?x2) (fun _ => release ?c1 ?x1))) _ =>
      apply Bal_bracket_in2; [auto with bal | simpl; lia | cbn [rank]; bal]
  | |- Bal _ _ _ (try_finally (mbind (acquire ?c ?x) _) (release ?c ?x)) _ =>
      apply Bal_bracket_in; [auto with bal | cbn [rank]; bal]
  | |- Bal _ _ _ (mbind (acquire ?c ?x) (fun _ => try_finally _ (release ?c ?x))) _ =>
      apply Bal_bracket_out; [auto with bal | cbn [rank]; bal]
  | |- Bal _ _ _ (mbind _ _) _ =>
      first [ eapply Bal_mbind; [solve [eauto 4 with bal] | intros ? ?; bal]
            | eapply Bal_mbind with (P1 := Forall nontmp); [bal | intros ? ?; bal]
            | eapply Bal_mbind with (P1 := TT); [bal | intros ? ?; bal] ]
  | |- Bal _ _ _ (catch _) _ => apply Bal_catch_TT; bal
  | |- Bal _ _ _ (try_finally _ _) _ => eapply Bal_try_finally; bal
  | |- Bal _ _ _ (unit_op _) _ => first [solve [op_side] | idtac]
  | |- Bal _ _ _ (swallow_op _) _ => first [solve [op_side] | idtac]
  | |- _ => first [solve [eauto 4 with bal] | solve [eapply Bal_TT; eauto 4 with bal] | idtac]
  end.

Section API2.
  Variable i : nat.

  Lemma Bal_read_cid : forall kp R p, Bal kp i R (read_cid (APidRef p)) TT.
  Proof.
    intros. unfold read_cid. eapply Bal_mbind; [apply Bal_read|].
    intros c Hc. destruct c; simpl in Hc; try contradiction. bal.
  Qed.

  Lemma Bal_read_lines : forall kp R c, Bal kp i R (read_lines (ACidRef c)) TT.
  Proof.
    intros. unfold read_lines. eapply Bal_mbind; [apply Bal_read|].
    intros x Hc. destruct x; simpl in Hc; try contradiction; bal.
  Qed.
  Hint Resolve Bal_read_cid Bal_read_lines : bal.

  Lemma Bal_is_in_refs : forall kp R p c, Bal kp i R (is_in_refs p (ACidRef c)) TT.
  Proof. intros. unfold is_in_refs. bal. Qed.
  Hint Resolve Bal_is_in_refs : bal.

  Lemma Bal_find_object : forall kp R p, Bal kp i R (find_object p) TT.
  Proof. intros. unfold find_object. bal. Qed.
  Hint Resolve Bal_find_object : bal.

  Lemma Bal_open_object : forall kp R c, Bal kp i R (open_object c) TT.
  Proof. intros. unfold open_object. bal. Qed.
  Hint Resolve Bal_open_object : bal.

  Lemma Bal_retrieve_object : forall kp R p, Bal kp i R (retrieve_object p) TT.
  Proof. intros. unfold retrieve_object. bal. Qed.

  Lemma Bal_get_hex_digest : forall kp R p, Bal kp i R (get_hex_digest p) TT.
  Proof. intros. unfold get_hex_digest. bal. Qed.
  Hint Resolve Bal_retrieve_object Bal_get_hex_digest : bal.

  Lemma Bal_rename_for_deletion : forall kp R a, nontmp a -> Bal kp i R (rename_for_deletion a) nontmp.
  Proof.
    intros. unfold rename_for_deletion.
    eapply Bal_mbind; [op_side|]. intros ? ?. bal.
  Qed.
  Hint Resolve Bal_rename_for_deletion : bal.

  Lemma Bal_delete_marked : forall kp R l, Forall nontmp l -> Bal kp i R (delete_marked l) TT.
  Proof.
    induction l as [|a l IH]; intros Hl; simpl.
    - bal.
    - inversion Hl; subst. eapply Bal_mbind; [op_side|]. intros. apply IH. assumption.
  Qed.
  Hint Resolve Bal_delete_marked : bal.

  Lemma Bal_update_refs_remove : forall kp R c p, R <= 3 ->
    Bal kp i R (update_refs_remove (ACidRef c) p) TT.
  Proof.
    intros. unfold update_refs_remove. bal.
  Qed.

  Lemma Bal_update_refs_add : forall kp R c p, R <= 3 ->
    Bal kp i R (update_refs_add (ACidRef c) p) TT.
  Proof.
    intros. unfold update_refs_add. bal.
  Qed.
  Hint Resolve Bal_update_refs_remove Bal_update_refs_add : bal.

  Lemma Bal_verify_refs : forall kp R p c, Bal kp i R (verify_refs p c) TT.
  Proof. intros. unfold verify_refs. bal. Qed.

  Lemma Bal_validate : forall kp R c c', Bal kp i R (validate_and_check_cid_lock c c') TT.
  Proof. intros. unfold validate_and_check_cid_lock. bal. Qed.
  Hint Resolve Bal_verify_refs Bal_validate : bal.

  Lemma Bal_mark_pid_refs : forall kp R p, Bal kp i R (mark_pid_refs p) (Forall nontmp).
  Proof.
    intros. unfold mark_pid_refs.
    eapply Bal_mbind; [apply Bal_catch; apply Bal_rename_for_deletion; exact I|].
    intros [d|e] Hd; apply Bal_ret; auto.
  Qed.

  Lemma Bal_remove_pid_and_handle_cid : forall kp R p c, R <= 3 ->
    Bal kp i R (remove_pid_and_handle_cid p c) (Forall nontmp).
  Proof.
    intros. unfold remove_pid_and_handle_cid.
    eapply Bal_mbind with (P1 := fun r => match r with Val l => Forall nontmp l | Exn _ => True end).
    - apply Bal_catch. bal.
    - intros [l|e] Hl; apply Bal_ret; auto.
  Qed.
  Hint Resolve Bal_mark_pid_refs Bal_remove_pid_and_handle_cid : bal.

  Lemma Forall_app_intro : forall (P : addr -> Prop) l1 l2, Forall P l1 -> Forall P l2 -> Forall P (l1 ++ l2).
  Proof. intros. apply Forall_app. split; assumption. Qed.
  Hint Resolve Forall_app_intro : bal.

  Lemma Bal_untag_object : forall kp R p c, R <= 3 -> Bal kp i R (untag_object p c) TT.
  Proof. intros. unfold untag_object. bal. Qed.
  Hint Resolve Bal_untag_object : bal.

  Lemma Bal_write_chunks : forall kp R t n, mine i t -> Bal kp i R (write_chunks t n) TT.
  Proof.
    induction n as [|n IH]; intros Ht; simpl.
    - bal.
    - eapply Bal_mbind; [op_side|]. intros ? ?. apply IH. assumption.
  Qed.
  Hint Resolve Bal_write_chunks : bal.

  Lemma Bal_open_source : forall kp R s, Bal kp i R (open_source s) TT.
  Proof. intros. unfold open_source. bal. Qed.
  Hint Resolve Bal_open_source : bal.

  Lemma Bal_delete_object_file : forall kp R c, Bal kp i R (delete_object_file c) TT.
  Proof. intros. unfold delete_object_file. bal. Qed.
  Hint Resolve Bal_delete_object_file : bal.

  Lemma Bal_verify_object : forall kp R g ar n sz ck, ar <> ArRefs ->
    Bal kp i R (verify_object g (ATmp ar i n) sz ck) TT.
  Proof. intros. unfold verify_object. destruct ar; try congruence; bal. Qed.
  Hint Resolve Bal_verify_object : bal.

  Lemma Bal_move_and_get_checksums : forall kp R p b n sz ck,
    Bal kp i R (move_and_get_checksums p b n sz ck) TT.
  Proof.
    intros. unfold move_and_get_checksums. apply Bal_mktmp_bind. intros n0.
    assert (ArObj <> ArRefs) by discriminate.
    bal.
  Qed.
  Hint Resolve Bal_move_and_get_checksums : bal.

  (* ---- the tagging path: knowledge about the two reference temp files is needed ---- *)

  Lemma Br_of_Bal : forall A kp R (m : M A) P h kn,
    Bal kp i R m P -> lt_all R h -> Br i m h kn (fun _ h' _ => h' = h).
  Proof. intros. eapply Br_mono; [apply H; assumption|]. simpl. tauto. Qed.

  Lemma Br_mbind_Bal : forall A B R (m : M A) (f : A -> M B) P h kn Q,
    Bal true i R m P -> lt_all R h ->
    (forall a, P a -> Br i (f a) h kn Q) -> (forall e, Q (Exn e) h kn) ->
    Br i (mbind m f) h kn Q.
  Proof.
    intros A B R m f P h kn Q Hm Hh Hf He. apply Br_mbind.
    eapply Br_mono; [apply Hm; exact Hh|]. simpl.
    intros [a|e] h' kn' (-> & H2 & H3); rewrite (H2 eq_refl); auto.
  Qed.

  Lemma Bal_false_intro : forall A R (m : M A),
    (forall h kn, lt_all R h -> Br i m h kn (fun _ h' _ => h' = h)) -> Bal false i R m TT.
  Proof.
    intros A R m H h kn Hh. eapply Br_mono; [apply H; exact Hh|]. simpl.
    intros r h' kn' ->. repeat split; auto. discriminate.
  Qed.

  Lemma Br_write_refs_tmp : forall B content k (f : addr -> M B) h kn Q,
    kind_of content = Some k ->
    (forall n, (forall k', ~ In (ATmp ArRefs i n, k') kn) ->
               Br i (f (ATmp ArRefs i n)) h ((ATmp ArRefs i n, k) :: kn) Q) ->
    (forall e, Q (Exn e) h kn) ->
    Br i (mbind (write_refs_tmp content) f) h kn Q.
  Proof.
    intros B content k f h kn Q Hk Hf He. unfold write_refs_tmp.
    apply Br_mbind. apply Br_mbind. cbn [mktmp Br]. split; [exact I|].
    intros a Ha. destruct a; simpl in Ha; try contradiction.
    - destruct Ha as [[n ->] Hfresh]. cbn [Br ret next_h next_k]. apply Br_mbind.
      cbn [unit_op Br]. split; [simpl; eauto|].
      intros a Ha. destruct a; simpl in Ha; try contradiction; cbn [Br ret raise next_h next_k].
      + unfold kset. rewrite Hk. rewrite kdrop_absent by exact Hfresh. apply Hf. exact Hfresh.
      + apply He.
    - cbn [Br raise next_h next_k]. apply He.
  Qed.

  Lemma Br_rename_ref : forall B s d k (f : unit -> M B) h kn Q,
    mine i s -> In (s, k) kn ->
    match d, k with APidRef _, KCid => True | ACidRef _, KLines => True | _, _ => False end ->
    Br i (f tt) h (kdrop s kn) Q ->
    (forall e, Q (Exn e) h (kdrop s kn)) ->
    Br i (mbind (unit_op (Rename s d)) f) h kn Q.
  Proof.
    intros B s d k f h kn Q Hs Hin Hd Hf He. apply Br_mbind. cbn [unit_op Br]. split.
    - simpl. split; [exact Hs|]. destruct d, k; try contradiction; exact Hin.
    - intros a Ha. destruct a; simpl in Ha; try contradiction; cbn [Br ret raise next_h next_k]; auto.
  Qed.

  Lemma Bal_store_refs_body : forall R p c, R <= 3 -> Bal false i R (store_refs_body p c) TT.
  Proof.
    intros R p c HR. apply Bal_false_intro. intros h kn Hh. unfold store_refs_body.
    eapply Br_mbind_Bal; [op_side | exact Hh | intros _ _ | intros; reflexivity].
    eapply Br_mbind_Bal; [op_side | exact Hh | intros _ _ | intros; reflexivity].
    eapply Br_mbind_Bal with (P := TT); [unfold and_sc; bal | exact Hh | intros c1 _ | intros; reflexivity].
    destruct c1.
    { eapply (@Br_of_Bal _ true R _ TT); [bal | exact Hh]. }
    eapply Br_mbind_Bal with (P := TT); [unfold and_sc, notm; bal | exact Hh | intros c2 _ | intros; reflexivity].
    destruct c2.
    { reflexivity. }
    eapply Br_mbind_Bal with (P := TT); [unfold and_sc, notm; bal | exact Hh | intros c3 _ | intros; reflexivity].
    destruct c3.
    - eapply Br_write_refs_tmp; [reflexivity | | intros; reflexivity].
      intros n Hn.
      eapply Br_rename_ref with (k := KCid); [reflexivity | left; reflexivity | exact I | | intros; reflexivity].
      eapply (@Br_of_Bal _ false R _ TT); [bal | exact Hh].
    - eapply Br_write_refs_tmp; [reflexivity | | intros; reflexivity].
      intros n1 Hn1.
      eapply Br_write_refs_tmp; [reflexivity | | intros; reflexivity].
      intros n2 Hn2.
      assert (Hne : ATmp ArRefs i n1 <> ATmp ArRefs i n2).
      { intros E. apply (Hn2 KCid). rewrite <- E. left. reflexivity. }
      eapply Br_rename_ref with (k := KCid);
        [reflexivity | right; left; reflexivity | exact I | | intros; reflexivity].
      eapply Br_rename_ref with (k := KLines);
        [reflexivity | | exact I | | intros; reflexivity].
      + apply kdrop_In_keep; [left; reflexivity | congruence].
      + eapply (@Br_of_Bal _ false R _ TT); [bal | exact Hh].
  Qed.
  Hint Resolve Bal_store_refs_body : bal.

  Lemma Bal_tag_object : forall R p c, R <= 1 -> Bal false i R (tag_object p c) TT.
  Proof.
    intros R p c HR. apply Bal_false_intro. intros h kn Hh. unfold tag_object.
    apply Br_try_finally. apply Br_mbind. cbn [acquire Br]. split.
    { simpl. eapply lt_all_mono; [|exact Hh]. simpl. lia. }
    intros a ->. cbn [Br ret next_h next_k]. apply Br_mbind. cbn [acquire Br]. split.
    { simpl. apply lt_all_cons; [simpl; lia|]. eapply lt_all_mono; [|exact Hh]. simpl. lia. }
    intros a ->. cbn [Br ret next_h next_k].
    assert (Hh2 : lt_all 3 ((LCid, ICid c) :: (LRefPid, IPid p) :: h)).
    { apply lt_all_cons; [simpl; lia|]. apply lt_all_cons; [simpl; lia|].
      eapply lt_all_mono; [|exact Hh]. lia. }
    eapply Br_mono.
    { eapply (@Br_of_Bal _ false 3 _ TT); [|exact Hh2]. bal. }
    cbn beta. intros r h' kn' ->.
    apply Br_mbind. cbn [release Br]. split; [left; reflexivity|].
    intros a ->. cbn [Br ret next_h next_k]. rewrite remove1_head.
    split; [left; reflexivity|].
    intros a ->. cbn [Br ret next_h next_k]. rewrite remove1_head.
    destruct r; reflexivity.
  Qed.
  Hint Resolve Bal_tag_object : bal.

  Lemma Bal_store_object : forall p s b n sz ck, Bal false i 0 (store_object p s b n sz ck) TT.
  Proof. intros. unfold store_object. bal. Qed.

  (* ---- metadata and deletion ---- *)

  Lemma Bal_probe_all : forall kp R l, Forall nontmp l -> Bal kp i R (probe_all l) (Forall nontmp).
  Proof.
    induction l as [|a l IH]; intros Hl; simpl.
    - bal.
    - inversion Hl; subst.
      eapply Bal_mbind; [apply Bal_probe|]. intros b _.
      eapply Bal_mbind; [apply IH; assumption|]. intros r Hr.
      apply Bal_ret. destruct b; auto.
  Qed.
  Hint Resolve Bal_probe_all : bal.

  Lemma Bal_bracket_out_bind : forall A B kp R cls x (body : M A) (f : A -> M B) P1 P,
    R <= rank cls -> Bal kp i (S (rank cls)) body P1 ->
    (forall d, P1 d -> Bal kp i R (f d) P) ->
    Bal kp i R (acquire cls x ;;; (d <- try_finally body (release cls x) ;; f d)) P.
  Proof.
    intros A B kp R cls x body f P1 P HR Hb Hf h kn Hh. apply Br_mbind.
    simpl. split; [eapply lt_all_mono; eauto|].
    intros a ->. simpl. apply Br_mbind. apply Br_try_finally.
    eapply Br_mono; [apply Hb; apply lt_all_cons; [lia | eapply lt_all_mono; [|exact Hh]; lia]|].
    simpl. intros r h' kn' (-> & H2 & H3).
    split; [left; reflexivity|]. intros a ->. simpl. rewrite lock_eqb_refl.
    destruct r as [d|e].
    - eapply Br_mono; [apply Hf; auto|]. simpl.
      intros r h'' kn'' (-> & H2' & H3'). repeat split; auto.
      intros Hk. rewrite (H2' Hk). auto.
    - repeat split; auto. discriminate.
  Qed.

  (* rename a document for deletion; its disappearance in the meantime is tolerated *)
  Lemma Bal_mark_one : forall kp R a, nontmp a ->
    Bal kp i R (r <- catch (rename_for_deletion a) ;;
                match r with
                | Val d => ret [d]
                | Exn EFileNotFound => ret []
                | Exn e => raise e
                end) (Forall nontmp).
  Proof.
    intros kp R a Ha.
    eapply Bal_mbind; [apply Bal_catch; apply Bal_rename_for_deletion; exact Ha|].
    intros [d|e] Hd; [apply Bal_ret; auto | destruct e; bal].
  Qed.

  Lemma Bal_mark_docs : forall kp R l, R <= 3 -> Forall nontmp l ->
    Bal kp i R (mark_docs l) (Forall nontmp).
  Proof.
    induction l as [|a l IH]; intros HR Hl; simpl.
    - bal.
    - inversion Hl; subst.
      eapply Bal_bracket_out_bind with (P1 := Forall nontmp); [simpl; lia | cbn [rank] |].
      { eapply Bal_mbind; [apply Bal_probe|]. intros b _.
        destruct b; [apply Bal_mark_one; assumption | bal]. }
      intros d Hd.
      eapply Bal_mbind; [apply IH; assumption|]. intros r Hr.
      apply Bal_ret. apply Forall_app. split; assumption.
  Qed.
  Hint Resolve Bal_mark_docs : bal.

  Lemma Bal_delete_metadata : forall kp R p f, R <= 3 -> Bal kp i R (delete_metadata p f) TT.
  Proof. intros. unfold delete_metadata. bal. Qed.
  Hint Resolve Bal_delete_metadata : bal.

  Lemma Bal_delete_object : forall kp p, Bal kp i 0 (delete_object p) TT.
  Proof. intros. unfold delete_object. bal. Qed.

  Lemma Bal_delete_object_unfixed : forall kp p, Bal kp i 0 (delete_object_unfixed p) TT.
  Proof. intros. unfold delete_object_unfixed. bal. Qed.

  Lemma Bal_store_metadata : forall kp p f s v n, Bal kp i 0 (store_metadata p f s v n) TT.
  Proof.
    intros. unfold store_metadata.
    apply Bal_bracket_out; [simpl; lia|]. cbn [rank].
    eapply Bal_mbind; [apply Bal_open_source|]. intros _ _.
    apply Bal_mktmp_bind. intros n0. bal.
  Qed.

  Lemma Bal_retrieve_metadata : forall kp p f, Bal kp i 0 (retrieve_metadata p f) TT.
  Proof. intros. unfold retrieve_metadata. bal. Qed.

  Lemma Bal_delete_object_only : forall kp R c, R <= 2 -> Bal kp i R (delete_object_only c) TT.
  Proof. intros. unfold delete_object_only. bal. Qed.
  Hint Resolve Bal_delete_object_only : bal.

  Lemma Bal_delete_if_invalid : forall kp c sz pre ok, Bal kp i 0 (delete_if_invalid c sz pre ok) TT.
  Proof. intros. unfold delete_if_invalid. bal. Qed.

  Hint Resolve Bal_store_object Bal_delete_object Bal_delete_object_unfixed Bal_store_metadata
    Bal_retrieve_metadata Bal_delete_if_invalid : bal.

  Theorem api_balanced : forall c, Bal false i 0 (api c) TT.
  Proof.
    intros c. destruct c; unfold api, lift_unit; bal.
  Qed.

  (* the statement in the form used by the pool invariant *)
  Theorem api_bracketed : forall c, Br i (api c) [] [] (fun _ h _ => h = []).
  Proof.
    intros c. eapply Br_of_Bal; [apply api_balanced | apply lt_all_nil].
  Qed.
End API2.

(* ====================================================================================== *)
(* §4  one operation against the real semantics                                            *)
(* ====================================================================================== *)

(* reference files hold reference content *)
Definition ok_at (a : addr) (v : fcontent) : Prop :=
  match a with
  | APidRef _ => has_kind v KCid
  | ACidRef _ => has_kind v KLines
  | _ => True
  end.

Definition refs_typed (m : fmap) : Prop := forall a v, lookup a m = Some v -> ok_at a v.

Lemma well_typed_refs_typed : forall m, well_typed m -> refs_typed m.
Proof.
  intros m H a v Hl. specialize (H a v Hl). destruct a; simpl; auto.
  - destruct H as [c ->]. exact I.
  - destruct H as [l ->]. exact I.
Qed.

Lemma refs_typed_nil : refs_typed [].
Proof. intros a v H. discriminate. Qed.

(* the knowledge of thread i is true of the file map *)
Definition KInv (i : nat) (kn : knowl) (m : fmap) : Prop :=
  forall a k, In (a, k) kn ->
    (exists n, a = ATmp ArRefs i n) /\ exists c, lookup a m = Some c /\ has_kind c k.

Lemma KInv_nil : forall i m, KInv i [] m.
Proof. intros i m a k []. Qed.

Lemma refs_typed_update : forall m a v, refs_typed m -> ok_at a v -> refs_typed (update a v m).
Proof.
  intros m a v H Hv b u Hl. rewrite lookup_update in Hl.
  destruct (addr_eqb b a) eqn:E.
  - apply addr_eqb_true in E. subst. inversion Hl; subst. exact Hv.
  - eapply H; eauto.
Qed.

Lemma refs_typed_delete : forall m a, refs_typed m -> refs_typed (delete a m).
Proof.
  intros m a H b u Hl. rewrite lookup_delete in Hl.
  destruct (addr_eqb b a); [discriminate|]. eapply H; eauto.
Qed.

Lemma KInv_sub : forall i kn kn' m, KInv i kn m -> (forall a k, In (a, k) kn' -> In (a, k) kn) -> KInv i kn' m.
Proof. intros i kn kn' m H Hs a k Hin. apply H. apply Hs. exact Hin. Qed.

Lemma KInv_kdrop : forall i kn m a, KInv i kn m -> KInv i (kdrop a kn) m.
Proof. intros. eapply KInv_sub; eauto. intros. eapply kdrop_In; eauto. Qed.

(* a map that agrees with m on the files the knowledge speaks of *)
Lemma KInv_agree : forall i kn m m',
  KInv i kn m -> (forall a k, In (a, k) kn -> lookup a m' = lookup a m) -> KInv i kn m'.
Proof.
  intros i kn m m' H Hag a k Hin. destruct (H a k Hin) as [Hn (c & Hc & Hk)].
  split; auto. exists c. split; auto. rewrite (Hag a k Hin). exact Hc.
Qed.

Lemma kdrop_key_neq : forall i kn m s b k, KInv i kn m -> In (b, k) (kdrop s kn) -> b <> s.
Proof.
  intros i kn m s b k H Hin.
  assert (Hb := kdrop_In _ _ _ _ Hin). destruct (H b k Hb) as [[n ->] _].
  destruct s; try discriminate. destruct ar; try discriminate.
  eapply kdrop_In_neq. exact Hin.
Qed.

(* --- fresh temp names are absent --- *)

Lemma fresh_from_spec : forall ar t m fuel n,
  lookup (ATmp ar t (fresh_from ar t m n fuel)) m = None \/
  (forall k, n <= k < n + fuel -> lookup (ATmp ar t k) m <> None).
Proof.
  induction fuel as [|fuel IH]; intros n; simpl.
  - right. intros; lia.
  - destruct (lookup (ATmp ar t n) m) eqn:E.
    + destruct (IH (S n)) as [H|H]; [left; exact H|]. right. intros k Hk.
      destruct (Nat.eq_dec k n); [subst; congruence | apply H; lia].
    + left. exact E.
Qed.

Lemma NoDup_tmp_seq : forall ar t n a, NoDup (map (fun k => ATmp ar t k) (seq a n)).
Proof.
  induction n as [|n IH]; intros a; simpl; constructor; auto.
  intros H. apply in_map_iff in H. destruct H as (k & E & Hk).
  inversion E; subst. apply in_seq in Hk. lia.
Qed.

Lemma fresh_tmp_absent : forall ar t m, lookup (fresh_tmp ar t m) m = None.
Proof.
  intros. unfold fresh_tmp.
  destruct (fresh_from_spec ar t m (S (length m)) 0) as [H|H]; auto.
  exfalso.
  assert (Hincl : incl (map (fun k => ATmp ar t k) (seq 0 (S (length m)))) (keys m)).
  { intros a Ha. apply in_map_iff in Ha. destruct Ha as (k & <- & Hk). apply in_seq in Hk.
    destruct (lookup (ATmp ar t k) m) eqn:E.
    - eapply lookup_Some_In_keys; eauto.
    - exfalso. apply (H k); [lia | exact E]. }
  apply NoDup_incl_length in Hincl; [|apply NoDup_tmp_seq].
  rewrite map_length, seq_length in Hincl. unfold keys in Hincl. rewrite map_length in Hincl. lia.
Qed.

(* --- lists of locks --- *)

Lemma In_remove1 : forall (x l : lock) L, In l (remove1 lock_eqb x L) -> In l L.
Proof.
  induction L as [|y L IH]; simpl; auto.
  destruct (lock_eqb x y); intros H; auto. destruct H; auto.
Qed.

Lemma In_remove1_neq : forall (x l : lock) L, In l L -> l <> x -> In l (remove1 lock_eqb x L).
Proof.
  induction L as [|y L IH]; simpl; auto.
  intros H Hne. destruct (lock_eqb x y) eqn:E.
  - apply lock_eqb_true in E. subst y. destruct H; [congruence|auto].
  - destruct H; [left; auto | right; auto].
Qed.

Lemma NoDup_remove1 : forall (x : lock) L, NoDup L -> NoDup (remove1 lock_eqb x L).
Proof.
  induction L as [|y L IH]; simpl; intros H; auto.
  inversion H; subst. destruct (lock_eqb x y); auto.
  constructor; auto. intros Hin. apply In_remove1 in Hin. contradiction.
Qed.

Lemma NoDup_remove1_notin : forall (x : lock) L, NoDup L -> ~ In x (remove1 lock_eqb x L).
Proof.
  induction L as [|y L IH]; simpl; intros H; auto.
  inversion H; subst. destruct (lock_eqb x y) eqn:E.
  - apply lock_eqb_true in E. subst. assumption.
  - intros [->|Hin]; [rewrite lock_eqb_refl in E; discriminate | apply IH; auto].
Qed.

Lemma memb_lock_In : forall (x : lock) L, memb lock_eqb x L = true <-> In x L.
Proof. intros. apply memb_In; [apply lock_eqb_true | apply lock_eqb_refl]. Qed.

Lemma memb_lock_notIn : forall (x : lock) L, memb lock_eqb x L = false <-> ~ In x L.
Proof. intros. apply memb_false_not_In; [apply lock_eqb_true | apply lock_eqb_refl]. Qed.

(* --- the effect of one operation --- *)

Definition locks_step (o : op) (L L' : list lock) : Prop :=
  match o with
  | Acquire cls x => ~ In (cls, x) L /\ L' = (cls, x) :: L
  | Release cls x => In (cls, x) L /\ L' = remove1 lock_eqb (cls, x) L
  | _ => L' = L
  end.

Lemma mine_neq : forall i a b, mine i a -> ~ mine i b -> b <> a.
Proof. intros i a b Ha Hb E. subst. contradiction. Qed.

Lemma has_kind_ok_at : forall a v v', ok_at a v -> (forall k, has_kind v k -> has_kind v' k) -> ok_at a v'.
Proof. intros a v v' H Hk. destruct a; unfold ok_at in *; auto. Qed.

(* an update of a present file that preserves its kind *)
Lemma kindpres_update : forall i kn m a v v',
  refs_typed m -> KInv i kn m -> lookup a m = Some v ->
  (forall k, has_kind v k -> has_kind v' k) ->
  refs_typed (update a v' m) /\ KInv i kn (update a v' m).
Proof.
  intros i kn m a v v' Hrt Hk Hl Hp. split.
  - apply refs_typed_update; auto. eapply has_kind_ok_at; eauto.
  - intros b k Hin. destruct (Hk b k Hin) as [Hn (c & Hc & Hkc)]. split; auto.
    rewrite lookup_update. destruct (addr_eqb b a) eqn:E.
    + apply addr_eqb_true in E. subst b. exists v'. split; auto. apply Hp. congruence.
    + exists c. auto.
Qed.

Lemma other_frame_update : forall i a v m b, mine i a -> ~ mine i b -> lookup b (update a v m) = lookup b m.
Proof. intros. apply lookup_update_neq. eapply mine_neq; eauto. Qed.

Lemma other_frame_delete : forall i a m b, mine i a -> ~ mine i b -> lookup b (delete a m) = lookup b m.
Proof. intros. apply lookup_delete_neq. eapply mine_neq; eauto. Qed.

Local Ltac split5 := split; [|split; [|split; [|split]]].

Theorem exec_op_sound : forall i h kn o w a w',
  refs_typed (fs w) -> KInv i kn (fs w) -> (forall l, In l h -> In l (locks w)) ->
  pre i h kn o -> exec_op i o w = Some (a, w') ->
  ans_ok i kn o a /\
  refs_typed (fs w') /\
  KInv i (next_k kn o a) (fs w') /\
  (forall b, ~ mine i b -> lookup b (fs w') = lookup b (fs w)) /\
  locks_step o (locks w) (locks w').
Proof.
  intros i h kn o w a w' Hrt Hk Hh Hpre Hex.
  destruct o; simpl in Hex; simpl next_k; unfold locks_step.
  - (* Probe *) inversion Hex; subst. simpl. auto.
  - (* SizeLines *)
    destruct (lookup a0 (fs w)) as [[]|]; inversion Hex; subst; simpl; auto.
  - (* Read *)
    destruct (lookup a0 (fs w)) as [c|] eqn:E; inversion Hex; subst; simpl; split5; auto.
    specialize (Hrt _ _ E). destruct a0; simpl in *; auto.
  - (* OpenSrc *) inversion Hex; subst. simpl. auto.
  - (* MkTmp *)
    inversion Hex; subst. clear Hex. simpl fs. simpl locks.
    assert (Hab := fresh_tmp_absent ar i (fs w)).
    assert (Hfr : forall k, ~ In (fresh_tmp ar i (fs w), k) kn).
    { intros k Hin. destruct (Hk _ _ Hin) as [_ (c & Hc & _)]. congruence. }
    split5; auto.
    + simpl. split; auto. unfold fresh_tmp. eauto.
    + apply refs_typed_update; auto.
    + eapply KInv_agree; [exact Hk|]. intros b k Hin. apply lookup_update_neq.
      intros ->. eapply Hfr; eauto.
    + intros b Hb. apply lookup_update_neq. intros ->. apply Hb. unfold fresh_tmp. reflexivity.
  - (* WriteChunk *)
    simpl in Hpre.
    destruct (lookup t (fs w)) as [[b n j| | |]|] eqn:E; inversion Hex; subst; simpl; auto.
    destruct (@kindpres_update _ _ _ _ _ (CData b n (S j)) Hrt Hk E) as [H1 H2]; [destruct k; simpl; auto|].
    split5; auto. intros; eapply other_frame_update; eauto.
  - (* OpenWr *)
    inversion Hex; subst. clear Hex. simpl fs. simpl locks.
    destruct Hpre as (ar & n & ->).
    split5; auto.
    + simpl. exact I.
    + apply refs_typed_update; auto. exact I.
    + unfold kset. destruct ar.
      * eapply KInv_agree; [exact Hk|]. intros b k Hin. apply lookup_update_neq.
        destruct (Hk _ _ Hin) as [[n' ->] _]. discriminate.
      * eapply KInv_agree; [exact Hk|]. intros b k Hin. apply lookup_update_neq.
        destruct (Hk _ _ Hin) as [[n' ->] _]. discriminate.
      * assert (Hrest : KInv i (kdrop (ATmp ArRefs i n) kn) (update (ATmp ArRefs i n) c (fs w))).
        { eapply KInv_agree; [apply KInv_kdrop; exact Hk|]. intros b k Hin.
          apply lookup_update_neq. eapply kdrop_In_neq. exact Hin. }
        destruct (kind_of c) as [k0|] eqn:Ek; auto.
        intros b k [E|Hin]; [|apply Hrest; exact Hin].
        inversion E; subst. split; [eauto|]. exists c. split; [apply lookup_update_eq|].
        apply kind_of_has. exact Ek.
    + intros b Hb. eapply other_frame_update; eauto. reflexivity.
  - (* Rename *)
    destruct Hpre as [Hs Hd].
    destruct (lookup src (fs w)) as [c|] eqn:E; inversion Hex; subst; clear Hex; simpl fs; simpl locks.
    + assert (Hdm : mine i dst) by (destruct dst; simpl; auto; contradiction).
      split5; auto.
      * simpl. exact I.
      * apply refs_typed_update; [apply refs_typed_delete; auto|].
        destruct dst; simpl; auto.
        -- destruct (Hk _ _ Hd) as [_ (c' & Hc' & Hkc)]. rewrite E in Hc'. inversion Hc'; subst. exact Hkc.
        -- destruct (Hk _ _ Hd) as [_ (c' & Hc' & Hkc)]. rewrite E in Hc'. inversion Hc'; subst. exact Hkc.
      * eapply KInv_agree; [apply KInv_kdrop; exact Hk|]. intros b k Hin.
        assert (Hbs : b <> src) by (eapply kdrop_key_neq; eauto).
        assert (Hbd : b <> dst).
        { destruct (Hk b k (kdrop_In _ _ _ _ Hin)) as [[n ->] _]. intros <-. simpl in Hd. exact Hd. }
        rewrite lookup_update_neq by exact Hbd. apply lookup_delete_neq. exact Hbs.
      * intros b Hb. rewrite (@other_frame_update i dst c _ b Hdm Hb). eapply other_frame_delete; eauto.
    + split5; auto. simpl; exact I. apply KInv_kdrop; auto.
  - (* Remove *)
    simpl in Hpre.
    destruct (lookup a0 (fs w)) as [c|] eqn:E; inversion Hex; subst; clear Hex; simpl fs; simpl locks.
    + split5; auto.
      * simpl; exact I.
      * apply refs_typed_delete; auto.
      * eapply KInv_agree; [apply KInv_kdrop; exact Hk|]. intros b k Hin.
        apply lookup_delete_neq. eapply kdrop_key_neq; eauto.
      * intros b Hb. eapply other_frame_delete; eauto.
    + split5; auto. simpl; exact I. apply KInv_kdrop; auto.
  - (* MkDirs *) inversion Hex; subst. simpl. auto.
  - (* ListDir *)
    inversion Hex; subst. simpl. split5; auto.
    apply Forall_forall. intros x Hx. apply filter_In in Hx. destruct Hx as [_ Hx].
    unfold owned_by in Hx. destruct x; simpl in Hx; try discriminate; exact I.
  - (* AppendOpen *)
    simpl in Hpre. destruct a0; try contradiction.
    destruct (lookup (ACidRef c) (fs w)) eqn:E; inversion Hex; subst; clear Hex; simpl fs; simpl locks.
    + split5; auto.
    + split5; auto.
      * apply refs_typed_update; auto.
      * eapply KInv_agree; [exact Hk|]. intros b k Hin. apply lookup_update_neq.
        destruct (Hk _ _ Hin) as [[n' ->] _]. discriminate.
      * intros b Hb. eapply other_frame_update; eauto.
  - (* AppendWrite *)
    simpl in Hpre.
    destruct (lookup a0 (fs w)) as [[b n j| |l|]|] eqn:E; inversion Hex; subst; simpl; auto.
    + destruct (@kindpres_update _ _ _ _ _ (CLines (l ++ [p])) Hrt Hk E) as [H1 H2]; [destruct k; simpl; auto|].
      split5; auto. intros; eapply other_frame_update; eauto.
    + destruct (@kindpres_update _ _ _ _ _ (CLines [p]) Hrt Hk E) as [H1 H2]; [destruct k; simpl; auto|].
      split5; auto. intros; eapply other_frame_update; eauto.
  - (* OpenRW *)
    destruct (lookup a0 (fs w)); inversion Hex; subst; simpl; auto.
  - (* RewriteWrite *)
    simpl in Hpre.
    destruct (lookup a0 (fs w)) as [[b n j| |l|]|] eqn:E; inversion Hex; subst; simpl; auto.
    match goal with |- context [update a0 ?v _] =>
      destruct (@kindpres_update _ _ _ _ _ (v) Hrt Hk E) as [H1 H2]; [destruct k; simpl; auto|] end.
    split5; auto. intros; eapply other_frame_update; eauto.
  - (* Truncate *)
    simpl in Hpre.
    destruct (lookup a0 (fs w)) as [[b n j| |l|]|] eqn:E; inversion Hex; subst; simpl; auto.
    match goal with |- context [update a0 ?v _] =>
      destruct (@kindpres_update _ _ _ _ _ (v) Hrt Hk E) as [H1 H2]; [destruct k; simpl; auto|] end.
    split5; auto. intros; eapply other_frame_update; eauto.
  - (* Acquire *)
    destruct (memb lock_eqb (cls, i0) (locks w)) eqn:E; inversion Hex; subst. simpl.
    apply memb_lock_notIn in E. split5; auto.
  - (* Release *)
    simpl in Hpre. apply Hh in Hpre.
    assert (E : memb lock_eqb (cls, i0) (locks w) = true) by (apply memb_lock_In; exact Hpre).
    rewrite E in Hex. inversion Hex; subst. simpl. split5; auto.
  - (* Peek *) inversion Hex; subst. simpl. auto.
  - (* Held *) inversion Hex; subst. simpl. auto.
Qed.

(* ====================================================================================== *)
(* §5  pools of threads: steps with faults, the invariant, preservation                    *)
(* ====================================================================================== *)

Lemma resume_app : forall A (h1 h2 : list ans) (m : prog A),
  resume m (h1 ++ h2) = match resume m h1 with Some m' => resume m' h2 | None => None end.
Proof.
  induction h1 as [|a h1 IH]; intros h2 m; destruct m; simpl; auto.
Qed.

Lemma resume_nil : forall A (m : prog A), resume m [] = Some m.
Proof. destruct m; reflexivity. Qed.

Lemma upd_nth_length : forall A i (x : A) l, length (upd_nth i x l) = length l.
Proof. induction i; destruct l; simpl; auto. Qed.

Lemma nth_error_upd_nth_eq : forall A i (x : A) l, i < length l -> nth_error (upd_nth i x l) i = Some x.
Proof.
  induction i; destruct l; simpl; intros H; try lia; auto. apply IHi. lia.
Qed.

Lemma nth_error_upd_nth_neq : forall A i j (x : A) l, j <> i -> nth_error (upd_nth i x l) j = nth_error l j.
Proof.
  induction i; destruct l; destruct j; simpl; intros H; try congruence; auto.
Qed.

(* the lock part of the invariant: the lock lists of the world are exactly the disjoint union
   of what the threads hold *)
Definition LInv (H : nat -> list lock) (L : list lock) : Prop :=
  NoDup L /\
  (forall i, NoDup (H i)) /\
  (forall i l, In l (H i) -> In l L) /\
  (forall l, In l L -> exists i, In l (H i)) /\
  (forall i j l, In l (H i) -> In l (H j) -> i = j).

Lemma LInv_ext : forall H H' L, (forall j, H' j = H j) -> LInv H L -> LInv H' L.
Proof.
  intros H H' L E (H1 & H2 & H3 & H4 & H5). repeat split; auto.
  - intros i. rewrite E. auto.
  - intros i l. rewrite E. eauto.
  - intros l Hl. destruct (H4 l Hl) as [i Hi]. exists i. rewrite E. exact Hi.
  - intros i j l. rewrite !E. eauto.
Qed.

Definition upd_fun {B} (f : nat -> B) (i : nat) (x : B) : nat -> B :=
  fun j => if Nat.eqb j i then x else f j.

Lemma upd_fun_eq : forall B (f : nat -> B) i x, upd_fun f i x i = x.
Proof. intros. unfold upd_fun. rewrite Nat.eqb_refl. reflexivity. Qed.
Lemma upd_fun_neq : forall B (f : nat -> B) i j x, j <> i -> upd_fun f i x j = f j.
Proof. intros. unfold upd_fun. destruct (Nat.eqb j i) eqn:E; auto. apply Nat.eqb_eq in E. congruence. Qed.

Lemma LInv_step : forall H L L' i o,
  LInv H L ->
  (forall cls x, o = Release cls x -> In (cls, x) (H i)) ->
  locks_step o L L' ->
  LInv (upd_fun H i (next_h (H i) o)) L'.
Proof.
  intros H L L' i o HL Hrel Hst.
  assert (Hneutral : L' = L -> next_h (H i) o = H i -> LInv (upd_fun H i (next_h (H i) o)) L').
  { intros -> E. eapply LInv_ext; [|exact HL]. intros j. unfold upd_fun.
    destruct (Nat.eqb j i) eqn:Ej; auto. apply Nat.eqb_eq in Ej. subst. exact E. }
  destruct HL as (H1 & H2 & H3 & H4 & H5).
  destruct o; try (apply Hneutral; [exact Hst | reflexivity]); simpl in Hst; simpl next_h.
  - (* Acquire *)
    destruct Hst as [Hnin ->]. set (x := (cls, i0)) in *.
    repeat split.
    + constructor; auto.
    + intros j. destruct (Nat.eq_dec j i) as [->|Hne].
      * rewrite upd_fun_eq. constructor; auto. intros Hx. apply Hnin. eauto.
      * rewrite upd_fun_neq by exact Hne. auto.
    + intros j l. destruct (Nat.eq_dec j i) as [->|Hne].
      * rewrite upd_fun_eq. intros [<-|Hl]; [left; auto | right; eauto].
      * rewrite upd_fun_neq by exact Hne. intros Hl. right. eauto.
    + intros l [<-|Hl].
      * exists i. rewrite upd_fun_eq. left. reflexivity.
      * destruct (H4 l Hl) as [j Hj]. exists j. destruct (Nat.eq_dec j i) as [->|Hne].
        -- rewrite upd_fun_eq. right. exact Hj.
        -- rewrite upd_fun_neq by exact Hne. exact Hj.
    + intros j1 j2 l.
      destruct (Nat.eq_dec j1 i) as [->|Hne1]; destruct (Nat.eq_dec j2 i) as [->|Hne2];
        rewrite ?upd_fun_eq, ?(upd_fun_neq _ _ Hne1), ?(upd_fun_neq _ _ Hne2); auto.
      * intros [<-|Hl1] Hl2; [exfalso; apply Hnin; eauto | eauto].
      * intros Hl1 [<-|Hl2]; [exfalso; apply Hnin; eauto | eauto].
      * eauto.
  - (* Release *)
    destruct Hst as [Hin ->]. set (x := (cls, i0)) in *.
    assert (Hxi : In x (H i)) by (apply Hrel with (cls := cls) (x := i0); reflexivity).
    repeat split.
    + apply NoDup_remove1; auto.
    + intros j. destruct (Nat.eq_dec j i) as [->|Hne].
      * rewrite upd_fun_eq. apply NoDup_remove1; auto.
      * rewrite upd_fun_neq by exact Hne. auto.
    + intros j l. destruct (Nat.eq_dec j i) as [->|Hne].
      * rewrite upd_fun_eq. intros Hl.
        assert (Hl' := In_remove1 _ _ _ Hl).
        apply In_remove1_neq; [eauto|]. intros ->.
        eapply NoDup_remove1_notin; [apply (H2 i) | exact Hl].
      * rewrite upd_fun_neq by exact Hne. intros Hl.
        apply In_remove1_neq; [eauto|]. intros ->. apply Hne. eapply H5; eauto.
    + intros l Hl. assert (Hl' := In_remove1 _ _ _ Hl).
      assert (Hlx : l <> x) by (intros ->; eapply NoDup_remove1_notin; [exact H1 | exact Hl]).
      destruct (H4 l Hl') as [j Hj]. exists j. destruct (Nat.eq_dec j i) as [->|Hne].
      * rewrite upd_fun_eq. apply In_remove1_neq; auto.
      * rewrite upd_fun_neq by exact Hne. exact Hj.
    + intros j1 j2 l.
      destruct (Nat.eq_dec j1 i) as [->|Hne1]; destruct (Nat.eq_dec j2 i) as [->|Hne2];
        rewrite ?upd_fun_eq, ?(upd_fun_neq _ _ Hne1), ?(upd_fun_neq _ _ Hne2); auto.
      * intros Hl1 Hl2. apply In_remove1 in Hl1. eauto.
      * intros Hl1 Hl2. apply In_remove1 in Hl2. eauto.
      * eauto.
Qed.

(* what one step of thread i does, as far as the invariant is concerned *)
Definition effect (i : nat) (o : op) (w : world) (a : ans) (w' : world) : Prop :=
  forall h kn,
    refs_typed (fs w) -> KInv i kn (fs w) -> (forall l, In l h -> In l (locks w)) -> pre i h kn o ->
    ans_ok i kn o a /\
    refs_typed (fs w') /\
    KInv i (next_k kn o a) (fs w') /\
    (forall b, ~ mine i b -> lookup b (fs w') = lookup b (fs w)) /\
    locks_step o (locks w) (locks w').

Lemma exec_effect : forall i o w a w', exec_op i o w = Some (a, w') -> effect i o w a w'.
Proof. intros i o w a w' H h kn H1 H2 H3 H4. eapply exec_op_sound; eauto. Qed.

Lemma fault_effect : forall i o w, faultable o = true -> effect i o w (AErr EFault) w.
Proof.
  intros i o w Hf h kn H1 H2 H3 H4.
  split; [apply faultable_ans_ok; exact Hf|]. split; [exact H1|]. split; [|split; [auto|]].
  - destruct o; simpl; auto; apply KInv_kdrop; auto.
  - destruct o; simpl in *; try discriminate; auto. destruct cls; discriminate.
Qed.

Section Pools.
  Variable A : Type.
  Variable ps : list (prog A).

  Definition Qfin : A -> list lock -> knowl -> Prop := fun _ h _ => h = [].

  (* every program of the pool is bracketed, as thread number i *)
  Definition pool_ok : Prop := forall i p, nth_error ps i = Some p -> Br i p [] [] Qfin.

  Definition residual (c : cfg) (i : nat) : option (prog A) :=
    match nth_error ps i, nth_error (fst c) i with
    | Some p, Some h => resume p (rev h)
    | _, _ => None
    end.

  (* thread i's next operation fails with an I/O error: the world is unchanged, the thread
     receives the error.  Every fault site of Sched.is_site except flock. *)
  Definition fault_step (c : cfg) (i : nat) : option cfg :=
    match nth_error ps i, nth_error (fst c) i with
    | Some p, Some h =>
        match resume p (rev h) with
        | Some (Vis o k) =>
            if faultable o then Some (upd_nth i (AErr EFault :: h) (fst c), snd c) else None
        | _ => None
        end
    | _, _ => None
    end.

  Inductive gstep : cfg -> cfg -> Prop :=
  | gs_norm : forall c i c', thread_step ps c i = Some c' -> gstep c c'
  | gs_fault : forall c i c', fault_step c i = Some c' -> gstep c c'.

  Inductive reachable (w0 : world) : cfg -> Prop :=
  | reach_init : reachable w0 (init_cfg ps w0)
  | reach_step : forall c c', reachable w0 c -> gstep c c' -> reachable w0 c'.

  (* no thread can take any step, normal or faulted *)
  Definition gstuck (c : cfg) : Prop := forall c', ~ gstep c c'.

  Lemma gstuck_stuck : forall c, gstuck c -> stuck ps c.
  Proof.
    intros c H i. destruct (thread_step ps c i) eqn:E; auto.
    exfalso. eapply H. eapply gs_norm. exact E.
  Qed.

  Lemma exec_reachable : forall sched w0 c c',
    reachable w0 c -> exec ps sched c = Some c' -> reachable w0 c'.
  Proof.
    induction sched as [|i s IH]; intros w0 c c' Hr He; simpl in He.
    - inversion He; subst; auto.
    - destruct (thread_step ps c i) eqn:E; [|discriminate].
      eapply IH; [|exact He]. eapply reach_step; [exact Hr|]. eapply gs_norm. exact E.
  Qed.

  Definition Inv (c : cfg) : Prop :=
    length (fst c) = length ps /\
    refs_typed (fs (snd c)) /\
    exists (H : nat -> list lock) (K : nat -> knowl),
      LInv H (locks (snd c)) /\
      (forall i, length ps <= i -> H i = []) /\
      (forall i, KInv i (K i) (fs (snd c))) /\
      (forall i, i < length ps -> exists m, residual c i = Some m /\ Br i m (H i) (K i) Qfin).

  Lemma Inv_init : forall w0, pool_ok -> locks w0 = [] -> refs_typed (fs w0) -> Inv (init_cfg ps w0).
  Proof.
    intros w0 Hok Hl Hrt. unfold Inv, init_cfg. simpl. split; [apply map_length|]. split; [exact Hrt|].
    exists (fun _ => []), (fun _ => []). split; [|split; [auto|split]].
    - rewrite Hl. unfold LInv. repeat split; try constructor; simpl; try tauto.
    - intros i. apply KInv_nil.
    - intros i Hi. destruct (nth_error ps i) as [p|] eqn:E; [|apply nth_error_None in E; lia].
      exists p. split; [|apply Hok; exact E].
      unfold residual. simpl. rewrite E.
      rewrite nth_error_map. rewrite E. simpl. apply resume_nil.
  Qed.

  Lemma Inv_advance : forall c i hist o k a w',
    Inv c -> nth_error (fst c) i = Some hist -> residual c i = Some (Vis o k) ->
    effect i o (snd c) a w' ->
    Inv (upd_nth i (a :: hist) (fst c), w').
  Proof.
    intros [hs w] i hist o k a w' (Hlen & Hrt & H & K & HL & Hout & HK & HT) Hh Hres Heff.
    simpl in *.
    assert (Hi : i < length ps).
    { rewrite <- Hlen. apply nth_error_Some. congruence. }
    destruct (HT i Hi) as (m & Hm & Hbr). rewrite Hres in Hm. inversion Hm; subst m. clear Hm.
    simpl in Hbr. destruct Hbr as [Hpre Hbr].
    assert (HLw := HL). destruct HLw as (_ & _ & Hsub & _).
    destruct (Heff (H i) (K i) Hrt (HK i) (Hsub i) Hpre) as (Hans & Hrt' & HK' & Hfr & Hls).
    unfold Inv. simpl. split; [rewrite upd_nth_length; exact Hlen|]. split; [exact Hrt'|].
    exists (upd_fun H i (next_h (H i) o)), (upd_fun K i (next_k (K i) o a)).
    split; [|split; [|split]].
    - eapply LInv_step; eauto. intros cls x ->. exact Hpre.
    - intros j Hj. rewrite upd_fun_neq by lia. auto.
    - intros j. destruct (Nat.eq_dec j i) as [->|Hne].
      + rewrite upd_fun_eq. exact HK'.
      + rewrite upd_fun_neq by exact Hne. eapply KInv_agree; [apply HK|].
        intros b kk Hin. apply Hfr. destruct (HK j b kk Hin) as [[n ->] _]. simpl. congruence.
    - intros j Hj. destruct (Nat.eq_dec j i) as [->|Hne].
      + rewrite !upd_fun_eq. exists (k a). split; [|apply Hbr; exact Hans].
        unfold residual in *. simpl in *.
        destruct (nth_error ps i) as [p|]; [|discriminate].
        rewrite nth_error_upd_nth_eq by (rewrite Hlen; exact Hi).
        rewrite Hh in Hres. simpl. rewrite resume_app, Hres. simpl. apply resume_nil.
      + rewrite !upd_fun_neq by exact Hne.
        destruct (HT j Hj) as (m & Hm & Hb). exists m. split; [|exact Hb].
        unfold residual in *. simpl in *. rewrite nth_error_upd_nth_neq by exact Hne. exact Hm.
  Qed.

  Lemma thread_step_inv : forall c i c', thread_step ps c i = Some c' ->
    exists hist o k a w', nth_error (fst c) i = Some hist /\ residual c i = Some (Vis o k) /\
      exec_op i o (snd c) = Some (a, w') /\ c' = (upd_nth i (a :: hist) (fst c), w').
  Proof.
    intros c i c' H. unfold thread_step in H. unfold residual.
    destruct (nth_error ps i) as [p|]; [|discriminate].
    destruct (nth_error (fst c) i) as [hist|]; [|discriminate].
    destruct (resume p (rev hist)) as [[r|o k|]|]; try discriminate.
    destruct (exec_op i o (snd c)) as [[a w']|] eqn:E; [|discriminate].
    inversion H; subst. exists hist, o, k, a, w'. auto.
  Qed.

  Lemma fault_step_inv : forall c i c', fault_step c i = Some c' ->
    exists hist o k, nth_error (fst c) i = Some hist /\ residual c i = Some (Vis o k) /\
      faultable o = true /\ c' = (upd_nth i (AErr EFault :: hist) (fst c), snd c).
  Proof.
    intros c i c' H. unfold fault_step in H. unfold residual.
    destruct (nth_error ps i) as [p|]; [|discriminate].
    destruct (nth_error (fst c) i) as [hist|]; [|discriminate].
    destruct (resume p (rev hist)) as [[r|o k|]|]; try discriminate.
    destruct (faultable o) eqn:E; [|discriminate].
    inversion H; subst. exists hist, o, k. auto.
  Qed.

  Lemma Inv_gstep : forall c c', Inv c -> gstep c c' -> Inv c'.
  Proof.
    intros c c' HI Hs. destruct Hs as [c i c' H|c i c' H].
    - apply thread_step_inv in H. destruct H as (hist & o & k & a & w' & H1 & H2 & H3 & ->).
      eapply Inv_advance; eauto. apply exec_effect. exact H3.
    - apply fault_step_inv in H. destruct H as (hist & o & k & H1 & H2 & H3 & ->).
      eapply Inv_advance; eauto. apply fault_effect. exact H3.
  Qed.

  Lemma Inv_reachable : forall w0 c,
    pool_ok -> locks w0 = [] -> refs_typed (fs w0) -> reachable w0 c -> Inv c.
  Proof.
    intros w0 c Hok Hl Hrt Hr. induction Hr.
    - apply Inv_init; auto.
    - eapply Inv_gstep; eauto.
  Qed.

  (* ---- a configuration that cannot move ---- *)

  Lemma exec_op_enabled : forall i o w,
    exec_op i o w = None -> exists cls x, o = Acquire cls x /\ In (cls, x) (locks w).
  Proof.
    intros i o w H. destruct o; simpl in H; try discriminate;
      repeat match type of H with
             | context [match ?x with _ => _ end] => destruct x eqn:?; try discriminate
             end.
    exists cls, i0. split; auto. apply memb_lock_In. assumption.
  Qed.

  Lemma stuck_thread : forall c i m, stuck ps c -> residual c i = Some m ->
    (exists r, m = Ret r) \/ m = Bad \/
    (exists cls x k, m = Vis (Acquire cls x) k /\ In (cls, x) (locks (snd c))).
  Proof.
    intros c i m Hst Hres. specialize (Hst i). unfold thread_step in Hst. unfold residual in Hres.
    destruct (nth_error ps i) as [p|]; [|discriminate].
    destruct (nth_error (fst c) i) as [hist|]; [|discriminate].
    rewrite Hres in Hst. destruct m as [r|o k|]; eauto.
    right. right.
    destruct (exec_op i o (snd c)) as [[a w']|] eqn:E; [discriminate|].
    apply exec_op_enabled in E. destruct E as (cls & x & -> & Hin). eauto.
  Qed.

  (* nobody waits: a thread waiting for a lock of rank r forces its holder to wait for a lock
     of a strictly higher rank, and ranks are bounded *)
  Lemma nobody_waits : forall c, Inv c -> stuck ps c ->
    forall n i cls x k, 4 - rank cls <= n ->
      residual c i = Some (Vis (Acquire cls x) k) -> In (cls, x) (locks (snd c)) -> False.
  Proof.
    intros c (Hlen & Hrt & H & K & HL & Hout & HK & HT) Hst.
    destruct HL as (L1 & L2 & L3 & L4 & L5).
    induction n as [|n IH]; intros i cls x k Hn Hres Hin.
    - pose proof (rank_le_3 cls). lia.
    - destruct (L4 _ Hin) as [j Hj].
      assert (Hjlt : j < length ps).
      { destruct (le_lt_dec (length ps) j) as [Hle|]; auto. rewrite (Hout j Hle) in Hj. contradiction. }
      destruct (HT j Hjlt) as (m & Hm & Hbr).
      destruct (stuck_thread _ Hst Hm) as [[r ->]|[->|(cls' & x' & k' & -> & Hin')]].
      + simpl in Hbr. unfold Qfin in Hbr. rewrite Hbr in Hj. contradiction.
      + simpl in Hbr. contradiction.
      + simpl in Hbr. destruct Hbr as [Hpre _]. specialize (Hpre _ Hj). simpl in Hpre.
        eapply (IH j cls' x' k'); eauto. lia.
  Qed.

  Theorem stuck_finished : forall c, Inv c -> stuck ps c ->
    finished ps c = true /\ locks (snd c) = [] /\ refs_typed (fs (snd c)).
  Proof.
    intros c HI Hst. pose proof (nobody_waits HI Hst) as Hnw.
    destruct HI as (Hlen & Hrt & H & K & HL & Hout & HK & HT).
    assert (Hret : forall i, i < length ps -> exists r, residual c i = Some (Ret r) /\ H i = []).
    { intros i Hi. destruct (HT i Hi) as (m & Hm & Hbr).
      destruct (stuck_thread _ Hst Hm) as [[r ->]|[->|(cls & x & k & -> & Hin)]].
      - exists r. split; auto.
      - simpl in Hbr. contradiction.
      - exfalso. eapply (Hnw (4 - rank cls)); eauto. }
    split; [|split; [|exact Hrt]].
    - unfold finished, results. apply forallb_forall. intros r Hr.
      apply in_map_iff in Hr. destruct Hr as (i & <- & Hi). apply in_seq in Hi.
      destruct (Hret i) as (r & Hr & _); [lia|].
      unfold residual in Hr. unfold thread_result.
      destruct (nth_error ps i); [|discriminate]. destruct (nth_error (fst c) i); [|discriminate].
      rewrite Hr. reflexivity.
    - destruct HL as (L1 & L2 & L3 & L4 & L5).
      destruct (locks (snd c)) as [|l L]; auto. exfalso.
      destruct (L4 l (or_introl eq_refl)) as [j Hj].
      destruct (le_lt_dec (length ps) j) as [Hle|Hlt].
      + rewrite (Hout j Hle) in Hj. contradiction.
      + destruct (Hret j Hlt) as (r & _ & E). rewrite E in Hj. contradiction.
  Qed.
End Pools.

(* ====================================================================================== *)
(* §6  the theorems                                                                        *)
(* ====================================================================================== *)

Lemma api_pool_ok : forall calls, pool_ok (map api calls).
Proof.
  intros calls i p H. rewrite nth_error_map in H.
  destruct (nth_error calls i) as [c|]; inversion H; subst. apply api_bracketed.
Qed.

(* C08, general form.  Any number of concurrent calls, any calls (including the rejected ones
   and the D3 witness vehicle), any start world that holds no lock and whose reference files
   are typed, any interleaving, any pattern of I/O errors at any fault site other than flock:
   a configuration in which no thread can move is one in which every call has returned and
   no lock is held (and the reference files are typed again, so the same holds for whatever is
   run next). *)
Theorem no_deadlock_no_leak : forall calls w0 c,
  locks w0 = [] -> refs_typed (fs w0) ->
  reachable (map api calls) w0 c -> gstuck (map api calls) c ->
  finished (map api calls) c = true /\ locks (snd c) = [] /\ refs_typed (fs (snd c)).
Proof.
  intros calls w0 c Hl Hrt Hr Hst.
  apply stuck_finished.
  - eapply Inv_reachable; eauto. apply api_pool_ok.
  - apply gstuck_stuck. exact Hst.
Qed.

(* the same with the weaker hypothesis that no thread can take a NORMAL step *)
Theorem no_deadlock_no_leak_stuck : forall calls w0 c,
  locks w0 = [] -> refs_typed (fs w0) ->
  reachable (map api calls) w0 c -> stuck (map api calls) c ->
  finished (map api calls) c = true /\ locks (snd c) = [] /\ refs_typed (fs (snd c)).
Proof.
  intros calls w0 c Hl Hrt Hr Hst.
  apply stuck_finished; auto. eapply Inv_reachable; eauto. apply api_pool_ok.
Qed.

(* the fault-free corollary, in the vocabulary of Sched.v exactly *)
Theorem no_deadlock_fault_free : forall calls w0 sched c,
  locks w0 = [] -> refs_typed (fs w0) ->
  exec (map api calls) sched (init_cfg (map api calls) w0) = Some c ->
  stuck (map api calls) c ->
  finished (map api calls) c = true /\ locks (snd c) = [] /\ refs_typed (fs (snd c)).
Proof.
  intros calls w0 sched c Hl Hrt He Hst.
  eapply no_deadlock_no_leak_stuck; eauto.
  eapply exec_reachable; [apply reach_init | exact He].
Qed.

(* progress: from a reachable configuration in which some call has not returned, some thread
   can take a normal step (so a set of calls never deadlocks, at any point) *)
Lemma stuck_dec : forall A (ps : list (prog A)) c,
  stuck ps c \/ exists i c', thread_step ps c i = Some c'.
Proof.
  intros A ps c.
  assert (Hn : forall n, (forall i, i < n -> thread_step ps c i = None) \/
                         exists i c', thread_step ps c i = Some c').
  { induction n as [|n [IH|IH]]; auto.
    - left. intros; lia.
    - destruct (thread_step ps c n) as [c'|] eqn:E; [right; eauto|].
      left. intros i Hi. destruct (Nat.eq_dec i n); [subst; auto | apply IH; lia]. }
  destruct (Hn (length ps)) as [H|H]; auto.
  left. intros i. destruct (thread_step ps c i) eqn:E; auto.
  pose proof (@thread_step_lt _ _ _ _ _ E) as Hlt. rewrite (H i Hlt) in E. discriminate.
Qed.

Theorem progress : forall calls w0 c,
  locks w0 = [] -> refs_typed (fs w0) ->
  reachable (map api calls) w0 c -> finished (map api calls) c = false ->
  exists i c', thread_step (map api calls) c i = Some c'.
Proof.
  intros calls w0 c Hl Hrt Hr Hf.
  destruct (stuck_dec (map api calls) c) as [Hst|H]; auto.
  destruct (no_deadlock_no_leak_stuck calls Hl Hrt Hr Hst) as [E _]. congruence.
Qed.

(* ---- afterwards: every identifier can be operated on again without blocking ---- *)

Lemma run_as_total : forall A t (m : prog A) h kn w,
  Br t m h kn (fun _ h' _ => h' = []) ->
  refs_typed (fs w) -> KInv t kn (fs w) -> LInv (upd_fun (fun _ => []) t h) (locks w) ->
  exists w' r, run_as t w m = Some (w', r) /\ locks w' = [] /\ refs_typed (fs w').
Proof.
  induction m as [r|o k IH|]; intros h kn w Hbr Hrt Hk HL; simpl in Hbr.
  - subst h. exists w, r. simpl. split; auto. split; auto.
    destruct HL as (_ & _ & _ & L4 & _). destruct (locks w) as [|l L]; auto. exfalso.
    destruct (L4 l (or_introl eq_refl)) as [j Hj]. unfold upd_fun in Hj.
    destruct (Nat.eqb j t); contradiction.
  - destruct Hbr as [Hpre Hbr]. simpl.
    assert (Hsub : forall l, In l h -> In l (locks w)).
    { intros l Hl. destruct HL as (_ & _ & L3 & _). apply (L3 t). rewrite upd_fun_eq. exact Hl. }
    destruct (exec_op t o w) as [[a w']|] eqn:E.
    + destruct (@exec_op_sound t h kn o w a w' Hrt Hk Hsub Hpre E) as (Hans & Hrt' & Hk' & _ & Hls).
      apply (IH a (next_h h o) (next_k kn o a) w'); auto.
      eapply LInv_ext; [|eapply (@LInv_step _ _ _ t o); [exact HL| |exact Hls]].
      * intros j. unfold upd_fun. rewrite Nat.eqb_refl. destruct (Nat.eqb j t); auto.
      * intros cls x ->. rewrite upd_fun_eq. exact Hpre.
    + exfalso. apply exec_op_enabled in E. destruct E as (cls & x & -> & Hin).
      destruct HL as (_ & _ & _ & L4 & _). destruct (L4 _ Hin) as [j Hj]. unfold upd_fun in Hj.
      destruct (Nat.eqb j t); [|contradiction].
      simpl in Hpre. specialize (Hpre _ Hj). simpl in Hpre. lia.
  - contradiction.
Qed.

Lemma LInv_empty : forall t L, L = [] -> LInv (upd_fun (fun _ => []) t []) L.
Proof.
  intros t L ->. unfold LInv, upd_fun. repeat split; try constructor; simpl; try tauto;
    intros; destruct (Nat.eqb _ t); try constructor; try contradiction.
Qed.

(* from a world without held locks and with typed reference files — in particular the world
   left by any pool, by [no_deadlock_no_leak] — every call, run alone, returns: it never blocks
   on a pid, cid or document that an earlier call, successful or failed, was working on *)
Theorem afterwards_every_call_returns : forall w call,
  locks w = [] -> refs_typed (fs w) ->
  exists w' r, run_seq w (api call) = Some (w', r) /\ locks w' = [] /\ refs_typed (fs w').
Proof.
  intros w call Hl Hrt. rewrite <- run_as_0.
  eapply run_as_total with (h := []) (kn := []); auto.
  - apply api_bracketed.
  - apply KInv_nil.
  - apply LInv_empty. exact Hl.
Qed.

(* hence every world built by a sequential history from the empty store qualifies as a start
   world of the theorems above *)
Lemma run_history_ok : forall h w w' rs,
  locks w = [] -> refs_typed (fs w) -> run_history w h = Some (w', rs) ->
  locks w' = [] /\ refs_typed (fs w').
Proof.
  induction h as [|c h IH]; intros w w' rs Hl Hrt H; simpl in H.
  - inversion H; subst. auto.
  - destruct (@afterwards_every_call_returns w c Hl Hrt) as (w1 & r & E & Hl1 & Hrt1).
    rewrite E in H. destruct (run_history w1 h) as [[w2 rs2]|] eqn:E2; [|discriminate].
    inversion H; subst. eapply IH; eauto.
Qed.

Corollary run_history_empty_ok : forall h w' rs,
  run_history empty_world h = Some (w', rs) -> locks w' = [] /\ refs_typed (fs w').
Proof. intros. eapply run_history_ok; eauto. reflexivity. apply refs_typed_nil. Qed.

(* ---- termination: there is no infinite run, with or without faults ---- *)

Section Termination.
  Variable A : Type.
  Variable ps : list (prog A).

  (* [prog] is an inductive type: the residual program of the thread that moves becomes one of
     its own immediate subterms, the others are unchanged *)
  Definition ochild (y x : option (prog A)) : Prop :=
    exists o k a, x = Some (Vis o k) /\ y = Some (k a).

  Lemma ochild_wf : forall x, Acc ochild x.
  Proof.
    assert (H : forall m, Acc ochild (Some m)).
    { induction m as [r|o k IH|]; constructor; intros y (o' & k' & a & E & ->); inversion E; subst.
      apply IH. }
    intros [m|]; auto. constructor. intros y (o & k & a & E & _). discriminate.
  Qed.

  Definition lstep (r' r : list (option (prog A))) : Prop :=
    exists i y x, nth_error r i = Some x /\ ochild y x /\ r' = upd_nth i y r.

  Lemma lstep_wf : forall r, Acc lstep r.
  Proof.
    induction r as [|x r IHr].
    - constructor. intros r' (i & y & x & H & _). destruct i; discriminate.
    - revert r IHr. induction (ochild_wf x) as [x _ IHx]. intros r Hr.
      induction Hr as [r Hacc IHr].
      constructor. intros r' (i & y & x0 & Hn & Hc & ->). destruct i as [|i]; simpl in *.
      + inversion Hn; subst. apply IHx; auto. constructor. exact Hacc.
      + apply IHr. exists i, y, x0. auto.
  Qed.

  Definition resid (c : cfg) : list (option (prog A)) :=
    map (residual ps c) (seq 0 (length ps)).

  Lemma nth_error_map_seq : forall B (f : nat -> B) n s i,
    i < n -> nth_error (map f (seq s n)) i = Some (f (s + i)).
  Proof.
    induction n as [|n IH]; intros s i Hi; [lia|]. destruct i as [|i]; simpl.
    - f_equal. f_equal. lia.
    - rewrite IH by lia. f_equal. f_equal. lia.
  Qed.

  Lemma map_seq_upd : forall B (f f' : nat -> B) y i,
    f' i = y -> (forall j, j <> i -> f' j = f j) ->
    forall n s, s <= i < s + n -> map f' (seq s n) = upd_nth (i - s) y (map f (seq s n)).
  Proof.
    intros B f f' y i Hy Hne. induction n as [|n IH]; intros s Hs; [lia|]. simpl.
    destruct (Nat.eq_dec i s) as [->|Hd].
    - rewrite Nat.sub_diag. simpl. f_equal; auto.
      apply map_ext_in. intros j Hj. apply in_seq in Hj. apply Hne. lia.
    - replace (i - s) with (S (i - S s)) by lia. simpl. f_equal; [apply Hne; lia|].
      apply IH. lia.
  Qed.

  Lemma advance_lstep : forall c i hist o k a w',
    nth_error (fst c) i = Some hist -> residual ps c i = Some (Vis o k) ->
    lstep (resid (upd_nth i (a :: hist) (fst c), w')) (resid c).
  Proof.
    intros [hs w] i hist o k a w' Hh Hres. simpl in *.
    assert (Hi : i < length ps).
    { unfold residual in Hres. destruct (nth_error ps i) eqn:E; [|discriminate].
      apply nth_error_Some. congruence. }
    exists i, (Some (k a)), (Some (Vis o k)). split; [|split].
    - unfold resid. rewrite nth_error_map_seq by exact Hi. simpl. f_equal. exact Hres.
    - exists o, k, a. auto.
    - unfold resid. replace i with (i - 0) at 2 by lia. apply map_seq_upd; [| |lia].
      + unfold residual in *. simpl in *. destruct (nth_error ps i) as [p|]; [|discriminate].
        rewrite nth_error_upd_nth_eq by (apply nth_error_Some; congruence).
        rewrite Hh in Hres. simpl. rewrite resume_app, Hres. simpl. apply resume_nil.
      + intros j Hj. unfold residual. simpl. rewrite nth_error_upd_nth_neq by exact Hj. reflexivity.
  Qed.

  Lemma gstep_lstep : forall c c', gstep ps c c' -> lstep (resid c') (resid c).
  Proof.
    intros c c' [c0 i c1 H|c0 i c1 H].
    - apply thread_step_inv in H. destruct H as (hist & o & k & a & w' & H1 & H2 & _ & ->).
      eapply advance_lstep; eauto.
    - apply fault_step_inv in H. destruct H as (hist & o & k & H1 & H2 & _ & ->).
      eapply advance_lstep; eauto.
  Qed.

  (* every configuration is accessible for the converse of [gstep]: all runs are finite *)
  Theorem gstep_terminates : forall c, Acc (fun c' c => gstep ps c c') c.
  Proof.
    intros c. remember (resid c) as r eqn:E. revert c E.
    induction (lstep_wf r) as [r _ IH]. intros c ->.
    constructor. intros c' Hs. eapply IH; [apply gstep_lstep; exact Hs | reflexivity].
  Qed.

  Corollary no_infinite_run : forall f : nat -> cfg, ~ (forall n, gstep ps (f n) (f (S n))).
  Proof.
    intros f H. remember (f 0) as c eqn:E. revert f H E.
    induction (gstep_terminates c) as [c _ IH]. intros f H ->.
    apply (IH (f 1) (H 0) (fun n => f (S n))); auto.
  Qed.
End Termination.

(* together: from every reachable configuration the pool can be run to completion (and, by
   [no_deadlock_no_leak] and [gstep_terminates], every maximal run, however scheduled and however
   faulted, is finite and ends like this) *)
Theorem runs_to_completion : forall calls w0 c,
  locks w0 = [] -> refs_typed (fs w0) -> reachable (map api calls) w0 c ->
  exists sched c', exec (map api calls) sched c = Some c' /\
    finished (map api calls) c' = true /\ locks (snd c') = [].
Proof.
  intros calls w0 c Hl Hrt. induction (gstep_terminates (map api calls) c) as [c _ IH]. intros Hr.
  destruct (stuck_dec (map api calls) c) as [Hst|(i & c1 & Hs)].
  - exists [], c. simpl. split; auto.
    destruct (no_deadlock_no_leak_stuck calls Hl Hrt Hr Hst) as (H1 & H2 & _). auto.
  - assert (Hg : gstep (map api calls) c c1) by (eapply gs_norm; exact Hs).
    destruct (IH c1 Hg) as (s & c' & He & Hf); [eapply reach_step; eauto|].
    exists (i :: s), c'. simpl. rewrite Hs. auto.
Qed.

(* ---- executable runs with faults, for concrete witnesses ---- *)

Section GExec.
  Variable A : Type.
  Variable ps : list (prog A).

  (* a schedule entry (i, true) makes thread i's next operation fail *)
  Fixpoint gexec (s : list (nat * bool)) (c : cfg) : option cfg :=
    match s with
    | [] => Some c
    | (i, f) :: s' =>
        match (if f then fault_step ps c i else thread_step ps c i) with
        | Some c' => gexec s' c'
        | None => None
        end
    end.

  Lemma gexec_reachable : forall s w0 c c',
    reachable ps w0 c -> gexec s c = Some c' -> reachable ps w0 c'.
  Proof.
    induction s as [|[i f] s IH]; intros w0 c c' Hr He; simpl in He.
    - inversion He; subst; auto.
    - destruct f.
      + destruct (fault_step ps c i) eqn:E; [|discriminate].
        eapply IH; [|exact He]. eapply reach_step; [exact Hr|]. eapply gs_fault. exact E.
      + destruct (thread_step ps c i) eqn:E; [|discriminate].
        eapply IH; [|exact He]. eapply reach_step; [exact Hr|]. eapply gs_norm. exact E.
  Qed.

  (* no normal step implies no faulted step either: a fault needs an enabled operation *)
  Lemma stuck_gstuck : forall c, stuck ps c -> gstuck ps c.
  Proof.
    intros c Hst c' Hs. destruct Hs as [c i c' H|c i c' H].
    - rewrite (Hst i) in H. discriminate.
    - apply fault_step_inv in H. destruct H as (hist & o & k & H1 & H2 & H3 & _).
      specialize (Hst i). unfold thread_step in Hst. unfold residual in H2.
      destruct (nth_error ps i); [|discriminate]. rewrite H1 in *. rewrite H2 in Hst.
      destruct (exec_op i o (snd c)) as [[a w']|] eqn:E; [discriminate|].
      apply exec_op_enabled in E. destruct E as (cls & x & -> & _).
      destruct cls; discriminate.
  Qed.
End GExec.
