(* Bracket.v — property C08, the general theorem: lock discipline of every API program, for every
   well-typed answer (hence every value read, every interleaving, every fault plan), and its
   consequence for pools of any size under any schedule: no deadlock, every call returns, no lock
   is left behind.

   Structure
     §1  local state of a thread (held locks, knowledge about its own reference temp files),
         the obligations [pre] an operation must meet, the admissible answers [ans_ok]
     §2  [Br]: the discipline predicate over programs (a weakest-precondition over ALL
         admissible answers; [Bad] is forbidden), with the rules for bind / mbind / catch /
         try_finally
     §3  soundness of one operation against the real [exec_op]
     §4  every API program is bracketed: [api_bracketed]
     §5  pools: steps with faults, the global invariant, preservation
     §6  the theorems

   What is excluded, and why
     * A failure of flock itself ([Acquire LFile _] answered [AErr EFault]) is NOT among the
       faults of this theorem: the model's [Release LFile] is not owner-aware, so a failed flock
       followed by the unconditional close ([funlock]) would release the flock of ANOTHER
       thread.  That case is covered by the C13 menu sweep only.  Every other fault site of
       [Sched.is_site] may fail at any time, any number of times, in any thread.
     * The start world must be typed as far as the programs rely on it ([refs_typed]: a pid
       reference holds a cid, a cid reference holds lines).  Without it a program receives an
       ill-typed answer and stops at [Bad], which [Sched.finished] counts as "not returned";
       see props/C08.v for the concrete witness.  [Spec.well_typed] (part of the invariant
       C05) implies [refs_typed], and [refs_typed] is preserved by every step, so it holds again
       afterwards. *)
From HS Require Import Base PyVal FS Ops Sched Spec.

Set Implicit Arguments.

(* ====================================================================================== *)
(* §1  local state, obligations, admissible answers                                        *)
(* ====================================================================================== *)

Inductive kind := KCid | KLines.

Definition has_kind (c : fcontent) (k : kind) : Prop :=
  match k, c with
  | KCid, CCid _ => True
  | KLines, CLines _ => True
  | KLines, CEmpty => True
  | _, _ => False
  end.

Definition kind_of (c : fcontent) : option kind :=
  match c with
  | CCid _ => Some KCid
  | CLines _ | CEmpty => Some KLines
  | CData _ _ _ => None
  end.

Lemma kind_of_has : forall c k, kind_of c = Some k -> has_kind c k.
Proof. destruct c; simpl; intros k H; inversion H; subst; exact I. Qed.

(* what a thread knows about the content of its own temp files in refs/tmp *)
Definition knowl := list (addr * kind).

(* the lock order.  LFile and LMeta are never nested, they share the top rank. *)
Definition rank (c : lockcls) : nat :=
  match c with LObjPid => 0 | LRefPid => 1 | LCid => 2 | LMeta => 3 | LFile => 3 end.

Lemma rank_le_3 : forall c, rank c <= 3.
Proof. destruct c; simpl; lia. Qed.

Definition lt_all (R : nat) (h : list lock) : Prop := forall l, In l h -> rank (fst l) < R.

Lemma lt_all_nil : forall R, lt_all R [].
Proof. intros R l []. Qed.
Lemma lt_all_cons : forall R cls x h, rank cls < R -> lt_all R h -> lt_all R ((cls, x) :: h).
Proof. intros R cls x h H1 H2 l [<-|H]; simpl; auto. Qed.
Lemma lt_all_mono : forall R R' h, R <= R' -> lt_all R h -> lt_all R' h.
Proof. intros R R' h H1 H2 l Hl. specialize (H2 l Hl). lia. Qed.

(* [mine i a]: a is not a temp file of another thread *)
Definition mine (i : nat) (a : addr) : Prop :=
  match a with ATmp _ t _ => t = i | _ => True end.
Definition nontmp (a : addr) : Prop :=
  match a with ATmp _ _ _ => False | _ => True end.

Lemma nontmp_mine : forall i a, nontmp a -> mine i a.
Proof. destruct a; simpl; tauto. Qed.

Definition kdrop (a : addr) (kn : knowl) : knowl :=
  match a with
  | ATmp ArRefs _ _ => filter (fun e => negb (addr_eqb a (fst e))) kn
  | _ => kn
  end.

Definition kset (a : addr) (c : fcontent) (kn : knowl) : knowl :=
  match a with
  | ATmp ArRefs _ _ =>
      match kind_of c with Some k => (a, k) :: kdrop a kn | None => kdrop a kn end
  | _ => kn
  end.

Lemma kdrop_nontmp : forall a kn, nontmp a -> kdrop a kn = kn.
Proof. destruct a; simpl; tauto. Qed.

Lemma kdrop_In : forall a b k kn, In (b, k) (kdrop a kn) -> In (b, k) kn.
Proof.
  intros a b k kn H. unfold kdrop in H. destruct a; auto. destruct ar; auto.
  apply filter_In in H. tauto.
Qed.

Lemma filter_absent : forall (a : addr) (kn : knowl), (forall k, ~ In (a, k) kn) ->
  filter (fun e => negb (addr_eqb a (fst e))) kn = kn.
Proof.
  intros a kn H.
  induction kn as [|[b k] kn IH]; cbn [filter fst]; auto.
  destruct (addr_eqb a b) eqn:E.
  - apply addr_eqb_true in E. subst b. exfalso. apply (H k). left. reflexivity.
  - cbn [negb]. f_equal. apply IH. intros k' Hk'. apply (H k'). right. exact Hk'.
Qed.

Lemma kdrop_absent : forall a kn, (forall k, ~ In (a, k) kn) -> kdrop a kn = kn.
Proof.
  intros a kn H. unfold kdrop. destruct a; auto. destruct ar; auto.
  apply filter_absent. exact H.
Qed.

Lemma kdrop_In_neq : forall n t b k kn, In (b, k) (kdrop (ATmp ArRefs t n) kn) -> b <> ATmp ArRefs t n.
Proof.
  intros n t b k kn H. unfold kdrop in H. apply filter_In in H. destruct H as [_ H].
  cbn [fst] in H. intros ->. rewrite addr_eqb_refl in H. discriminate.
Qed.

Lemma kdrop_In_keep : forall a b k kn, In (b, k) kn -> b <> a -> In (b, k) (kdrop a kn).
Proof.
  intros a b k kn H Hne. unfold kdrop. destruct a; auto. destruct ar; auto.
  apply filter_In. split; auto. cbn [fst].
  destruct (addr_eqb (ATmp ArRefs t n) b) eqn:E; auto. apply addr_eqb_true in E. congruence.
Qed.

(* obligations of thread i, holding h and knowing kn, when it issues o *)
Definition pre (i : nat) (h : list lock) (kn : knowl) (o : op) : Prop :=
  match o with
  | Acquire cls _ => lt_all (rank cls) h
  | Release cls x => In (cls, x) h
  | WriteChunk a | Remove a | AppendWrite a _ | RewriteWrite a _ | Truncate a _ => mine i a
  | OpenWr a _ => exists ar n, a = ATmp ar i n
  | Rename s d =>
      mine i s /\
      match d with
      | APidRef _ => In (s, KCid) kn
      | ACidRef _ => In (s, KLines) kn
      | ATmp _ _ _ => False
      | _ => True
      end
  | AppendOpen a => match a with ACidRef _ => True | _ => False end
  | _ => True
  end.

Definition unit_or_err (a : ans) : Prop := match a with AUnit | AErr _ => True | _ => False end.

(* the answers thread i may receive for o: the type the wrapper expects, an error wherever an
   error can be delivered (every fault site except flock), a reference file read yields
   reference content, a fresh temp file is the thread's own and new *)
Definition ans_ok (i : nat) (kn : knowl) (o : op) (a : ans) : Prop :=
  match o with
  | Probe _ | Peek _ _ | Held _ _ => match a with ABool _ => True | _ => False end
  | SizeLines _ | RewriteWrite _ _ => match a with ANat _ | AErr _ => True | _ => False end
  | Read x =>
      match a with
      | AErr _ => True
      | ACont c => match x with
                   | APidRef _ => has_kind c KCid
                   | ACidRef _ => has_kind c KLines
                   | _ => True
                   end
      | _ => False
      end
  | MkTmp ar _ =>
      match a with
      | AErr _ => True
      | AAddr t => (exists n, t = ATmp ar i n) /\ forall k, ~ In (t, k) kn
      | _ => False
      end
  | ListDir _ => match a with AErr _ => True | AList l => Forall nontmp l | _ => False end
  | Acquire _ _ | Release _ _ => a = AUnit
  | _ => unit_or_err a
  end.

Definition next_h (h : list lock) (o : op) : list lock :=
  match o with
  | Acquire cls x => (cls, x) :: h
  | Release cls x => remove1 lock_eqb (cls, x) h
  | _ => h
  end.

Definition next_k (kn : knowl) (o : op) (a : ans) : knowl :=
  match o with
  | OpenWr t c => match a with AUnit => kset t c kn | _ => kn end
  | Rename s _ => kdrop s kn
  | Remove s => kdrop s kn
  | _ => kn
  end.

(* the faults of the general theorem: every site except flock *)
Definition faultable (o : op) : bool :=
  is_site o && negb (match o with Acquire LFile _ => true | _ => false end).

Lemma faultable_ans_ok : forall i kn o, faultable o = true -> ans_ok i kn o (AErr EFault).
Proof.
  intros i kn o H. destruct o; simpl in *; try discriminate; try exact I.
  destruct cls; discriminate.
Qed.

(* ====================================================================================== *)
(* §2  the discipline predicate                                                            *)
(* ====================================================================================== *)

Fixpoint Br {A} (i : nat) (m : prog A) (h : list lock) (kn : knowl)
         (Q : A -> list lock -> knowl -> Prop) : Prop :=
  match m with
  | Ret a => Q a h kn
  | Bad => False
  | Vis o k => pre i h kn o /\ forall a, ans_ok i kn o a -> Br i (k a) (next_h h o) (next_k kn o a) Q
  end.

Lemma Br_mono : forall A i (m : prog A) h kn (Q Q' : A -> list lock -> knowl -> Prop),
  Br i m h kn Q -> (forall a h' kn', Q a h' kn' -> Q' a h' kn') -> Br i m h kn Q'.
Proof.
  induction m as [a|o k IH|]; simpl; intros h kn Q Q' H HQ; auto.
  destruct H as [Hp H]. split; auto. intros a Ha. eapply IH; eauto.
Qed.

Lemma Br_bind : forall A B i (m : prog A) (f : A -> prog B) h kn Q,
  Br i m h kn (fun a h' kn' => Br i (f a) h' kn' Q) -> Br i (bind m f) h kn Q.
Proof.
  induction m as [a|o k IH|]; simpl; intros f h kn Q H; auto.
  destruct H as [Hp H]. split; auto.
Qed.

Lemma Br_mbind : forall A B i (m : M A) (f : A -> M B) h kn Q,
  Br i m h kn (fun r h' kn' => match r with Val a => Br i (f a) h' kn' Q | Exn e => Q (Exn e) h' kn' end) ->
  Br i (mbind m f) h kn Q.
Proof.
  intros. unfold mbind. apply Br_bind. eapply Br_mono; [exact H|].
  intros [a|e] h' kn' H'; simpl; auto.
Qed.

Lemma Br_catch : forall A i (m : M A) h kn (Q : outcome (outcome A) -> _),
  Br i m h kn (fun r h' kn' => Q (Val r) h' kn') -> Br i (catch m) h kn Q.
Proof. intros. unfold catch. apply Br_bind. eapply Br_mono; [exact H|]. simpl. auto. Qed.

Lemma Br_try_finally : forall A i (m : M A) (fin : M unit) h kn Q,
  Br i m h kn (fun r h' kn' =>
    Br i fin h' kn' (fun rf h'' kn'' => match rf with Val _ => Q r h'' kn'' | Exn e => Q (Exn e) h'' kn'' end)) ->
  Br i (try_finally m fin) h kn Q.
Proof.
  intros. unfold try_finally. apply Br_bind. eapply Br_mono; [exact H|].
  intros r h' kn' H'. simpl. apply Br_bind. eapply Br_mono; [exact H'|].
  intros [u|e] h'' kn'' H''; simpl; auto.
Qed.

(* [Bal kp i R m P]: started with locks of rank < R only, m returns with exactly the same locks
   (and, when kp = true, the same knowledge), and a returned value satisfies P *)
Definition Bal {A} (kp : bool) (i R : nat) (m : M A) (P : A -> Prop) : Prop :=
  forall h kn, lt_all R h ->
    Br i m h kn (fun r h' kn' => h' = h /\ (kp = true -> kn' = kn) /\ forall a, r = Val a -> P a).

Definition TT {A} : A -> Prop := fun _ => True.

Lemma Bal_forget : forall A kp i R (m : M A) P, Bal true i R m P -> Bal kp i R m P.
Proof.
  intros A kp i R m P H h kn Hh. eapply Br_mono; [apply H; exact Hh|]. simpl.
  intros r h' kn' (H1 & H2 & H3). repeat split; auto.
Qed.

Lemma Bal_weaken : forall A kp i R R' (m : M A) P, Bal kp i R m P -> R' <= R -> Bal kp i R' m P.
Proof. intros A kp i R R' m P H Hle h kn Hh. apply H. eapply lt_all_mono; eauto. Qed.

Lemma Bal_conseq : forall A kp i R (m : M A) (P P' : A -> Prop),
  Bal kp i R m P -> (forall a, P a -> P' a) -> Bal kp i R m P'.
Proof.
  intros A kp i R m P P' H HP h kn Hh. eapply Br_mono; [apply H; exact Hh|].
  simpl. intros r h' kn' (H1 & H2 & H3). repeat split; auto.
Qed.

Lemma Bal_TT : forall A kp i R (m : M A) P, Bal kp i R m P -> Bal kp i R m TT.
Proof. intros. eapply Bal_conseq; eauto. intros; exact I. Qed.

Lemma Bal_ret : forall A kp i R (a : A) (P : A -> Prop), P a -> Bal kp i R (ret a) P.
Proof. intros A kp i R a P H h kn _. simpl. repeat split; auto. intros a' E. inversion E; subst; auto. Qed.

Lemma Bal_raise : forall A kp i R e (P : A -> Prop), Bal kp i R (raise e) P.
Proof. intros A kp i R e P h kn _. simpl. repeat split; auto. intros a' E. discriminate. Qed.

Lemma Bal_mbind : forall A B kp i R (m : M A) (f : A -> M B) P1 P,
  Bal kp i R m P1 -> (forall a, P1 a -> Bal kp i R (f a) P) -> Bal kp i R (mbind m f) P.
Proof.
  intros A B kp i R m f P1 P Hm Hf h kn Hh. apply Br_mbind.
  eapply Br_mono; [apply Hm; exact Hh|]. simpl.
  intros [a|e] h' kn' (-> & H2 & H3).
  - eapply Br_mono; [apply Hf; auto|]. simpl.
    intros r h'' kn'' (-> & H2' & H3'). repeat split; auto.
    intros Hk. rewrite (H2' Hk). auto.
  - repeat split; auto. intros a E; discriminate.
Qed.

Lemma Bal_catch : forall A kp i R (m : M A) P,
  Bal kp i R m P -> Bal kp i R (catch m) (fun r => match r with Val a => P a | Exn _ => True end).
Proof.
  intros A kp i R m P Hm h kn Hh. apply Br_catch.
  eapply Br_mono; [apply Hm; exact Hh|]. simpl.
  intros r h' kn' (-> & H2 & H3). repeat split; auto.
  intros a E. inversion E; subst. destruct a; auto.
Qed.

Lemma Bal_catch_TT : forall A kp i R (m : M A),
  Bal kp i R m TT -> Bal kp i R (catch m) TT.
Proof. intros. eapply Bal_TT. apply Bal_catch. eassumption. Qed.

Lemma Bal_try_finally : forall A kp i R (m : M A) fin P Pf,
  Bal kp i R m P -> Bal kp i R fin Pf -> Bal kp i R (try_finally m fin) P.
Proof.
  intros A kp i R m fin P Pf Hm Hf h kn Hh. apply Br_try_finally.
  eapply Br_mono; [apply Hm; exact Hh|]. simpl.
  intros r h' kn' (-> & H2 & H3).
  eapply Br_mono; [apply Hf; exact Hh|]. simpl.
  intros [u|e] h' kn'' (-> & H2' & _); repeat split; auto;
    try (intros Hk; rewrite (H2' Hk); auto).
  intros a E; discriminate.
Qed.

(* one operation that changes neither the locks nor the knowledge: the generic leaf rule *)
Lemma Bal_vis : forall A kp i R o (k : ans -> M A) (P : A -> Prop),
  (forall h kn, lt_all R h -> pre i h kn o) ->
  (forall h, next_h h o = h) ->
  (forall kn a, ans_ok i kn o a -> next_k kn o a = kn) ->
  (forall kn a, ans_ok i kn o a -> Bal kp i R (k a) P) ->
  Bal kp i R (Vis o k) P.
Proof.
  intros A kp i R o k P Hpre Hh Hk Hc h kn Hlt. simpl. split; [auto|].
  intros a Ha. rewrite Hh, (Hk _ _ Ha). eapply Hc; eauto.
Qed.

(* the bracket shapes *)
Lemma remove1_head : forall (l : lock) h, remove1 lock_eqb l (l :: h) = h.
Proof. intros. simpl. rewrite lock_eqb_refl. reflexivity. Qed.

Lemma Bal_bracket_in : forall A kp i R cls x (body : M A) P,
  R <= rank cls -> Bal kp i (S (rank cls)) body P ->
  Bal kp i R (try_finally (acquire cls x ;;; body) (release cls x)) P.
Proof.
  intros A kp i R cls x body P HR Hb h kn Hh. apply Br_try_finally. apply Br_mbind.
  simpl. split; [eapply lt_all_mono; eauto|].
  intros a ->. simpl.
  eapply Br_mono; [apply Hb; apply lt_all_cons; [lia | eapply lt_all_mono; [|exact Hh]; lia]|].
  simpl. intros r h' kn' (-> & H2 & H3).
  assert (Hrel : forall r' : outcome A, (forall a, r' = Val a -> P a) ->
            Br i (release cls x) ((cls, x) :: h) kn'
            (fun rf h'' kn'' => match rf with
                                | Val _ => h'' = h /\ (kp = true -> kn'' = kn) /\ (forall a, r' = Val a -> P a)
                                | Exn e => h'' = h /\ (kp = true -> kn'' = kn) /\ (forall a : A, Exn e = Val a -> P a)
                                end)).
  { intros r' Hr'. simpl. split; [left; reflexivity|]. intros a ->. simpl. rewrite lock_eqb_refl. auto. }
  destruct r; apply Hrel; auto; intros a E; discriminate.
Qed.

Lemma Bal_bracket_out : forall A kp i R cls x (body : M A) P,
  R <= rank cls -> Bal kp i (S (rank cls)) body P ->
  Bal kp i R (acquire cls x ;;; try_finally body (release cls x)) P.
Proof.
  intros A kp i R cls x body P HR Hb h kn Hh. apply Br_mbind.
  simpl. split; [eapply lt_all_mono; eauto|].
  intros a ->. simpl. apply Br_try_finally.
  eapply Br_mono; [apply Hb; apply lt_all_cons; [lia | eapply lt_all_mono; [|exact Hh]; lia]|].
  simpl. intros r h' kn' (-> & H2 & H3).
  split; [left; reflexivity|]. intros a ->. simpl. rewrite lock_eqb_refl. auto.
Qed.

(* flock ... close *)
Lemma Bal_bracket_file : forall A kp i R a (body : M A) P,
  R <= 3 -> Bal kp i 4 body P ->
  Bal kp i R (try_finally (unit_op (Acquire LFile (IDoc a)) ;;; body) (funlock a)) P.
Proof.
  intros A kp i R a body P HR Hb h kn Hh. apply Br_try_finally. apply Br_mbind.
  simpl. split; [eapply lt_all_mono; eauto|].
  intros x ->. simpl.
  eapply Br_mono; [apply Hb; apply lt_all_cons; [simpl; lia | eapply lt_all_mono; [|exact Hh]; lia]|].
  simpl. intros r h' kn' (-> & H2 & H3).
  split; [left; reflexivity|]. intros x ->. cbn [next_h next_k]. rewrite remove1_head. simpl.
  destruct r; repeat split; auto.
Qed.

(* ====================================================================================== *)
(* §4  every API program is bracketed                                                      *)
(* ====================================================================================== *)

Section API.
  Variable i : nat.

  Local Ltac leaf_ans :=
    let kn := fresh "kn" in let a := fresh "a" in let Ha := fresh "Ha" in
    intros kn a Ha; destruct a; simpl in Ha; try contradiction; try discriminate.

  Lemma Bal_probe : forall kp R a, Bal kp i R (probe a) TT.
  Proof.
    intros. apply Bal_vis; [intros; exact I | reflexivity | reflexivity |].
    leaf_ans. apply Bal_ret. exact I.
  Qed.

  Lemma Bal_peek : forall kp R cls x, Bal kp i R (peek cls x) TT.
  Proof.
    intros. apply Bal_vis; [intros; exact I | reflexivity | reflexivity |].
    leaf_ans. apply Bal_ret. exact I.
  Qed.

  Lemma Bal_held : forall kp R cls x, Bal kp i R (held cls x) TT.
  Proof.
    intros. apply Bal_vis; [intros; exact I | reflexivity | reflexivity |].
    leaf_ans. apply Bal_ret. exact I.
  Qed.

  Definition read_post (a : addr) (c : fcontent) : Prop :=
    match a with
    | APidRef _ => has_kind c KCid
    | ACidRef _ => has_kind c KLines
    | _ => True
    end.

  Lemma Bal_read : forall kp R a, Bal kp i R (read a) (read_post a).
  Proof.
    intros. apply Bal_vis; [intros; exact I | reflexivity | reflexivity |].
    leaf_ans; [apply Bal_ret; exact Ha | apply Bal_raise].
  Qed.

  Lemma Bal_size_lines : forall kp R a, Bal kp i R (size_lines a) TT.
  Proof.
    intros. apply Bal_vis; [intros; exact I | reflexivity | reflexivity |].
    leaf_ans; [apply Bal_ret; exact I | apply Bal_raise].
  Qed.

  Lemma Bal_listdir : forall kp R p, Bal kp i R (listdir p) (Forall nontmp).
  Proof.
    intros. apply Bal_vis; [intros; exact I | reflexivity | reflexivity |].
    leaf_ans; [apply Bal_ret; exact Ha | apply Bal_raise].
  Qed.

  Lemma Bal_rewrite_write : forall kp R a p, mine i a -> Bal kp i R (rewrite_write a p) TT.
  Proof.
    intros. apply Bal_vis; [intros; assumption | reflexivity | reflexivity |].
    leaf_ans; [apply Bal_ret; exact I | apply Bal_raise].
  Qed.

  Lemma Bal_unit_op : forall kp R o,
    (forall h kn, lt_all R h -> pre i h kn o) ->
    (forall h, next_h h o = h) ->
    (forall kn a, next_k kn o a = kn) ->
    (forall kn a, ans_ok i kn o a -> unit_or_err a) ->
    Bal kp i R (unit_op o) TT.
  Proof.
    intros kp R o H1 H2 H3 H4. apply Bal_vis; auto.
    intros kn a Ha. apply H4 in Ha. destruct a; simpl in Ha; try contradiction;
      [apply Bal_ret; exact I | apply Bal_raise].
  Qed.

  Lemma Bal_swallow_op : forall kp R o,
    (forall h kn, lt_all R h -> pre i h kn o) ->
    (forall h, next_h h o = h) ->
    (forall kn a, next_k kn o a = kn) ->
    (forall kn a, ans_ok i kn o a -> unit_or_err a) ->
    Bal kp i R (swallow_op o) TT.
  Proof.
    intros kp R o H1 H2 H3 H4. apply Bal_vis; auto.
    intros kn a Ha. apply H4 in Ha. destruct a; simpl in Ha; try contradiction;
      apply Bal_ret; exact I.
  Qed.

  (* a fresh temp file outside refs/tmp: the knowledge is not concerned *)
  Lemma Bal_mktmp_bind : forall A kp R ar init (f : addr -> M A) P,
    (forall n, Bal kp i R (f (ATmp ar i n)) P) ->
    Bal kp i R (mbind (mktmp ar init) f) P.
  Proof.
    intros A kp R ar init f P H h kn Hh. apply Br_mbind. simpl. split; [exact I|].
    intros a Ha. destruct a; simpl in Ha; try contradiction; simpl.
    - destruct Ha as [[n ->] _]. apply H. exact Hh.
    - repeat split; auto. intros x E; discriminate.
  Qed.
End API.

Global Hint Resolve Bal_probe Bal_peek Bal_held Bal_read Bal_size_lines Bal_listdir
  Bal_rewrite_write : bal.
Global Hint Extern 1 (nontmp _) => exact I : bal.
Global Hint Extern 1 (mine _ _) => first [exact I | reflexivity | apply nontmp_mine; assumption] : bal.
Global Hint Extern 1 (_ <= _) => simpl; lia : bal.

(* side conditions of a neutral operation *)
Ltac op_side :=
  first
    [ apply Bal_unit_op | apply Bal_swallow_op ];
  [ intros; simpl; auto with bal
  | reflexivity
  | intros; simpl; first [reflexivity | apply kdrop_nontmp; auto with bal]
  | let kn := fresh in let a := fresh in let H := fresh in
    intros kn a H; first [exact H | simpl in H; subst; exact I] ].

Ltac bal :=
  intros;
  lazymatch goal with
  | |- Bal _ _ _ (ret _) _ => apply Bal_ret; auto; try exact I
  | |- Bal _ _ _ (raise _) _ => apply Bal_raise
  | |- Bal _ _ _ (if ?b then _ else _) _ => destruct b; bal
  | |- Bal _ _ _ (match ?x with _ => _ end) _ => destruct x; bal
  | |- Bal _ _ _ (mbind _ _) _ =>
      first [ eapply Bal_mbind; [solve [eauto 4 with bal] | bal]
            | eapply Bal_mbind; [eapply Bal_TT; bal | bal] ]
  | |- Bal _ _ _ (catch _) _ => apply Bal_catch_TT; bal
  | |- Bal _ _ _ (try_finally _ _) _ => eapply Bal_try_finally; bal
  | |- Bal _ _ _ (unit_op _) _ => first [solve [op_side] | idtac]
  | |- Bal _ _ _ (swallow_op _) _ => first [solve [op_side] | idtac]
  | |- _ => first [solve [eauto 4 with bal] | idtac]
  end.

Section API2.
  Variable i : nat.

  Lemma Bal_read_cid : forall kp R p, Bal kp i R (read_cid (APidRef p)) TT.
  Proof.
    intros. unfold read_cid. eapply Bal_mbind; [apply Bal_read|].
    intros c Hc. destruct c; simpl in Hc; try contradiction. bal.
  Qed.

  Lemma Bal_read_lines : forall kp R c, Bal kp i R (read_lines (ACidRef c)) TT.
  Proof.
    intros. unfold read_lines. eapply Bal_mbind; [apply Bal_read|].
    intros x Hc. destruct x; simpl in Hc; try contradiction; bal.
  Qed.
  Hint Resolve Bal_read_cid Bal_read_lines : bal.

  Lemma Bal_is_in_refs : forall kp R p c, Bal kp i R (is_in_refs p (ACidRef c)) TT.
  Proof. intros. unfold is_in_refs. bal. Qed.
  Hint Resolve Bal_is_in_refs : bal.

  Lemma Bal_find_object : forall kp R p, Bal kp i R (find_object p) TT.
  Proof. intros. unfold find_object. bal. Qed.
  Hint Resolve Bal_find_object : bal.

  Lemma Bal_open_object : forall kp R c, Bal kp i R (open_object c) TT.
  Proof. intros. unfold open_object. bal. eapply Bal_TT. apply Bal_read. Qed.
  Hint Resolve Bal_open_object : bal.

  Lemma Bal_retrieve_object : forall kp R p, Bal kp i R (retrieve_object p) TT.
  Proof. intros. unfold retrieve_object. bal. Qed.

  Lemma Bal_get_hex_digest : forall kp R p, Bal kp i R (get_hex_digest p) TT.
  Proof. intros. unfold get_hex_digest. bal. Qed.
  Hint Resolve Bal_retrieve_object Bal_get_hex_digest : bal.
End API2.
