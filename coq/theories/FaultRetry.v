(* FaultRetry.v — property C13, second clause, the RETRY: "after a failed store_object or tag_object
   the pid is unbound and can be stored again AT ONCE (or its earlier binding is intact)".

   FaultBound.v: after a ONE-OFF fault a raising store_object(pid, ...) / tag_object(pid, cid) leaves
   the pid's reference files as before the call, or the pid completely unbound.  Here: in the second
   case THE SAME CALL ISSUED AGAIN, fault-free, on the world the failed call left — with its leftover
   temp files, possibly the object stored but not tagged, possibly deletion markers — SUCCEEDS and
   binds the pid completely, for every call that can succeed at all ([retryable]: tag_object, or
   store_object(pid, ...) with a source and without mismatching validation data), every start state
   satisfying the representation invariant, every fault position.

   What the retry needs of the world is little: the permanent files are well typed (the weak
   invariant of FaultGeneral.v, which survives every faulted call), no lock is left (FaultBound.v),
   and the pid has no reference.  Temp files do not matter (a new temp file gets a fresh name), an
   object that is already there makes the store take the de-duplication path. *)
From HS Require Import Base PyVal FS Ops Spec Sched RefineLemmas RefineLemmas2 Refine SeqProps
  CrashFault Integrity CrashGeneral FaultGeneral FaultSuccess FaultBound.

Local Arguments exec_op : simpl never.

(* ================================================================================== *)
(* 1. The calls that can succeed                                                       *)
(* ================================================================================== *)

(* tag_object(pid, cid); store_object(pid, data, ...) with a readable source and without a size /
   checksum argument that does not match the data (a missing source and mismatching validation data
   make the call raise by themselves, whatever the store holds) *)
Definition retryable (c : call) : Prop :=
  match c with
  | CTag _ _ => True
  | CStore (Some _) s _ _ sz ck => src_ok s = true /\ sz <> VSzBad /\ ck <> VCkBad
  | _ => False
  end.

(* [retryable] is exactly: the fault-free call succeeds from a state in which the pid is unbound *)
Theorem retryable_iff_succeeds : forall w0 c p,
  Inv w0 -> binds_pid c = true -> call_pid c = Some p -> lookup (APidRef p) (fs w0) = None ->
  (retryable c <-> exists w1 v1, run_seq w0 (api c) = Some (w1, Val v1)).
Proof.
  intros w0 c p HI Hb Hp Hu.
  assert (Hpc : proper_call c) by (destruct c; try discriminate Hb; exact I).
  destruct (api_refines w0 c HI Hpc) as (w' & Hr & _ & _).
  destruct HI as [(W & I1 & I2) _].
  assert (Htag : forall m1 k, lookup (APidRef p) m1 = None ->
            (forall y, lookup (ACidRef k) m1 = Some y -> exists l, y = CLines l) ->
            exists m2, sem_tag m1 p k = (m2, Val tt)).
  { intros m1 k H1 H2. unfold sem_tag. rewrite H1.
    destruct (lookup (ACidRef k) m1) as [y|] eqn:E; [|eexists; reflexivity].
    destruct (H2 y eq_refl) as [l ->]. eexists; reflexivity. }
  assert (Hsucc : retryable c <-> exists v, snd (sem (fs w0) c) = Val v).
  { destruct c; try discriminate Hb; simpl in Hp.
    - subst p0. cbn [retryable sem]. unfold sem_store.
      destruct s; cbn [src_ok negb snd].
      + destruct (Htag (if present (AObj b) (fs w0) then fs w0 else update (AObj b) (CData b n n) (fs w0)) b)
          as (m2 & Ht).
        { destruct (present (AObj b) (fs w0)); [exact Hu|].
          rewrite lookup_update_neq by discriminate. exact Hu. }
        { intros y. destruct (present (AObj b) (fs w0)); [apply (wt_cidref _ _ _ W)|].
          rewrite lookup_update_neq by discriminate. apply (wt_cidref _ _ _ W). }
        destruct sz, ck; rewrite ?Ht; cbn [snd]; split;
          try (intros _; eexists; reflexivity);
          try (intros [v Hv]; discriminate Hv);
          try (intros (_ & H1 & H2); exfalso; first [apply H1; reflexivity | apply H2; reflexivity]);
          intros _; repeat split; discriminate.
      + split; [intros [H _]; discriminate H|intros [v Hv]; discriminate Hv].
      + destruct (Htag (if present (AObj b) (fs w0) then fs w0 else update (AObj b) (CData b n n) (fs w0)) b)
          as (m2 & Ht).
        { destruct (present (AObj b) (fs w0)); [exact Hu|].
          rewrite lookup_update_neq by discriminate. exact Hu. }
        { intros y. destruct (present (AObj b) (fs w0)); [apply (wt_cidref _ _ _ W)|].
          rewrite lookup_update_neq by discriminate. apply (wt_cidref _ _ _ W). }
        destruct sz, ck; rewrite ?Ht; cbn [snd]; split;
          try (intros _; eexists; reflexivity);
          try (intros [v Hv]; discriminate Hv);
          try (intros (_ & H1 & H2); exfalso; first [apply H1; reflexivity | apply H2; reflexivity]);
          intros _; repeat split; discriminate.
    - inversion Hp; subst p0. cbn [retryable sem].
      destruct (Htag (fs w0) c Hu (fun y => wt_cidref _ _ _ W)) as (m2 & Ht). rewrite Ht. cbn [snd].
      split; [intros _; eexists; reflexivity|intros _; exact I]. }
  rewrite Hsucc. split.
  - intros [v Hv]. exists w', v. rewrite Hr, Hv. reflexivity.
  - intros (w1 & v1 & H1). rewrite Hr in H1. inversion H1. eauto.
Qed.

(* ================================================================================== *)
(* 2. The fault-free call from a well-typed store in which the pid has no reference    *)
(* ================================================================================== *)

(* _move_and_get_checksums with validation data that match: whatever temp files lie around, the
   object is there afterwards (written now, or found and left alone) *)
Lemma run_mgc_valid : forall p b n sz ck m L, sz <> VSzBad -> ck <> VCkBad ->
  exists m', run_seq (mkWorld m L) (move_and_get_checksums (Some p) b n sz ck) =
               Some (mkWorld m' L, Val b) /\
             fs_eq m' (obj_added b n m).
Proof.
  intros p b n sz ck m L Hsz Hck. unfold move_and_get_checksums, obj_added, present. cbv zeta.
  rewrite run_mbind, run_mktmp. name_tmp. cbn beta iota.
  rewrite run_mbind, run_catch.
  destruct (run_write_chunks n (ATmp ArObj 0 n0) b n 0 (update (ATmp ArObj 0 n0) (CData b n 0) m) L)
    as (m1 & Hr & Hm1); [apply lookup_update_eq|].
  rewrite Hr. cbn beta iota. cbn [Nat.add] in Hm1.
  destruct sz; try (exfalso; apply Hsz; reflexivity);
    destruct ck; try (exfalso; apply Hck; reflexivity);
    destruct (lookup (AObj b) m) as [o|] eqn:Ho; cbn [verify_object]; steps; finish.
Qed.

(* tag_object: CrashGeneral.tag_object_total with the frame (every other cid list is left alone) *)
Lemma tag_object_total_frame : forall m L p c, typed m -> lookup (APidRef p) m = None ->
  memb lock_eqb (LRefPid, IPid p) L = false -> memb lock_eqb (LCid, ICid c) L = false ->
  memb lock_eqb (LFile, IDoc (ACidRef c)) L = false ->
  exists m', run_seq (mkWorld m L) (tag_object p c) = Some (mkWorld m' L, Val tt) /\
    lookup (APidRef p) m' = Some (CCid c) /\
    (exists l, lookup (ACidRef c) m' = Some (CLines l) /\ memb Nat.eqb p l = true) /\
    (forall k, lookup (AObj k) m' = lookup (AObj k) m) /\
    (forall k, k <> c -> lookup (ACidRef k) m' = lookup (ACidRef k) m).
Proof.
  intros m L p c Ht Hp HL1 HL2 HL3.
  unfold tag_object, store_refs_body, and_sc, notm.
  destruct (lookup (ACidRef c) m) as [y|] eqn:Hc.
  - destruct (Ht _ _ Hc) as [l ->].
    destruct (memb Nat.eqb p l) eqn:Hm.
    + run2. name_tmp. run2.
      eexists. split; [reflexivity|]. split; [lk; reflexivity|].
      split; [eexists; split; [lk; reflexivity|assumption]|].
      split; [intros k; lk; reflexivity|].
      intros k Hk; lk; apply Nat.eqb_neq in Hk; rewrite ?Hk; lk; reflexivity.
    + run2. name_tmp. run2.
      eexists. split; [reflexivity|]. split; [lk; reflexivity|].
      split; [eexists; split; [lk; reflexivity|apply memb_app_last]|].
      split; [intros k; lk; reflexivity|].
      intros k Hk; lk; apply Nat.eqb_neq in Hk; rewrite ?Hk; lk; reflexivity.
  - run2. name_tmp. run2. name_tmp.
    assert (Hne : Nat.eqb n n0 = false).
    { destruct (Nat.eqb n n0) eqn:E; auto. apply Nat.eqb_eq in E. subst n0.
      rewrite lookup_update_eq in Hab0. discriminate. }
    assert (Hne' : Nat.eqb n0 n = false) by (rewrite Nat.eqb_sym; exact Hne).
    repeat (run2; rewrite ?Hne, ?Hne'; cbn beta iota).
    eexists. split; [reflexivity|]. split; [lk; reflexivity|].
    split; [eexists; split; [lk; reflexivity|cbn; rewrite Nat.eqb_refl; reflexivity]|].
    split; [intros k; lk; reflexivity|].
    intros k Hk; lk; apply Nat.eqb_neq in Hk; rewrite ?Hk; lk; reflexivity.
Qed.

(* store_object(pid, ...), every source that can be read, every matching validation argument *)
Lemma store_object_retry : forall m p s d n sz ck, typed m -> lookup (APidRef p) m = None ->
  src_ok s = true -> sz <> VSzBad -> ck <> VCkBad ->
  exists m2, run_seq (mkWorld m []) (store_object (Some p) s d n sz ck) =
               Some (mkWorld m2 [], Val (VMeta d n)) /\
    lookup (APidRef p) m2 = Some (CCid d) /\
    (exists l, lookup (ACidRef d) m2 = Some (CLines l) /\ memb Nat.eqb p l = true) /\
    (forall k, k <> d -> lookup (ACidRef k) m2 = lookup (ACidRef k) m) /\
    lookup (AObj d) m2 =
      Some (match lookup (AObj d) m with Some x => x | None => CData d n n end).
Proof.
  intros m p s d n sz ck Ht Hp Hs Hsz Hck. unfold store_object.
  steps. rewrite Hs. cbn beta iota.
  match goal with
  | |- context [run_seq (mkWorld m ?L0) (move_and_get_checksums _ _ _ _ _)] =>
      destruct (run_mgc_valid p d n sz ck m L0 Hsz Hck) as (m1 & Hr & He); rewrite ?run_mbind, Hr
  end. steps.
  assert (Ht1 : typed m1).
  { intros a v Hl. rewrite He in Hl. unfold obj_added, present in Hl.
    destruct (lookup (AObj d) m) eqn:Ho; [apply Ht; exact Hl|].
    rewrite lookup_update in Hl. destruct (addr_eqb a (AObj d)) eqn:E; [|apply Ht; exact Hl].
    apply addr_eqb_true in E. subst. inversion Hl; subst. simpl. eauto. }
  assert (Hp1 : lookup (APidRef p) m1 = None).
  { rewrite He. unfold obj_added. destruct (present (AObj d) m); [exact Hp|].
    rewrite lookup_update_neq by discriminate. exact Hp. }
  assert (Hc1 : forall k, lookup (ACidRef k) m1 = lookup (ACidRef k) m).
  { intros k. rewrite He. unfold obj_added. destruct (present (AObj d) m); [reflexivity|].
    rewrite lookup_update_neq by discriminate. reflexivity. }
  assert (Ho1 : lookup (AObj d) m1 =
                Some (match lookup (AObj d) m with Some x => x | None => CData d n n end)).
  { rewrite He. unfold obj_added, present. destruct (lookup (AObj d) m) eqn:Ho.
    - exact Ho.
    - apply lookup_update_eq. }
  match goal with
  | |- context [run_seq (mkWorld m1 ?L0) (tag_object _ _)] =>
      destruct (tag_object_total_frame m1 L0 p d Ht1 Hp1 eq_refl eq_refl eq_refl)
        as (m2 & Hr2 & Q1 & Q2 & Q3 & Q4);
      rewrite Hr2
  end. steps.
  exists m2. split; [reflexivity|]. split; [exact Q1|]. split; [exact Q2|].
  split; [intros k Hk; rewrite (Q4 k Hk); apply Hc1|]. rewrite Q3. exact Ho1.
Qed.

(* ================================================================================== *)
(* 3. The retry                                                                        *)
(* ================================================================================== *)

(* no lock is held; the pid has a reference, is listed in the list of that cid and in no other *)
Definition bound_completely (w : world) (p : pid) : Prop :=
  locks w = [] /\ exists c, pid_bound_to (fs w) p c.

(* what the successful retry of call c for pid p answered and left (w0: the state before the
   failed call):
   - the pid is bound to the cid of the call (in exactly that list);
   - store_object: the answer names the cid and the size of the call; the object is there and
     retrieve_object(pid) serves it; it has the content of the call when the sizes are consistent
     ([call_size_ok]: an object of that cid in w0 has the size the call states — the token model
     lets a call state another one);
   - every OTHER pid is as in w0 (its reference, its documents, its line in the list, its object):
     the weak invariant [WI] of CrashGeneral.v. *)
Definition retry_effect (w0 : world) (c : call) (p : pid) (w2 : world) (v : value) : Prop :=
  (forall cd, call_cid c = Some cd -> pid_bound_to (fs w2) p cd) /\
  (forall s b n sz ck, c = CStore (Some p) s b n sz ck ->
     v = VMeta b n /\
     exists x, lookup (AObj b) (fs w2) = Some x /\ retr w2 p = Some (Val x) /\
               (call_size_ok w0 c -> x = CData b n n)) /\
  WI w0 p w2.

(* THE RETRY.  Every state w0 satisfying the representation invariant, every retryable call naming
   pid p, every one-off fault position k: if the call raised and left p unbound (no reference, in no
   cid list), the same call run again at once — fault-free, from the world w the failure left —
   succeeds, and p is then completely bound. *)
Theorem one_off_fault_retry : forall w0 c p k w e,
  Inv w0 -> call_pid c = Some p -> retryable c ->
  run_fault (FWait k false) w0 (api c) = Some (w, Exn e) ->
  pid_unbound (fs w) p ->
  exists w2 v, run_seq w (api c) = Some (w2, Val v) /\ bound_completely w2 p /\ retry_effect w0 c p w2 v.
Proof.
  intros w0 c p k w e HI Hp Hre Hrun [Hu1 Hu2].
  assert (Hc1 : forall p', call_pid c = Some p' -> p' = p) by (intros p' H; congruence).
  assert (Hb : binds_pid c = true) by (destruct c; try contradiction Hre; reflexivity).
  pose proof (fault_WI w0 c p _ w _ HI Hc1 Hrun) as HW.
  destruct (fault_OP w0 c p _ w _ HI Hc1 Hrun) as [HO _].
  destruct (one_off_fault_pid_consistent w0 c p k w e HI Hb Hp Hrun) as (HL & _ & _).
  destruct w as [m L]. cbn [fs locks] in *. subst L.
  assert (Hfin : forall m2 cd,
            lookup (APidRef p) m2 = Some (CCid cd) ->
            (exists l, lookup (ACidRef cd) m2 = Some (CLines l) /\ memb Nat.eqb p l = true) ->
            (forall k', k' <> cd -> lookup (ACidRef k') m2 = lookup (ACidRef k') m) ->
            pid_bound_to m2 p cd).
  { intros m2 cd Q1 (l & Q2 & Q3) Q4. split; [exact Q1|]. split.
    - exists l. split; [exact Q2|]. apply CrashFault.memb_nat_In. exact Q3.
    - intros k' l' Hl' Hin. destruct (Nat.eq_dec k' cd) as [E|E]; [exact E|].
      rewrite (Q4 k' E) in Hl'. exfalso. eapply Hu2; eauto. }
  destruct c as [[p0|] s b n sz ck|p0 cd| | | | | | | | |]; try contradiction Hre; simpl in Hp.
  - (* store_object *)
    inversion Hp; subst p0. destruct Hre as (Hs & Hsz & Hck).
    destruct (store_object_retry m p s b n sz ck (proj1 HW) Hu1 Hs Hsz Hck)
      as (m2 & Hr2 & Q1 & Q2 & Q4 & Q5).
    exists (mkWorld m2 []), (VMeta b n). split; [exact Hr2|].
    pose proof (Hfin m2 b Q1 Q2 Q4) as Hbd.
    assert (HW2 : WI w0 p (mkWorld m2 [])).
    { eapply (followup_call_WI w0 p (mkWorld m []) (CStore (Some p) s b n sz ck));
        [exact HW|exact Hc1|exact Hr2]. }
    split; [split; [reflexivity|exists b; exact Hbd]|].
    split; [intros cd Hcd; inversion Hcd; subst cd; exact Hbd|]. split; [|exact HW2].
    intros s' b' n' sz' ck' E. inversion E; subst s' b' n' sz' ck'. split; [reflexivity|].
    eexists. split; [exact Q5|]. split.
    + rewrite (retr_spec (mkWorld m2 []) p (proj1 HW2)). unfold retr_fun, sem_find, present. cbn [fs].
      destruct Q2 as (l & Q2 & Q3). rewrite Q1, Q2, Q3, Q5. cbv beta iota. rewrite Q5. reflexivity.
    + intros Hszok. destruct (lookup (AObj b) m) as [x|] eqn:Ho; [|reflexivity].
      destruct (HO b x Ho) as [H0|[_ ->]]; [|reflexivity]. apply (Hszok x H0).
  - (* tag_object *)
    inversion Hp; subst p0.
    destruct (tag_object_total_frame m [] p cd (proj1 HW) Hu1 eq_refl eq_refl eq_refl)
      as (m2 & Hr2 & Q1 & Q2 & Q3 & Q4).
    assert (Hr3 : run_seq (mkWorld m []) (api (CTag p cd)) = Some (mkWorld m2 [], Val VUnit)).
    { cbn [api]. unfold lift_unit. rewrite run_mbind, Hr2. reflexivity. }
    exists (mkWorld m2 []), VUnit. split; [exact Hr3|].
    pose proof (Hfin m2 cd Q1 Q2 Q4) as Hbd.
    split; [split; [reflexivity|exists cd; exact Hbd]|].
    split; [intros cd' Hcd; inversion Hcd; subst cd'; exact Hbd|]. split; [intros; discriminate|].
    eapply (followup_call_WI w0 p (mkWorld m []) (CTag p cd)); [exact HW|exact Hc1|exact Hr3].
Qed.
Print Assumptions one_off_fault_retry.

(* C13, second clause, for a pid that was UNBOUND before the call (the statement of the menus): the
   failed call leaves no lock and the pid unbound — no reference, in no list —, and the retry
   succeeds at once *)
Theorem one_off_fault_unbound_retry : forall w0 c p k w e,
  Inv w0 -> call_pid c = Some p -> retryable c ->
  lookup (APidRef p) (fs w0) = None ->
  run_fault (FWait k false) w0 (api c) = Some (w, Exn e) ->
  locks w = [] /\ pid_unbound (fs w) p /\
  exists w2 v, run_seq w (api c) = Some (w2, Val v) /\ bound_completely w2 p /\ retry_effect w0 c p w2 v.
Proof.
  intros w0 c p k w e HI Hp Hre Hu0 Hrun.
  assert (Hb : binds_pid c = true) by (destruct c; try contradiction Hre; reflexivity).
  destruct (one_off_fault_pid_consistent w0 c p k w e HI Hb Hp Hrun) as (HL & Hcase & _).
  assert (Hu : pid_unbound (fs w) p).
  { destruct Hcase as [[E1 E2]|Hu]; [|exact Hu]. split; [congruence|].
    intros k' l Hl Hin. rewrite E2 in Hl. destruct HI as [(_ & _ & I2) _].
    destruct (I2 _ _ Hl) as (_ & _ & Hbk). pose proof (Hbk _ Hin) as Hbp. congruence. }
  split; [exact HL|]. split; [exact Hu|].
  eapply one_off_fault_retry; eauto.
Qed.
Print Assumptions one_off_fault_unbound_retry.

(* C13, second clause, as worded: EVERY state satisfying the invariant — the pid bound or not —,
   every retryable call, every one-off fault: if the call raises, no lock is left and
   - the pid's reference and every cid list are as before the call (its earlier binding, or the
     absence of one, is intact), or
   - the pid is unbound and the same call, issued again at once, succeeds and binds it completely. *)
Theorem one_off_fault_intact_or_retry : forall w0 c p k w e,
  Inv w0 -> call_pid c = Some p -> retryable c ->
  run_fault (FWait k false) w0 (api c) = Some (w, Exn e) ->
  locks w = [] /\
  (same_refs p (fs w0) (fs w) \/
   (pid_unbound (fs w) p /\
    exists w2 v, run_seq w (api c) = Some (w2, Val v) /\ bound_completely w2 p /\
                 retry_effect w0 c p w2 v)).
Proof.
  intros w0 c p k w e HI Hp Hre Hrun.
  assert (Hb : binds_pid c = true) by (destruct c; try contradiction Hre; reflexivity).
  destruct (one_off_fault_pid_consistent w0 c p k w e HI Hb Hp Hrun) as (HL & Hcase & _).
  split; [exact HL|]. destruct Hcase as [Hs|Hu]; [left; exact Hs|right].
  split; [exact Hu|]. eapply one_off_fault_retry; eauto.
Qed.
Print Assumptions one_off_fault_intact_or_retry.

(* ================================================================================== *)
(* 4. NON-VACUITY                                                                      *)
(* ================================================================================== *)

(* Store {2 -> 7}.  (a) store_object(1, content 7 again, with matching size and checksum), one-off
   failure of fault site 7 = the write of the temp file of pid 1's reference: raises, the (empty)
   temp file stays; the retry finds the object, creates a second temp file and binds 1 -> 7 next
   to 2.  (b) the same call, failure of site 3 = the removal of the object temp file on the
   de-duplication path: raises, the temp file (the complete content) stays; the retry succeeds.
   (c) Empty store, store_object(1, content 8 of two chunks, from a stream, size given), failure of
   site 5 = makedirs for the reference: raises after the object was put; the object stays without
   any reference; the retry takes the de-duplication path and binds 1 -> 8. *)
Example retry_after_leftovers :
  let w0 := mkWorld [(AObj 7, CData 7 1 1); (APidRef 2, CCid 7); (ACidRef 7, CLines [2])] [] in
  let c1 := CStore (Some 1) SrcPath 7 1 VSzOk VCkOk in
  let c2 := CStore (Some 1) SrcStream 8 2 VSzOk VCkNone in
  Inv w0 /\ retryable c1 /\ retryable c2 /\
  (let w := mkWorld [(AObj 7, CData 7 1 1); (APidRef 2, CCid 7); (ACidRef 7, CLines [2]);
                     (ATmp ArRefs 0 0, CEmpty)] [] in
   site_op 7 w0 (api c1) = Some (OpenWr (ATmp ArRefs 0 0) (CCid 7)) /\
   run_fault (FWait 7 false) w0 (api c1) = Some (w, Exn EOSError) /\
   run_seq w (api c1) =
     Some (mkWorld [(AObj 7, CData 7 1 1); (APidRef 1, CCid 7); (APidRef 2, CCid 7);
                    (ACidRef 7, CLines [2; 1]); (ATmp ArRefs 0 0, CEmpty)] [], Val (VMeta 7 1))) /\
  (let w := mkWorld [(AObj 7, CData 7 1 1); (APidRef 2, CCid 7); (ACidRef 7, CLines [2]);
                     (ATmp ArObj 0 0, CData 7 1 1)] [] in
   site_op 3 w0 (api c1) = Some (Remove (ATmp ArObj 0 0)) /\
   run_fault (FWait 3 false) w0 (api c1) = Some (w, Exn EOSError) /\
   run_seq w (api c1) =
     Some (mkWorld [(AObj 7, CData 7 1 1); (APidRef 1, CCid 7); (APidRef 2, CCid 7);
                    (ACidRef 7, CLines [2; 1]); (ATmp ArObj 0 0, CData 7 1 1)] [], Val (VMeta 7 1))) /\
  (let w := mkWorld [(AObj 8, CData 8 2 2)] [] in
   site_op 5 empty_world (api c2) = Some (MkDirs (APidRef 1)) /\
   run_fault (FWait 5 false) empty_world (api c2) = Some (w, Exn EOSError) /\
   run_seq w (api c2) =
     Some (mkWorld [(AObj 8, CData 8 2 2); (APidRef 1, CCid 8); (ACidRef 8, CLines [1])] [],
           Val (VMeta 8 2))).
Proof.
  split; [|vm_compute; repeat split; solve [reflexivity | discriminate]].
  assert (H : run_seq empty_world (api (CStore (Some 2) SrcPath 7 1 VSzNone VCkNone)) =
              Some (mkWorld [(AObj 7, CData 7 1 1); (APidRef 2, CCid 7); (ACidRef 7, CLines [2])] [],
                    Val (VMeta 7 1))) by (vm_compute; reflexivity).
  eapply Inv_run_seq; [apply inv_empty| |exact H]. exact I.
Qed.
Print Assumptions retry_after_leftovers.
