(* Indep.v — independence: calls on unrelated identifiers do not interfere, for any number of
   threads and any interleaving (properties C07 / C12 beyond the menus).

   §1  the order on addresses is a strict total order; sorted file maps; projection of a file
       map to a set of addresses commutes with update and delete
   §2  fresh temp names depend only on the thread's own temp files
   §3  operations that are LOCAL to a footprint (a set of addresses and a set of locks) commute
       with the projection of the world to that footprint, and leave every disjoint footprint
       alone
   §4  [Lc]: a locality discipline over programs, for all answers of the right shape; every API
       program is local to the footprint of its call
   §5  pools with pairwise disjoint footprints: each thread's history is a solo run on its own
       projection of the start world; nobody ever blocks
   §6  the theorems for pools of API calls: [indep_calls] (= [C07_indep_statement]),
       [indep_linearizable] (every sequential order gives the same file map and outcomes),
       [indepb_sound] (independence is decidable), [run_history_empty_start]

   Scope.  Footprints are per pid (APidRef p, every AMeta p f, the locks of p) and per cid (AObj,
   ACidRef, the cid lock and the flock of the cid list), plus the thread's own temp files and the
   deletion markers of all these; the cids of a call are those it names and the one its pid is
   bound to in the start state.  Two metadata calls on the SAME pid therefore count as dependent
   (delete_metadata p None and delete_object list the whole directory of p).  Besides Spec.Inv the
   start file map must be sorted by address ([fsorted]; ListDir and the insertion of a new file
   are order-sensitive) — true of every map built by [update] from the empty one.  The solo runs
   are [run_as i] with the call's own thread number (temp names carry it).  Fault-free schedules
   of Sched.v ([exec] / [stuck]). *)
From HS Require Import Base PyVal FS Ops Sched Spec SeqLemmas Bracket SchedCV Mutex.

Set Implicit Arguments.

(* ====================================================================================== *)
(* §1  order, sorted maps, projection                                                      *)
(* ====================================================================================== *)

Lemma code_ltb_irrefl : forall x, code_ltb x x = false.
Proof.
  induction x as [|a x IH]; simpl; auto.
  rewrite Nat.ltb_irrefl, Nat.eqb_refl. exact IH.
Qed.

Lemma code_ltb_trans : forall x y z, code_ltb x y = true -> code_ltb y z = true -> code_ltb x z = true.
Proof.
  induction x as [|a x IH]; intros [|b y] [|c z]; simpl; intros H1 H2; try discriminate; auto.
  destruct (Nat.ltb a b) eqn:Eab.
  - apply Nat.ltb_lt in Eab. destruct (Nat.ltb b c) eqn:Ebc.
    + apply Nat.ltb_lt in Ebc. assert (E : Nat.ltb a c = true) by (apply Nat.ltb_lt; lia).
      rewrite E. reflexivity.
    + destruct (Nat.eqb b c) eqn:Ebc'; [|discriminate]. apply Nat.eqb_eq in Ebc'. subst c.
      assert (E : Nat.ltb a b = true) by (apply Nat.ltb_lt; lia). rewrite E. reflexivity.
  - destruct (Nat.eqb a b) eqn:Eab'; [|discriminate]. apply Nat.eqb_eq in Eab'. subst b.
    destruct (Nat.ltb a c) eqn:Eac; auto.
    destruct (Nat.eqb a c) eqn:Eac'; [|discriminate]. eapply IH; eauto.
Qed.

Lemma code_ltb_total : forall x y, code_ltb x y = false -> x = y \/ code_ltb y x = true.
Proof.
  induction x as [|a x IH]; intros [|b y]; simpl; intros H; auto; try discriminate.
  destruct (Nat.ltb a b) eqn:Eab; [discriminate|]. apply Nat.ltb_ge in Eab.
  destruct (Nat.eqb a b) eqn:Eab'.
  - apply Nat.eqb_eq in Eab'. subst b. rewrite Nat.ltb_irrefl, Nat.eqb_refl.
    destruct (IH y H) as [->|H']; auto.
  - apply Nat.eqb_neq in Eab'. right.
    assert (E : Nat.ltb b a = true) by (apply Nat.ltb_lt; lia). rewrite E. reflexivity.
Qed.

Lemma addr_code_inj : forall a b, addr_code a = addr_code b -> a = b.
Proof.
  induction a as [c|p|c|p f|ar t n|x IH]; destruct b as [c'|p'|c'|p' f'|ar' t' n'|y]; simpl; intros H;
    try discriminate; try (inversion H; subst; reflexivity).
  - inversion H; subst. destruct ar, ar'; simpl in *; try discriminate; reflexivity.
  - inversion H. f_equal. auto.
Qed.

Lemma addr_ltb_irrefl : forall a, addr_ltb a a = false.
Proof. intros. apply code_ltb_irrefl. Qed.
Lemma addr_ltb_trans : forall a b c, addr_ltb a b = true -> addr_ltb b c = true -> addr_ltb a c = true.
Proof. intros a b c. apply code_ltb_trans. Qed.
Lemma addr_ltb_total : forall a b, addr_ltb a b = false -> a = b \/ addr_ltb b a = true.
Proof.
  intros a b H. destruct (code_ltb_total _ _ H) as [E|E]; auto. left. apply addr_code_inj. exact E.
Qed.

Fixpoint fsorted (m : fmap) : Prop :=
  match m with
  | [] => True
  | (k, _) :: m' => (forall k', In k' (keys m') -> addr_ltb k k' = true) /\ fsorted m'
  end.

Lemma keys_delete : forall a b m, In b (keys (delete a m)) -> In b (keys m) /\ b <> a.
Proof.
  induction m as [|[k v] m IH]; simpl; intros H; [contradiction|].
  destruct (addr_eqb a k) eqn:E.
  - destruct (IH H). tauto.
  - simpl in H. destruct H as [H|H].
    + subst b. split; auto. intros ->. rewrite addr_eqb_refl in E. discriminate.
    + destruct (IH H). tauto.
Qed.

Lemma fsorted_delete : forall a m, fsorted m -> fsorted (delete a m).
Proof.
  induction m as [|[k v] m IH]; simpl; intros H; auto. destruct H as [H1 H2].
  destruct (addr_eqb a k); auto. simpl. split; auto.
  intros k' Hk'. apply keys_delete in Hk'. apply H1. tauto.
Qed.

Lemma keys_insert : forall a v b m, In b (keys (insert_sorted a v m)) -> b = a \/ In b (keys m).
Proof.
  induction m as [|[k v'] m IH]; simpl; intros H.
  - intuition congruence.
  - destruct (addr_ltb a k); simpl in H.
    + intuition congruence.
    + destruct H as [H|H]; auto. destruct (IH H); auto.
Qed.

Lemma fsorted_insert : forall a v m, fsorted m -> ~ In a (keys m) -> fsorted (insert_sorted a v m).
Proof.
  induction m as [|[k v'] m IH]; simpl; intros H Hn.
  - split; auto.
  - destruct H as [H1 H2]. destruct (addr_ltb a k) eqn:E; simpl.
    + split; [|split; auto]. intros k' [<-|Hk']; auto. eapply addr_ltb_trans; eauto.
    + split; [|apply IH; auto].
      intros k' Hk'. apply keys_insert in Hk'. destruct Hk' as [->|Hk']; auto.
      destruct (addr_ltb_total _ _ E) as [Eq|E']; auto; try (exfalso; apply Hn; left; congruence).
Qed.

Lemma fsorted_update : forall a v m, fsorted m -> fsorted (update a v m).
Proof.
  intros. unfold update. apply fsorted_insert; [apply fsorted_delete; auto|].
  intros Hin. apply keys_delete in Hin. tauto.
Qed.

(* projection of a file map to the addresses satisfying F *)
Definition proj (F : addr -> bool) (m : fmap) : fmap := filter (fun kv => F (fst kv)) m.

Lemma lookup_proj : forall F a m, F a = true -> lookup a (proj F m) = lookup a m.
Proof.
  induction m as [|[k v] m IH]; simpl; intros H; auto.
  destruct (F k) eqn:Ek; simpl.
  - destruct (addr_eqb a k); auto.
  - destruct (addr_eqb a k) eqn:E; auto. apply addr_eqb_true in E. congruence.
Qed.

Lemma proj_delete : forall F a m, proj F (delete a m) = delete a (proj F m).
Proof.
  induction m as [|[k v] m IH]; simpl; auto.
  destruct (addr_eqb a k) eqn:E; destruct (F k) eqn:Ek; simpl; rewrite ?E, ?Ek; auto. f_equal. auto.
Qed.

Lemma proj_delete_out : forall F a m, F a = false -> proj F (delete a m) = proj F m.
Proof.
  induction m as [|[k v] m IH]; simpl; intros H; auto.
  destruct (addr_eqb a k) eqn:E; simpl.
  - apply addr_eqb_true in E. subst k. rewrite H. auto.
  - destruct (F k); auto. f_equal. auto.
Qed.

Lemma proj_insert_out : forall F a v m, F a = false -> proj F (insert_sorted a v m) = proj F m.
Proof.
  induction m as [|[k v'] m IH]; simpl; intros H.
  - rewrite H. reflexivity.
  - destruct (addr_ltb a k); simpl; rewrite ?H; auto. destruct (F k); auto. f_equal. auto.
Qed.

Lemma insert_sorted_head : forall a v m,
  (forall k, In k (keys m) -> addr_ltb a k = true) -> insert_sorted a v m = (a, v) :: m.
Proof.
  intros a v [|[k v'] m] H; simpl; auto. rewrite (H k); auto. left. reflexivity.
Qed.

Lemma keys_proj : forall F k m, In k (keys (proj F m)) -> In k (keys m).
Proof.
  induction m as [|[k' v] m IH]; simpl; auto.
  destruct (F k'); simpl; intros H; tauto.
Qed.

Lemma proj_insert_in : forall F a v m, fsorted m -> F a = true ->
  proj F (insert_sorted a v m) = insert_sorted a v (proj F m).
Proof.
  induction m as [|[k v'] m IH]; simpl; intros Hs Ha.
  - rewrite Ha. reflexivity.
  - destruct Hs as [H1 H2]. destruct (addr_ltb a k) eqn:E; simpl.
    + rewrite Ha. destruct (F k) eqn:Ek; simpl.
      * rewrite E. reflexivity.
      * symmetry. apply insert_sorted_head. intros k' Hk'. apply keys_proj in Hk'.
        eapply addr_ltb_trans; eauto.
    + destruct (F k) eqn:Ek; simpl.
      * rewrite E. f_equal. auto.
      * auto.
Qed.

Lemma proj_update_in : forall F a v m, fsorted m -> F a = true ->
  proj F (update a v m) = update a v (proj F m).
Proof.
  intros. unfold update. rewrite proj_insert_in; auto using fsorted_delete.
  rewrite proj_delete. reflexivity.
Qed.

Lemma proj_update_out : forall F a v m, F a = false -> proj F (update a v m) = proj F m.
Proof. intros. unfold update. rewrite proj_insert_out by assumption. apply proj_delete_out. assumption. Qed.

Lemma keys_proj_filter : forall F (P : addr -> bool) m,
  (forall a, P a = true -> F a = true) ->
  filter P (keys (proj F m)) = filter P (keys m).
Proof.
  induction m as [|[k v] m IH]; simpl; intros H; auto.
  destruct (F k) eqn:Ek; simpl.
  - destruct (P k); auto. f_equal. auto.
  - destruct (P k) eqn:Ep; auto. apply H in Ep. congruence.
Qed.

(* ====================================================================================== *)
(* §2  fresh temp names                                                                    *)
(* ====================================================================================== *)

Lemma fresh_from_below : forall ar t m fuel n k,
  n <= k < fresh_from ar t m n fuel -> lookup (ATmp ar t k) m <> None.
Proof.
  induction fuel as [|fuel IH]; intros n k Hk; simpl in Hk; [lia|].
  destruct (lookup (ATmp ar t n) m) eqn:E; [|lia].
  destruct (Nat.eq_dec k n) as [->|Hne]; [congruence|]. apply (IH (S n)). lia.
Qed.

Lemma fresh_agree : forall ar t m1 m2,
  (forall n, lookup (ATmp ar t n) m1 = lookup (ATmp ar t n) m2) ->
  fresh_tmp ar t m1 = fresh_tmp ar t m2.
Proof.
  intros ar t m1 m2 H.
  pose proof (fresh_tmp_absent ar t m1) as A1. pose proof (fresh_tmp_absent ar t m2) as A2.
  unfold fresh_tmp in *.
  set (r1 := fresh_from ar t m1 0 (S (length m1))) in *.
  set (r2 := fresh_from ar t m2 0 (S (length m2))) in *.
  f_equal. destruct (lt_eq_lt_dec r1 r2) as [[Hlt|He]|Hgt]; auto; exfalso.
  - apply (@fresh_from_below ar t m2 (S (length m2)) 0 r1); [fold r2; lia|]. rewrite <- H. exact A1.
  - apply (@fresh_from_below ar t m1 (S (length m1)) 0 r2); [fold r1; lia|]. rewrite H. exact A2.
Qed.

(* ====================================================================================== *)
(* §3  operations local to a footprint                                                     *)
(* ====================================================================================== *)

Lemma memb_filter : forall (Lk : lock -> bool) x L, Lk x = true ->
  memb lock_eqb x (filter Lk L) = memb lock_eqb x L.
Proof.
  induction L as [|y L IH]; simpl; intros H; auto.
  destruct (Lk y) eqn:Ey; simpl.
  - destruct (lock_eqb x y); auto.
  - destruct (lock_eqb x y) eqn:E; auto. apply lock_eqb_true in E. congruence.
Qed.

Lemma filter_remove1_in : forall (Lk : lock -> bool) x L, Lk x = true ->
  filter Lk (remove1 lock_eqb x L) = remove1 lock_eqb x (filter Lk L).
Proof.
  induction L as [|y L IH]; simpl; intros H; auto.
  destruct (lock_eqb x y) eqn:E.
  - apply lock_eqb_true in E. subst y. rewrite H. simpl. rewrite lock_eqb_refl. reflexivity.
  - simpl. destruct (Lk y); simpl; rewrite ?E; auto. f_equal. auto.
Qed.

Lemma filter_remove1_out : forall (Lk : lock -> bool) x L, Lk x = false ->
  filter Lk (remove1 lock_eqb x L) = filter Lk L.
Proof.
  induction L as [|y L IH]; simpl; intros H; auto.
  destruct (lock_eqb x y) eqn:E.
  - apply lock_eqb_true in E. subst y. rewrite H. reflexivity.
  - simpl. destruct (Lk y); auto. f_equal. auto.
Qed.

Definition pw (F : addr -> bool) (Lk : lock -> bool) (w : world) : world :=
  mkWorld (proj F (fs w)) (filter Lk (locks w)).

(* operation o, issued by thread t, stays inside the footprint (F, Lk) and writes only content
   satisfying cok *)
Definition op_local (t : nat) (F : addr -> bool) (Lk : lock -> bool) (cok : fcontent -> Prop)
           (o : op) : Prop :=
  match o with
  | Probe a | SizeLines a | Read a | WriteChunk a | Remove a | AppendOpen a | AppendWrite a _
  | OpenRW a | RewriteWrite a _ | Truncate a _ => F a = true
  | OpenWr a c => F a = true /\ cok c
  | Rename s d => F s = true /\ F d = true
  | MkTmp ar init => (forall n, F (ATmp ar t n) = true) /\ cok init
  | ListDir p => forall a, owned_by p a = true -> F a = true
  | Acquire cls x | Release cls x | Peek cls x | Held cls x => Lk (cls, x) = true
  | OpenSrc | MkDirs _ => True
  end.

Section Local.
  Variable t : nat.
  Variable F : addr -> bool.
  Variable Lk : lock -> bool.
  Variable cok : fcontent -> Prop.

  Lemma fresh_proj : forall ar m, (forall n, F (ATmp ar t n) = true) ->
    fresh_tmp ar t (proj F m) = fresh_tmp ar t m.
  Proof. intros ar m H. apply fresh_agree. intros n. apply lookup_proj. apply H. Qed.

  Local Ltac fin :=
    unfold pw, set_fs, set_locks; simpl;
    rewrite ?proj_update_in, ?proj_delete by assumption; reflexivity.

  (* a local operation commutes with the projection to its footprint *)
  Lemma exec_proj : forall o w, fsorted (fs w) -> op_local t F Lk cok o ->
    exec_op t o (pw F Lk w) =
    match exec_op t o w with Some (a, w') => Some (a, pw F Lk w') | None => None end.
  Proof.
    intros o w Hs Hl. destruct o; simpl in Hl; unfold exec_op; cbn [fs locks pw].
    - rewrite (@lookup_proj F a (fs w) Hl). destruct (lookup a (fs w)); reflexivity.
    - rewrite (@lookup_proj F a (fs w) Hl). destruct (lookup a (fs w)) as [[]|]; reflexivity.
    - rewrite (@lookup_proj F a (fs w) Hl). destruct (lookup a (fs w)); reflexivity.
    - reflexivity.
    - destruct Hl as [Hl _]. rewrite (@fresh_proj ar (fs w) Hl).
      assert (Hf : F (fresh_tmp ar t (fs w)) = true) by (unfold fresh_tmp; apply Hl). fin.
    - rewrite (@lookup_proj F t0 (fs w) Hl). destruct (lookup t0 (fs w)) as [[]|]; try reflexivity. fin.
    - destruct Hl as [Hl _]. fin.
    - destruct Hl as [H1 H2]. rewrite (@lookup_proj F src (fs w) H1).
      destruct (lookup src (fs w)); try reflexivity.
      unfold pw, set_fs; simpl. rewrite proj_update_in; auto using fsorted_delete.
      rewrite proj_delete. reflexivity.
    - rewrite (@lookup_proj F a (fs w) Hl). destruct (lookup a (fs w)); try reflexivity. fin.
    - reflexivity.
    - rewrite (@keys_proj_filter F (owned_by p) (fs w) Hl). reflexivity.
    - rewrite (@lookup_proj F a (fs w) Hl). destruct (lookup a (fs w)); try reflexivity. fin.
    - rewrite (@lookup_proj F a (fs w) Hl). destruct (lookup a (fs w)) as [[]|]; try reflexivity; fin.
    - rewrite (@lookup_proj F a (fs w) Hl). destruct (lookup a (fs w)); reflexivity.
    - rewrite (@lookup_proj F a (fs w) Hl). destruct (lookup a (fs w)) as [[]|]; try reflexivity. fin.
    - rewrite (@lookup_proj F a (fs w) Hl). destruct (lookup a (fs w)) as [[]|]; try reflexivity. fin.
    - rewrite (@memb_filter Lk _ _ Hl). destruct (memb lock_eqb (cls, i) (locks w)); auto.
      unfold pw, set_locks. simpl. rewrite Hl. reflexivity.
    - rewrite (@memb_filter Lk _ _ Hl). destruct (memb lock_eqb (cls, i) (locks w)); auto.
      unfold pw, set_locks. simpl. rewrite (@filter_remove1_in Lk _ _ Hl). reflexivity.
    - rewrite (@memb_filter Lk _ _ Hl). reflexivity.
    - rewrite (@memb_filter Lk _ _ Hl). reflexivity.
  Qed.

  Lemma exec_sorted : forall o w a w', fsorted (fs w) -> exec_op t o w = Some (a, w') -> fsorted (fs w').
  Proof.
    intros o w a w' Hs H. destruct o; simpl in H;
      repeat match type of H with
             | context [match ?x with _ => _ end] => destruct x eqn:?; try discriminate
             end; inversion H; subst; simpl; auto using fsorted_update, fsorted_delete.
  Qed.

  (* ... and leaves every disjoint footprint alone *)
  Lemma exec_frame : forall (F' : addr -> bool) (Lk' : lock -> bool) o w a w',
    (forall x, F x = true -> F' x = false) -> (forall l, Lk l = true -> Lk' l = false) ->
    op_local t F Lk cok o -> exec_op t o w = Some (a, w') -> pw F' Lk' w' = pw F' Lk' w.
  Proof.
    intros F' Lk' o w a w' HF HL Hl H. destruct o; simpl in Hl; simpl in H;
      repeat match type of H with
             | context [match ?x with _ => _ end] => destruct x eqn:?; try discriminate
             end; inversion H; subst; try reflexivity; unfold pw, set_fs, set_locks; simpl;
      try (rewrite proj_update_out by (apply HF; tauto); reflexivity).
    - destruct Hl as [Hl _]. rewrite proj_update_out; auto. apply HF. unfold fresh_tmp. apply Hl.
    - destruct Hl as [H1 H2]. rewrite proj_update_out by (apply HF; assumption).
      rewrite proj_delete_out by (apply HF; assumption). reflexivity.
    - rewrite proj_delete_out by (apply HF; assumption). reflexivity.
    - rewrite (HL _ Hl). reflexivity.
    - rewrite (@filter_remove1_out Lk' _ _ (HL _ Hl)). reflexivity.
  Qed.
End Local.

(* ====================================================================================== *)
(* §4  the locality discipline; every API program is local to the footprint of its call     *)
(* ====================================================================================== *)

Section Discipline.
  Variable t : nat.
  Variable F : addr -> bool.
  Variable Lk : lock -> bool.
  Variable csb : cid -> bool.            (* the content identifiers of the footprint *)

  (* content that may be written: a cid only if it belongs to the footprint *)
  Definition cok (c : fcontent) : Prop := forall x, c = CCid x -> csb x = true.

  (* every cid stored in a file of the footprint belongs to the footprint *)
  Definition Wf (m : fmap) : Prop :=
    forall a x, F a = true -> lookup a m = Some (CCid x) -> csb x = true.

  Definition ans_okl (o : op) (a : ans) : Prop :=
    match o with
    | Read _ => match a with ACont c => cok c | _ => True end
    | MkTmp ar _ => match a with AAddr x => exists n, x = ATmp ar t n | _ => True end
    | ListDir p => match a with AList l => Forall (fun x => owned_by p x = true) l | _ => True end
    | _ => True
    end.

  Fixpoint Lc {A} (m : prog A) (Q : A -> Prop) : Prop :=
    match m with
    | Ret a => Q a
    | Bad => True
    | Vis o k => op_local t F Lk cok o /\ forall a, ans_okl o a -> Lc (k a) Q
    end.

  Lemma Lc_mono : forall A (m : prog A) (Q Q' : A -> Prop),
    Lc m Q -> (forall a, Q a -> Q' a) -> Lc m Q'.
  Proof.
    induction m as [a|o k IH|]; simpl; intros Q Q' H HQ; auto.
    destruct H as [Hp H]. split; auto. intros a Ha. eapply IH; eauto.
  Qed.

  Lemma Lc_bind : forall A B (m : prog A) (f : A -> prog B) Q,
    Lc m (fun a => Lc (f a) Q) -> Lc (bind m f) Q.
  Proof.
    induction m as [a|o k IH|]; simpl; intros f Q H; auto.
    destruct H as [Hp H]. split; auto.
  Qed.

  (* the real answers are admissible, and the world invariant is kept *)
  Lemma Wf_update : forall m a v, Wf m -> (F a = true -> cok v) -> Wf (update a v m).
  Proof.
    intros m a v H Hv b x Hb Hl. rewrite lookup_update in Hl.
    destruct (addr_eqb b a) eqn:E.
    - apply addr_eqb_true in E. subst b. inversion Hl; subst. apply (Hv Hb). reflexivity.
    - eapply H; eauto.
  Qed.

  Lemma Wf_delete : forall m a, Wf m -> Wf (delete a m).
  Proof.
    intros m a H b x Hb Hl. rewrite lookup_delete in Hl.
    destruct (addr_eqb b a); [discriminate|]. eapply H; eauto.
  Qed.

  Lemma cok_other : forall c, (forall x, c <> CCid x) -> cok c.
  Proof. intros c H x E. exfalso. eapply H; eauto. Qed.

  Lemma exec_Wf : forall o w a w', Wf (fs w) -> op_local t F Lk cok o ->
    exec_op t o w = Some (a, w') -> Wf (fs w').
  Proof.
    intros o w a w' HW Hl H. destruct o; simpl in Hl; simpl in H;
      repeat match type of H with
             | context [match ?x with _ => _ end] => destruct x eqn:?; try discriminate
             end; inversion H; subst; simpl; auto;
      try (apply Wf_update; auto; intros _; apply cok_other; intros x E; discriminate).
    - apply Wf_update; auto. tauto.
    - apply Wf_update; auto. tauto.
    - destruct Hl as [H1 H2]. apply Wf_update; [apply Wf_delete; auto|].
      intros _ x E. subst f. apply (HW src x H1). assumption.
    - apply Wf_delete; auto.
  Qed.

  Lemma exec_ans_okl : forall o w a w', Wf (fs w) -> op_local t F Lk cok o ->
    exec_op t o w = Some (a, w') -> ans_okl o a.
  Proof.
    intros o w a w' HW Hl H. destruct o; simpl; auto; simpl in Hl; simpl in H.
    - destruct (lookup a0 (fs w)) eqn:E; inversion H; subst; auto.
      intros x ->. eapply HW; eauto.
    - inversion H; subst. unfold fresh_tmp. eauto.
    - inversion H; subst. apply Forall_forall. intros x Hx. apply filter_In in Hx. tauto.
  Qed.

  (* ---------- balanced specifications ---------- *)

  Definition LB {A} (m : M A) (P : A -> Prop) : Prop := Lc m (fun r => forall a, r = Val a -> P a).

  Lemma LB_conseq : forall A (m : M A) (P P' : A -> Prop), LB m P -> (forall a, P a -> P' a) -> LB m P'.
  Proof. intros A m P P' H HP. eapply Lc_mono; [exact H|]. simpl. auto. Qed.
  Lemma LB_TT : forall A (m : M A) P, LB m P -> LB m TT.
  Proof. intros. eapply LB_conseq; eauto. intros; exact I. Qed.
  Lemma LB_ret : forall A (a : A) (P : A -> Prop), P a -> LB (ret a) P.
  Proof. intros A a P H a' E. inversion E; subst; auto. Qed.
  Lemma LB_raise : forall A e (P : A -> Prop), LB (raise e) P.
  Proof. intros A e P a' E. discriminate. Qed.
  Lemma LB_bad : forall A (P : A -> Prop), LB (@Bad (outcome A)) P.
  Proof. intros. exact I. Qed.

  Lemma LB_mbind : forall A B (m : M A) (f : A -> M B) P1 P,
    LB m P1 -> (forall a, P1 a -> LB (f a) P) -> LB (mbind m f) P.
  Proof.
    intros A B m f P1 P Hm Hf. unfold LB, mbind. apply Lc_bind.
    eapply Lc_mono; [exact Hm|]. simpl. intros [a|e] H.
    - apply Hf. auto.
    - simpl. intros a E. discriminate.
  Qed.

  Lemma LB_catch_TT : forall A (m : M A), LB m TT -> LB (catch m) TT.
  Proof.
    intros A m Hm. unfold LB, catch. apply Lc_bind. eapply Lc_mono; [exact Hm|].
    simpl. intros r _ a _. exact I.
  Qed.

  Lemma LB_catch : forall A (m : M A) P,
    LB m P -> LB (catch m) (fun r => match r with Val a => P a | Exn _ => True end).
  Proof.
    intros A m P Hm. unfold LB, catch. apply Lc_bind. eapply Lc_mono; [exact Hm|].
    simpl. intros r H a E. inversion E; subst. destruct a; auto.
  Qed.

  Lemma LB_try_finally : forall A (m : M A) fin P Pf,
    LB m P -> LB fin Pf -> LB (try_finally m fin) P.
  Proof.
    intros A m fin P Pf Hm Hf. unfold LB, try_finally. apply Lc_bind.
    eapply Lc_mono; [exact Hm|]. simpl. intros r Hr. apply Lc_bind.
    eapply Lc_mono; [exact Hf|]. simpl. intros [u|e] _; simpl; auto. intros a E; discriminate.
  Qed.

  Lemma LB_vis : forall A o (k : ans -> M A) (P : A -> Prop),
    op_local t F Lk cok o -> (forall a, ans_okl o a -> LB (k a) P) -> LB (Vis o k) P.
  Proof. intros. split; auto. Qed.
End Discipline.

(* ---------- the footprint of (thread t, pid po, cids cs) ---------- *)

Definition pid_in (po : option pid) (p : pid) : bool :=
  match po with Some q => Nat.eqb q p | None => false end.
Definition cid_in (cs : list cid) (c : cid) : bool := memb Nat.eqb c cs.

Fixpoint inF (t : nat) (po : option pid) (cs : list cid) (a : addr) : bool :=
  match a with
  | AObj c | ACidRef c => cid_in cs c
  | APidRef p | AMeta p _ => pid_in po p
  | ATmp _ t' _ => Nat.eqb t' t
  | ADel x => inF t po cs x
  end.

Definition inL (t : nat) (po : option pid) (cs : list cid) (l : lock) : bool :=
  match l with
  | (LObjPid, IPid p) | (LRefPid, IPid p) => pid_in po p
  | (LCid, ICid c) => cid_in cs c
  | (LMeta, IDoc a) | (LFile, IDoc a) => inF t po cs a
  | _ => false
  end.

Lemma owned_inF : forall t po cs p a, pid_in po p = true -> owned_by p a = true -> inF t po cs a = true.
Proof.
  intros t po cs p a Hp. unfold owned_by. induction a; simpl; intros H; try discriminate; auto.
  apply Nat.eqb_eq in H. subst. exact Hp.
Qed.

Section APILocal.
  Variable t : nat.
  Variable po : option pid.
  Variable cs : list cid.

  Notation F := (inF t po cs).
  Notation Lk := (inL t po cs).
  Notation csb := (cid_in cs).
  Notation LBf := (@LB t F Lk csb _).
  Notation okc := (cok csb).

  Definition Fl (l : list addr) : Prop := Forall (fun a => F a = true) l.
  Definition Fa (a : addr) : Prop := F a = true.
  Definition Cin (c : cid) : Prop := csb c = true.

  Lemma okc_cid : forall c, csb c = true -> okc (CCid c).
  Proof. intros c H x E. inversion E; subst. exact H. Qed.

  Ltac loc :=
    repeat match goal with
           | |- _ /\ _ => split
           | |- True => exact I
           | |- forall _, _ => intro
           | |- okc (CCid _) => apply okc_cid
           | |- okc _ => let x := fresh in let E := fresh in intros x E; discriminate
           | |- Fa _ => unfold Fa
           | |- Cin _ => unfold Cin
           end;
    simpl; rewrite ?Nat.eqb_refl; auto;
    try match goal with H : Fa _ |- _ => exact H end;
    try match goal with H : Cin _ |- _ => exact H end.

  Ltac leafl := let a := fresh "a" in let Ha := fresh "Ha" in
    intros a Ha; destruct a; simpl in Ha;
    first [apply LB_bad | apply LB_raise | (apply LB_ret; first [exact I | exact Ha | assumption | loc])].

  Lemma LB_probe : forall a, F a = true -> LBf (probe a) TT.
  Proof. intros. apply LB_vis; [exact H | leafl]. Qed.
  Lemma LB_peek : forall cls x, Lk (cls, x) = true -> LBf (peek cls x) TT.
  Proof. intros. apply LB_vis; [exact H | leafl]. Qed.
  Lemma LB_held : forall cls x, Lk (cls, x) = true -> LBf (Ops.held cls x) TT.
  Proof. intros. apply LB_vis; [exact H | leafl]. Qed.
  Lemma LB_acquire : forall cls x, Lk (cls, x) = true -> LBf (acquire cls x) TT.
  Proof. intros. apply LB_vis; [exact H | leafl]. Qed.
  Lemma LB_release : forall cls x, Lk (cls, x) = true -> LBf (release cls x) TT.
  Proof. intros. apply LB_vis; [exact H | leafl]. Qed.
  Lemma LB_funlock : forall a, F a = true -> LBf (funlock a) TT.
  Proof. intros. apply LB_vis; [exact H | leafl]. Qed.
  Lemma LB_read : forall a, F a = true -> LBf (read a) okc.
  Proof. intros. apply LB_vis; [exact H | leafl]. Qed.
  Lemma LB_size_lines : forall a, F a = true -> LBf (size_lines a) TT.
  Proof. intros. apply LB_vis; [exact H | leafl]. Qed.
  Lemma LB_rewrite_write : forall a p, F a = true -> LBf (rewrite_write a p) TT.
  Proof. intros. apply LB_vis; [exact H | leafl]. Qed.
  Lemma LB_listdir : forall p, pid_in po p = true -> LBf (listdir p) Fl.
  Proof.
    intros p Hp. apply LB_vis; [intros a Ha; eapply owned_inF; eauto|].
    intros a Ha; destruct a; simpl in Ha; first [apply LB_bad | apply LB_raise | idtac].
    apply LB_ret. unfold Fl. eapply Forall_impl; [|exact Ha]. intros x Hx. eapply owned_inF; eauto.
  Qed.
  Lemma LB_unit_op : forall o, op_local t F Lk okc o -> LBf (unit_op o) TT.
  Proof. intros. apply LB_vis; [exact H | leafl]. Qed.
  Lemma LB_swallow_op : forall o, op_local t F Lk okc o -> LBf (swallow_op o) TT.
  Proof. intros. apply LB_vis; [exact H | leafl]. Qed.

  Lemma LB_mktmp_bind : forall A ar init (f : addr -> M A) P,
    okc init -> (forall n, LBf (f (ATmp ar t n)) P) -> LBf (mbind (mktmp ar init) f) P.
  Proof.
    intros A ar init f P Hi H. unfold LB, mbind. apply Lc_bind. simpl. split.
    - split; auto. intros n. rewrite Nat.eqb_refl. reflexivity.
    - intros a Ha. destruct a; simpl in *; auto; try (intros ? E; discriminate).
      destruct Ha as [n ->]. apply H.
  Qed.

  Hint Resolve LB_probe LB_peek LB_held LB_acquire LB_release LB_funlock LB_read LB_size_lines
    LB_rewrite_write LB_listdir : lb.
  Hint Extern 1 (inF _ _ _ _ = true) => loc : lb.
  Hint Extern 1 (inL _ _ _ _ = true) => loc : lb.
  Hint Extern 1 (pid_in _ _ = true) => loc : lb.
  Hint Extern 1 (cid_in _ _ = true) => loc : lb.
  Hint Extern 1 (Fl _) => (unfold Fl; repeat constructor; loc) : lb.

  Ltac op_sidel := first [apply LB_unit_op | apply LB_swallow_op]; loc.

  Ltac lb :=
    lazymatch goal with
    | |- LB _ _ _ _ (ret _) _ =>
        apply LB_ret; first [exact I | solve [unfold Fl; repeat constructor; loc] | loc]
    | |- LB _ _ _ _ (raise _) _ => apply LB_raise
    | |- LB _ _ _ _ Bad _ => apply LB_bad
    | |- LB _ _ _ _ (if ?b then _ else _) _ => destruct b; lb
    | |- LB _ _ _ _ (match ?x with _ => _ end) _ => destruct x; lb
    | |- LB _ _ _ _ (mbind _ _) _ =>
        first [ eapply LB_mbind; [solve [eauto 4 with lb] | intros ? ?; lb]
              | eapply LB_mbind with (P1 := Fl); [solve [lb] | intros ? ?; lb]
              | eapply LB_mbind with (P1 := TT); [lb | intros ? ?; lb] ]
    | |- LB _ _ _ _ (catch _) _ => apply LB_catch_TT; lb
    | |- LB _ _ _ _ (try_finally _ _) _ => eapply LB_try_finally; lb
    | |- LB _ _ _ _ (unit_op _) _ => first [solve [op_sidel] | idtac]
    | |- LB _ _ _ _ (swallow_op _) _ => first [solve [op_sidel] | idtac]
    | |- _ => first [solve [eauto 4 with lb] | solve [eapply LB_TT; eauto 4 with lb] | idtac]
    end.

  Lemma LB_read_cid : forall a, F a = true -> LBf (read_cid a) Cin.
  Proof.
    intros. unfold read_cid. eapply LB_mbind; [apply LB_read; exact H|].
    intros c Hc. destruct c; try apply LB_bad. apply LB_ret. apply Hc. reflexivity.
  Qed.
  Lemma LB_read_lines : forall a, F a = true -> LBf (read_lines a) TT.
  Proof. intros. unfold read_lines. lb. Qed.
  Hint Resolve LB_read_cid LB_read_lines : lb.
  Lemma LB_is_in_refs : forall p a, F a = true -> LBf (is_in_refs p a) TT.
  Proof. intros. unfold is_in_refs. lb. Qed.
  Hint Resolve LB_is_in_refs : lb.

  Lemma LB_find_object : forall p, pid_in po p = true -> LBf (find_object p) Cin.
  Proof.
    intros p Hp. unfold find_object.
    eapply LB_mbind with (P1 := TT); [lb|]. intros b _. destruct b; simpl; [|lb].
    eapply LB_mbind; [apply LB_read_cid; loc|]. intros c Hc. lb.
  Qed.
  Hint Resolve LB_find_object : lb.

  Lemma LB_open_object : forall c, Cin c -> LBf (open_object c) TT.
  Proof. intros. unfold open_object. lb. Qed.
  Hint Resolve LB_open_object : lb.
  Lemma LB_retrieve_object : forall p, pid_in po p = true -> LBf (retrieve_object p) TT.
  Proof. intros. unfold retrieve_object. lb. Qed.
  Lemma LB_get_hex_digest : forall p, pid_in po p = true -> LBf (get_hex_digest p) TT.
  Proof. intros. unfold get_hex_digest. lb. Qed.
  Hint Resolve LB_retrieve_object LB_get_hex_digest : lb.

  Lemma LB_rename_for_deletion : forall a, Fa a -> LBf (rename_for_deletion a) Fa.
  Proof. intros. unfold rename_for_deletion. lb. Qed.
  Hint Resolve LB_rename_for_deletion : lb.

  Lemma LB_delete_marked : forall l, Fl l -> LBf (delete_marked l) TT.
  Proof.
    induction l as [|a l IH]; intros Hl; simpl.
    - lb.
    - inversion Hl; subst. eapply LB_mbind with (P1 := TT); [op_sidel|]. intros ? ?. apply IH. assumption.
  Qed.
  Hint Resolve LB_delete_marked : lb.

  Lemma LB_update_refs_remove : forall c p, Cin c -> LBf (update_refs_remove (ACidRef c) p) TT.
  Proof. intros. unfold update_refs_remove. lb. Qed.
  Lemma LB_update_refs_add : forall c p, Cin c -> LBf (update_refs_add (ACidRef c) p) TT.
  Proof. intros. unfold update_refs_add. lb. Qed.
  Hint Resolve LB_update_refs_remove LB_update_refs_add : lb.

  Lemma LB_verify_refs : forall p c, pid_in po p = true -> Cin c -> LBf (verify_refs p c) TT.
  Proof. intros. unfold verify_refs. lb. Qed.
  Lemma LB_validate : forall c c', Cin c -> LBf (validate_and_check_cid_lock c c') TT.
  Proof. intros. unfold validate_and_check_cid_lock. lb. Qed.
  Hint Resolve LB_verify_refs LB_validate : lb.

  Lemma LB_mark_pid_refs : forall p, pid_in po p = true -> LBf (mark_pid_refs p) Fl.
  Proof.
    intros. unfold mark_pid_refs.
    eapply LB_mbind; [apply LB_catch; apply LB_rename_for_deletion; loc|].
    intros [d|e] Hd; apply LB_ret; unfold Fl; auto.
  Qed.

  Lemma LB_remove_pid_and_handle_cid : forall p c, Cin c -> LBf (remove_pid_and_handle_cid p c) Fl.
  Proof.
    intros. unfold remove_pid_and_handle_cid.
    eapply LB_mbind with (P1 := fun r => match r with Val l => Fl l | Exn _ => True end).
    - apply LB_catch. lb.
    - intros [l|e] Hl; apply LB_ret; unfold Fl; auto.
  Qed.
  Hint Resolve LB_mark_pid_refs LB_remove_pid_and_handle_cid : lb.

  Lemma Fl_app : forall l1 l2, Fl l1 -> Fl l2 -> Fl (l1 ++ l2).
  Proof. intros. apply Forall_app. split; assumption. Qed.
  Hint Resolve Fl_app : lb.

  Lemma LB_untag_object : forall p c, pid_in po p = true -> Cin c -> LBf (untag_object p c) TT.
  Proof. intros. unfold untag_object. lb. Qed.
  Hint Resolve LB_untag_object : lb.

  Lemma LB_write_refs_tmp : forall content, okc content -> LBf (write_refs_tmp content) Fa.
  Proof.
    intros. unfold write_refs_tmp. apply LB_mktmp_bind; [loc|]. intros n.
    eapply LB_mbind with (P1 := TT); [op_sidel|]. intros ? ?. lb.
  Qed.
  Hint Resolve LB_write_refs_tmp : lb.
  Hint Extern 1 (cok _ _) => loc : lb.

  Lemma LB_store_refs_body : forall p c, pid_in po p = true -> Cin c -> LBf (store_refs_body p c) TT.
  Proof. intros. unfold store_refs_body, and_sc, notm. lb. Qed.
  Hint Resolve LB_store_refs_body : lb.

  Lemma LB_tag_object : forall p c, pid_in po p = true -> Cin c -> LBf (tag_object p c) TT.
  Proof. intros. unfold tag_object. lb. Qed.
  Hint Resolve LB_tag_object : lb.

  Lemma LB_write_chunks : forall a n, Fa a -> LBf (write_chunks a n) TT.
  Proof.
    induction n as [|n IH]; intros Ha; simpl.
    - lb.
    - eapply LB_mbind with (P1 := TT); [op_sidel|]. intros ? ?. apply IH. assumption.
  Qed.
  Lemma LB_open_source : forall s, LBf (open_source s) TT.
  Proof. intros. unfold open_source. lb. Qed.
  Lemma LB_delete_object_file : forall c, Cin c -> LBf (delete_object_file c) TT.
  Proof. intros. unfold delete_object_file. lb. Qed.
  Lemma LB_verify_object : forall g a sz ck, Fa a -> LBf (verify_object g a sz ck) TT.
  Proof. intros. unfold verify_object. lb. Qed.
  Hint Resolve LB_write_chunks LB_open_source LB_delete_object_file LB_verify_object : lb.

  Lemma LB_move_and_get_checksums : forall p b n sz ck,
    (forall q, p = Some q -> pid_in po q = true) -> Cin b ->
    LBf (move_and_get_checksums p b n sz ck) Cin.
  Proof.
    intros p b n sz ck Hp Hb. unfold move_and_get_checksums. apply LB_mktmp_bind; [loc|]. intros n0.
    assert (Ht : Fa (ATmp ArObj t n0)) by loc.
    destruct p as [q|]; [specialize (Hp q eq_refl)|]; lb.
  Qed.
  Hint Resolve LB_move_and_get_checksums : lb.

  Lemma LB_store_object : forall p s b n sz ck,
    (forall q, p = Some q -> pid_in po q = true) -> Cin b ->
    LBf (store_object p s b n sz ck) TT.
  Proof.
    intros p s b n sz ck Hp Hb. unfold store_object.
    destruct p as [q|]; [specialize (Hp q eq_refl)|].
    - eapply LB_mbind with (P1 := TT); [lb|]. intros busy _. destruct busy; [lb|].
      eapply LB_try_finally; [|lb].
      eapply LB_mbind with (P1 := TT); [lb|]. intros _ _.
      eapply LB_mbind with (P1 := TT); [lb|]. intros _ _.
      eapply LB_mbind; [apply LB_move_and_get_checksums; [intros q' E; inversion E; subst; exact Hp | exact Hb]|].
      intros c Hc. lb.
    - eapply LB_mbind with (P1 := TT); [lb|]. intros _ _.
      eapply LB_mbind; [apply LB_move_and_get_checksums; [intros q' E; discriminate | exact Hb]|].
      intros c Hc. lb.
  Qed.

  Lemma LB_probe_all : forall l, Fl l -> LBf (probe_all l) Fl.
  Proof.
    induction l as [|a l IH]; intros Hl; simpl.
    - lb.
    - inversion Hl; subst.
      eapply LB_mbind; [apply LB_probe; assumption|]. intros b _.
      eapply LB_mbind; [apply IH; assumption|]. intros r Hr.
      apply LB_ret. destruct b; unfold Fl; auto.
  Qed.
  Hint Resolve LB_probe_all : lb.

  Lemma LB_mark_one : forall a, Fa a ->
    LBf (r <- catch (rename_for_deletion a) ;;
         match r with
         | Val d => ret [d]
         | Exn EFileNotFound => ret []
         | Exn e => raise e
         end) Fl.
  Proof.
    intros a Ha.
    eapply LB_mbind; [apply LB_catch; apply LB_rename_for_deletion; exact Ha|].
    intros [d|e] Hd; [apply LB_ret; unfold Fl; auto | destruct e; lb].
  Qed.

  Lemma LB_mark_docs : forall l, Fl l -> LBf (mark_docs l) Fl.
  Proof.
    induction l as [|a l IH]; intros Hl; simpl.
    - lb.
    - inversion Hl; subst.
      eapply LB_mbind with (P1 := TT); [lb|]. intros _ _.
      eapply LB_mbind with (P1 := Fl).
      + eapply LB_try_finally; [|lb].
        eapply LB_mbind with (P1 := TT); [lb|]. intros b _.
        destruct b; [apply LB_mark_one; assumption | lb].
      + intros d Hd. eapply LB_mbind; [apply IH; assumption|]. intros r Hr.
        apply LB_ret. apply Fl_app; assumption.
  Qed.
  Hint Resolve LB_mark_docs : lb.

  Lemma LB_delete_metadata : forall p f, pid_in po p = true -> LBf (delete_metadata p f) TT.
  Proof. intros. unfold delete_metadata. lb. Qed.
  Hint Resolve LB_delete_metadata : lb.

  Lemma LB_delete_object : forall p, pid_in po p = true -> LBf (delete_object p) TT.
  Proof.
    intros p Hp. unfold delete_object. eapply LB_try_finally; [|lb].
    eapply LB_mbind with (P1 := TT); [lb|]. intros _ _.
    eapply LB_mbind with (P1 := TT); [lb|]. intros _ _.
    eapply LB_mbind; [apply LB_catch; apply LB_find_object; exact Hp|].
    intros [c|e] Hc; [|destruct e]; lb.
  Qed.

  Lemma LB_delete_object_unfixed : forall p, pid_in po p = true -> LBf (delete_object_unfixed p) TT.
  Proof.
    intros p Hp. unfold delete_object_unfixed. eapply LB_try_finally; [|lb].
    eapply LB_mbind with (P1 := TT); [lb|]. intros _ _.
    eapply LB_mbind; [apply LB_catch; apply LB_find_object; exact Hp|].
    intros [c|e] Hc; [|destruct e]; lb.
  Qed.

  Lemma LB_store_metadata : forall p f s v n, pid_in po p = true -> LBf (store_metadata p f s v n) TT.
  Proof.
    intros p f s v n Hp. unfold store_metadata.
    eapply LB_mbind with (P1 := TT); [lb|]. intros _ _.
    eapply LB_try_finally; [|lb].
    eapply LB_mbind with (P1 := TT); [lb|]. intros _ _.
    apply LB_mktmp_bind; [loc|]. intros n0.
    assert (Ht : Fa (ATmp ArMeta t n0)) by loc. lb.
  Qed.

  Lemma LB_retrieve_metadata : forall p f, pid_in po p = true -> LBf (retrieve_metadata p f) TT.
  Proof. intros. unfold retrieve_metadata. lb. Qed.
  Lemma LB_delete_object_only : forall c, Cin c -> LBf (delete_object_only c) TT.
  Proof. intros. unfold delete_object_only. lb. Qed.
  Hint Resolve LB_delete_object_only : lb.
  Lemma LB_delete_if_invalid : forall c sz pre ok, Cin c -> LBf (delete_if_invalid c sz pre ok) TT.
  Proof. intros. unfold delete_if_invalid. lb. Qed.
  Hint Resolve LB_store_object LB_delete_object LB_delete_object_unfixed LB_store_metadata
    LB_retrieve_metadata LB_delete_if_invalid : lb.
End APILocal.

(* the identifiers a call names *)
Definition call_pid (c : call) : option pid :=
  match c with
  | CStore p _ _ _ _ _ => p
  | CTag p _ | CDelete p | CStoreMeta p _ _ _ _ | CRetrMeta p _ | CDelMeta p _
  | CRetrieve p | CGetHex p | CDeleteUnfixed p => Some p
  | CDelInvalid _ _ _ _ | CRejected _ => None
  end.

Definition call_cids (c : call) : list cid :=
  match c with
  | CStore _ _ b _ _ _ => [b]
  | CTag _ c' => [c']
  | CDelInvalid c' _ _ _ => [c']
  | _ => []
  end.

(* every API program is local to any footprint that contains the pid and the cids its call names
   (the cid its pid is bound to enters through the world invariant [Wf]) *)
Theorem api_local : forall t po cs c,
  (forall p, call_pid c = Some p -> pid_in po p = true) ->
  (forall x, In x (call_cids c) -> cid_in cs x = true) ->
  Lc t (inF t po cs) (inL t po cs) (cid_in cs) (api c) (fun _ => True).
Proof.
  intros t po cs c Hp Hc.
  assert (H : LB t (inF t po cs) (inL t po cs) (cid_in cs) (api c) TT).
  { destruct c; simpl in Hp, Hc; unfold api, lift_unit;
      try (specialize (Hp _ eq_refl));
      try (eapply LB_mbind with (P1 := TT); [|intros ? ?; apply LB_ret; exact I]).
    - apply LB_store_object; [exact Hp | apply Hc; left; reflexivity].
    - apply LB_tag_object; [exact Hp | apply Hc; left; reflexivity].
    - apply LB_delete_object; exact Hp.
    - apply LB_delete_if_invalid. apply Hc. left. reflexivity.
    - apply LB_store_metadata; exact Hp.
    - apply LB_retrieve_metadata; exact Hp.
    - apply LB_delete_metadata; exact Hp.
    - apply LB_retrieve_object; exact Hp.
    - apply LB_get_hex_digest; exact Hp.
    - apply LB_raise.
    - apply LB_delete_object_unfixed; exact Hp. }
  eapply Lc_mono; [exact H|]. auto.
Qed.

(* ====================================================================================== *)
(* §5  pools with pairwise disjoint footprints                                             *)
(* ====================================================================================== *)

(* [Solo t m w hs w' m']: program m, run alone as thread t from world w, receives exactly the
   answers hs, reaching world w' with m' left to run *)
Inductive Solo {A} (t : nat) : prog A -> world -> list ans -> world -> prog A -> Prop :=
| solo_nil : forall m w, Solo t m w [] w m
| solo_cons : forall o k w a w1 hs w' m',
    exec_op t o w = Some (a, w1) -> Solo t (k a) w1 hs w' m' -> Solo t (Vis o k) w (a :: hs) w' m'.

Lemma Solo_snoc : forall A t (m : prog A) w hs w1 o k a w',
  Solo t m w hs w1 (Vis o k) -> exec_op t o w1 = Some (a, w') -> Solo t m w (hs ++ [a]) w' (k a).
Proof.
  intros A t m w hs w1 o k a w' H. revert a w'.
  remember (Vis o k) as m1 eqn:E. induction H; intros a' w'' He; subst.
  - simpl. eapply solo_cons; [exact He | apply solo_nil].
  - simpl. eapply solo_cons; [eassumption|]. apply IHSolo; auto.
Qed.

Lemma Solo_run : forall A t (m : prog A) w hs w' r,
  Solo t m w hs w' (Ret r) -> run_as t w m = Some (w', r).
Proof.
  intros A t m w hs w' r H. remember (Ret r) as m1 eqn:E. induction H; subst.
  - reflexivity.
  - simpl. rewrite H. apply IHSolo. reflexivity.
Qed.

Lemma Solo_resume : forall A t (m : prog A) w hs w' m',
  Solo t m w hs w' m' -> resume m hs = Some m'.
Proof.
  intros A t m w hs w' m' H. induction H.
  - apply resume_nil.
  - simpl. exact IHSolo.
Qed.

Lemma Wf_proj_eq : forall F csb m m', proj F m' = proj F m -> Wf F csb m -> Wf F csb m'.
Proof.
  intros F csb m m' E H a x Ha Hl. apply (H a x Ha).
  rewrite <- (@lookup_proj F a m Ha), <- E, (@lookup_proj F a m' Ha). exact Hl.
Qed.

Section SoloProj.
  Variable t : nat.
  Variable F : addr -> bool.
  Variable Lk : lock -> bool.
  Variable csb : cid -> bool.

  (* a local program runs on the projection of the world exactly as it runs on the world *)
  Lemma solo_equiv : forall A (m : prog A) w Q,
    Lc t F Lk csb m Q -> Wf F csb (fs w) -> fsorted (fs w) ->
    run_as t (pw F Lk w) m =
    match run_as t w m with Some (w', r) => Some (pw F Lk w', r) | None => None end.
  Proof.
    induction m as [r|o k IH|]; intros w Q Hl HW Hs; simpl; auto.
    simpl in Hl. destruct Hl as [Hop Hk].
    rewrite (@exec_proj t F Lk (cok csb) o w Hs Hop).
    destruct (exec_op t o w) as [[a w1]|] eqn:E; auto.
    eapply IH.
    - apply Hk. eapply exec_ans_okl; eauto.
    - eapply exec_Wf; eauto.
    - eapply exec_sorted; eauto.
  Qed.

  Lemma solo_keeps : forall A (m : prog A) w Q w' r,
    Lc t F Lk csb m Q -> Wf F csb (fs w) -> fsorted (fs w) -> run_as t w m = Some (w', r) ->
    Wf F csb (fs w') /\ fsorted (fs w') /\
    forall (F' : addr -> bool) (Lk' : lock -> bool),
      (forall x, F x = true -> F' x = false) -> (forall l, Lk l = true -> Lk' l = false) ->
      pw F' Lk' w' = pw F' Lk' w.
  Proof.
    induction m as [r0|o k IH|]; intros w Q w' r Hl HW Hs H; simpl in H.
    - inversion H; subst. auto.
    - simpl in Hl. destruct Hl as [Hop Hk].
      destruct (exec_op t o w) as [[a w1]|] eqn:E; [|discriminate].
      destruct (IH a w1 Q w' r) as (H1 & H2 & H3); auto.
      + apply Hk. eapply exec_ans_okl; eauto.
      + eapply exec_Wf; eauto.
      + eapply exec_sorted; eauto.
      + split; auto. split; auto. intros F' Lk' HF HL. rewrite (H3 F' Lk' HF HL).
        eapply exec_frame; eauto.
    - discriminate.
  Qed.
End SoloProj.

Section IndepPool.
  Variable A : Type.
  Variable ps : list (prog A).
  Variable Fs : nat -> addr -> bool.
  Variable Ls : nat -> lock -> bool.
  Variable Cs : nat -> cid -> bool.
  Variable w0 : world.

  Hypothesis Hdisj : forall i j a, i <> j -> Fs i a = true -> Fs j a = false.
  Hypothesis Ldisj : forall i j l, i <> j -> Ls i l = true -> Ls j l = false.
  Hypothesis Hlocal : forall i p, nth_error ps i = Some p ->
    Lc i (Fs i) (Ls i) (Cs i) p (fun _ => True).
  Hypothesis Hok : pool_ok ps.
  Hypothesis Hokc : pool_okc ps.
  Hypothesis Hl0 : locks w0 = [].
  Hypothesis Hrt0 : refs_typed (fs w0).
  Hypothesis Hs0 : fsorted (fs w0).
  Hypothesis HW0 : forall i, Wf (Fs i) (Cs i) (fs w0).

  Notation pwi i := (pw (Fs i) (Ls i)).

  (* addresses outside every footprint *)
  Definition Fout (a : addr) : bool := negb (existsb (fun i => Fs i a) (seq 0 (length ps))).
  Definition Lnone (l : lock) : bool := false.

  Definition GInv (c : cfg) : Prop :=
    fsorted (fs (snd c)) /\
    pw Fout Lnone (snd c) = pw Fout Lnone w0 /\
    (forall j l, In l (held ps c j) -> Ls j l = true) /\
    forall i p hist, nth_error ps i = Some p -> nth_error (fst c) i = Some hist ->
      Wf (Fs i) (Cs i) (fs (snd c)) /\
      exists m, Solo i p (pwi i w0) (rev hist) (pwi i (snd c)) m /\
                Lc i (Fs i) (Ls i) (Cs i) m (fun _ => True).

  Lemma GInv_init : GInv (init_cfg ps w0).
  Proof.
    unfold GInv, init_cfg. simpl. split; [exact Hs0|]. split; [reflexivity|]. split.
    - intros j l Hin. unfold held in Hin. simpl in Hin.
      destruct (nth_error ps j); [|contradiction]. rewrite nth_error_map in Hin.
      destruct (nth_error ps j); simpl in Hin; contradiction.
    - intros i p hist Hp Hh. rewrite nth_error_map, Hp in Hh. inversion Hh; subst hist.
      split; [apply HW0|]. exists p. split; [apply solo_nil | apply Hlocal; exact Hp].
  Qed.

  Lemma Fout_disj : forall i a, i < length ps -> Fs i a = true -> Fout a = false.
  Proof.
    intros i a Hi Ha. unfold Fout. apply negb_false_iff. apply existsb_exists.
    exists i. split; auto. apply in_seq. lia.
  Qed.

  Lemma GInv_step : forall c i c', GInv c -> thread_step ps c i = Some c' -> GInv c'.
  Proof.
    intros c i c' (Gs & Gout & Gheld & Gth) Hst.
    pose proof (@thread_step_lt _ _ _ _ _ Hst) as Hi.
    apply thread_step_inv in Hst. destruct Hst as (hist & o & k & a & w' & Hh & Hres & He & ->).
    assert (Hp : exists p, nth_error ps i = Some p /\ resume p (rev hist) = Some (Vis o k)).
    { unfold residual in Hres. destruct (nth_error ps i) as [p|]; [|discriminate].
      rewrite Hh in Hres. eauto. }
    destruct Hp as (p & Hp & Hrs).
    destruct (Gth i p hist Hp Hh) as (HWi & m & Hsolo & Hlc).
    pose proof (Solo_resume Hsolo) as Hrs'. rewrite Hrs in Hrs'. inversion Hrs'; subst m. clear Hrs'.
    simpl in Hlc. destruct Hlc as [Hop Hk].
    unfold GInv. simpl. split; [eapply exec_sorted; eauto|]. split; [|split].
    - rewrite <- Gout.
      eapply (@exec_frame i (Fs i) (Ls i) (cok (Cs i)) Fout Lnone o (snd c) a w');
        [intros x Hx; eapply Fout_disj; eauto | reflexivity | exact Hop | exact He].
    - intros j l Hin. destruct (Nat.eq_dec j i) as [->|Hne].
      + rewrite (held_adv_eq ps _ _ a w' Hh Hres) in Hin.
        destruct o; simpl in Hin; try (apply Gheld; exact Hin).
        * destruct Hin as [<-|Hin]; [exact Hop | apply Gheld; exact Hin].
        * apply Gheld. eapply In_remove1; eauto.
      + rewrite held_adv_neq in Hin by exact Hne. apply Gheld. exact Hin.
    - intros j q hj Hq Hhj. destruct (Nat.eq_dec j i) as [->|Hne].
      + rewrite Hp in Hq. inversion Hq; subst q.
        rewrite nth_error_upd_nth_eq in Hhj by (apply nth_error_Some; congruence).
        inversion Hhj; subst hj.
        split; [eapply exec_Wf; eauto|].
        exists (k a). split.
        * simpl. eapply Solo_snoc; [exact Hsolo|].
          rewrite (@exec_proj i (Fs i) (Ls i) (cok (Cs i)) o (snd c) Gs Hop), He. reflexivity.
        * apply Hk. eapply exec_ans_okl; eauto.
      + rewrite nth_error_upd_nth_neq in Hhj by exact Hne.
        destruct (Gth j q hj Hq Hhj) as (HWj & m & Hsj & Hlj).
        assert (Hfr : pwi j w' = pwi j (snd c)).
        { eapply (@exec_frame i (Fs i) (Ls i) (cok (Cs i)) (Fs j) (Ls j) o (snd c) a w');
            [ intros x Hx; eapply Hdisj; [|exact Hx]; congruence
            | intros l Hl; eapply Ldisj; [|exact Hl]; congruence | exact Hop | exact He]. }
        split.
        * eapply Wf_proj_eq; [|exact HWj]. unfold pw in Hfr. inversion Hfr. reflexivity.
        * exists m. split; auto. rewrite Hfr. exact Hsj.
  Qed.

  Lemma GInv_exec : forall sched c c', GInv c -> exec ps sched c = Some c' -> GInv c'.
  Proof.
    induction sched as [|i s IH]; intros c c' HG He; simpl in He.
    - inversion He; subst; auto.
    - destruct (thread_step ps c i) eqn:E; [|discriminate].
      eapply IH; [|exact He]. eapply GInv_step; eauto.
  Qed.

  (* nobody ever blocks: an identifier a thread wants is inside its own footprint, an identifier
     held by another thread is inside that thread's *)
  Lemma never_blocked : forall c i cls x k, GInv c -> InvM ps c ->
    residual ps c i = Some (Vis (Acquire cls x) k) -> ~ In (cls, x) (locks (snd c)).
  Proof.
    intros c i cls x k (Gs & Gout & Gheld & Gth) HM Hres Hin.
    assert (Hi : i < length ps).
    { unfold residual in Hres. destruct (nth_error ps i) eqn:E; [|discriminate].
      apply nth_error_Some. congruence. }
    assert (HM' := HM). destruct HM' as (Hlen & _ & HL & K & _ & HT).
    destruct HL as (_ & _ & _ & L4 & _).
    destruct (L4 _ Hin) as [j Hj].
    destruct (HT i Hi) as (m & Hm & Hbr & _). rewrite Hres in Hm. inversion Hm; subst m.
    simpl in Hbr. destruct Hbr as [Hpre _].
    destruct (Nat.eq_dec j i) as [->|Hne].
    - specialize (Hpre _ Hj). simpl in Hpre. lia.
    - assert (Hlj := Gheld j _ Hj).
      (* the Acquire is local to thread i's footprint *)
      unfold residual in Hres. destruct (nth_error ps i) as [p|] eqn:Ep; [|discriminate].
      destruct (nth_error (fst c) i) as [hist|] eqn:Eh; [|discriminate].
      destruct (Gth i p hist Ep Eh) as (_ & m & Hsolo & Hlc).
      pose proof (Solo_resume Hsolo) as Hrs. rewrite Hres in Hrs. inversion Hrs; subst m.
      simpl in Hlc. destruct Hlc as [Hop _]. simpl in Hop.
      rewrite (Ldisj (i := i) (j := j)) in Hlj; [discriminate | congruence | exact Hop].
  Qed.

  Theorem indep_pool : forall sched c,
    exec ps sched (init_cfg ps w0) = Some c -> stuck ps c ->
    finished ps c = true /\ locks (snd c) = [] /\
    (forall i p, nth_error ps i = Some p ->
       exists r, thread_result ps c i = Some r /\
                 run_as i (pwi i w0) p = Some (pwi i (snd c), r)) /\
    pw Fout Lnone (snd c) = pw Fout Lnone w0.
  Proof.
    intros sched c He Hst.
    assert (HG : GInv c) by (eapply GInv_exec; [apply GInv_init | exact He]).
    assert (HM : InvM ps c).
    { eapply InvM_reachable; eauto. eapply exec_reachable; [apply reach_init | exact He]. }
    assert (Hret : forall i, i < length ps -> exists r, residual ps c i = Some (Ret r)).
    { intros i Hi. destruct HM as (_ & _ & _ & K & _ & HT).
      destruct (HT i Hi) as (m & Hm & Hbr & _).
      destruct (stuck_thread _ Hst Hm) as [[r ->]|[->|(cls & x & k & -> & Hin)]]; eauto.
      - simpl in Hbr. contradiction.
      - exfalso. eapply never_blocked; eauto.
        eapply InvM_reachable; eauto. eapply exec_reachable; [apply reach_init | exact He]. }
    assert (Hfin : finished ps c = true /\ locks (snd c) = [] /\ refs_typed (fs (snd c))).
    { apply stuck_finished; auto.
      eapply Inv_reachable; eauto. eapply exec_reachable; [apply reach_init | exact He]. }
    destruct Hfin as (Hf1 & Hf2 & _).
    split; [exact Hf1|]. split; [exact Hf2|]. split.
    - intros i p Hp.
      assert (Hi : i < length ps) by (apply nth_error_Some; congruence).
      destruct (Hret i Hi) as [r Hr]. exists r.
      unfold residual in Hr. unfold thread_result. rewrite Hp in *.
      destruct (nth_error (fst c) i) as [hist|] eqn:Eh; [|discriminate].
      rewrite Hr. split; auto.
      destruct HG as (_ & _ & _ & Gth). destruct (Gth i p hist Hp Eh) as (_ & m & Hsolo & _).
      pose proof (Solo_resume Hsolo) as Hrs. rewrite Hr in Hrs. inversion Hrs; subst m.
      eapply Solo_run; eauto.
    - destruct HG as (_ & Gout & _). exact Gout.
  Qed.
End IndepPool.

(* ====================================================================================== *)
(* §6  pools of API calls with pairwise disjoint footprints                                 *)
(* ====================================================================================== *)

(* the cid a pid is bound to in the start world *)
Definition bound (w0 : world) (po : option pid) : list cid :=
  match po with
  | Some p => match lookup (APidRef p) (fs w0) with Some (CCid k) => [k] | _ => [] end
  | None => []
  end.

(* the content identifiers in the footprint of a call: those it names and the one its pid is
   bound to in the start world *)
Definition fp_cids (w0 : world) (c : call) : list cid := call_cids c ++ bound w0 (call_pid c).

Definition callat (calls : list call) (i : nat) : call := nth i calls (CRejected EGeneric).

(* the footprint of call number i: addresses and locks *)
Definition fp_addr (w0 : world) (calls : list call) (i : nat) : addr -> bool :=
  inF i (call_pid (callat calls i)) (fp_cids w0 (callat calls i)).
Definition fp_lock (w0 : world) (calls : list call) (i : nat) : lock -> bool :=
  inL i (call_pid (callat calls i)) (fp_cids w0 (callat calls i)).

(* two calls are independent: different pids, disjoint cid sets *)
Definition fp_disj (w0 : world) (c c' : call) : Prop :=
  (forall p, call_pid c = Some p -> call_pid c' <> Some p) /\
  (forall x, In x (fp_cids w0 c) -> ~ In x (fp_cids w0 c')).

Definition indep (w0 : world) (calls : list call) : Prop :=
  forall i j, i <> j -> fp_disj w0 (callat calls i) (callat calls j).

Lemma cid_in_In : forall cs x, cid_in cs x = true <-> In x cs.
Proof. intros. unfold cid_in. apply memb_In; [apply nat_eqb_true | apply Nat.eqb_refl]. Qed.

Lemma pid_in_Some : forall po p, pid_in po p = true <-> po = Some p.
Proof.
  intros [q|] p; simpl; split; intros H; try discriminate.
  - apply Nat.eqb_eq in H. congruence.
  - inversion H. apply Nat.eqb_refl.
Qed.

Lemma inF_disj : forall i j po cs po' cs' a, i <> j ->
  (forall p, po = Some p -> po' <> Some p) -> (forall x, In x cs -> ~ In x cs') ->
  inF i po cs a = true -> inF j po' cs' a = false.
Proof.
  intros i j po cs po' cs' a Hij Hp Hc. induction a; simpl; intros H; auto.
  - apply cid_in_In in H. destruct (cid_in cs' c) eqn:E; auto. apply cid_in_In in E. exfalso. eapply Hc; eauto.
  - apply pid_in_Some in H. destruct (pid_in po' p) eqn:E; auto. apply pid_in_Some in E. exfalso. eapply Hp; eauto.
  - apply cid_in_In in H. destruct (cid_in cs' c) eqn:E; auto. apply cid_in_In in E. exfalso. eapply Hc; eauto.
  - apply pid_in_Some in H. destruct (pid_in po' p) eqn:E; auto. apply pid_in_Some in E. exfalso. eapply Hp; eauto.
  - apply Nat.eqb_eq in H. subst. apply Nat.eqb_neq. auto.
Qed.

Lemma inL_disj : forall i j po cs po' cs' l, i <> j ->
  (forall p, po = Some p -> po' <> Some p) -> (forall x, In x cs -> ~ In x cs') ->
  inL i po cs l = true -> inL j po' cs' l = false.
Proof.
  intros i j po cs po' cs' [cls x] Hij Hp Hc H.
  destruct cls, x; simpl in *; auto; try discriminate;
    try (eapply inF_disj; eauto).
  - apply pid_in_Some in H. destruct (pid_in po' p) eqn:E; auto. apply pid_in_Some in E. exfalso. eapply Hp; eauto.
  - apply pid_in_Some in H. destruct (pid_in po' p) eqn:E; auto. apply pid_in_Some in E. exfalso. eapply Hp; eauto.
  - apply cid_in_In in H. destruct (cid_in cs' c) eqn:E; auto. apply cid_in_In in E. exfalso. eapply Hc; eauto.
Qed.

Lemma Wf_start : forall w0 i c, Spec.Inv w0 ->
  Wf (inF i (call_pid c) (fp_cids w0 c)) (cid_in (fp_cids w0 c)) (fs w0).
Proof.
  intros w0 i c [HI _] a x Ha Hl. apply InvF_wt in HI.
  assert (Hwt := HI a (CCid x) Hl).
  destruct a; simpl in Hwt.
  - destruct Hwt as [n E]; discriminate.
  - simpl in Ha. apply pid_in_Some in Ha. apply cid_in_In. unfold fp_cids. apply in_or_app. right.
    rewrite Ha. simpl. rewrite Hl. left. reflexivity.
  - destruct Hwt as [l E]; discriminate.
  - destruct Hwt as (v & n & E); discriminate.
  - contradiction.
  - contradiction.
Qed.

Lemma nth_error_callat : forall calls i p, nth_error (map api calls) i = Some p ->
  p = api (callat calls i).
Proof.
  intros calls i p H. rewrite nth_error_map in H. unfold callat.
  destruct (nth_error calls i) as [c|] eqn:E; inversion H; subst.
  f_equal. symmetry. apply nth_error_nth. exact E.
Qed.

Lemma api_local_fp : forall w0 calls i,
  Lc i (fp_addr w0 calls i) (fp_lock w0 calls i) (cid_in (fp_cids w0 (callat calls i)))
     (api (callat calls i)) (fun _ => True).
Proof.
  intros. unfold fp_addr, fp_lock. apply api_local.
  - intros p H. apply pid_in_Some. exact H.
  - intros x H. apply cid_in_In. unfold fp_cids. apply in_or_app. left. exact H.
Qed.

(* THE THEOREM.  Calls with pairwise disjoint footprints, started in any state satisfying the
   invariant (with a sorted file map — true of every map built by [update] from the empty one),
   under ANY schedule: every call returns, with the outcome it has when it runs ALONE from the
   start state (as the same thread: temp names carry the thread number); the final file map
   agrees on the footprint of each call with the map that call leaves when run alone, and
   outside all footprints with the start state; a call run alone changes nothing outside its
   footprint. *)
Theorem indep_calls : forall calls w0 sched c,
  Spec.Inv w0 -> fsorted (fs w0) -> indep w0 calls ->
  exec (map api calls) sched (init_cfg (map api calls) w0) = Some c ->
  stuck (map api calls) c ->
  finished (map api calls) c = true /\ locks (snd c) = [] /\
  (forall i ci, nth_error calls i = Some ci ->
     exists wi ri,
       run_as i w0 (api ci) = Some (wi, ri) /\
       thread_result (map api calls) c i = Some ri /\
       (forall a, fp_addr w0 calls i a = true -> lookup a (fs (snd c)) = lookup a (fs wi)) /\
       (forall a, fp_addr w0 calls i a = false -> lookup a (fs wi) = lookup a (fs w0))) /\
  (forall a, (forall i, i < length calls -> fp_addr w0 calls i a = false) ->
             lookup a (fs (snd c)) = lookup a (fs w0)).
Proof.
  intros calls w0 sched c HI Hs0 Hind He Hst.
  assert (Hdisj : forall i j a, i <> j -> fp_addr w0 calls i a = true -> fp_addr w0 calls j a = false).
  { intros i j a Hij. destruct (Hind i j Hij) as [H1 H2]. unfold fp_addr. eapply inF_disj; eauto. }
  assert (Ldisj : forall i j l, i <> j -> fp_lock w0 calls i l = true -> fp_lock w0 calls j l = false).
  { intros i j l Hij. destruct (Hind i j Hij) as [H1 H2]. unfold fp_lock. eapply inL_disj; eauto. }
  assert (Hl0 : locks w0 = []) by (destruct HI; auto).
  assert (Hrt0 : refs_typed (fs w0)).
  { apply well_typed_refs_typed. apply InvF_wt. destruct HI; auto. }
  destruct (@indep_pool _ (map api calls) (fp_addr w0 calls) (fp_lock w0 calls)
              (fun i => cid_in (fp_cids w0 (callat calls i))) w0 Hdisj Ldisj) with (sched := sched) (c := c)
    as (F1 & F2 & F3 & F4); auto.
  - intros i p Hp. rewrite (nth_error_callat _ _ Hp). apply api_local_fp.
  - apply api_pool_ok.
  - apply api_pool_okc.
  - intros i. unfold fp_addr. apply Wf_start. exact HI.
  - split; [exact F1|]. split; [exact F2|]. split.
    + intros i ci Hci.
      assert (Hp : nth_error (map api calls) i = Some (api ci)) by (rewrite nth_error_map, Hci; reflexivity).
      destruct (F3 i _ Hp) as (r & Hr & Hrun).
      assert (Hca : callat calls i = ci) by (unfold callat; apply nth_error_nth; exact Hci).
      pose proof (api_local_fp w0 calls i) as Hloc. rewrite Hca in Hloc.
      assert (HW : Wf (fp_addr w0 calls i) (cid_in (fp_cids w0 ci)) (fs w0)).
      { rewrite <- Hca. unfold fp_addr. apply Wf_start. exact HI. }
      rewrite (@solo_equiv i _ _ _ _ (api ci) w0 _ Hloc HW Hs0) in Hrun.
      destruct (run_as i w0 (api ci)) as [[wi ri]|] eqn:Er; [|discriminate].
      inversion Hrun as [[Hpw Hri]]. subst ri.
      exists wi, r. split; auto. split; auto. split.
      * intros a Ha. unfold pw in Hpw. inversion Hpw as [[Hpf _]].
        rewrite <- (@lookup_proj _ a (fs (snd c)) Ha), <- Hpf, (@lookup_proj _ a (fs wi) Ha). reflexivity.
      * intros a Ha.
        destruct (@solo_keeps i _ _ _ _ (api ci) w0 _ wi r Hloc HW Hs0 Er) as (_ & _ & Hfr).
        specialize (Hfr (fun x => negb (fp_addr w0 calls i x)) (fun _ => false)).
        assert (Hpw' : pw (fun x => negb (fp_addr w0 calls i x)) (fun _ => false) wi =
                       pw (fun x => negb (fp_addr w0 calls i x)) (fun _ => false) w0).
        { apply Hfr; [intros x Hx; rewrite Hx; reflexivity | reflexivity]. }
        unfold pw in Hpw'. inversion Hpw' as [Hpf].
        assert (Hn : negb (fp_addr w0 calls i a) = true) by (rewrite Ha; reflexivity).
        rewrite <- (@lookup_proj (fun x => negb (fp_addr w0 calls i x)) a (fs wi) Hn), Hpf.
        apply (@lookup_proj (fun x => negb (fp_addr w0 calls i x)) a (fs w0) Hn).
    + intros a Ha.
      assert (Ho : Fout (map api calls) (fp_addr w0 calls) a = true).
      { unfold Fout. apply negb_true_iff. destruct (existsb _ _) eqn:E; auto.
        apply existsb_exists in E. destruct E as (i & Hi & Hai). apply in_seq in Hi.
        rewrite map_length in Hi. rewrite Ha in Hai; [discriminate | lia]. }
      unfold pw in F4. inversion F4 as [Hpf].
      rewrite <- (@lookup_proj _ a (fs (snd c)) Ho), Hpf. apply (@lookup_proj _ a (fs w0) Ho).
Qed.

(* ---------- a decision procedure for independence ---------- *)

Definition pid_clash (po po' : option pid) : bool :=
  match po, po' with Some p, Some q => Nat.eqb p q | _, _ => false end.

Definition fp_disjb (w0 : world) (c c' : call) : bool :=
  negb (pid_clash (call_pid c) (call_pid c')) &&
  forallb (fun x => negb (cid_in (fp_cids w0 c') x)) (fp_cids w0 c).

Fixpoint pairwiseb (R : call -> call -> bool) (l : list call) : bool :=
  match l with
  | [] => true
  | x :: l' => forallb (fun y => R x y && R y x) l' && pairwiseb R l'
  end.

Definition indepb (w0 : world) (calls : list call) : bool := pairwiseb (fp_disjb w0) calls.

Lemma fp_disjb_sound : forall w0 c c', fp_disjb w0 c c' = true -> fp_disj w0 c c'.
Proof.
  intros w0 c c' H. apply andb_true_iff in H. destruct H as [H1 H2]. split.
  - intros p Hp Hp'. rewrite Hp, Hp' in H1. simpl in H1. rewrite Nat.eqb_refl in H1. discriminate.
  - intros x Hx Hx'. rewrite forallb_forall in H2. specialize (H2 x Hx).
    apply cid_in_In in Hx'. rewrite Hx' in H2. discriminate.
Qed.

Lemma pairwiseb_nth : forall R d l, pairwiseb R l = true ->
  forall i j, i < j -> j < length l -> R (nth i l d) (nth j l d) = true /\ R (nth j l d) (nth i l d) = true.
Proof.
  induction l as [|x l IH]; simpl; intros H i j Hij Hj; [lia|].
  apply andb_true_iff in H. destruct H as [H1 H2].
  destruct j as [|j]; [lia|]. destruct i as [|i].
  - rewrite forallb_forall in H1. specialize (H1 (nth j l d)).
    apply andb_true_iff. apply H1. apply nth_In. lia.
  - apply IH; auto; lia.
Qed.

Lemma fp_disj_rejected_l : forall w0 e c, fp_disj w0 (CRejected e) c.
Proof. intros. split; simpl; [intros p H; discriminate | intros x []]. Qed.
Lemma fp_disj_rejected_r : forall w0 e c, fp_disj w0 c (CRejected e).
Proof. intros. split; simpl; [intros p _ H; discriminate | intros x _ []]. Qed.

Lemma indepb_sound : forall w0 calls, indepb w0 calls = true -> indep w0 calls.
Proof.
  intros w0 calls H i j Hij. unfold callat.
  destruct (le_lt_dec (length calls) i) as [Hi|Hi].
  { rewrite (nth_overflow calls _ Hi). apply fp_disj_rejected_l. }
  destruct (le_lt_dec (length calls) j) as [Hj|Hj].
  { rewrite (nth_overflow calls _ Hj). apply fp_disj_rejected_r. }
  apply fp_disjb_sound.
  destruct (lt_eq_lt_dec i j) as [[Hlt|He]|Hgt]; [|contradiction|].
  - apply (pairwiseb_nth (fp_disjb w0) (CRejected EGeneric) calls H Hlt Hj).
  - apply (pairwiseb_nth (fp_disjb w0) (CRejected EGeneric) calls H Hgt Hi).
Qed.

(* ---------- sorted file maps are what the store produces ---------- *)

Lemma run_as_sorted : forall A t (m : prog A) w w' r,
  fsorted (fs w) -> run_as t w m = Some (w', r) -> fsorted (fs w').
Proof.
  induction m as [r0|o k IH|]; intros w w' r Hs H; simpl in H.
  - inversion H; subst; auto.
  - destruct (exec_op t o w) as [[a w1]|] eqn:E; [|discriminate].
    eapply IH; [|exact H]. eapply exec_sorted; eauto.
  - discriminate.
Qed.

Lemma run_history_sorted : forall h w w' rs,
  fsorted (fs w) -> run_history w h = Some (w', rs) -> fsorted (fs w').
Proof.
  induction h as [|c h IH]; intros w w' rs Hs H; simpl in H.
  - inversion H; subst; auto.
  - destruct (run_seq w (api c)) as [[w1 r]|] eqn:E; [|discriminate].
    destruct (run_history w1 h) as [[w2 rs2]|] eqn:E2; [|discriminate].
    inversion H; subst. eapply IH; [|exact E2].
    rewrite <- run_as_0 in E. eapply run_as_sorted; eauto.
Qed.

Lemma run_history_empty_sorted : forall h w' rs,
  run_history empty_world h = Some (w', rs) -> fsorted (fs w').
Proof. intros. eapply run_history_sorted; eauto. exact I. Qed.

(* ---------- independent pools are linearizable, in every order ---------- *)

(* run the calls one after the other in the order ord, each as its own thread number *)
Fixpoint seq_run (calls : list call) (ord : list nat) (w : world)
  : option (world * list (outcome value)) :=
  match ord with
  | [] => Some (w, [])
  | i :: ord' =>
      match run_as i w (api (callat calls i)) with
      | Some (w', r) =>
          match seq_run calls ord' w' with
          | Some (w'', rs) => Some (w'', r :: rs)
          | None => None
          end
      | None => None
      end
  end.

Section SeqOrder.
  Variable calls : list call.
  Variable w0 : world.
  Hypothesis HI : Spec.Inv w0.
  Hypothesis Hs0 : fsorted (fs w0).
  Hypothesis Hind : indep w0 calls.

  Notation Fi i := (fp_addr w0 calls i).
  Notation Li i := (fp_lock w0 calls i).
  Notation Ci i := (cid_in (fp_cids w0 (callat calls i))).

  Lemma fp_addr_disj : forall i j a, i <> j -> Fi i a = true -> Fi j a = false.
  Proof. intros i j a Hij. destruct (Hind Hij) as [H1 H2]. unfold fp_addr. eapply inF_disj; eauto. Qed.
  Lemma fp_lock_disj : forall i j l, i <> j -> Li i l = true -> Li j l = false.
  Proof. intros i j l Hij. destruct (Hind Hij) as [H1 H2]. unfold fp_lock. eapply inL_disj; eauto. Qed.

  Lemma solo_exists : forall i, exists wi ri, run_as i w0 (api (callat calls i)) = Some (wi, ri).
  Proof.
    intros i.
    destruct (@run_as_total _ i (api (callat calls i)) [] [] w0) as (w' & r & H & _).
    - apply api_bracketed.
    - apply well_typed_refs_typed. apply InvF_wt. destruct HI; auto.
    - apply KInv_nil.
    - apply LInv_empty. destruct HI; auto.
    - eauto.
  Qed.

  Lemma seq_run_spec : forall ord w,
    NoDup ord -> fsorted (fs w) ->
    (forall j, In j ord -> pw (Fi j) (Li j) w = pw (Fi j) (Li j) w0 /\ Wf (Fi j) (Ci j) (fs w)) ->
    exists w' rs,
      seq_run calls ord w = Some (w', rs) /\
      Forall2 (fun i r => exists wi, run_as i w0 (api (callat calls i)) = Some (wi, r) /\
                                     pw (Fi i) (Li i) w' = pw (Fi i) (Li i) wi) ord rs /\
      (forall (F' : addr -> bool) (Lk' : lock -> bool),
         (forall j x, In j ord -> Fi j x = true -> F' x = false) ->
         (forall j l, In j ord -> Li j l = true -> Lk' l = false) ->
         pw F' Lk' w' = pw F' Lk' w).
  Proof.
    induction ord as [|i ord IH]; intros w Hnd Hs Hinv.
    - exists w, []. simpl. split; auto.
    - inversion Hnd as [|? ? Hni Hnd']; subst.
      destruct (Hinv i (or_introl eq_refl)) as [Hpw HW].
      pose proof (api_local_fp w0 calls i) as Hloc.
      destruct (solo_exists i) as (wi & ri & Hsolo).
      assert (HW0 : Wf (Fi i) (Ci i) (fs w0)) by (unfold fp_addr; apply Wf_start; exact HI).
      pose proof (@solo_equiv i _ _ _ _ (api (callat calls i)) w0 _ Hloc HW0 Hs0) as E0.
      pose proof (@solo_equiv i _ _ _ _ (api (callat calls i)) w _ Hloc HW Hs) as E1.
      rewrite Hsolo in E0. rewrite Hpw, E0 in E1.
      destruct (run_as i w (api (callat calls i))) as [[w1 r1]|] eqn:Er; [|discriminate].
      assert (Hpw1 : pw (Fi i) (Li i) w1 = pw (Fi i) (Li i) wi) by congruence.
      assert (Hr1 : r1 = ri) by congruence. subst r1. clear E1.
      destruct (@solo_keeps i _ _ _ _ (api (callat calls i)) w _ w1 ri Hloc HW Hs Er) as (_ & Hs1 & Hfr1).
      destruct (IH w1 Hnd' Hs1) as (w' & rs & Hrun & Hall & Hfr).
      { intros j Hj. assert (Hji : j <> i) by (intros ->; contradiction).
        destruct (Hinv j (or_intror Hj)) as [Hpj HWj].
        assert (Hfj : pw (Fi j) (Li j) w1 = pw (Fi j) (Li j) w).
        { apply Hfr1; [intros x Hx; eapply fp_addr_disj; [|exact Hx]; congruence
                      | intros l Hl; eapply fp_lock_disj; [|exact Hl]; congruence]. }
        split; [rewrite Hfj; exact Hpj|].
        eapply Wf_proj_eq; [|exact HWj]. unfold pw in Hfj. inversion Hfj. reflexivity. }
      exists w', (ri :: rs). simpl. rewrite Er, Hrun. split; auto. split.
      + constructor; auto. exists wi. split; auto.
        rewrite <- Hpw1. apply Hfr.
        * intros j x Hj Hx. eapply fp_addr_disj; [|exact Hx]. intros ->. contradiction.
        * intros j l Hj Hl. eapply fp_lock_disj; [|exact Hl]. intros ->. contradiction.
      + intros F' Lk' HF HL. rewrite (Hfr F' Lk').
        * apply Hfr1; [intros x Hx; eapply HF; [left; reflexivity | exact Hx]
                      | intros l Hl; eapply HL; [left; reflexivity | exact Hl]].
        * intros j x Hj. apply HF. right. exact Hj.
        * intros j l Hj. apply HL. right. exact Hj.
  Qed.
End SeqOrder.

(* fs_eq: the two file maps have the same content at every address (Spec.fs_eq) *)
Theorem indep_linearizable : forall calls w0 sched c ord,
  Spec.Inv w0 -> fsorted (fs w0) -> indep w0 calls ->
  exec (map api calls) sched (init_cfg (map api calls) w0) = Some c ->
  stuck (map api calls) c ->
  NoDup ord -> (forall i, In i ord <-> i < length calls) ->
  exists w' rs,
    seq_run calls ord w0 = Some (w', rs) /\
    fs_eq (fs (snd c)) (fs w') /\
    map (thread_result (map api calls) c) ord = map Some rs.
Proof.
  intros calls w0 sched c ord HI Hs0 Hind He Hst Hnd Hperm.
  destruct (@indep_calls calls w0 sched c HI Hs0 Hind He Hst) as (_ & _ & Hth & Hout).
  destruct (@seq_run_spec calls w0 HI Hs0 Hind ord w0 Hnd Hs0) as (w' & rs & Hrun & Hall & Hfr).
  { intros j _. split; auto. unfold fp_addr. apply Wf_start. exact HI. }
  exists w', rs. split; auto. split.
  - intros a.
    destruct (existsb (fun i => fp_addr w0 calls i a) ord) eqn:Ex.
    + apply existsb_exists in Ex. destruct Ex as (i & Hi & Ha).
      assert (Hilt : i < length calls) by (apply Hperm; exact Hi).
      destruct (nth_error calls i) as [ci|] eqn:Eci; [|apply nth_error_None in Eci; lia].
      destruct (Hth i ci Eci) as (wi & ri & Hsolo & _ & Hagree & _).
      rewrite (Hagree a Ha).
      assert (Hca : callat calls i = ci) by (unfold callat; apply nth_error_nth; exact Eci).
      (* the i-th entry of Hall *)
      clear - Hall Hi Ha Hsolo Hca.
      induction Hall as [|j r ord' rs' Hj Hrest IH]; [contradiction|].
      destruct Hi as [->|Hi]; [|apply IH; exact Hi].
      destruct Hj as (wi' & Hs' & Hpw). rewrite Hca, Hsolo in Hs'. inversion Hs'; subst wi'.
      assert (Hpf := f_equal fs Hpw). simpl in Hpf.
      rewrite <- (@lookup_proj _ a (fs wi) Ha), <- Hpf. apply (@lookup_proj _ a (fs w') Ha).
    + assert (Hno : forall i, i < length calls -> fp_addr w0 calls i a = false).
      { intros i Hi. apply Hperm in Hi. destruct (fp_addr w0 calls i a) eqn:E; auto.
        assert (existsb (fun i => fp_addr w0 calls i a) ord = true)
          by (apply existsb_exists; eauto). congruence. }
      rewrite (Hout a Hno).
      pose (G := fun x : addr => negb (existsb (fun i => fp_addr w0 calls i x) ord)).
      assert (Hpw : pw G (fun _ => false) w' = pw G (fun _ => false) w0).
      { apply Hfr; [|reflexivity]. intros j x Hj Hx. unfold G. apply negb_false_iff.
        apply existsb_exists. eauto. }
      assert (Hpf := f_equal fs Hpw). simpl in Hpf.
      assert (Hn : G a = true) by (unfold G; rewrite Ex; reflexivity).
      rewrite <- (@lookup_proj G a (fs w') Hn), Hpf. symmetry. apply (@lookup_proj G a (fs w0) Hn).
  - assert (Hin : forall i, In i ord -> i < length calls) by (intros i Hi; apply Hperm; exact Hi).
    clear - Hall Hth Hin.
    induction Hall as [|j r ord' rs' Hj Hrest IH]; simpl; auto.
    f_equal; [|apply IH; intros i Hi; apply Hin; right; exact Hi].
    assert (Hjlt : j < length calls) by (apply Hin; left; reflexivity).
    destruct (nth_error calls j) as [cj|] eqn:Ecj; [|apply nth_error_None in Ecj; lia].
    destruct (Hth j cj Ecj) as (wj & rj & Hsolo & Hres & _).
    assert (Hca : callat calls j = cj) by (unfold callat; apply nth_error_nth; exact Ecj).
    destruct Hj as (wj' & Hs' & _). rewrite Hca, Hsolo in Hs'. inversion Hs'; subst. exact Hres.
Qed.

(* ---------- the start-state hypotheses hold of every state the store reaches ---------- *)

From HS Require Refine SeqProps.

Lemma run_history_Inv : forall h w w' rs,
  Forall Refine.proper_call h -> Spec.Inv w -> run_history w h = Some (w', rs) -> Spec.Inv w'.
Proof.
  induction h as [|c h IH]; intros w w' rs Hp HI H; simpl in H.
  - inversion H; subst; auto.
  - inversion Hp as [|? ? Hc Hp']; subst.
    destruct (@Refine.api_refines w c HI Hc) as (w1 & Hr & Hfe & Hl).
    rewrite Hr in H. destruct (run_history w1 h) as [[w2 rs2]|] eqn:E2; [|discriminate].
    inversion H; subst. eapply IH; [exact Hp'| |exact E2].
    split; [|exact Hl]. eapply SeqProps.InvF_fs_eq.
    + intros a. symmetry. apply Hfe.
    + apply SeqProps.sem_inv. destruct HI; auto.
Qed.

Lemma run_history_empty_start : forall h w' rs,
  Forall Refine.proper_call h -> run_history empty_world h = Some (w', rs) ->
  Spec.Inv w' /\ fsorted (fs w').
Proof.
  intros h w' rs Hp H. split.
  - eapply run_history_Inv; eauto. apply Refine.inv_empty.
  - eapply run_history_empty_sorted; eauto.
Qed.

(* ---------- the statement, in full ---------- *)

Definition C07_indep_statement : Prop :=
  forall (calls : list call) (w0 : world) (sched : list nat) (c : cfg),
    Spec.Inv w0 -> fsorted (fs w0) -> indep w0 calls ->
    exec (map api calls) sched (init_cfg (map api calls) w0) = Some c ->
    stuck (map api calls) c ->
    finished (map api calls) c = true /\ locks (snd c) = [] /\
    (forall i ci, nth_error calls i = Some ci ->
       exists wi ri,
         run_as i w0 (api ci) = Some (wi, ri) /\
         thread_result (map api calls) c i = Some ri /\
         (forall a, fp_addr w0 calls i a = true -> lookup a (fs (snd c)) = lookup a (fs wi)) /\
         (forall a, fp_addr w0 calls i a = false -> lookup a (fs wi) = lookup a (fs w0))) /\
    (forall a, (forall i, i < length calls -> fp_addr w0 calls i a = false) ->
               lookup a (fs (snd c)) = lookup a (fs w0)).

Theorem C07_indep_holds : C07_indep_statement.
Proof. exact indep_calls. Qed.
