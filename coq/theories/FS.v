(* FS.v — token-level file system, lock lists, operations and the program monad.

   Layer B of DESIGN.md §3.2.  Identifiers, content identifiers, formats and byte
   contents are tokens (natural numbers): layer A (Shard, RefsCodec, Layout) justifies
   treating hashed paths as injective tokens.  Everything here is executable and is
   extracted to OCaml for the correspondence check. *)
From HS Require Import Base.

Definition pid := nat.
Definition cid := nat.
Definition fmt := nat.

Inductive area := ArObj | ArMeta | ArRefs.

Inductive addr :=
| AObj (c : cid)                    (* objects/<shard(cid)> *)
| APidRef (p : pid)                 (* refs/pids/<shard(H(pid))> *)
| ACidRef (c : cid)                 (* refs/cids/<shard(cid)> *)
| AMeta (p : pid) (f : fmt)         (* metadata/<shard(H(pid))>/<H(pid+format)> *)
| ATmp (ar : area) (t : nat) (n : nat)   (* <area>/tmp/<random>: created by thread t, its n-th live one *)
| ADel (a : addr).                  (* <a>_delete *)

(* Content of a file.  [CData b n i]: the first [i] of the [n] chunks of byte content [b]
   (complete iff i = n); cid of content b is the token b itself. *)
Inductive fcontent :=
| CData (b n i : nat)
| CCid (c : cid)
| CLines (l : list pid)
| CEmpty.

Inductive lockcls := LObjPid | LRefPid | LCid | LMeta | LFile.
Inductive ident := IPid (p : pid) | ICid (c : cid) | IDoc (a : addr).

Inductive err := ENoEnt | EFault.

Inductive op :=
| Probe (a : addr)                       (* os.path.isfile / exists: never fails, never a fault site *)
| SizeLines (a : addr)                   (* os.path.getsize of a cid list; answer = number of lines *)
| Read (a : addr)                        (* open for reading (+ read): answer = content at open time *)
| OpenSrc                                (* open the caller's source file for reading (outside the store) *)
| MkTmp (ar : area) (init : fcontent)    (* NamedTemporaryFile(dir=<area>/tmp, delete=False) *)
| WriteChunk (t : addr)                  (* tmp_file.write(chunk) *)
| OpenWr (t : addr) (c : fcontent)       (* open(tmp, "w") + write + close, reference temp files *)
| Rename (src dst : addr)                (* shutil.move within the store *)
| Remove (a : addr)                      (* os.remove *)
| MkDirs (a : addr)                      (* makedirs of the parent directory of a *)
| ListDir (p : pid)                      (* files in the metadata directory of p *)
| AppendOpen (a : addr)                  (* open(a, "a") *)
| AppendWrite (a : addr) (p : pid)       (* write(p + "\n") + close *)
| OpenRW (a : addr)                      (* open(a, "r+") *)
| RewriteWrite (a : addr) (p : pid)      (* readlines; seek(0); write kept lines  (flushed) *)
| Truncate (a : addr) (k : nat)          (* ftruncate to the kept lines *)
| Acquire (cls : lockcls) (i : ident)    (* with cond: while i in L: wait(); L.append(i)   | flock *)
| Release (cls : lockcls) (i : ident)    (* with cond: L.remove(i); notify()               | close *)
| Peek (cls : lockcls) (i : ident)       (* with cond: i in L *)
| Held (cls : lockcls) (i : ident).      (* i in L, no condition taken (the _check_..._locked helpers) *)

Inductive ans :=
| AUnit
| ABool (b : bool)
| ANat (n : nat)
| ACont (c : fcontent)
| AAddr (a : addr)
| AList (l : list addr)
| AErr (e : err).

(* ---------- decidable equalities (boolean, with the direction the explorer needs) ---------- *)

Definition area_eqb (a b : area) : bool :=
  match a, b with ArObj, ArObj | ArMeta, ArMeta | ArRefs, ArRefs => true | _, _ => false end.

Fixpoint addr_eqb (a b : addr) : bool :=
  match a, b with
  | AObj c, AObj c' => Nat.eqb c c'
  | APidRef p, APidRef p' => Nat.eqb p p'
  | ACidRef c, ACidRef c' => Nat.eqb c c'
  | AMeta p f, AMeta p' f' => Nat.eqb p p' && Nat.eqb f f'
  | ATmp ar t n, ATmp ar' t' n' => area_eqb ar ar' && Nat.eqb t t' && Nat.eqb n n'
  | ADel x, ADel y => addr_eqb x y
  | _, _ => false
  end.

Lemma area_eqb_true : forall a b, area_eqb a b = true -> a = b.
Proof. destruct a, b; simpl; intros; congruence. Qed.
Lemma area_eqb_refl : forall a, area_eqb a a = true.
Proof. destruct a; reflexivity. Qed.

Lemma addr_eqb_true : forall a b, addr_eqb a b = true -> a = b.
Proof.
  induction a as [c|p|c|p f|ar t n|x IH]; destruct b as [c'|p'|c'|p' f'|ar' t' n'|y]; simpl; intros H;
    try discriminate.
  - apply Nat.eqb_eq in H. congruence.
  - apply Nat.eqb_eq in H. congruence.
  - apply Nat.eqb_eq in H. congruence.
  - apply andb_true_iff in H. destruct H as [H1 H2].
    apply Nat.eqb_eq in H1. apply Nat.eqb_eq in H2. congruence.
  - apply andb_true_iff in H. destruct H as [H12 H3].
    apply andb_true_iff in H12. destruct H12 as [H1 H2].
    apply area_eqb_true in H1. apply Nat.eqb_eq in H2. apply Nat.eqb_eq in H3. congruence.
  - f_equal. auto.
Qed.

Lemma addr_eqb_refl : forall a, addr_eqb a a = true.
Proof.
  induction a; simpl; rewrite ?Nat.eqb_refl, ?area_eqb_refl; auto.
Qed.

Lemma addr_eqb_eq : forall a b, addr_eqb a b = true <-> a = b.
Proof. split; [apply addr_eqb_true | intros ->; apply addr_eqb_refl]. Qed.

Lemma addr_eqb_neq : forall a b, addr_eqb a b = false <-> a <> b.
Proof.
  intros a b. split.
  - intros H E. subst. rewrite addr_eqb_refl in H. discriminate.
  - intros H. destruct (addr_eqb a b) eqn:E; auto. apply addr_eqb_true in E. contradiction.
Qed.

Definition addr_eq_dec (a b : addr) : {a = b} + {a <> b}.
Proof.
  destruct (addr_eqb a b) eqn:E.
  - left. apply addr_eqb_true. exact E.
  - right. apply addr_eqb_neq. exact E.
Defined.

Definition fcontent_eqb (x y : fcontent) : bool :=
  match x, y with
  | CData b n i, CData b' n' i' => Nat.eqb b b' && Nat.eqb n n' && Nat.eqb i i'
  | CCid c, CCid c' => Nat.eqb c c'
  | CLines l, CLines l' => list_eqb Nat.eqb l l'
  | CEmpty, CEmpty => true
  | _, _ => false
  end.

Lemma fcontent_eqb_true : forall x y, fcontent_eqb x y = true -> x = y.
Proof.
  destruct x, y; simpl; intros H; try discriminate; auto.
  - apply andb_true_iff in H. destruct H as [H12 H3].
    apply andb_true_iff in H12. destruct H12 as [H1 H2].
    apply Nat.eqb_eq in H1, H2, H3. congruence.
  - apply Nat.eqb_eq in H. congruence.
  - f_equal. apply (list_eqb_true Nat.eqb nat_eqb_true). exact H.
Qed.

Definition lockcls_eqb (a b : lockcls) : bool :=
  match a, b with
  | LObjPid, LObjPid | LRefPid, LRefPid | LCid, LCid | LMeta, LMeta | LFile, LFile => true
  | _, _ => false
  end.

Definition ident_eqb (a b : ident) : bool :=
  match a, b with
  | IPid p, IPid q => Nat.eqb p q
  | ICid c, ICid d => Nat.eqb c d
  | IDoc x, IDoc y => addr_eqb x y
  | _, _ => false
  end.

Lemma lockcls_eqb_true : forall a b, lockcls_eqb a b = true -> a = b.
Proof. destruct a, b; simpl; intros; congruence. Qed.
Lemma lockcls_eqb_refl : forall a, lockcls_eqb a a = true.
Proof. destruct a; reflexivity. Qed.
Lemma ident_eqb_true : forall a b, ident_eqb a b = true -> a = b.
Proof.
  destruct a, b; simpl; intros H; try discriminate.
  - apply Nat.eqb_eq in H; congruence.
  - apply Nat.eqb_eq in H; congruence.
  - apply addr_eqb_true in H; congruence.
Qed.
Lemma ident_eqb_refl : forall a, ident_eqb a a = true.
Proof. destruct a; simpl; rewrite ?Nat.eqb_refl, ?addr_eqb_refl; reflexivity. Qed.

Definition lock := (lockcls * ident)%type.
Definition lock_eqb (a b : lock) : bool :=
  lockcls_eqb (fst a) (fst b) && ident_eqb (snd a) (snd b).
Lemma lock_eqb_true : forall a b, lock_eqb a b = true -> a = b.
Proof.
  intros [c i] [c' i']; unfold lock_eqb; simpl; intros H.
  apply andb_true_iff in H. destruct H as [H1 H2].
  apply lockcls_eqb_true in H1. apply ident_eqb_true in H2. congruence.
Qed.
Lemma lock_eqb_refl : forall a, lock_eqb a a = true.
Proof. intros [c i]; unfold lock_eqb; simpl. rewrite lockcls_eqb_refl, ident_eqb_refl. reflexivity. Qed.

Definition err_eqb (a b : err) : bool :=
  match a, b with ENoEnt, ENoEnt | EFault, EFault => true | _, _ => false end.

Definition ans_eqb (x y : ans) : bool :=
  match x, y with
  | AUnit, AUnit => true
  | ABool a, ABool b => Bool.eqb a b
  | ANat a, ANat b => Nat.eqb a b
  | ACont a, ACont b => fcontent_eqb a b
  | AAddr a, AAddr b => addr_eqb a b
  | AList a, AList b => list_eqb addr_eqb a b
  | AErr a, AErr b => err_eqb a b
  | _, _ => false
  end.

Lemma ans_eqb_true : forall x y, ans_eqb x y = true -> x = y.
Proof.
  destruct x, y; simpl; intros H; try discriminate; auto.
  - apply Bool.eqb_prop in H. congruence.
  - apply Nat.eqb_eq in H. congruence.
  - apply fcontent_eqb_true in H. congruence.
  - apply addr_eqb_true in H. congruence.
  - f_equal. apply (list_eqb_true addr_eqb addr_eqb_true). exact H.
  - destruct e, e0; simpl in H; congruence.
Qed.

(* ---------- the file map: association list kept sorted by a total order on codes ---------- *)

Definition area_code (a : area) : nat := match a with ArObj => 0 | ArMeta => 1 | ArRefs => 2 end.

Fixpoint addr_code (a : addr) : list nat :=
  match a with
  | AObj c => [0; c]
  | APidRef p => [1; p]
  | ACidRef c => [2; c]
  | AMeta p f => [3; p; f]
  | ATmp ar t n => [4; area_code ar; t; n]
  | ADel x => 5 :: addr_code x
  end.

Fixpoint code_ltb (x y : list nat) : bool :=
  match x, y with
  | [], [] => false
  | [], _ :: _ => true
  | _ :: _, [] => false
  | a :: x', b :: y' => if Nat.ltb a b then true else if Nat.eqb a b then code_ltb x' y' else false
  end.

Definition addr_ltb (a b : addr) : bool := code_ltb (addr_code a) (addr_code b).

Definition fmap := list (addr * fcontent).

Fixpoint lookup (a : addr) (m : fmap) : option fcontent :=
  match m with
  | [] => None
  | (k, v) :: m' => if addr_eqb a k then Some v else lookup a m'
  end.

Fixpoint delete (a : addr) (m : fmap) : fmap :=
  match m with
  | [] => []
  | (k, v) :: m' => if addr_eqb a k then delete a m' else (k, v) :: delete a m'
  end.

Fixpoint insert_sorted (a : addr) (v : fcontent) (m : fmap) : fmap :=
  match m with
  | [] => [(a, v)]
  | (k, v') :: m' => if addr_ltb a k then (a, v) :: (k, v') :: m' else (k, v') :: insert_sorted a v m'
  end.

Definition update (a : addr) (v : fcontent) (m : fmap) : fmap := insert_sorted a v (delete a m).

Lemma lookup_delete_eq : forall a m, lookup a (delete a m) = None.
Proof.
  induction m as [|[k v] m IH]; simpl; auto.
  destruct (addr_eqb a k) eqn:E; simpl; auto. rewrite E. exact IH.
Qed.

Lemma lookup_delete_neq : forall a b m, a <> b -> lookup a (delete b m) = lookup a m.
Proof.
  induction m as [|[k v] m IH]; simpl; intros Hne; auto.
  destruct (addr_eqb b k) eqn:E.
  - apply addr_eqb_true in E. subst k.
    destruct (addr_eqb a b) eqn:E2; [apply addr_eqb_true in E2; contradiction|]. auto.
  - simpl. destruct (addr_eqb a k); auto.
Qed.

Lemma lookup_insert_neq : forall a b v m, a <> b -> lookup a (insert_sorted b v m) = lookup a m.
Proof.
  induction m as [|[k v'] m IH]; simpl; intros Hne.
  - destruct (addr_eqb a b) eqn:E; auto. apply addr_eqb_true in E. contradiction.
  - destruct (addr_ltb b k); simpl.
    + destruct (addr_eqb a b) eqn:E; auto. apply addr_eqb_true in E. contradiction.
    + destruct (addr_eqb a k); auto.
Qed.

Lemma lookup_insert_absent : forall a v m, lookup a m = None -> lookup a (insert_sorted a v m) = Some v.
Proof.
  induction m as [|[k v'] m IH]; simpl; intros H.
  - rewrite addr_eqb_refl. reflexivity.
  - destruct (addr_eqb a k) eqn:E; [discriminate|].
    destruct (addr_ltb a k); simpl.
    + rewrite addr_eqb_refl. reflexivity.
    + rewrite E. auto.
Qed.

Lemma lookup_update_eq : forall a v m, lookup a (update a v m) = Some v.
Proof. intros. unfold update. apply lookup_insert_absent. apply lookup_delete_eq. Qed.

Lemma lookup_update_neq : forall a b v m, a <> b -> lookup a (update b v m) = lookup a m.
Proof.
  intros. unfold update. rewrite lookup_insert_neq by assumption. apply lookup_delete_neq. assumption.
Qed.

Lemma lookup_update : forall a b v m,
  lookup a (update b v m) = if addr_eqb a b then Some v else lookup a m.
Proof.
  intros. destruct (addr_eqb a b) eqn:E.
  - apply addr_eqb_true in E. subst. apply lookup_update_eq.
  - apply addr_eqb_neq in E. apply lookup_update_neq. assumption.
Qed.

Lemma lookup_delete : forall a b m,
  lookup a (delete b m) = if addr_eqb a b then None else lookup a m.
Proof.
  intros. destruct (addr_eqb a b) eqn:E.
  - apply addr_eqb_true in E. subst. apply lookup_delete_eq.
  - apply addr_eqb_neq in E. apply lookup_delete_neq. assumption.
Qed.

(* keys present *)
Definition keys (m : fmap) : list addr := map fst m.

Lemma lookup_Some_In_keys : forall a m v, lookup a m = Some v -> In a (keys m).
Proof.
  induction m as [|[k v'] m IH]; simpl; intros v H; [discriminate|].
  destruct (addr_eqb a k) eqn:E.
  - left. symmetry. apply addr_eqb_true. exact E.
  - right. eapply IH. exact H.
Qed.

Lemma In_keys_lookup : forall a m, In a (keys m) -> exists v, lookup a m = Some v.
Proof.
  induction m as [|[k v'] m IH]; simpl; intros H; [contradiction|].
  destruct (addr_eqb a k) eqn:E; [eauto|].
  destruct H as [H|H]; [subst; rewrite addr_eqb_refl in E; discriminate|auto].
Qed.

(* ---------- the world ---------- *)

Record world := mkWorld { fs : fmap; locks : list lock }.

Definition empty_world : world := mkWorld [] [].

Definition set_fs (w : world) (m : fmap) : world := mkWorld m (locks w).
Definition set_locks (w : world) (l : list lock) : world := mkWorld (fs w) l.

(* metadata-directory ownership: AMeta p _ and its deletion markers live in p's directory *)
Fixpoint meta_owner (a : addr) : option pid :=
  match a with
  | AMeta p _ => Some p
  | ADel x => meta_owner x
  | _ => None
  end.

Definition owned_by (p : pid) (a : addr) : bool :=
  match meta_owner a with Some q => Nat.eqb p q | None => false end.

(* smallest n such that ATmp ar t n is absent; fuel = number of entries + 1 suffices *)
Fixpoint fresh_from (ar : area) (t : nat) (m : fmap) (n fuel : nat) : nat :=
  match fuel with
  | 0 => n
  | S fuel' => match lookup (ATmp ar t n) m with
               | None => n
               | Some _ => fresh_from ar t m (S n) fuel'
               end
  end.

Definition fresh_tmp (ar : area) (t : nat) (m : fmap) : addr :=
  ATmp ar t (fresh_from ar t m 0 (S (length m))).

Definition filter_lines (p : pid) (l : list pid) : list pid :=
  filter (fun q => negb (Nat.eqb q p)) l.

(* [exec_op t o w]: the effect and answer of operation [o] issued by thread [t] in world [w],
   fault-free; [None] = the operation blocks (Acquire of a held identifier). *)
Definition exec_op (t : nat) (o : op) (w : world) : option (ans * world) :=
  let m := fs w in
  match o with
  | Probe a => Some (ABool (match lookup a m with Some _ => true | None => false end), w)
  | SizeLines a =>
      match lookup a m with
      | Some (CLines l) => Some (ANat (length l), w)
      | Some _ => Some (ANat 1, w)
      | None => Some (AErr ENoEnt, w)
      end
  | Read a =>
      match lookup a m with
      | Some c => Some (ACont c, w)
      | None => Some (AErr ENoEnt, w)
      end
  | OpenSrc => Some (AUnit, w)
  | MkTmp ar init =>
      let a := fresh_tmp ar t m in Some (AAddr a, set_fs w (update a init m))
  | WriteChunk a =>
      match lookup a m with
      | Some (CData b n i) => Some (AUnit, set_fs w (update a (CData b n (S i)) m))
      | _ => Some (AErr ENoEnt, w)
      end
  | OpenWr a c => Some (AUnit, set_fs w (update a c m))
  | Rename s d =>
      match lookup s m with
      | Some c => Some (AUnit, set_fs w (update d c (delete s m)))
      | None => Some (AErr ENoEnt, w)
      end
  | Remove a =>
      match lookup a m with
      | Some _ => Some (AUnit, set_fs w (delete a m))
      | None => Some (AErr ENoEnt, w)
      end
  | MkDirs _ => Some (AUnit, w)
  | ListDir p => Some (AList (filter (owned_by p) (keys m)), w)
  | AppendOpen a =>
      match lookup a m with
      | Some _ => Some (AUnit, w)
      | None => Some (AUnit, set_fs w (update a (CLines []) m))
      end
  | AppendWrite a p =>
      match lookup a m with
      | Some (CLines l) => Some (AUnit, set_fs w (update a (CLines (l ++ [p])) m))
      | Some CEmpty => Some (AUnit, set_fs w (update a (CLines [p]) m))
      | _ => Some (AErr ENoEnt, w)
      end
  | OpenRW a =>
      match lookup a m with
      | Some _ => Some (AUnit, w)
      | None => Some (AErr ENoEnt, w)
      end
  | RewriteWrite a p =>
      match lookup a m with
      | Some (CLines l) =>
          let new := filter_lines p l in
          Some (ANat (length new), set_fs w (update a (CLines (new ++ skipn (length new) l)) m))
      | _ => Some (AErr ENoEnt, w)
      end
  | Truncate a k =>
      match lookup a m with
      | Some (CLines l) => Some (AUnit, set_fs w (update a (CLines (firstn k l)) m))
      | _ => Some (AErr ENoEnt, w)
      end
  | Acquire cls i =>
      if memb lock_eqb (cls, i) (locks w) then None
      else Some (AUnit, set_locks w ((cls, i) :: locks w))
  | Release cls i =>
      if memb lock_eqb (cls, i) (locks w)
      then Some (AUnit, set_locks w (remove1 lock_eqb (cls, i) (locks w)))
      else Some (AErr EFault, w)
  | Peek cls i => Some (ABool (memb lock_eqb (cls, i) (locks w)), w)
  | Held cls i => Some (ABool (memb lock_eqb (cls, i) (locks w)), w)
  end.

(* ---------- programs ---------- *)

Inductive prog (A : Type) : Type :=
| Ret (a : A)
| Vis (o : op) (k : ans -> prog A)
| Bad.                                  (* an ill-typed answer was received: unreachable *)
Arguments Ret {A} a.
Arguments Vis {A} o k.
Arguments Bad {A}.

Fixpoint bind {A B} (m : prog A) (f : A -> prog B) : prog B :=
  match m with
  | Ret a => f a
  | Vis o k => Vis o (fun x => bind (k x) f)
  | Bad => Bad
  end.

(* sequential, fault-free execution (thread 0) *)
Fixpoint run_seq {A} (w : world) (m : prog A) : option (world * A) :=
  match m with
  | Ret a => Some (w, a)
  | Bad => None
  | Vis o k =>
      match exec_op 0 o w with
      | Some (x, w') => run_seq w' (k x)
      | None => None
      end
  end.

Lemma run_seq_bind : forall A B (m : prog A) (f : A -> prog B) w,
  run_seq w (bind m f) =
  match run_seq w m with
  | Some (w', a) => run_seq w' (f a)
  | None => None
  end.
Proof.
  induction m as [a|o k IH|]; intros f w; simpl; auto.
  destruct (exec_op 0 o w) as [[x w']|]; auto.
Qed.

(* Trace-producing variant, used by the correspondence check (P-trace). *)
Fixpoint run_trace {A} (w : world) (m : prog A) (acc : list (op * ans)) : option (world * A * list (op * ans)) :=
  match m with
  | Ret a => Some (w, a, rev acc)
  | Bad => None
  | Vis o k =>
      match exec_op 0 o w with
      | Some (x, w') => run_trace w' (k x) ((o, x) :: acc)
      | None => None
      end
  end.
