(* Sched.v — interleaving semantics of a pool of threads running API programs, the breadth-first
   explorer with de-duplication, and its soundness theorem (DESIGN.md §6, shared machinery).

   A thread is identified by its program and the list of answers it has received so far; this
   is first-order, so configurations have a decidable (syntactic) equality although
   continuations do not.  [explore_sound] is universally quantified over programs, start worlds
   and schedules, by induction on the schedule: the per-scenario obligations are closed boolean
   computations lifted through it. *)
From HS Require Import Base PyVal FS Ops.

(* replay a program along the answers received so far *)
Fixpoint resume {A} (m : prog A) (h : list ans) : option (prog A) :=
  match h with
  | [] => Some m
  | a :: h' => match m with Vis o k => resume (k a) h' | _ => None end
  end.

(* configuration: per thread the answers so far (most recent first), and the shared world *)
Definition cfg := (list (list ans) * world)%type.

Fixpoint upd_nth {A} (i : nat) (x : A) (l : list A) : list A :=
  match l, i with
  | [], _ => []
  | _ :: l', 0 => x :: l'
  | y :: l', S i' => y :: upd_nth i' x l'
  end.

Section Pool.
  Variable A : Type.
  Variable ps : list (prog A).          (* the thread programs *)

  Definition thread_step (c : cfg) (i : nat) : option cfg :=
    match nth_error ps i, nth_error (fst c) i with
    | Some p, Some h =>
        match resume p (rev h) with
        | Some (Vis o k) =>
            match exec_op i o (snd c) with
            | Some (a, w') => Some (upd_nth i (a :: h) (fst c), w')
            | None => None
            end
        | _ => None
        end
    | _, _ => None
    end.

  (* a schedule is a list of thread indices *)
  Fixpoint exec (sched : list nat) (c : cfg) : option cfg :=
    match sched with
    | [] => Some c
    | i :: s => match thread_step c i with Some c' => exec s c' | None => None end
    end.

  Definition succs (c : cfg) : list cfg :=
    flat_map (fun i => match thread_step c i with Some c' => [c'] | None => [] end)
             (seq 0 (length ps)).

  Definition stuck (c : cfg) : Prop := forall i, thread_step c i = None.

  Lemma thread_step_lt : forall c i c', thread_step c i = Some c' -> i < length ps.
  Proof.
    intros c i c' H. unfold thread_step in H.
    destruct (nth_error ps i) eqn:E; [|discriminate].
    apply nth_error_Some. congruence.
  Qed.

  Lemma step_in_succs : forall c i c', thread_step c i = Some c' -> In c' (succs c).
  Proof.
    intros c i c' H. unfold succs. apply in_flat_map. exists i. split.
    - apply in_seq. split; [lia|]. simpl. eapply thread_step_lt. exact H.
    - rewrite H. left. reflexivity.
  Qed.

  Lemma succs_nil_stuck : forall c, succs c = [] -> stuck c.
  Proof.
    intros c H i. destruct (thread_step c i) eqn:E; auto.
    apply step_in_succs in E. rewrite H in E. contradiction.
  Qed.

  Lemma stuck_succs_nil : forall c, stuck c -> succs c = [].
  Proof.
    intros c H. unfold succs.
    induction (seq 0 (length ps)) as [|i l IH]; simpl; auto.
    rewrite (H i). simpl. exact IH.
  Qed.

  (* ---------- syntactic equality of configurations ---------- *)

  Definition kv_eqb (x y : addr * fcontent) : bool :=
    addr_eqb (fst x) (fst y) && fcontent_eqb (snd x) (snd y).
  Lemma kv_eqb_true : forall x y, kv_eqb x y = true -> x = y.
  Proof.
    intros [a v] [b u]; unfold kv_eqb; simpl; intros H.
    apply andb_true_iff in H. destruct H as [H1 H2].
    apply addr_eqb_true in H1. apply fcontent_eqb_true in H2. congruence.
  Qed.

  Definition world_eqb (w1 w2 : world) : bool :=
    list_eqb kv_eqb (fs w1) (fs w2) && list_eqb lock_eqb (locks w1) (locks w2).
  Lemma world_eqb_true : forall w1 w2, world_eqb w1 w2 = true -> w1 = w2.
  Proof.
    intros [f1 l1] [f2 l2]; unfold world_eqb; simpl; intros H.
    apply andb_true_iff in H. destruct H as [H1 H2].
    apply (list_eqb_true kv_eqb kv_eqb_true) in H1.
    apply (list_eqb_true lock_eqb lock_eqb_true) in H2. congruence.
  Qed.

  Definition cfg_eqb (c1 c2 : cfg) : bool :=
    list_eqb (list_eqb ans_eqb) (fst c1) (fst c2) && world_eqb (snd c1) (snd c2).
  Lemma cfg_eqb_true : forall c1 c2, cfg_eqb c1 c2 = true -> c1 = c2.
  Proof.
    intros [h1 w1] [h2 w2]; unfold cfg_eqb; simpl; intros H.
    apply andb_true_iff in H. destruct H as [H1 H2].
    apply (list_eqb_true (list_eqb ans_eqb) (list_eqb_true ans_eqb ans_eqb_true)) in H1.
    apply world_eqb_true in H2. congruence.
  Qed.

  Fixpoint dedup (l : list cfg) : list cfg :=
    match l with
    | [] => []
    | c :: l' => if memb cfg_eqb c l' then dedup l' else c :: dedup l'
    end.

  Lemma memb_cfg_In : forall c l, memb cfg_eqb c l = true -> In c l.
  Proof.
    induction l as [|d l IH]; simpl; intros H; [discriminate|].
    destruct (cfg_eqb c d) eqn:E.
    - left. symmetry. apply cfg_eqb_true. exact E.
    - right. auto.
  Qed.

  Lemma In_dedup : forall c l, In c l -> In c (dedup l).
  Proof.
    induction l as [|d l IH]; simpl; intros H; [contradiction|].
    destruct (memb cfg_eqb d l) eqn:E.
    - destruct H as [H|H]; [subst; apply IH; apply memb_cfg_In; exact E | auto].
    - destruct H as [H|H]; [left; exact H | right; auto].
  Qed.

  Lemma dedup_In : forall c l, In c (dedup l) -> In c l.
  Proof.
    induction l as [|d l IH]; simpl; intros H; [contradiction|].
    destruct (memb cfg_eqb d l); [right; auto|].
    destruct H as [H|H]; [left; exact H | right; auto].
  Qed.

  (* ---------- the explorer ---------- *)

  Definition is_nil {B} (l : list B) : bool := match l with [] => true | _ => false end.

  (* [None] = fuel exhausted before the frontier emptied *)
  Fixpoint explore (fuel : nat) (level finals : list cfg) : option (list cfg) :=
    match level with
    | [] => Some finals
    | _ =>
        match fuel with
        | 0 => None
        | S f =>
            explore f (dedup (flat_map succs level))
                    (filter (fun c => is_nil (succs c)) level ++ finals)
        end
    end.

  Lemma explore_S : forall f d l finals,
    explore (S f) (d :: l) finals =
    explore f (dedup (flat_map succs (d :: l)))
            (filter (fun c => is_nil (succs c)) (d :: l) ++ finals).
  Proof. reflexivity. Qed.

  Lemma explore_keeps_finals : forall fuel level finals outs,
    explore fuel level finals = Some outs -> forall c, In c finals -> In c outs.
  Proof.
    induction fuel as [|f IH]; intros level finals outs H c Hc.
    - destruct level; simpl in H; [inversion H; subst; exact Hc | discriminate].
    - destruct level as [|d l]; [simpl in H; inversion H; subst; exact Hc|].
      rewrite explore_S in H.
      eapply IH; [exact H|]. apply in_or_app. right. exact Hc.
  Qed.

  Theorem explore_sound : forall fuel level finals outs,
    explore fuel level finals = Some outs ->
    forall c, In c level ->
    forall sched c', exec sched c = Some c' -> stuck c' -> In c' outs.
  Proof.
    induction fuel as [|f IH]; intros level finals outs H c Hc sched c' Hex Hst.
    - destruct level; simpl in H; [contradiction | discriminate].
    - destruct level as [|d l]; [contradiction|].
      rewrite explore_S in H.
      destruct sched as [|i s]; simpl in Hex.
      + inversion Hex; subst c'.
        eapply explore_keeps_finals; [exact H|].
        apply in_or_app. left. apply filter_In. split; [exact Hc|].
        rewrite (stuck_succs_nil c Hst). reflexivity.
      + destruct (thread_step c i) as [c1|] eqn:E; [|discriminate].
        eapply IH; [exact H| |exact Hex|exact Hst].
        apply In_dedup. apply in_flat_map. exists c. split; [exact Hc|].
        eapply step_in_succs. exact E.
  Qed.

  Definition init_cfg (w : world) : cfg := (map (fun _ => []) ps, w).

  (* every configuration reachable by any schedule and unable to move is among the results *)
  Corollary explore_complete : forall fuel w outs,
    explore fuel [init_cfg w] [] = Some outs ->
    forall sched c', exec sched (init_cfg w) = Some c' -> stuck c' -> In c' outs.
  Proof.
    intros fuel w outs H sched c' Hex Hst.
    eapply explore_sound; [exact H|left; reflexivity|exact Hex|exact Hst].
  Qed.

  (* results of the threads in a configuration: [None] when a thread has not returned *)
  Definition thread_result (c : cfg) (i : nat) : option A :=
    match nth_error ps i, nth_error (fst c) i with
    | Some p, Some h => match resume p (rev h) with Some (Ret r) => Some r | _ => None end
    | _, _ => None
    end.

  Definition results (c : cfg) : list (option A) := map (thread_result c) (seq 0 (length ps)).

  Definition finished (c : cfg) : bool :=
    forallb (fun r => match r with Some _ => true | None => false end) (results c).

  Definition check_all (fuel : nat) (w : world) (P : cfg -> bool) : bool :=
    match explore fuel [init_cfg w] [] with
    | Some outs => forallb P outs
    | None => false
    end.

  Theorem check_all_sound : forall fuel w P,
    check_all fuel w P = true ->
    forall sched c', exec sched (init_cfg w) = Some c' -> stuck c' -> P c' = true.
  Proof.
    intros fuel w P H sched c' Hex Hst. unfold check_all in H.
    destruct (explore fuel [init_cfg w] []) as [outs|] eqn:E; [|discriminate].
    rewrite forallb_forall in H. apply H.
    eapply explore_complete; eauto.
  Qed.

  (* the number of distinct configurations visited, for the evidence files *)
  Fixpoint explore_count (fuel : nat) (level : list cfg) (n : nat) : nat :=
    match level with
    | [] => n
    | _ => match fuel with
           | 0 => n
           | S f => explore_count f (dedup (flat_map succs level)) (n + length level)
           end
    end.
End Pool.

Arguments thread_step {A} ps c i.
Arguments exec {A} ps sched c.
Arguments succs {A} ps c.
Arguments stuck {A} ps c.
Arguments explore {A} ps fuel level finals.
Arguments init_cfg {A} ps w.
Arguments thread_result {A} ps c i.
Arguments results {A} ps c.
Arguments finished {A} ps c.
Arguments check_all {A} ps fuel w P.
Arguments explore_count {A} ps fuel level n.

(* ---------- running one program as thread t ---------- *)

Fixpoint run_as {A} (t : nat) (w : world) (m : prog A) : option (world * A) :=
  match m with
  | Ret a => Some (w, a)
  | Bad => None
  | Vis o k =>
      match exec_op t o w with
      | Some (x, w') => run_as t w' (k x)
      | None => None
      end
  end.

Lemma run_as_0 : forall A (m : prog A) w, run_as 0 w m = run_seq w m.
Proof.
  induction m as [a|o k IH|]; intros w; simpl; auto.
  destruct (exec_op 0 o w) as [[x w']|]; auto.
Qed.

(* ---------- crash: stop before the n-th operation ---------- *)

Fixpoint run_crash {A} (n : nat) (w : world) (m : prog A) : world :=
  match n with
  | 0 => w
  | S n' =>
      match m with
      | Vis o k =>
          match exec_op 0 o w with
          | Some (x, w') => run_crash n' w' (k x)
          | None => w
          end
      | _ => w
      end
  end.

(* number of operations of the complete run *)
Fixpoint run_length {A} (fuel : nat) (w : world) (m : prog A) : nat :=
  match fuel with
  | 0 => 0
  | S f =>
      match m with
      | Vis o k =>
          match exec_op 0 o w with
          | Some (x, w') => S (run_length f w' (k x))
          | None => 0
          end
      | _ => 0
      end
  end.

Lemma run_crash_complete : forall A (m : prog A) n w w' r,
  run_seq w m = Some (w', r) -> run_length n w m < n -> run_crash n w m = w'.
Proof.
  induction m as [a|o k IH|]; intros n w w' r H Hlen.
  - simpl in H. inversion H; subst. destruct n; reflexivity.
  - simpl in H. destruct n as [|n']; [inversion Hlen|].
    simpl in *. destruct (exec_op 0 o w) as [[x w1]|]; [|discriminate].
    eapply IH; [exact H|]. lia.
  - discriminate.
Qed.

(* a process death loses the lock lists (they live in memory), the files stay *)
Definition reopen (w : world) : world := mkWorld (fs w) [].

(* ---------- faults ---------- *)

(* the operations an injected I/O error can hit.  A chunk write into a temp file ([WriteChunk]: a full
   disk in the middle of store_object / store_metadata) and the write of the new line of a cid list
   ([AppendWrite]) are among them: the failing write answers [AErr EFault] and has no effect *)
Definition is_site (o : op) : bool :=
  match o with
  | Read _ | OpenSrc | MkTmp _ _ | WriteChunk _ | OpenWr _ _ | Rename _ _ | Remove _ | MkDirs _
  | AppendOpen _ | AppendWrite _ _ | OpenRW _ | Acquire LFile _ => true
  | _ => false
  end.

(* the destination a persistent failure sticks to *)
Inductive dest := DAddr (a : addr) | DTmpDir (ar : area) | DDirOf (a : addr) | DSrc | DNone.

Definition dest_of (o : op) : dest :=
  match o with
  | Read a | WriteChunk a | OpenWr a _ | Remove a | AppendOpen a | AppendWrite a _ | OpenRW a => DAddr a
  | Rename _ d => DAddr d
  | Acquire LFile (IDoc a) => DAddr a
  | MkTmp ar _ => DTmpDir ar
  | MkDirs a => DDirOf a
  | OpenSrc => DSrc
  | _ => DNone
  end.

Definition dest_eqb (x y : dest) : bool :=
  match x, y with
  | DAddr a, DAddr b => addr_eqb a b
  | DTmpDir a, DTmpDir b => area_eqb a b
  | DDirOf a, DDirOf b => addr_eqb a b
  | DSrc, DSrc => true
  | _, _ => false
  end.

(* fault state: [FWait k] = the k-th site from now fails; [FStuck d] = every site with
   destination d fails (persistent); [FDone] = no further failure *)
Inductive fstate := FWait (k : nat) (persistent : bool) | FStuck (d : dest) | FDone.

(* shutil.move survives a one-off failure of rename by copy-and-unlink: the operation takes
   effect all the same.  A persistent failure of the destination defeats the copy too. *)
Definition fault_op (st : fstate) (o : op) (w : world) : option (ans * world) * fstate :=
  if is_site o then
    match st with
    | FWait 0 pers =>
        if pers then (Some (AErr EFault, w), FStuck (dest_of o))
        else match o with
             | Rename _ _ => (exec_op 0 o w, FDone)
             | _ => (Some (AErr EFault, w), FDone)
             end
    | FWait (S k) pers => (exec_op 0 o w, FWait k pers)
    | FStuck d => if dest_eqb d (dest_of o) then (Some (AErr EFault, w), st) else (exec_op 0 o w, st)
    | FDone => (exec_op 0 o w, st)
    end
  else (exec_op 0 o w, st).

Fixpoint run_fault {A} (st : fstate) (w : world) (m : prog A) : option (world * A) :=
  match m with
  | Ret a => Some (w, a)
  | Bad => None
  | Vis o k =>
      match fault_op st o w with
      | (Some (x, w'), st') => run_fault st' w' (k x)
      | (None, _) => None
      end
  end.

(* number of fault sites of the fault-free run *)
Fixpoint count_sites {A} (w : world) (m : prog A) : nat :=
  match m with
  | Vis o k =>
      match exec_op 0 o w with
      | Some (x, w') => (if is_site o then 1 else 0) + count_sites w' (k x)
      | None => 0
      end
  | _ => 0
  end.

Lemma run_fault_done : forall A (m : prog A) w, run_fault FDone w m = run_seq w m.
Proof.
  induction m as [a|o k IH|]; intros w; simpl; auto.
  unfold fault_op. destruct (is_site o); destruct (exec_op 0 o w) as [[x w']|]; auto.
Qed.

(* a fault planned beyond the last site of a completing run never fires: "for every k" is a
   finite enumeration over the sites of the fault-free run *)
Lemma run_fault_beyond : forall A (m : prog A) w k pers w' r,
  run_seq w m = Some (w', r) -> count_sites w m <= k ->
  run_fault (FWait k pers) w m = Some (w', r).
Proof.
  induction m as [a|o kk IH|]; intros w k pers w' r Hrun H; simpl in *; auto; try discriminate.
  unfold fault_op.
  destruct (exec_op 0 o w) as [[x w1]|] eqn:Ee; [|discriminate].
  destruct (is_site o) eqn:Es.
  - destruct k as [|k']; [simpl in H; lia|].
    apply IH; [exact Hrun|]. simpl in H. lia.
  - apply IH; [exact Hrun|]. simpl in H. lia.
Qed.
