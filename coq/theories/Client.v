(* Client.v -- hashstoreclient.main (hashstoreclient.py:731-904): how the command-line options
   become one public API call, with the Python types the values have when they reach the API;
   the properties the client builds for `-chs` (:741-747) and for every later run
   (load_store_properties, :196-231, plus store_path, :795-797), checked against Config.v.

   Coq 8.16.1, stdlib only + HS.PyVal + HS.Config, no axioms.

   What is modelled / what is not
   * argparse delivers every value option as [Optional[str]] and every verb flag as a bool.
   * [client_call fixed dflt o]: [dflt] is [yaml_data["store_metadata_namespace"]] (:762), a str;
     [fixed = false] is the code today (D7: `-obj_size` reaches store_object as a str),
     [fixed = true] the repair: in the `-storeobject` branch, after the two "option is required"
     tests, [size = int(size) if size is not None] (ValueError when int() rejects the text).
   * The `-knbvm` branch (needs a Metacat database) is outside the model: [client_call] is the
     dispatch for [knbvm_flag = False].
   * What the API call then does, and what is printed, is behaviour of FileHashStore, not of
     this mapping; it is carried by the correspondence harness. *)
From Coq Require Import String Ascii ZArith List Bool.
From HS Require Import PyVal Config.
Import ListNotations.
Open Scope string_scope.

(* ------------------------------------------------------------------ *)
(* Model                                                               *)
(* ------------------------------------------------------------------ *)

Record options := mk_options {
  o_pid : option string;              (* -pid *)
  o_path : option string;             (* -path *)
  o_algo : option string;             (* -algo *)
  o_checksum : option string;         (* -checksum *)
  o_checksum_algo : option string;    (* -checksum_algo *)
  o_size : option string;             (* -obj_size *)
  o_formatid : option string;         (* -formatid *)
  v_getchecksum : bool;
  v_storeobject : bool;
  v_storemetadata : bool;
  v_retrieveobject : bool;
  v_retrievemetadata : bool;
  v_deleteobject : bool;
  v_deletemetadata : bool
}.

Inductive verb :=
| VGetHex | VStoreObject | VStoreMeta | VRetrieveObject | VRetrieveMeta
| VDeleteObject | VDeleteMeta.

Inductive client_result :=
| CExn (e : exn)
| CCall (v : verb) (args : list pyval)     (* positional arguments, in order *)
| CNothing.                                 (* no verb flag: main() returns *)

Definition opt_str (s : option string) : pyval :=
  match s with None => PNone | Some t => PStr t end.

(* the if / elif chain (:839-897): the first flag that is set *)
Definition selected (o : options) : option verb :=
  if v_getchecksum o then Some VGetHex
  else if v_storeobject o then Some VStoreObject
  else if v_storemetadata o then Some VStoreMeta
  else if v_retrieveobject o then Some VRetrieveObject
  else if v_retrievemetadata o then Some VRetrieveMeta
  else if v_deleteobject o then Some VDeleteObject
  else if v_deletemetadata o then Some VDeleteMeta
  else None.

(* [if formatid is None: formatid = default_formatid] (:790-792) *)
Definition format_arg (dflt : string) (f : option string) : pyval :=
  match f with None => PStr dflt | Some t => PStr t end.

(* the size argument of store_object *)
Definition size_arg (fixed : bool) (s : option string) : exn + pyval :=
  if fixed then
    match s with
    | None => inr PNone
    | Some t => match py_int_of_string t with
                | Some z => inr (PInt z)
                | None => inl EValueError
                end
    end
  else inr (opt_str s).

(* the body of each branch *)
Definition client_branch (fixed : bool) (dflt : string) (o : options) (v : verb)
  : client_result :=
  match v with
  | VGetHex =>
      match o_pid o with None => CExn EValueError | Some pid =>
      match o_algo o with None => CExn EValueError | Some algo =>
      CCall VGetHex [PStr pid; PStr algo] end end
  | VStoreObject =>
      match o_pid o with None => CExn EValueError | Some pid =>
      match o_path o with None => CExn EValueError | Some path =>
      match size_arg fixed (o_size o) with inl e => CExn e | inr size =>
      CCall VStoreObject [PStr pid; PStr path; opt_str (o_algo o); opt_str (o_checksum o);
                          opt_str (o_checksum_algo o); size] end end end
  | VStoreMeta =>
      match o_pid o with None => CExn EValueError | Some pid =>
      match o_path o with None => CExn EValueError | Some path =>
      CCall VStoreMeta [PStr pid; PStr path; format_arg dflt (o_formatid o)] end end
  | VRetrieveObject =>
      match o_pid o with None => CExn EValueError | Some pid =>
      CCall VRetrieveObject [PStr pid] end
  | VRetrieveMeta =>
      match o_pid o with None => CExn EValueError | Some pid =>
      CCall VRetrieveMeta [PStr pid; format_arg dflt (o_formatid o)] end
  | VDeleteObject =>
      match o_pid o with None => CExn EValueError | Some pid =>
      CCall VDeleteObject [PStr pid] end
  | VDeleteMeta =>
      match o_pid o with None => CExn EValueError | Some pid =>
      CCall VDeleteMeta [PStr pid; format_arg dflt (o_formatid o)] end
  end.

Definition client_call (fixed : bool) (dflt : string) (o : options) : client_result :=
  match selected o with
  | None => CNothing
  | Some v => client_branch fixed dflt o v
  end.

(* The Python types the public API's argument checks require (_check_string, _check_arg_data on a
   path, _check_arg_algorithms_and_checksum, _check_arg_format_id, _check_integer): identifiers,
   algorithms, checksums and formats are None or str; the data argument is a str (a path); the
   size is None or an int. *)
Definition is_strb (v : pyval) : bool := match v with PStr _ => true | _ => false end.
Definition str_or_noneb (v : pyval) : bool :=
  match v with PNone => true | PStr _ => true | _ => false end.
Definition int_or_noneb (v : pyval) : bool :=
  match v with PNone => true | PInt _ => true | _ => false end.

Definition well_typedb (v : verb) (args : list pyval) : bool :=
  match v, args with
  | VGetHex, [pid; algo] => str_or_noneb pid && str_or_noneb algo
  | VStoreObject, [pid; data; algo; checksum; checksum_algo; size] =>
      str_or_noneb pid && is_strb data && str_or_noneb algo && str_or_noneb checksum
      && str_or_noneb checksum_algo && int_or_noneb size
  | VStoreMeta, [pid; data; fmt] => str_or_noneb pid && is_strb data && str_or_noneb fmt
  | VRetrieveObject, [pid] => str_or_noneb pid
  | VRetrieveMeta, [pid; fmt] => str_or_noneb pid && str_or_noneb fmt
  | VDeleteObject, [pid] => str_or_noneb pid
  | VDeleteMeta, [pid; fmt] => str_or_noneb pid && str_or_noneb fmt
  | _, _ => false
  end.

Definition well_typed (v : verb) (args : list pyval) : Prop := well_typedb v args = true.

(* the metadata format argument of a call, if the verb has one *)
Definition format_of (v : verb) (args : list pyval) : option pyval :=
  match v, args with
  | VStoreMeta, [_; _; f] => Some f
  | VRetrieveMeta, [_; f] => Some f
  | VDeleteMeta, [_; f] => Some f
  | _, _ => None
  end.

(* `-chs`: the dict literal (:741-747); values are evaluated in key order, so int(depth) is
   tried before int(width).  int(None) is a TypeError, int("junk") a ValueError. *)
Definition client_int (s : option string) : exn + Z :=
  match s with
  | None => inl ETypeError
  | Some t => match py_int_of_string t with Some z => inr z | None => inl EValueError end
  end.

Definition client_create_props (path depth width algo ns : option string) : exn + props :=
  match client_int depth with inl e => inl e | inr d =>
  match client_int width with inl e => inl e | inr w =>
  inr [("store_path", opt_str path); ("store_depth", PInt d); ("store_width", PInt w);
       ("store_algorithm", opt_str algo); ("store_metadata_namespace", opt_str ns)]
  end end.

(* every run: load_store_properties(yaml) then props["store_path"] = store_path.  [int()] of
   the ints PyYAML loads is the identity. *)
Definition client_load_props (path : string) (y : cfg) : props :=
  [("store_depth", PInt (c_depth y)); ("store_width", PInt (c_width y));
   ("store_algorithm", PStr (c_algo y)); ("store_metadata_namespace", PStr (c_ns y));
   ("store_path", PStr path)].

(* what int() makes of an option text (None when absent or rejected) *)
Definition opt_int (s : option string) : option Z :=
  match s with None => None | Some t => py_int_of_string t end.

(* ------------------------------------------------------------------ *)
(* Tests of the definitions                                            *)
(* ------------------------------------------------------------------ *)

Definition o_none : options :=
  mk_options None None None None None None None false false false false false false false.

Definition o_store (size : option string) : options :=
  mk_options (Some "doi:10/x") (Some "/data/f.bin") None (Some "abc") (Some "SHA-256") size None
             false true false false false false false.

Definition o_verb (pid fmt : option string) (g so sm ro rm dob dm : bool) : options :=
  mk_options pid (Some "/data/f.xml") (Some "MD5") None None None fmt g so sm ro rm dob dm.

(* (statements below were first tried with [Eval vm_compute]) *)
Example ex_store_fixed :
  client_call true "ns" (o_store (Some "5")) =
  CCall VStoreObject [PStr "doi:10/x"; PStr "/data/f.bin"; PNone; PStr "abc"; PStr "SHA-256"; PInt 5].
Proof. vm_compute. reflexivity. Qed.

Example ex_store_today : (* D7: the size is still text *)
  client_call false "ns" (o_store (Some "5")) =
  CCall VStoreObject [PStr "doi:10/x"; PStr "/data/f.bin"; PNone; PStr "abc"; PStr "SHA-256"; PStr "5"].
Proof. vm_compute. reflexivity. Qed.

Example ex_store_fixed_junk_size : client_call true "ns" (o_store (Some "5 kB")) = CExn EValueError.
Proof. vm_compute. reflexivity. Qed.

Example ex_store_no_size :
  client_call true "ns" (o_store None) = client_call false "ns" (o_store None) /\
  client_call true "ns" (o_store None) =
  CCall VStoreObject [PStr "doi:10/x"; PStr "/data/f.bin"; PNone; PStr "abc"; PStr "SHA-256"; PNone].
Proof. vm_compute. split; reflexivity. Qed.

Example ex_no_verb : client_call true "ns" o_none = CNothing.
Proof. vm_compute. reflexivity. Qed.

Example ex_elif_order : (* -getchecksum wins over -deleteobject *)
  client_call true "ns" (o_verb (Some "p") None true false false false false true false)
  = CCall VGetHex [PStr "p"; PStr "MD5"].
Proof. vm_compute. reflexivity. Qed.

Example ex_delete_metadata_default_format :
  client_call true "ns" (o_verb (Some "p") None false false false false false false true)
  = CCall VDeleteMeta [PStr "p"; PStr "ns"].
Proof. vm_compute. reflexivity. Qed.

Example ex_delete_metadata_given_format :
  client_call true "ns" (o_verb (Some "p") (Some "f") false false false false false false true)
  = CCall VDeleteMeta [PStr "p"; PStr "f"].
Proof. vm_compute. reflexivity. Qed.

Example ex_no_pid :
  client_call true "ns" (o_verb None None false false false true false false false)
  = CExn EValueError.
Proof. vm_compute. reflexivity. Qed.

Example ex_create_props :
  client_create_props (Some "/var/hs") (Some "3") (Some "2") (Some "SHA-256") (Some "ns") =
  inr [("store_path", PStr "/var/hs"); ("store_depth", PInt 3); ("store_width", PInt 2);
       ("store_algorithm", PStr "SHA-256"); ("store_metadata_namespace", PStr "ns")].
Proof. vm_compute. reflexivity. Qed.

Example ex_create_props_no_depth : (* int(None) before int("x") *)
  client_create_props (Some "/var/hs") None (Some "x") (Some "SHA-256") (Some "ns") = inl ETypeError.
Proof. vm_compute. reflexivity. Qed.

Example ex_create_props_junk_width :
  client_create_props (Some "/var/hs") (Some "3") (Some "x") (Some "SHA-256") (Some "ns") = inl EValueError.
Proof. vm_compute. reflexivity. Qed.

(* `-chs` without `-ap`: the dict holds None for store_algorithm -> the constructor's ValueError *)
Example ex_create_no_algorithm :
  exists pr, client_create_props (Some "/var/hs") (Some "3") (Some "2") None (Some "ns") = inr pr /\
             open_decision None false false (Some pr) = Refuse EValueError.
Proof.
  exists [("store_path", PStr "/var/hs"); ("store_depth", PInt 3); ("store_width", PInt 2);
          ("store_algorithm", PNone); ("store_metadata_namespace", PStr "ns")].
  split; vm_compute; reflexivity.
Qed.

Example ex_create_then_client_open :
  exists pr c eff,
    client_create_props (Some "/var/hs") (Some " 3") (Some "0_2") (Some "SHA-256") (Some "ns") = inr pr /\
    open_decision None false false (Some pr) = Accept c eff /\
    c = mk_cfg 3 2 "SHA-256" "ns" /\
    open_decision (Some c) true true (Some (client_load_props "/var/hs" c)) = Accept c [].
Proof.
  exists [("store_path", PStr "/var/hs"); ("store_depth", PInt 3); ("store_width", PInt 2);
          ("store_algorithm", PStr "SHA-256"); ("store_metadata_namespace", PStr "ns")],
         (mk_cfg 3 2 "SHA-256" "ns"),
         [EfMkRoot; EfWriteYaml (mk_cfg 3 2 "SHA-256" "ns"); EfMkDataDirs].
  repeat split; vm_compute; reflexivity.
Qed.

(* ------------------------------------------------------------------ *)
(* Auxiliary lemmas                                                    *)
(* ------------------------------------------------------------------ *)

Lemma size_arg_fixed_inr : forall s v,
  size_arg true s = inr v <->
  (s = None /\ v = PNone) \/
  (exists t z, s = Some t /\ py_int_of_string t = Some z /\ v = PInt z).
Proof.
  intros s v. unfold size_arg. destruct s as [t|].
  - destruct (py_int_of_string t) as [z|] eqn:Hz.
    + split.
      * intros H. injection H as H. subst v. right. exists t, z. repeat split. exact Hz.
      * intros [[H _] | [t' [z' [Ht [Hz' Hv]]]]]; [discriminate H|].
        injection Ht as Ht. subst t'. rewrite Hz in Hz'. injection Hz' as Hz'. subst. reflexivity.
    + split; [intros H; discriminate H|].
      intros [[H _] | [t' [z' [Ht [Hz' Hv]]]]]; [discriminate H|].
      injection Ht as Ht. subst t'. rewrite Hz in Hz'. discriminate Hz'.
  - split.
    + intros H. injection H as H. subst v. left. split; reflexivity.
    + intros [[_ Hv] | [t' [z' [Ht _]]]]; [subst v; reflexivity | discriminate Ht].
Qed.

Lemma size_arg_error : forall fixed s e, size_arg fixed s = inl e -> e = EValueError.
Proof.
  intros fixed s e H. unfold size_arg in H. destruct fixed; [|discriminate H].
  destruct s as [t|]; [|discriminate H].
  destruct (py_int_of_string t); [discriminate H|]. injection H as H. subst e. reflexivity.
Qed.

Lemma size_arg_int_or_none : forall s v, size_arg true s = inr v -> int_or_noneb v = true.
Proof.
  intros s v H. apply size_arg_fixed_inr in H.
  destruct H as [[_ Hv] | [t [z [_ [_ Hv]]]]]; subst v; reflexivity.
Qed.

Lemma opt_str_str_or_none : forall s, str_or_noneb (opt_str s) = true.
Proof. intros [t|]; reflexivity. Qed.

Lemma format_arg_str : forall d f, exists t, format_arg d f = PStr t.
Proof. intros d [t|]; simpl; eexists; reflexivity. Qed.

(* the branch taken is the one named in the call *)
Lemma client_branch_verb : forall fixed d o v v' a,
  client_branch fixed d o v = CCall v' a -> v' = v.
Proof.
  intros fixed d o v v' a H. unfold client_branch in H.
  destruct v; destruct (o_pid o); try discriminate H;
    try (destruct (o_algo o); try discriminate H);
    try (destruct (o_path o); try discriminate H);
    try (destruct (size_arg fixed (o_size o)); try discriminate H);
    injection H as Hv _; symmetry; exact Hv.
Qed.

Lemma client_call_selected : forall fixed d o v a,
  client_call fixed d o = CCall v a <->
  selected o = Some v /\ client_branch fixed d o v = CCall v a.
Proof.
  intros fixed d o v a. unfold client_call. split.
  - intros H. destruct (selected o) as [v0|]; [|discriminate H].
    pose proof (client_branch_verb _ _ _ _ _ _ H) as Hv. subst v0. split; [reflexivity | exact H].
  - intros [Hs Hb]. rewrite Hs. exact Hb.
Qed.

(* ------------------------------------------------------------------ *)
(* Types of the API arguments (D7)                                     *)
(* ------------------------------------------------------------------ *)

(* Repaired: every argument of every call has a type the API's checks accept. *)
Theorem client_types_fixed : forall d o v a,
  client_call true d o = CCall v a -> well_typed v a.
Proof.
  intros d o v a H. apply client_call_selected in H. destruct H as [_ H].
  unfold well_typed. unfold client_branch in H.
  destruct v; destruct (o_pid o) as [pid|]; try discriminate H.
  - (* get_hex_digest *)
    destruct (o_algo o) as [algo|]; [|discriminate H].
    injection H as Ha. subst a. reflexivity.
  - (* store_object *)
    destruct (o_path o) as [path|]; [|discriminate H].
    destruct (size_arg true (o_size o)) as [e|size] eqn:Hsize; [discriminate H|].
    injection H as Ha. subst a. simpl.
    rewrite !opt_str_str_or_none, (size_arg_int_or_none _ _ Hsize). reflexivity.
  - (* store_metadata *)
    destruct (o_path o) as [path|]; [|discriminate H].
    injection H as Ha. subst a.
    destruct (format_arg_str d (o_formatid o)) as [t Ht]. rewrite Ht. reflexivity.
  - injection H as Ha. subst a. reflexivity.
  - injection H as Ha. subst a.
    destruct (format_arg_str d (o_formatid o)) as [t Ht]. rewrite Ht. reflexivity.
  - injection H as Ha. subst a. reflexivity.
  - injection H as Ha. subst a.
    destruct (format_arg_str d (o_formatid o)) as [t Ht]. rewrite Ht. reflexivity.
Qed.

(* Today: exactly the store_object calls with `-obj_size` given are ill-typed (the size is a
   str, which _check_integer answers with TypeError). *)
Theorem client_types_today_iff : forall d o v a,
  client_call false d o = CCall v a ->
  (~ well_typed v a <-> v = VStoreObject /\ exists t, o_size o = Some t).
Proof.
  intros d o v a H. apply client_call_selected in H. destruct H as [_ H].
  unfold well_typed. unfold client_branch in H.
  destruct v; destruct (o_pid o) as [pid|]; try discriminate H.
  - destruct (o_algo o) as [algo|]; [|discriminate H].
    injection H as Ha. subst a. split.
    + intros Hn. exfalso. apply Hn. reflexivity.
    + intros [Hv _]. discriminate Hv.
  - destruct (o_path o) as [path|]; [|discriminate H].
    simpl in H. injection H as Ha. subst a. simpl.
    rewrite !opt_str_str_or_none. simpl.
    destruct (o_size o) as [t|]; simpl.
    + split.
      * intros _. split; [reflexivity | exists t; reflexivity].
      * intros _ Hf. discriminate Hf.
    + split.
      * intros Hn. exfalso. apply Hn. reflexivity.
      * intros [_ [t Ht]]. discriminate Ht.
  - destruct (o_path o) as [path|]; [|discriminate H].
    injection H as Ha. subst a.
    destruct (format_arg_str d (o_formatid o)) as [t Ht]. rewrite Ht. split.
    + intros Hn. exfalso. apply Hn. reflexivity.
    + intros [Hv _]. discriminate Hv.
  - injection H as Ha. subst a. split.
    + intros Hn. exfalso. apply Hn. reflexivity.
    + intros [Hv _]. discriminate Hv.
  - injection H as Ha. subst a.
    destruct (format_arg_str d (o_formatid o)) as [t Ht]. rewrite Ht. split.
    + intros Hn. exfalso. apply Hn. reflexivity.
    + intros [Hv _]. discriminate Hv.
  - injection H as Ha. subst a. split.
    + intros Hn. exfalso. apply Hn. reflexivity.
    + intros [Hv _]. discriminate Hv.
  - injection H as Ha. subst a.
    destruct (format_arg_str d (o_formatid o)) as [t Ht]. rewrite Ht. split.
    + intros Hn. exfalso. apply Hn. reflexivity.
    + intros [Hv _]. discriminate Hv.
Qed.

Theorem client_types_today_refuted :
  exists d o v a, client_call false d o = CCall v a /\ ~ well_typed v a.
Proof.
  exists "ns", (o_store (Some "5")), VStoreObject,
    [PStr "doi:10/x"; PStr "/data/f.bin"; PNone; PStr "abc"; PStr "SHA-256"; PStr "5"].
  split; [vm_compute; reflexivity|]. intros Hwt. vm_compute in Hwt. discriminate Hwt.
Qed.

(* Without `-obj_size` the repair changes nothing. *)
Theorem client_today_eq_fixed_without_size : forall d o,
  o_size o = None -> client_call false d o = client_call true d o.
Proof.
  intros d o Hs. unfold client_call. destruct (selected o) as [v|]; [|reflexivity].
  unfold client_branch, size_arg. rewrite Hs. destruct v; reflexivity.
Qed.

(* ... and only store_object is affected at all *)
Theorem client_today_eq_fixed_other_verbs : forall d o,
  selected o <> Some VStoreObject -> client_call false d o = client_call true d o.
Proof.
  intros d o Hs. unfold client_call. destruct (selected o) as [v|]; [|reflexivity].
  destruct v; try reflexivity. exfalso. apply Hs. reflexivity.
Qed.

(* ------------------------------------------------------------------ *)
(* Values of the API arguments, one lemma per verb (repaired client)   *)
(* ------------------------------------------------------------------ *)

Theorem client_values_getchecksum : forall fixed d o a,
  client_call fixed d o = CCall VGetHex a <->
  selected o = Some VGetHex /\
  exists pid algo, o_pid o = Some pid /\ o_algo o = Some algo /\ a = [PStr pid; PStr algo].
Proof.
  intros fixed d o a. rewrite client_call_selected. unfold client_branch. split.
  - intros [Hs H]. split; [exact Hs|].
    destruct (o_pid o) as [pid|]; [|discriminate H].
    destruct (o_algo o) as [algo|]; [|discriminate H].
    injection H as Ha. subst a. exists pid, algo. repeat split.
  - intros [Hs [pid [algo [Hp [Hal Ha]]]]]. split; [exact Hs|].
    rewrite Hp, Hal. subst a. reflexivity.
Qed.

(* the size reaches store_object as None (option absent) or as the int the text denotes *)
Theorem client_values_storeobject : forall d o a,
  client_call true d o = CCall VStoreObject a <->
  selected o = Some VStoreObject /\
  exists pid path size,
    o_pid o = Some pid /\ o_path o = Some path /\
    ((o_size o = None /\ size = PNone) \/
     (exists t z, o_size o = Some t /\ py_int_of_string t = Some z /\ size = PInt z)) /\
    a = [PStr pid; PStr path; opt_str (o_algo o); opt_str (o_checksum o);
         opt_str (o_checksum_algo o); size].
Proof.
  intros d o a. rewrite client_call_selected. unfold client_branch. split.
  - intros [Hs H]. split; [exact Hs|].
    destruct (o_pid o) as [pid|]; [|discriminate H].
    destruct (o_path o) as [path|]; [|discriminate H].
    destruct (size_arg true (o_size o)) as [e|size] eqn:Hsize; [discriminate H|].
    injection H as Ha. subst a. exists pid, path, size.
    split; [reflexivity|]. split; [reflexivity|]. split; [|reflexivity].
    apply size_arg_fixed_inr. exact Hsize.
  - intros [Hs [pid [path [size [Hp [Hpa [Hsz Ha]]]]]]]. split; [exact Hs|].
    rewrite Hp, Hpa. apply size_arg_fixed_inr in Hsz. rewrite Hsz. subst a. reflexivity.
Qed.

(* today, for comparison: the size is the option text itself *)
Theorem client_values_storeobject_today : forall d o a,
  client_call false d o = CCall VStoreObject a <->
  selected o = Some VStoreObject /\
  exists pid path,
    o_pid o = Some pid /\ o_path o = Some path /\
    a = [PStr pid; PStr path; opt_str (o_algo o); opt_str (o_checksum o);
         opt_str (o_checksum_algo o); opt_str (o_size o)].
Proof.
  intros d o a. rewrite client_call_selected. unfold client_branch, size_arg. split.
  - intros [Hs H]. split; [exact Hs|].
    destruct (o_pid o) as [pid|]; [|discriminate H].
    destruct (o_path o) as [path|]; [|discriminate H].
    injection H as Ha. subst a. exists pid, path. repeat split.
  - intros [Hs [pid [path [Hp [Hpa Ha]]]]]. split; [exact Hs|].
    rewrite Hp, Hpa. subst a. reflexivity.
Qed.

Theorem client_values_storemetadata : forall fixed d o a,
  client_call fixed d o = CCall VStoreMeta a <->
  selected o = Some VStoreMeta /\
  exists pid path, o_pid o = Some pid /\ o_path o = Some path /\
    a = [PStr pid; PStr path; format_arg d (o_formatid o)].
Proof.
  intros fixed d o a. rewrite client_call_selected. unfold client_branch. split.
  - intros [Hs H]. split; [exact Hs|].
    destruct (o_pid o) as [pid|]; [|discriminate H].
    destruct (o_path o) as [path|]; [|discriminate H].
    injection H as Ha. subst a. exists pid, path. repeat split.
  - intros [Hs [pid [path [Hp [Hpa Ha]]]]]. split; [exact Hs|].
    rewrite Hp, Hpa. subst a. reflexivity.
Qed.

Theorem client_values_retrieveobject : forall fixed d o a,
  client_call fixed d o = CCall VRetrieveObject a <->
  selected o = Some VRetrieveObject /\ exists pid, o_pid o = Some pid /\ a = [PStr pid].
Proof.
  intros fixed d o a. rewrite client_call_selected. unfold client_branch. split.
  - intros [Hs H]. split; [exact Hs|].
    destruct (o_pid o) as [pid|]; [|discriminate H].
    injection H as Ha. subst a. exists pid. repeat split.
  - intros [Hs [pid [Hp Ha]]]. split; [exact Hs|]. rewrite Hp. subst a. reflexivity.
Qed.

Theorem client_values_retrievemetadata : forall fixed d o a,
  client_call fixed d o = CCall VRetrieveMeta a <->
  selected o = Some VRetrieveMeta /\
  exists pid, o_pid o = Some pid /\ a = [PStr pid; format_arg d (o_formatid o)].
Proof.
  intros fixed d o a. rewrite client_call_selected. unfold client_branch. split.
  - intros [Hs H]. split; [exact Hs|].
    destruct (o_pid o) as [pid|]; [|discriminate H].
    injection H as Ha. subst a. exists pid. repeat split.
  - intros [Hs [pid [Hp Ha]]]. split; [exact Hs|]. rewrite Hp. subst a. reflexivity.
Qed.

Theorem client_values_deleteobject : forall fixed d o a,
  client_call fixed d o = CCall VDeleteObject a <->
  selected o = Some VDeleteObject /\ exists pid, o_pid o = Some pid /\ a = [PStr pid].
Proof.
  intros fixed d o a. rewrite client_call_selected. unfold client_branch. split.
  - intros [Hs H]. split; [exact Hs|].
    destruct (o_pid o) as [pid|]; [|discriminate H].
    injection H as Ha. subst a. exists pid. repeat split.
  - intros [Hs [pid [Hp Ha]]]. split; [exact Hs|]. rewrite Hp. subst a. reflexivity.
Qed.

Theorem client_values_deletemetadata : forall fixed d o a,
  client_call fixed d o = CCall VDeleteMeta a <->
  selected o = Some VDeleteMeta /\
  exists pid, o_pid o = Some pid /\ a = [PStr pid; format_arg d (o_formatid o)].
Proof.
  intros fixed d o a. rewrite client_call_selected. unfold client_branch. split.
  - intros [Hs H]. split; [exact Hs|].
    destruct (o_pid o) as [pid|]; [|discriminate H].
    injection H as Ha. subst a. exists pid. repeat split.
  - intros [Hs [pid [Hp Ha]]]. split; [exact Hs|]. rewrite Hp. subst a. reflexivity.
Qed.

(* ------------------------------------------------------------------ *)
(* Format default, required options, exception classes                 *)
(* ------------------------------------------------------------------ *)

Lemma client_format_of : forall fixed d o v a,
  client_call fixed d o = CCall v a ->
  v = VStoreMeta \/ v = VRetrieveMeta \/ v = VDeleteMeta ->
  format_of v a = Some (format_arg d (o_formatid o)).
Proof.
  intros fixed d o v a H Hv. destruct Hv as [Hv | [Hv | Hv]]; subst v.
  - apply client_values_storemetadata in H.
    destruct H as [_ [pid [path [_ [_ Ha]]]]]. subst a. reflexivity.
  - apply client_values_retrievemetadata in H.
    destruct H as [_ [pid [_ Ha]]]. subst a. reflexivity.
  - apply client_values_deletemetadata in H.
    destruct H as [_ [pid [_ Ha]]]. subst a. reflexivity.
Qed.

(* Without `-formatid` the three metadata verbs pass the store's configured namespace. *)
Theorem client_format_default : forall fixed d o v a,
  o_formatid o = None ->
  client_call fixed d o = CCall v a ->
  v = VStoreMeta \/ v = VRetrieveMeta \/ v = VDeleteMeta ->
  format_of v a = Some (PStr d).
Proof.
  intros fixed d o v a Hf H Hv. rewrite (client_format_of _ _ _ _ _ H Hv), Hf. reflexivity.
Qed.

Theorem client_format_given : forall fixed d o v a f,
  o_formatid o = Some f ->
  client_call fixed d o = CCall v a ->
  v = VStoreMeta \/ v = VRetrieveMeta \/ v = VDeleteMeta ->
  format_of v a = Some (PStr f).
Proof.
  intros fixed d o v a f Hf H Hv. rewrite (client_format_of _ _ _ _ _ H Hv), Hf. reflexivity.
Qed.

(* Consequence recorded for C20: the format argument is never None.  delete_metadata(pid, None)
   means "delete ALL metadata documents of pid" in the API (filehashstore.py:893); the client
   can never request that -- `-deletemetadata` without `-formatid` deletes the document of the
   default namespace only. *)
Theorem client_format_never_none : forall fixed d o v a,
  client_call fixed d o = CCall v a -> format_of v a <> Some PNone.
Proof.
  intros fixed d o v a H Hf.
  destruct v; try (destruct a as [|x1 [|x2 [|x3 [|x4 a]]]]; discriminate Hf).
  - rewrite (client_format_of _ _ _ _ _ H (or_introl eq_refl)) in Hf.
    destruct (o_formatid o); discriminate Hf.
  - rewrite (client_format_of _ _ _ _ _ H (or_intror (or_introl eq_refl))) in Hf.
    destruct (o_formatid o); discriminate Hf.
  - rewrite (client_format_of _ _ _ _ _ H (or_intror (or_intror eq_refl))) in Hf.
    destruct (o_formatid o); discriminate Hf.
Qed.

(* Every verb needs `-pid`. *)
Theorem client_requires_pid : forall fixed d o,
  o_pid o = None -> selected o <> None -> client_call fixed d o = CExn EValueError.
Proof.
  intros fixed d o Hp Hs. unfold client_call.
  destruct (selected o) as [v|]; [|exfalso; apply Hs; reflexivity].
  unfold client_branch. rewrite Hp. destruct v; reflexivity.
Qed.

(* store_object and store_metadata need `-path`, get_hex_digest needs `-algo`. *)
Theorem client_requires_path : forall fixed d o,
  o_path o = None -> selected o = Some VStoreObject \/ selected o = Some VStoreMeta ->
  client_call fixed d o = CExn EValueError.
Proof.
  intros fixed d o Hp Hs. unfold client_call.
  destruct Hs as [Hs | Hs]; rewrite Hs; unfold client_branch; rewrite Hp;
    destruct (o_pid o); reflexivity.
Qed.

Theorem client_requires_algo : forall fixed d o,
  o_algo o = None -> selected o = Some VGetHex -> client_call fixed d o = CExn EValueError.
Proof.
  intros fixed d o Ha Hs. unfold client_call. rewrite Hs. unfold client_branch. rewrite Ha.
  destruct (o_pid o); reflexivity.
Qed.

(* the mapping itself raises nothing but ValueError *)
Theorem client_exn_class : forall fixed d o e,
  client_call fixed d o = CExn e -> e = EValueError.
Proof.
  intros fixed d o e H. unfold client_call in H.
  destruct (selected o) as [v|]; [|discriminate H]. unfold client_branch in H.
  destruct v; destruct (o_pid o); try (injection H as H; subst e; reflexivity);
    try discriminate H.
  - destruct (o_algo o); [discriminate H | injection H as H; subst e; reflexivity].
  - destruct (o_path o); [|injection H as H; subst e; reflexivity].
    destruct (size_arg fixed (o_size o)) as [e'|sz] eqn:Hsz; [|discriminate H].
    injection H as H. subst e'. exact (size_arg_error _ _ _ Hsz).
  - destruct (o_path o); [discriminate H | injection H as H; subst e; reflexivity].
Qed.

Theorem client_nothing_iff : forall fixed d o,
  client_call fixed d o = CNothing <-> selected o = None.
Proof.
  intros fixed d o. unfold client_call. split.
  - intros H. destruct (selected o) as [v|]; [|reflexivity]. exfalso.
    unfold client_branch in H.
    destruct v; destruct (o_pid o); try discriminate H;
      try (destruct (o_algo o); discriminate H);
      try (destruct (o_path o); try discriminate H);
      try (destruct (size_arg fixed (o_size o)); discriminate H).
  - intros Hs. rewrite Hs. reflexivity.
Qed.

(* ------------------------------------------------------------------ *)
(* Create / open agreement with the constructor (uses Config.v)        *)
(* ------------------------------------------------------------------ *)

Theorem client_create_props_inr_iff : forall path depth width algo ns pr,
  client_create_props path depth width algo ns = inr pr <->
  exists ds ws d w,
    depth = Some ds /\ width = Some ws /\
    py_int_of_string ds = Some d /\ py_int_of_string ws = Some w /\
    pr = [("store_path", opt_str path); ("store_depth", PInt d); ("store_width", PInt w);
          ("store_algorithm", opt_str algo); ("store_metadata_namespace", opt_str ns)].
Proof.
  intros path depth width algo ns pr. unfold client_create_props, client_int. split.
  - intros H. destruct depth as [ds|]; [|discriminate H].
    destruct (py_int_of_string ds) as [d|] eqn:Hd; [|discriminate H].
    destruct width as [ws|]; [|discriminate H].
    destruct (py_int_of_string ws) as [w|] eqn:Hw; [|discriminate H].
    injection H as H. subst pr. exists ds, ws, d, w. repeat split; assumption.
  - intros [ds [ws [d [w [Hde [Hwi [Hd [Hw Hpr]]]]]]]]. subst depth width pr.
    rewrite Hd, Hw. reflexivity.
Qed.

(* `-chs` with `-dp` or `-wp` missing: TypeError; with text int() rejects: ValueError;
   depth is looked at first. *)
Theorem client_create_props_errors : forall path depth width algo ns e,
  client_create_props path depth width algo ns = inl e <->
  (depth = None /\ e = ETypeError) \/
  (exists ds, depth = Some ds /\ py_int_of_string ds = None /\ e = EValueError) \/
  (opt_int depth <> None /\ width = None /\ e = ETypeError) \/
  (opt_int depth <> None /\ exists ws, width = Some ws /\ py_int_of_string ws = None /\ e = EValueError).
Proof.
  intros path depth width algo ns e. unfold client_create_props, client_int, opt_int. split.
  - intros H. destruct depth as [ds|].
    + destruct (py_int_of_string ds) as [d|] eqn:Hd.
      * destruct width as [ws|].
        -- destruct (py_int_of_string ws) as [w|] eqn:Hw; [discriminate H|].
           injection H as H. subst e. right. right. right.
           split; [discriminate|]. exists ws. repeat split. exact Hw.
        -- injection H as H. subst e. right. right. left.
           split; [discriminate|]. split; reflexivity.
      * injection H as H. subst e. right. left. exists ds. repeat split. exact Hd.
    + injection H as H. subst e. left. split; reflexivity.
  - intros [[Hd He] | [[ds [Hd [Hi He]]] | [[Hd [Hw He]] | [Hd [ws [Hw [Hi He]]]]]]]; subst.
    + reflexivity.
    + rewrite Hi. reflexivity.
    + destruct depth as [ds|]; [|exfalso; apply Hd; reflexivity].
      destruct (py_int_of_string ds); [reflexivity | exfalso; apply Hd; reflexivity].
    + destruct depth as [ds|]; [|exfalso; apply Hd; reflexivity].
      destruct (py_int_of_string ds); [|exfalso; apply Hd; reflexivity].
      rewrite Hi. reflexivity.
Qed.

(* The properties the client loads from hashstore.yaml always reopen the store: every client
   run after creation (and the second construction in the `-chs` run itself) is accepted,
   returns the pinned configuration, and writes nothing but missing data directories. *)
Theorem client_open_accepts : forall y path re dd,
  exists eff, open_decision (Some y) re dd (Some (client_load_props path y)) = Accept y eff.
Proof.
  intros y path re dd.
  assert (H : exists c eff,
             open_decision (Some y) re dd (Some (client_load_props path y)) = Accept c eff).
  { apply open_iff. unfold client_load_props. split; [discriminate|].
    split; [exists (PStr path); split; [reflexivity | discriminate]|].
    split; [exists (PInt (c_depth y)); split; reflexivity|].
    split; [exists (PInt (c_width y)); split; reflexivity|].
    split; reflexivity. }
  destruct H as [c [eff H]].
  destruct (accept_existing_returns_pinned _ _ _ _ _ _ H) as [Hc _]. subst c.
  exists eff. exact H.
Qed.

Theorem client_open_accepts_exact : forall y path re dd,
  open_decision (Some y) re dd (Some (client_load_props path y))
  = Accept y (if dd then [] else [EfMkDataDirs]).
Proof.
  intros y path re dd. destruct (client_open_accepts y path re dd) as [eff H].
  destruct (accept_existing_returns_pinned _ _ _ _ _ _ H) as [_ [Heff _]]. subst eff. exact H.
Qed.

(* A store created through the API is opened by the client. *)
Theorem api_create_then_client_open : forall re dd (p : props) c eff path re' dd',
  open_decision None re dd (Some p) = Accept c eff ->
  exists eff', open_decision (Some c) re' dd' (Some (client_load_props path c)) = Accept c eff'.
Proof. intros re dd p c eff path re' dd' _. apply client_open_accepts. Qed.

(* A store created by the client (`-chs`) pins exactly what the options said, and is then
   opened by any API caller who supplies the same four values -- depth and width as ints or
   as any int-like text (for instance the very option texts), algorithm and namespace as the
   option strings.  [opt_int depth] is what int() makes of the `-dp` text. *)
Theorem client_create_then_api_open :
  forall path depth width algo ns re dd pr c eff,
    client_create_props path depth width algo ns = inr pr ->
    open_decision None re dd (Some pr) = Accept c eff ->
    (opt_int depth = Some (c_depth c) /\ opt_int width = Some (c_width c) /\
     algo = Some (c_algo c) /\ ns = Some (c_ns c)) /\
    forall (p' : props) vp vd vw re' dd',
      get "store_path" p' = Some vp -> vp <> PNone ->
      get "store_depth" p' = Some vd -> py_int vd = opt_int depth ->
      get "store_width" p' = Some vw -> py_int vw = opt_int width ->
      get "store_algorithm" p' = Some (opt_str algo) ->
      get "store_metadata_namespace" p' = Some (opt_str ns) ->
      exists eff', open_decision (Some c) re' dd' (Some p') = Accept c eff'.
Proof.
  intros path depth width algo ns re dd pr c eff Hpr Hacc.
  apply client_create_props_inr_iff in Hpr.
  destruct Hpr as [ds [ws [d [w [Hde [Hwi [Hd [Hw Hpr]]]]]]]].
  apply create_accept_iff in Hacc. destruct Hacc as [_ [[vp0 Hv] _]].
  apply validate_ok_iff in Hv.
  destruct Hv as [_ [_ [[vd0 [Hgd Hid]] [[vw0 [Hgw Hiw]] [[Hga _] [Hgn _]]]]]].
  subst pr. simpl in Hgd, Hgw, Hga, Hgn.
  injection Hgd as Hgd. subst vd0. injection Hgw as Hgw. subst vw0.
  simpl in Hid, Hiw. injection Hid as Hid. injection Hiw as Hiw. subst d w.
  injection Hga as Hga. injection Hgn as Hgn.
  assert (Halgo : algo = Some (c_algo c)).
  { destruct algo as [t|]; simpl in Hga; [|discriminate Hga]. injection Hga as Hga. subst t.
    reflexivity. }
  assert (Hns : ns = Some (c_ns c)).
  { destruct ns as [t|]; simpl in Hgn; [|discriminate Hgn]. injection Hgn as Hgn. subst t.
    reflexivity. }
  subst depth width algo ns. simpl opt_int. simpl opt_str.
  split; [repeat split; assumption|].
  intros p' vp vd vw re' dd' Hp Hpn Hgd' Hid' Hgw' Hiw' Hga' Hgn'.
  assert (H : exists c0 eff0, open_decision (Some c) re' dd' (Some p') = Accept c0 eff0).
  { apply open_iff.
    split; [intros Hnil; subst p'; discriminate Hp|].
    split; [exists vp; split; assumption|].
    split; [exists vd; split; [exact Hgd' | rewrite Hid'; exact Hd]|].
    split; [exists vw; split; [exact Hgw' | rewrite Hiw'; exact Hw]|].
    split; assumption. }
  destruct H as [c0 [eff0 H]].
  destruct (accept_existing_returns_pinned _ _ _ _ _ _ H) as [Hc _]. subst c0.
  exists eff0. exact H.
Qed.

(* instance: the API caller passes the option texts themselves *)
Corollary client_create_then_api_open_with_texts :
  forall path depth width algo ns re dd pr c eff sp re' dd',
    client_create_props path depth width algo ns = inr pr ->
    open_decision None re dd (Some pr) = Accept c eff ->
    exists eff',
      open_decision (Some c) re' dd'
        (Some [("store_path", PStr sp); ("store_depth", opt_str depth);
               ("store_width", opt_str width); ("store_algorithm", opt_str algo);
               ("store_metadata_namespace", opt_str ns)]) = Accept c eff'.
Proof.
  intros path depth width algo ns re dd pr c eff sp re' dd' Hpr Hacc.
  destruct (client_create_then_api_open _ _ _ _ _ _ _ _ _ _ Hpr Hacc) as [_ Hopen].
  apply (Hopen _ (PStr sp) (opt_str depth) (opt_str width));
    try reflexivity; try discriminate.
  - destruct depth; reflexivity.
  - destruct width; reflexivity.
Qed.

(* instance: the client's own dict reopens the store it created *)
Corollary client_create_then_same_props_open :
  forall path depth width algo ns re dd pr c eff,
    client_create_props path depth width algo ns = inr pr ->
    open_decision None re dd (Some pr) = Accept c eff ->
    exists eff', open_decision (Some c) true true (Some pr) = Accept c eff'.
Proof.
  intros path depth width algo ns re dd pr c eff _ Hacc.
  destruct (create_then_reopen _ _ _ _ _ Hacc) as [_ [H _]]. exact H.
Qed.

(* ------------------------------------------------------------------ *)

Print Assumptions client_types_fixed.
Print Assumptions client_types_today_iff.
Print Assumptions client_types_today_refuted.
Print Assumptions client_today_eq_fixed_without_size.
Print Assumptions client_today_eq_fixed_other_verbs.
Print Assumptions client_values_getchecksum.
Print Assumptions client_values_storeobject.
Print Assumptions client_values_storeobject_today.
Print Assumptions client_values_storemetadata.
Print Assumptions client_values_retrieveobject.
Print Assumptions client_values_retrievemetadata.
Print Assumptions client_values_deleteobject.
Print Assumptions client_values_deletemetadata.
Print Assumptions client_format_default.
Print Assumptions client_format_given.
Print Assumptions client_format_never_none.
Print Assumptions client_requires_pid.
Print Assumptions client_requires_path.
Print Assumptions client_requires_algo.
Print Assumptions client_exn_class.
Print Assumptions client_nothing_iff.
Print Assumptions client_create_props_inr_iff.
Print Assumptions client_create_props_errors.
Print Assumptions client_open_accepts.
Print Assumptions client_open_accepts_exact.
Print Assumptions api_create_then_client_open.
Print Assumptions client_create_then_api_open.
Print Assumptions client_create_then_api_open_with_texts.
Print Assumptions client_create_then_same_props_open.
