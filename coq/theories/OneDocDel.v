(* OneDocDel.v — WRITERS, READERS and DELETERS of one metadata document, any number, every schedule
   (property C12 beyond the menus; OneDocReaders.v covers store_metadata + retrieve_metadata).

   delete_metadata p (Some f) is a writer in the sense of OneDocReaders.v: it holds the document
   lock from its first to its last operation, tests the document and removes it; the [Remove] is
   its commit point (the version it makes is "absent"), the Release follows at once; when the
   document is absent it commits nothing.  So [Pre] holds for it with "absent" among the versions.

   What changes for the readers: "present stays present" is gone.  A retrieve_metadata that saw the
   document present (first or second test) and then finds it removed raises FileNotFoundError,
   where the sequential order — the reader placed at its last operation, after the delete — gives
   the not-found ValueError.  This is the relaxed reader clause of the menus (LinNF.v, family R):
   the two not-found errors of a reader are identified ([nfn]; for the call lists of §3 this is
   LinNF.nf_norm_one), nothing else is.  The invariant [MInv], the order [lin_order] (each writer /
   deleter at its Rename / Remove, or at its last operation if it commits nothing; each reader at
   its last operation) are those of OneDocReaders.v with the outcomes of readers compared through
   [nfn]. *)
From HS Require Import Base PyVal FS Ops Sched Spec SeqLemmas Bracket SchedCV Mutex Indep IndepMeta OneDoc
  OneDocReaders.
From HS Require LinNF.

(* a reader's FileNotFoundError read as the not-found ValueError *)
Definition nfn (r : outcome value) : outcome value :=
  match r with Exn EFileNotFound => Exn EValueError | _ => r end.

(* ====================================================================================== *)
(* §2  pools of writers, readers and calls that return at once                             *)
(* ====================================================================================== *)

Definition isret {B} (m : prog B) : bool := match m with Ret _ => true | _ => false end.

Section Pool.
  Variable p : pid.
  Variable f : fmt.
  Notation a := (AMeta p f).
  Notation L := (doc_lock p f).
  Variable Vn : option fcontent -> Prop.
  Variable ps : list (prog (outcome value)).
  Variable w0 : world.
  (* which threads are readers *)
  Variable isrd : nat -> bool.

  Definition reader_prog : M value := retrieve_metadata p f.

  (* Acquire first, then [Pre] whatever the world *)
  Definition wprog (t : nat) (q : M value) : Prop :=
    exists k, q = Vis (Acquire LMeta (IDoc a)) k /\ forall w, Pre p f Vn t (k AUnit) w.

  Hypothesis Hshape : forall i q, nth_error ps i = Some q ->
    (exists r, q = Ret r) \/ q = reader_prog \/ wprog i q.
  Hypothesis Hl0 : locks w0 = [].
  Hypothesis Hisrd : forall i, isrd i = true <-> nth_error ps i = Some reader_prog.

  (* a reader's outcome, its FileNotFoundError read as the not-found ValueError *)
  Definition nrm (j : nat) (r : outcome value) : outcome value := if isrd j then nfn r else r.
  Definition tres (c : cfg) (j : nat) : option (outcome value) :=
    match thread_result ps c j with Some r => Some (nrm j r) | None => None end.

  Lemma nrm_reader : forall j r, nth_error ps j = Some reader_prog -> nrm j r = nfn r.
  Proof. intros j r H. unfold nrm. rewrite (proj2 (Hisrd j) H). reflexivity. Qed.

  Lemma nrm_other : forall j q r, nth_error ps j = Some q -> q <> reader_prog -> nrm j r = r.
  Proof.
    intros j q r H Hq. unfold nrm. destruct (isrd j) eqn:E; [|reflexivity].
    apply Hisrd in E. rewrite H in E. inversion E. contradiction.
  Qed.

  Lemma tres_upd_neq : forall c j x w' i, i <> j ->
    tres (upd_nth j x (fst c), w') i = tres c i.
  Proof. intros. unfold tres. rewrite thread_result_upd_neq by assumption. reflexivity. Qed.

  Lemma tres_upd_notin : forall c j x w' ord, ~ In j ord ->
    map (tres (upd_nth j x (fst c), w')) ord = map (tres c) ord.
  Proof.
    intros c j x w' ord Hn. apply map_ext_in. intros i Hi. apply tres_upd_neq.
    intros ->. contradiction.
  Qed.

  (* the versions of the document: the initial one and what the commits make of it *)
  Definition Vset (d : option fcontent) : Prop := d = doc p f w0 \/ Vn d.

  (* a reader under way: it has seen the document present once or twice (a delete may have removed
     it since) *)
  Definition RState (h : list ans) (d : option fcontent) : Prop :=
    h = [] \/ h = [ABool true] \/ h = [ABool true; ABool true].

  (* what a reader may return *)
  Definition Rres (r : outcome value) : Prop :=
    r = Exn EValueError \/ r = Exn EFileNotFound \/ exists d, r = Val (VBytes d) /\ Vset (Some d).

  Lemma nfn_Rres : forall r d, Vset d -> nfn r = rd_result d -> Rres r.
  Proof.
    intros r d HV H. unfold Rres. destruct d as [x|]; simpl in H.
    - right. right. exists x. split; [|exact HV].
      destruct r as [v|e]; simpl in H; [exact H|destruct e; discriminate H].
    - destruct r as [v|e]; simpl in H; [discriminate H|].
      destruct e; try discriminate H; auto.
  Qed.

  Definition rd_result (d : option fcontent) : outcome value :=
    match d with None => Exn EValueError | Some c => Val (VBytes c) end.

  Lemma reader_run : forall t w, run_as t w reader_prog = Some (w, rd_result (doc p f w)).
  Proof.
    intros t w. unfold reader_prog, retrieve_metadata. simpl.
    destruct (lookup a (fs w)) as [d|] eqn:E; simpl; rewrite ?E; simpl; rewrite ?E; reflexivity.
  Qed.

  Lemma reader_step : forall h t o k x w w',
    RState h (doc p f w) -> resume reader_prog (rev h) = Some (Vis o k) ->
    exec_op t o w = Some (x, w') ->
    w' = w /\ is_commit o = false /\
    ((isret (k x) = false /\ RState (x :: h) (doc p f w)) \/
     exists r, k x = Ret r /\ nfn r = rd_result (doc p f w)).
  Proof.
    intros h t o k x w w' HS Hrs He. unfold reader_prog, retrieve_metadata in Hrs.
    destruct HS as [->|[->| ->]]; simpl in Hrs; inversion Hrs; subst o k; clear Hrs;
      simpl in He; simpl.
    - destruct (lookup a (fs w)) as [d|] eqn:E; inversion He; subst x w'; simpl.
      + split; auto. split; auto. left. split; auto. right. left. reflexivity.
      + split; auto. split; auto. right. eexists. split; reflexivity.
    - destruct (lookup a (fs w)) as [d|] eqn:E; inversion He; subst x w'; simpl.
      + split; auto. split; auto. left. split; auto. right. right. reflexivity.
      + split; auto. split; auto. right. eexists. split; reflexivity.
    - destruct (lookup a (fs w)) as [d|] eqn:E; inversion He; subst x w'; simpl.
      + split; auto. split; auto. right. eexists. split; reflexivity.
      + split; auto. split; auto. right. eexists. split; reflexivity.
  Qed.

  Lemma RState_mono : forall h d d', RState h d -> RState h d'.
  Proof. intros h d d' H. exact H. Qed.

  Lemma wprog_not_reader : forall t, ~ wprog t reader_prog.
  Proof. intros t (k & E & _). unfold reader_prog, retrieve_metadata in E. simpl in E. discriminate. Qed.

  (* results with the committed writer's result known in advance *)
  Definition resx (c : cfg) (x : option (nat * outcome value)) (j : nat) : option (outcome value) :=
    match x with
    | Some (i, r) => if Nat.eqb j i then Some r else tres c j
    | None => tres c j
    end.

  Lemma resx_upd_notin : forall c j y w' X ord, ~ In j ord ->
    map (resx (upd_nth j y (fst c), w') X) ord = map (resx c X) ord.
  Proof.
    intros c j y w' X ord Hn. apply map_ext_in. intros i Hi.
    assert (i <> j) by (intros ->; contradiction).
    unfold resx. destruct X as [[i0 r]|]; [destruct (Nat.eqb i i0); auto|];
      apply tres_upd_neq; auto.
  Qed.

  Lemma residual_upd_neq : forall (c : cfg) j y w' i, i <> j ->
    residual ps (upd_nth j y (fst c), w') i = residual ps c i.
  Proof.
    intros c j y w' i Hne. unfold residual. simpl.
    rewrite nth_error_upd_nth_neq by exact Hne. reflexivity.
  Qed.

  Lemma resume_step : forall (q : M value) hist o k x,
    resume q (rev hist) = Some (Vis o k) -> resume q (rev (x :: hist)) = Some (k x).
  Proof. intros. simpl. rewrite resume_app, H. simpl. apply resume_nil. Qed.

  Lemma tr_after : forall (c : cfg) j q hist o k x w',
    nth_error ps j = Some q -> resume q (rev hist) = Some (Vis o k) -> j < length (fst c) ->
    thread_result ps (upd_nth j (x :: hist) (fst c), w') j =
    match k x with Ret r => Some r | _ => None end.
  Proof.
    intros c j q hist o k x w' Hp Hrs Hj. unfold thread_result. cbn [fst].
    rewrite Hp, nth_error_upd_nth_eq by exact Hj. rewrite (resume_step _ _ _ _ x Hrs). reflexivity.
  Qed.

  Lemma res_after : forall (c : cfg) j q hist o k x w',
    nth_error ps j = Some q -> resume q (rev hist) = Some (Vis o k) -> j < length (fst c) ->
    residual ps (upd_nth j (x :: hist) (fst c), w') j = Some (k x).
  Proof.
    intros c j q hist o k x w' Hp Hrs Hj. unfold residual. cbn [fst].
    rewrite Hp, nth_error_upd_nth_eq by exact Hj. apply (resume_step _ _ _ _ x Hrs).
  Qed.

  Lemma tres_after : forall (c : cfg) j q hist o k x w',
    nth_error ps j = Some q -> resume q (rev hist) = Some (Vis o k) -> j < length (fst c) ->
    tres (upd_nth j (x :: hist) (fst c), w') j =
    match k x with Ret r => Some (nrm j r) | _ => None end.
  Proof.
    intros. unfold tres. erewrite tr_after by eassumption. destruct (k x); reflexivity.
  Qed.

  (* ---------- the linearization order ---------- *)

  (* thread j, stepping from c to c', performs a Rename / Remove or its last operation *)
  Definition commit_now (c c' : cfg) (j : nat) : bool :=
    (match residual ps c j with Some (Vis o _) => is_commit o | _ => false end)
    || (match thread_result ps c' j with Some _ => true | None => false end).

  Definition lnote (c c' : cfg) (j : nat) (l : list nat) : list nat :=
    if commit_now c c' j && negb (existsb (Nat.eqb j) l) then l ++ [j] else l.

  Fixpoint lin_from (sched : list nat) (c : cfg) (l : list nat) : list nat :=
    match sched with
    | [] => l
    | j :: s =>
        match thread_step ps c j with
        | Some c' => lin_from s c' (lnote c c' j l)
        | None => l
        end
    end.

  Definition lin_order (sched : list nat) : list nat := lin_from sched (init_cfg ps w0) [].

  Lemma lnote_eq : forall (c : cfg) j q hist o k x w' l,
    nth_error ps j = Some q -> nth_error (fst c) j = Some hist ->
    resume q (rev hist) = Some (Vis o k) -> j < length (fst c) ->
    lnote c (upd_nth j (x :: hist) (fst c), w') j l =
    if (is_commit o || isret (k x)) && negb (existsb (Nat.eqb j) l) then l ++ [j] else l.
  Proof.
    intros c j q hist o k x w' l Hp Hh Hrs Hj. unfold lnote, commit_now.
    rewrite (tr_after c j q hist o k x w' Hp Hrs Hj). unfold residual. rewrite Hp, Hh, Hrs.
    destruct (k x); reflexivity.
  Qed.

  Lemma notin_existsb : forall j l, ~ In j l -> existsb (Nat.eqb j) l = false.
  Proof.
    intros j l H. destruct (existsb (Nat.eqb j) l) eqn:E; auto.
    apply existsb_eqb_In in E. contradiction.
  Qed.

  (* ---------- the invariant ---------- *)

  Inductive astate := ANone | APre (i : nat) | APost (i : nat).
  Definition aidx (s : astate) : option nat :=
    match s with ANone => None | APre i | APost i => Some i end.

  Definition MInv (c : cfg) (ord : list nat) (act : astate) : Prop :=
    length (fst c) = length ps /\
    NoDup ord /\
    (forall i, In i ord -> i < length ps) /\
    (forall i, i < length ps -> ~ In i ord -> aidx act <> Some i ->
       exists h, nth_error (fst c) i = Some h /\
         (h = [] \/ (nth_error ps i = Some reader_prog /\ RState h (doc p f (snd c))))) /\
    Vset (doc p f (snd c)) /\
    (forall j r, nth_error ps j = Some reader_prog -> thread_result ps c j = Some r -> Rres r) /\
    exists w1 rs,
      seq_runp _ ps ord w0 = Some (w1, rs) /\ locks w1 = [] /\ doc p f w1 = doc p f (snd c) /\
      match act with
      | ANone => snd c = w1 /\ map (tres c) ord = map Some rs
      | APre i =>
          ~ In i ord /\ map (tres c) ord = map Some rs /\
          exists q hist m,
            nth_error ps i = Some q /\ q <> reader_prog /\ nth_error (fst c) i = Some hist /\
            Solo i q w1 (rev hist) (snd c) m /\ Pre p f Vn i m (snd c) /\ locks (snd c) = [L]
      | APost i =>
          In i ord /\ nth_error ps i <> Some reader_prog /\
          w1 = set_locks (snd c) [] /\ locks (snd c) = [L] /\
          exists r k,
            residual ps c i = Some (Vis (Release LMeta (IDoc a)) k) /\ k AUnit = Ret r /\
            map (resx c (Some (i, r))) ord = map Some rs
      end.

  Lemma MInv_init : MInv (init_cfg ps w0) [] ANone.
  Proof.
    unfold MInv, init_cfg. simpl. split; [apply map_length|]. split; [constructor|].
    split; [intros i []|]. split.
    { intros i Hi _ _. rewrite nth_error_map.
      destruct (nth_error ps i) eqn:E; [eexists; split; [reflexivity|left; reflexivity]|].
      apply nth_error_None in E. lia. }
    split; [left; reflexivity|]. split.
    { intros j r Hp Hr. unfold thread_result in Hr. simpl in Hr. rewrite Hp, nth_error_map, Hp in Hr.
      simpl in Hr. unfold reader_prog, retrieve_metadata in Hr. simpl in Hr. discriminate. }
    exists w0, []. auto.
  Qed.

  (* a step of a reader: the world does not change; at its last step the reader joins the order *)
  Lemma MInv_reader : forall c ord act j hist o k x w',
    MInv c ord act -> nth_error ps j = Some reader_prog -> nth_error (fst c) j = Some hist ->
    ~ In j ord -> aidx act <> Some j -> RState hist (doc p f (snd c)) ->
    resume reader_prog (rev hist) = Some (Vis o k) -> exec_op j o (snd c) = Some (x, w') ->
    exists ord', MInv (upd_nth j (x :: hist) (fst c), w') ord' act /\
      ord' = if (is_commit o || isret (k x)) && negb (existsb (Nat.eqb j) ord) then ord ++ [j] else ord.
  Proof.
    intros c ord act j hist o k x w'
      (Hlen & Hnd & Hlt & Hoth & HV & HR & w1 & rs & Hseq & Hl1 & Hd1 & Hact) Hp Hh Hnin Hna HS Hrs He.
    destruct (reader_step _ _ _ _ _ _ _ HS Hrs He) as (-> & Hc & Hk).
    rewrite Hc, (notin_existsb _ _ Hnin). cbn [orb negb]. rewrite andb_true_r.
    assert (Hj : j < length (fst c)) by (apply nth_error_Some; congruence).
    assert (Hjp : j < length ps) by (apply nth_error_Some; congruence).
    pose proof (tr_after c j _ hist o k x (snd c) Hp Hrs Hj) as Htr.
    destruct Hk as [[Hnr HS'] | Hret].
    - rewrite Hnr. exists ord. split; [|reflexivity]. unfold MInv. cbn [fst snd].
      split; [rewrite upd_nth_length; exact Hlen|]. split; [exact Hnd|]. split; [exact Hlt|]. split.
      { intros i Hi Hni Hai. destruct (Nat.eq_dec i j) as [->|Hne].
        - exists (x :: hist). split; [apply nth_error_upd_nth_eq; exact Hj | right; split; auto].
        - rewrite nth_error_upd_nth_neq by exact Hne. apply Hoth; auto. }
      split; [exact HV|]. split.
      { intros j0 r Hp0 Hr0. destruct (Nat.eq_dec j0 j) as [->|Hne].
        - rewrite Htr in Hr0. destruct (k x); simpl in Hnr; discriminate.
        - rewrite thread_result_upd_neq in Hr0 by exact Hne. eapply HR; eauto. }
      exists w1, rs. split; [exact Hseq|]. split; [exact Hl1|]. split; [exact Hd1|].
      destruct act as [|i|i]; simpl in Hna.
      + destruct Hact as [E Hres]. split; [exact E|].
        rewrite tres_upd_notin by exact Hnin. exact Hres.
      + destruct Hact as (Hni & Hres & q & hi & m & Hq & Hqr & Hhi & Hrest).
        split; [exact Hni|]. split; [rewrite tres_upd_notin by exact Hnin; exact Hres|].
        exists q, hi, m. split; [exact Hq|]. split; [exact Hqr|]. split; [|exact Hrest].
        rewrite nth_error_upd_nth_neq; [exact Hhi | intros ->; apply Hna; reflexivity].
      + destruct Hact as (Hi & Hnr' & Ew & Hlk & r & k2 & Hres2 & Hk2 & Hmap).
        split; [exact Hi|]. split; [exact Hnr'|]. split; [exact Ew|]. split; [exact Hlk|].
        exists r, k2. split.
        { rewrite residual_upd_neq; [exact Hres2 | intros ->; apply Hna; reflexivity]. }
        split; [exact Hk2|]. rewrite resx_upd_notin by exact Hnin. exact Hmap.
    - destruct Hret as (r0 & Hret & Hnf). rewrite Hret in *. cbn [isret]. exists (ord ++ [j]). split; [|reflexivity].
      set (r := rd_result (doc p f (snd c))) in *.
      pose proof (tres_after c j _ hist o k x (snd c) Hp Hrs Hj) as Htr'.
      rewrite Hret, (nrm_reader j r0 Hp), Hnf in Htr'.
      assert (Hrun : seq_runp _ ps (ord ++ [j]) w0 = Some (w1, rs ++ [r])).
      { eapply seq_runp_snoc; [exact Hseq | exact Hp|]. rewrite reader_run, Hd1. reflexivity. }
      unfold MInv. cbn [fst snd].
      split; [rewrite upd_nth_length; exact Hlen|]. split; [apply NoDup_snoc; auto|]. split.
      { intros i Hi. apply in_app_or in Hi. destruct Hi as [Hi|[<-|[]]]; auto. }
      split.
      { intros i Hi Hni Hai.
        assert (Hne : i <> j) by (intros ->; apply Hni; apply in_or_app; right; left; reflexivity).
        rewrite nth_error_upd_nth_neq by exact Hne. apply Hoth; auto.
        intros Hin. apply Hni. apply in_or_app. left. exact Hin. }
      split; [exact HV|]. split.
      { intros j0 r1 Hp0 Hr0. destruct (Nat.eq_dec j0 j) as [->|Hne].
        - rewrite Htr in Hr0. inversion Hr0; subst r1. eapply nfn_Rres; [exact HV|exact Hnf].
        - rewrite thread_result_upd_neq in Hr0 by exact Hne. eapply HR; eauto. }
      exists w1, (rs ++ [r]). split; [exact Hrun|]. split; [exact Hl1|]. split; [exact Hd1|].
      destruct act as [|i|i]; simpl in Hna.
      + destruct Hact as [E Hres]. split; [exact E|]. rewrite !map_app. f_equal.
        * rewrite tres_upd_notin by exact Hnin. exact Hres.
        * simpl. rewrite Htr'. reflexivity.
      + destruct Hact as (Hni & Hres & q & hi & m & Hq & Hqr & Hhi & Hrest).
        split.
        { intros Hin. apply in_app_or in Hin. destruct Hin as [Hin|[E|[]]]; [contradiction|].
          subst. apply Hna. reflexivity. }
        split.
        { rewrite !map_app. f_equal.
          - rewrite tres_upd_notin by exact Hnin. exact Hres.
          - simpl. rewrite Htr'. reflexivity. }
        exists q, hi, m. split; [exact Hq|]. split; [exact Hqr|]. split; [|exact Hrest].
        rewrite nth_error_upd_nth_neq; [exact Hhi | intros ->; apply Hna; reflexivity].
      + destruct Hact as (Hi & Hnr' & Ew & Hlk & r2 & k2 & Hres2 & Hk2 & Hmap).
        split; [apply in_or_app; left; exact Hi|]. split; [exact Hnr'|]. split; [exact Ew|].
        split; [exact Hlk|]. exists r2, k2. split.
        { rewrite residual_upd_neq; [exact Hres2 | intros ->; apply Hna; reflexivity]. }
        split; [exact Hk2|]. rewrite !map_app. f_equal.
        * rewrite resx_upd_notin by exact Hnin. exact Hmap.
        * simpl. unfold resx. destruct (Nat.eqb j i) eqn:E.
          { apply Nat.eqb_eq in E. subst. exfalso. apply Hna. reflexivity. }
          rewrite Htr'. reflexivity.
  Qed.

  Lemma doc_set_locks : forall w l, doc p f (set_locks w l) = doc p f w.
  Proof. reflexivity. Qed.

  Lemma MInv_step : forall c ord act j c',
    MInv c ord act -> thread_step ps c j = Some c' ->
    exists ord' act', MInv c' ord' act' /\ ord' = lnote c c' j ord.
  Proof.
    intros c ord act j c' HM Hst.
    pose proof (@thread_step_lt _ _ _ _ _ Hst) as Hj.
    apply thread_step_inv in Hst. destruct Hst as (hist & o & k & x & w' & Hh & Hr & He & ->).
    assert (Hp : exists q, nth_error ps j = Some q /\ resume q (rev hist) = Some (Vis o k)).
    { unfold residual in Hr. destruct (nth_error ps j) as [q|]; [|discriminate].
      rewrite Hh in Hr. eauto. }
    destruct Hp as (q & Hp & Hrs).
    pose proof HM as HM0.
    destruct HM as (Hlen & Hnd & Hlt & Hoth & HV & HR & w1 & rs & Hseq & Hl1 & Hd1 & Hact).
    assert (Hjh : j < length (fst c)) by (rewrite Hlen; exact Hj).
    rewrite (lnote_eq c j q hist o k x w' ord Hp Hh Hrs Hjh).
    pose proof (tr_after c j q hist o k x w' Hp Hrs Hjh) as Htr.
    pose proof (tres_after c j q hist o k x w' Hp Hrs Hjh) as Htr'.
    assert (Hnotret : tres c j = None).
    { unfold tres, thread_result. rewrite Hp, Hh, Hrs. reflexivity. }
    assert (Hfree : ~ In j ord -> aidx act <> Some j ->
              (q = reader_prog /\ RState hist (doc p f (snd c))) \/
              ((hist = [] /\ o = Acquire LMeta (IDoc a) /\ forall w, Pre p f Vn j (k AUnit) w) /\
               q <> reader_prog)).
    { intros Hnin Hna. destruct (Hoth j Hj Hnin Hna) as (h & Hh' & Hcase).
      rewrite Hh in Hh'. inversion Hh'; subst h. destruct Hcase as [->|[Hq HS]].
      - simpl in Hrs. rewrite resume_nil in Hrs. inversion Hrs; subst q.
        destruct (Hshape j _ Hp) as [[r E]|[E|Hw]]; [discriminate | left; split; [exact E | left; reflexivity] |].
        right. split.
        + destruct Hw as (k0 & E & Hk0). inversion E; subst. auto.
        + intros E. rewrite E in Hw. exact (wprog_not_reader _ Hw).
      - left. rewrite Hp in Hq. inversion Hq. split; auto. }
    assert (Hothers : forall (y : list ans) w2 act2 ord2,
              (forall i, ~ In i ord2 -> aidx act2 <> Some i -> i <> j /\ ~ In i ord /\ aidx act <> Some i) ->
              forall i, i < length ps -> ~ In i ord2 -> aidx act2 <> Some i ->
              exists h, nth_error (upd_nth j y (fst c)) i = Some h /\
                (h = [] \/ (nth_error ps i = Some reader_prog /\ RState h (doc p f w2)))).
    { intros y w2 act2 ord2 Hsel i Hi Hni Hai. destruct (Hsel i Hni Hai) as (Hne & Hni' & Hai').
      rewrite nth_error_upd_nth_neq by exact Hne.
      destruct (Hoth i Hi Hni' Hai') as (h & H1 & H2). exists h. split; [exact H1|].
      destruct H2 as [H2|[H2 H3]]; [left; exact H2 | right; split; [exact H2|]].
      eapply RState_mono; eauto. }
    assert (HR' : forall (y : list ans) w2, q <> reader_prog ->
              forall j0 r, nth_error ps j0 = Some reader_prog ->
                thread_result ps (upd_nth j y (fst c), w2) j0 = Some r -> Rres r).
    { intros y w2 Hqr j0 r Hp0 Hr0. destruct (Nat.eq_dec j0 j) as [->|Hne].
      - rewrite Hp in Hp0. inversion Hp0. contradiction.
      - rewrite thread_result_upd_neq in Hr0 by exact Hne. eapply HR; eauto. }
    destruct act as [|i|i].
    - (* nobody holds the lock *)
      destruct Hact as [Ew Hres].
      assert (Hnin : ~ In j ord).
      { intros Hin. destruct (map_some_in _ _ _ _ _ _ Hres Hin) as [r Hr']. congruence. }
      destruct (Hfree Hnin ltac:(simpl; discriminate)) as [[-> HS] | [(-> & -> & Hk) Hqr]].
      + destruct (MInv_reader _ _ _ _ _ _ _ _ _ HM0 Hp Hh Hnin ltac:(simpl; discriminate) HS Hrs He)
          as (ord' & H1 & H2). exists ord', ANone. split; auto.
      + subst w1. change (Acquire LMeta (IDoc a)) with (Acquire (fst L) (snd L)) in He.
        rewrite (acquire_L_free L j (snd c) Hl1) in He. inversion He; subst x w'.
        destruct (Pre_Vis _ _ _ _ _ _ _ (Hk (set_locks (snd c) [L]))) as (o2 & k2 & Ek).
        rewrite Ek. cbn [is_commit isret orb andb]. exists ord, (APre j). split; [|reflexivity].
        unfold MInv. cbn [fst snd].
        split; [rewrite upd_nth_length; exact Hlen|]. split; [exact Hnd|]. split; [exact Hlt|]. split.
        { apply Hothers. intros i Hni Hai. simpl in Hai.
          repeat split; auto; try discriminate; try congruence. }
        split; [exact HV|]. split; [apply HR'; exact Hqr|].
        exists (snd c), rs. split; [exact Hseq|]. split; [exact Hl1|]. split; [reflexivity|].
        split; [exact Hnin|]. split; [rewrite tres_upd_notin by exact Hnin; exact Hres|].
        exists q, [AUnit], (k AUnit). split; [exact Hp|]. split; [exact Hqr|]. split.
        { apply nth_error_upd_nth_eq. exact Hjh. }
        split; [|split; [apply Hk | reflexivity]].
        simpl in Hrs. rewrite resume_nil in Hrs. inversion Hrs; subst q. simpl.
        eapply solo_cons; [apply (acquire_L_free L); exact Hl1 | apply solo_nil].
    - (* a writer is inside and has not committed *)
      destruct Hact as (Hni & Hres & q' & hi & m & Hq' & Hqr & Hhi & Hsolo & Hpre & Hlk).
      assert (Hnin : ~ In j ord).
      { intros Hin. destruct (map_some_in _ _ _ _ _ _ Hres Hin) as [r Hr']. congruence. }
      destruct (Nat.eq_dec i j) as [->|Hne].
      + rewrite Hp in Hq'. inversion Hq'; subst q'. rewrite Hh in Hhi. inversion Hhi; subst hi.
        pose proof (Solo_resume Hsolo) as Hrs'. rewrite Hrs in Hrs'. inversion Hrs'; subst m.
        pose proof (Solo_snoc Hsolo He) as Hsolo'.
        rewrite (notin_existsb _ _ Hnin). cbn [negb]. rewrite andb_true_r.
        simpl in Hpre. destruct (lockop o) eqn:Elo.
        * (* Release without a commit *)
          destruct (PostW_Vis p f _ (Vis o k) Hpre) as (k2 & r & E & Hk2). inversion E; subst o k2.
          change (Release LMeta (IDoc a)) with (Release (fst L) (snd L)) in He.
          rewrite (release_L_held L j (snd c) Hlk) in He. inversion He; subst x w'.
          rewrite Hk2 in *. cbn [is_commit isret orb]. exists (ord ++ [j]), ANone. split; [|reflexivity].
          unfold MInv. cbn [fst snd].
          split; [rewrite upd_nth_length; exact Hlen|]. split; [apply NoDup_snoc; auto|]. split.
          { intros i Hi. apply in_app_or in Hi. destruct Hi as [Hi|[<-|[]]]; auto. }
          split.
          { apply Hothers. intros i Hni' _.
            assert (i <> j) by (intros ->; apply Hni'; apply in_or_app; right; left; reflexivity).
            repeat split; auto.
            - intros Hin. apply Hni'. apply in_or_app. left. exact Hin.
            - simpl. congruence. }
          split; [exact HV|]. split; [apply HR'; exact Hqr|].
          exists (set_locks (snd c) []), (rs ++ [r]). split.
          { eapply seq_runp_snoc; eauto. eapply Solo_run. exact Hsolo'. }
          split; [reflexivity|]. split; [reflexivity|]. split; [reflexivity|].
          rewrite !map_app. f_equal.
          { rewrite tres_upd_notin by exact Hnin. exact Hres. }
          simpl. rewrite Htr', (nrm_other j q _ Hp Hqr). reflexivity.
        * rewrite He in Hpre. destruct (is_commit o) eqn:Ec.
          -- (* the commit *)
             destruct Hpre as [Hvn Hpost]. change (Vn (doc p f w')) in Hvn. destruct (PostW_Vis _ _ _ _ Hpost) as (k2 & r & Ek & Hk2).
             rewrite Ek in *. cbn [isret orb]. exists (ord ++ [j]), (APost j). split; [|reflexivity].
             assert (Hlk' : locks w' = [L]) by (rewrite (exec_nonlock_locks _ _ _ _ _ Elo He); exact Hlk).
             assert (Hrun : run_as j w1 q = Some (set_locks w' [], r)).
             { eapply Solo_run. rewrite <- Hk2. eapply Solo_snoc; [exact Hsolo'|].
               apply (release_L_held L). exact Hlk'. }
             unfold MInv. cbn [fst snd].
             split; [rewrite upd_nth_length; exact Hlen|]. split; [apply NoDup_snoc; auto|]. split.
             { intros i Hi. apply in_app_or in Hi. destruct Hi as [Hi|[<-|[]]]; auto. }
             split.
             { apply Hothers. intros i Hni' _.
               assert (i <> j) by (intros ->; apply Hni'; apply in_or_app; right; left; reflexivity).
               repeat split; auto.
               - intros Hin. apply Hni'. apply in_or_app. left. exact Hin.
               - simpl. congruence. }
             split; [right; exact Hvn|]. split; [apply HR'; exact Hqr|].
             exists (set_locks w' []), (rs ++ [r]). split; [eapply seq_runp_snoc; eauto|].
             split; [reflexivity|]. split; [reflexivity|].
             split; [apply in_or_app; right; left; reflexivity|]. split.
             { rewrite Hp. intros E. inversion E. contradiction. }
             split; [reflexivity|]. split; [exact Hlk'|]. exists r, k2. split.
             { rewrite (res_after c j q hist o k x w' Hp Hrs Hjh). rewrite Ek. reflexivity. }
             split; [exact Hk2|]. rewrite !map_app. f_equal.
             ++ rewrite <- Hres. apply map_ext_in. intros i0 Hi0. unfold resx.
                assert (i0 <> j) by (intros ->; contradiction).
                destruct (Nat.eqb i0 j) eqn:E; [apply Nat.eqb_eq in E; contradiction|].
                apply tres_upd_neq. auto.
             ++ simpl. unfold resx. rewrite Nat.eqb_refl. reflexivity.
          -- (* an operation before the commit *)
             destruct Hpre as [Hdoc Hpre']. change (doc p f w' = doc p f (snd c)) in Hdoc. destruct (Pre_Vis _ _ _ _ _ _ _ Hpre') as (o2 & k2 & Ek).
             rewrite Ek. cbn [isret orb]. exists ord, (APre j). split; [|reflexivity].
             unfold MInv. cbn [fst snd].
             split; [rewrite upd_nth_length; exact Hlen|]. split; [exact Hnd|]. split; [exact Hlt|]. split.
             { apply Hothers. intros i Hni' Hai. simpl in Hai.
               repeat split; auto; congruence. }
             split; [rewrite Hdoc; exact HV|]. split; [apply HR'; exact Hqr|].
             exists w1, rs. split; [exact Hseq|]. split; [exact Hl1|]. split; [rewrite Hdoc; exact Hd1|].
             split; [exact Hnin|]. split; [rewrite tres_upd_notin by exact Hnin; exact Hres|].
             exists q, (x :: hist), (k x). split; [exact Hp|]. split; [exact Hqr|]. split.
             { apply nth_error_upd_nth_eq. exact Hjh. }
             split; [exact Hsolo'|]. split; [exact Hpre'|].
             rewrite (exec_nonlock_locks _ _ _ _ _ Elo He). exact Hlk.
      + assert (Hna : aidx (APre i) <> Some j) by (simpl; congruence).
        destruct (Hfree Hnin Hna) as [[-> HS] | [(-> & -> & Hk) Hqr']].
        * destruct (MInv_reader _ _ _ _ _ _ _ _ _ HM0 Hp Hh Hnin Hna HS Hrs He) as (ord' & H1 & H2).
          exists ord', (APre i). split; auto.
        * exfalso. change (Acquire LMeta (IDoc a)) with (Acquire (fst L) (snd L)) in He.
          rewrite (acquire_L_held L j (snd c) Hlk) in He. discriminate.
    - (* a writer is inside and has committed *)
      destruct Hact as (Hi & Hnr & Ew & Hlk & r & k2 & Hres2 & Hk2 & Hmap).
      destruct (Nat.eq_dec i j) as [->|Hne].
      + rewrite Hr in Hres2. inversion Hres2; subst o k.
        change (Release LMeta (IDoc a)) with (Release (fst L) (snd L)) in He.
        rewrite (release_L_held L j (snd c) Hlk) in He. inversion He; subst x w'.
        rewrite Hk2 in *. cbn [is_commit isret orb].
        assert (Hex : existsb (Nat.eqb j) ord = true) by (apply existsb_eqb_In; exact Hi).
        rewrite Hex. cbn [negb andb]. exists ord, ANone. split; [|reflexivity].
        unfold MInv. cbn [fst snd].
        split; [rewrite upd_nth_length; exact Hlen|]. split; [exact Hnd|]. split; [exact Hlt|]. split.
        { apply Hothers. intros i Hni' _.
          assert (i <> j) by (intros ->; contradiction). repeat split; auto. simpl. congruence. }
        split; [exact HV|]. split.
        { apply HR'. intros E. apply Hnr. rewrite Hp, E. reflexivity. }
        exists w1, rs. split; [exact Hseq|]. split; [exact Hl1|]. split; [rewrite Ew; reflexivity|].
        split; [symmetry; exact Ew|]. rewrite <- Hmap. apply map_ext_in. intros i0 _. unfold resx.
        destruct (Nat.eqb i0 j) eqn:E.
        * apply Nat.eqb_eq in E. subst i0. rewrite Htr'. f_equal.
          apply (nrm_other j q r Hp). intros E. apply Hnr. rewrite Hp, E. reflexivity.
        * apply Nat.eqb_neq in E. apply tres_upd_neq. exact E.
      + assert (Hnin : ~ In j ord).
        { intros Hin. destruct (map_some_in _ _ _ _ _ _ Hmap Hin) as [r' Hr']. unfold resx in Hr'.
          destruct (Nat.eqb j i) eqn:E; [apply Nat.eqb_eq in E; congruence | congruence]. }
        assert (Hna : aidx (APost i) <> Some j) by (simpl; congruence).
        destruct (Hfree Hnin Hna) as [[-> HS] | [(-> & -> & Hk) Hqr']].
        * destruct (MInv_reader _ _ _ _ _ _ _ _ _ HM0 Hp Hh Hnin Hna HS Hrs He) as (ord' & H1 & H2).
          exists ord', (APost i). split; auto.
        * exfalso. change (Acquire LMeta (IDoc a)) with (Acquire (fst L) (snd L)) in He.
          rewrite (acquire_L_held L j (snd c) Hlk) in He. discriminate.
  Qed.

  Lemma MInv_exec : forall sched c ord act c',
    MInv c ord act -> exec ps sched c = Some c' ->
    exists ord' act', MInv c' ord' act' /\ ord' = lin_from sched c ord.
  Proof.
    induction sched as [|j s IH]; intros c ord act c' HB He; simpl in He |- *.
    - inversion He; subst. exists ord, act. auto.
    - destruct (thread_step ps c j) as [c1|] eqn:E; [|discriminate].
      destruct (MInv_step _ _ _ _ _ HB E) as (ord1 & act1 & HB1 & E1).
      destruct (IH _ _ _ _ HB1 He) as (ord2 & act2 & HB2 & E2).
      exists ord2, act2. split; auto. rewrite <- E1. exact E2.
  Qed.

  (* at every configuration that any schedule reaches *)
  Lemma reached_reader_results : forall sched c,
    exec ps sched (init_cfg ps w0) = Some c ->
    Vset (doc p f (snd c)) /\
    forall j r, nth_error ps j = Some reader_prog -> thread_result ps c j = Some r -> Rres r.
  Proof.
    intros sched c He. destruct (MInv_exec _ _ _ _ _ MInv_init He) as (ord & act & HB & _).
    destruct HB as (_ & _ & _ & _ & HV & HR & _). auto.
  Qed.

  Lemma RState_Vis : forall h d, RState h d -> exists o k, resume reader_prog (rev h) = Some (Vis o k).
  Proof.
    intros h d [->|[->| ->]]; unfold reader_prog, retrieve_metadata; simpl; eauto.
  Qed.

  Theorem writers_readers_pool : forall sched c,
    pool_ok ps -> refs_typed (fs w0) ->
    exec ps sched (init_cfg ps w0) = Some c -> stuck ps c ->
    finished ps c = true /\ locks (snd c) = [] /\
    (forall j r, nth_error ps j = Some reader_prog -> thread_result ps c j = Some r -> Rres r) /\
    exists w' rs,
      let ord := lin_order sched ++ rest_of (length ps) (lin_order sched) in
      NoDup ord /\ (forall i, In i ord <-> i < length ps) /\
      seq_runp _ ps ord w0 = Some (w', rs) /\
      snd c = w' /\
      map (tres c) ord = map Some rs.
  Proof.
    intros sched c Hok Hrt He Hst.
    assert (Hfin : finished ps c = true /\ locks (snd c) = [] /\ refs_typed (fs (snd c))).
    { apply stuck_finished; auto. eapply Inv_reachable; eauto.
      eapply exec_reachable; [apply reach_init | exact He]. }
    destruct Hfin as (Hf1 & Hf2 & _). split; [exact Hf1|]. split; [exact Hf2|].
    destruct (MInv_exec _ _ _ _ _ MInv_init He) as (ord & act & HB & Eord).
    fold (lin_order sched) in Eord.
    destruct HB as (Hlen & Hnd & Hlt & Hoth & HV & HR & w1 & rs & Hseq & Hl1 & Hd1 & Hact).
    split; [exact HR|].
    assert (Hsome : forall i, i < length ps -> exists r, thread_result ps c i = Some r).
    { intros i Hi. unfold finished in Hf1. rewrite forallb_forall in Hf1.
      assert (Hin : In (thread_result ps c i) (results ps c)).
      { unfold results. apply in_map. apply in_seq. lia. }
      specialize (Hf1 _ Hin).
      destruct (thread_result ps c i) as [r|]; [eauto | discriminate]. }
    destruct act as [|i|i].
    2:{ exfalso. destruct Hact as (_ & _ & q & hist & m & Hq & _ & Hh & Hsolo & Hpre & _).
        assert (Hi : i < length ps) by (apply nth_error_Some; congruence).
        destruct (Hsome i Hi) as [r Hr]. unfold thread_result in Hr. rewrite Hq, Hh in Hr.
        rewrite (Solo_resume Hsolo) in Hr. destruct (Pre_Vis _ _ _ _ _ _ _ Hpre) as (o & k & ->).
        discriminate. }
    2:{ exfalso. destruct Hact as (Hi & _ & _ & _ & r & k & Hres & _).
        destruct (Hsome i (Hlt i Hi)) as [r' Hr]. unfold thread_result in Hr. unfold residual in Hres.
        destruct (nth_error ps i); [|discriminate]. destruct (nth_error (fst c) i); [|discriminate].
        rewrite Hres in Hr. discriminate. }
    destruct Hact as [Ew Hres]. subst ord.
    set (ord := lin_order sched) in *.
    assert (Hin : forall i, In i (rest_of (length ps) ord) ->
              exists r, nth_error ps i = Some (Ret r) /\ thread_result ps c i = Some r).
    { intros i Hi. unfold rest_of in Hi. apply filter_In in Hi. destruct Hi as [Hi Hn].
      apply in_seq in Hi. assert (Hilt : i < length ps) by lia.
      assert (Hni : ~ In i ord).
      { intros H. apply existsb_eqb_In in H. rewrite H in Hn. discriminate. }
      destruct (Hoth i Hilt Hni ltac:(simpl; discriminate)) as (h & Hh & Hcase).
      destruct (Hsome i Hilt) as [r Hr]. unfold thread_result in Hr.
      destruct (nth_error ps i) as [q|] eqn:Ep; [|discriminate]. rewrite Hh in Hr.
      destruct Hcase as [->|[Hq HS]].
      - simpl in Hr. destruct q; try discriminate. inversion Hr; subst. exists r. split; auto.
        unfold thread_result. rewrite Ep, Hh. reflexivity.
      - exfalso. inversion Hq; subst q. destruct (RState_Vis _ _ HS) as (o & k & E).
        rewrite E in Hr. discriminate. }
    assert (Hrest : forall l, (forall i, In i l -> In i (rest_of (length ps) ord)) ->
              exists rs2, seq_runp _ ps l w1 = Some (w1, rs2) /\ map (tres c) l = map Some rs2).
    { induction l as [|i l IH]; intros Hl.
      - exists []. auto.
      - destruct (Hin i (Hl i (or_introl eq_refl))) as (r & Hp & Hr).
        destruct IH as (rs2 & H1 & H2); [intros y Hy; apply Hl; right; exact Hy|].
        exists (r :: rs2). simpl. rewrite Hp. simpl. rewrite H1, H2. unfold tres. rewrite Hr.
        rewrite (nrm_other i (Ret r) r Hp) by (unfold reader_prog, retrieve_metadata; simpl; discriminate).
        auto. }
    destruct (Hrest (rest_of (length ps) ord)) as (rs2 & Hs2 & Hr2); [auto|].
    exists w1, (rs ++ rs2). cbv zeta. split; [|split; [|split; [|split]]].
    - apply NoDup_app_disj; auto.
      + unfold rest_of. apply NoDup_filter. apply seq_NoDup.
      + intros y Hy Hy'. unfold rest_of in Hy'. apply filter_In in Hy'. destruct Hy' as [_ Hn].
        apply existsb_eqb_In in Hy. rewrite Hy in Hn. discriminate.
    - intros i. split.
      + intros Hi. apply in_app_or in Hi. destruct Hi as [Hi|Hi]; auto.
        unfold rest_of in Hi. apply filter_In in Hi. destruct Hi as [Hi _]. apply in_seq in Hi. lia.
      + intros Hi. destruct (existsb (Nat.eqb i) ord) eqn:E.
        * apply in_or_app. left. apply existsb_eqb_In. exact E.
        * apply in_or_app. right. unfold rest_of. apply filter_In. split; [apply in_seq; lia|].
          rewrite E. reflexivity.
    - eapply seq_runp_app; eauto.
    - exact Ew.
    - rewrite !map_app. f_equal; auto.
  Qed.
End Pool.

(* ====================================================================================== *)
(* §3  store_metadata, retrieve_metadata and delete_metadata calls on one document         *)
(* ====================================================================================== *)

(* delete_metadata p (Some f): Acquire, then [Pre] from EVERY world; its commit makes the document
   absent *)
Lemma delete_metadata_pre : forall p f (Vn : option fcontent -> Prop),
  Vn None ->
  exists k, api (CDelMeta p (Some f)) = Vis (Acquire LMeta (IDoc (AMeta p f))) k /\
            forall t w, Pre p f Vn t (k AUnit) w.
Proof.
  intros p f Vn HV. eexists. split; [reflexivity|]. intros t w.
  cbn beta iota. simpl.
  destruct (lookup (AMeta p f) (fs w)) as [d|] eqn:E; simpl; rewrite ?E; simpl.
  - split; [reflexivity|]. rewrite lookup_delete_eq. split; [exact HV|].
    split; [reflexivity|]. eexists. reflexivity.
  - split; [reflexivity|]. split; [reflexivity|]. eexists. reflexivity.
Qed.

(* the calls of the pools: store_metadata, retrieve_metadata and delete_metadata(pid, format) on ONE
   document (p, f); calls that the argument checks reject may be among them *)
Definition wrd_call (p : pid) (f : fmt) (c : call) : Prop :=
  match c with
  | CStoreMeta p' f' _ _ _ => p' = p /\ f' = f
  | CRetrMeta p' f' => p' = p /\ f' = f
  | CDelMeta p' (Some f') => p' = p /\ f' = f
  | CRejected _ => True
  | _ => False
  end.

(* what the commits of the pool make of the document: a complete stored version, or absent *)
Definition pool_version (calls : list call) (d : option fcontent) : Prop :=
  stored_version calls d \/ (d = None /\ exists p f, In (CDelMeta p (Some f)) calls).

Definition is_reader (calls : list call) (i : nat) : bool :=
  match nth_error calls i with Some (CRetrMeta _ _) => true | _ => false end.

Lemma wrd_shape : forall p f calls i q,
  (forall ci, In ci calls -> wrd_call p f ci) -> nth_error (map api calls) i = Some q ->
  (exists r, q = Ret r) \/ q = reader_prog p f \/ wprog p f (pool_version calls) i q.
Proof.
  intros p f calls i q Hc Hq. rewrite nth_error_map in Hq.
  destruct (nth_error calls i) as [ci|] eqn:E; [|discriminate]. inversion Hq; subst q.
  pose proof (nth_error_In _ _ E) as Hin. specialize (Hc ci Hin).
  destruct ci; simpl in Hc; try contradiction.
  - destruct Hc as [-> ->]. right. right.
    destruct (store_metadata_pre p f (pool_version calls) s v n) as (k & Ek & Hk).
    { intros Hs. left. exists p, f, s, v, n. auto. }
    exists k. split; [exact Ek|]. intros w. apply Hk.
  - destruct Hc as [-> ->]. right. left. reflexivity.
  - destruct f0 as [f0|]; [|contradiction]. destruct Hc as [-> ->]. right. right.
    destruct (delete_metadata_pre p f (pool_version calls)) as (k & Ek & Hk).
    { right. split; [reflexivity|]. exists p, f. exact Hin. }
    exists k. split; [exact Ek|]. intros w. apply Hk.
  - left. eexists. reflexivity.
Qed.

Lemma is_reader_spec : forall p f calls i,
  (forall ci, In ci calls -> wrd_call p f ci) ->
  (is_reader calls i = true <-> nth_error (map api calls) i = Some (reader_prog p f)).
Proof.
  intros p f calls i Hc. unfold is_reader. rewrite nth_error_map.
  destruct (nth_error calls i) as [ci|] eqn:E; [|split; discriminate].
  pose proof (Hc ci (nth_error_In _ _ E)) as Hw.
  assert (Hno : forall q : M value, (forall k, q <> Vis (Probe (AMeta p f)) k) ->
            (false = true <-> Some q = Some (reader_prog p f))).
  { intros q Hq. split; [discriminate|]. intros H. exfalso. inversion H as [H1].
    unfold reader_prog, retrieve_metadata, probe in H1. eapply Hq. exact H1. }
  destruct ci; simpl in Hw; try contradiction; cbn [api].
  - apply Hno. intros k H. unfold store_metadata, acquire in H. simpl in H. discriminate H.
  - destruct Hw as [-> ->]. split; reflexivity.
  - destruct f0; [|contradiction]. apply Hno. intros k H.
    unfold lift_unit, delete_metadata, acquire in H. simpl in H. discriminate H.
  - apply Hno. intros k H. discriminate H.
Qed.

(* on these pools the comparison through [nfn] is LinNF's *)
Lemma tres_nf : forall calls c i,
  tres (map api calls) (is_reader calls) c i =
  LinNF.nf_norm_one (nth_error calls i) (thread_result (map api calls) c i).
Proof.
  intros calls c i. unfold tres, nrm, is_reader, LinNF.nf_norm_one.
  destruct (thread_result (map api calls) c i) as [r|]; [|destruct (nth_error calls i) as [[]|]; reflexivity].
  destruct (nth_error calls i) as [[]|]; try reflexivity.
  destruct r as [v|e]; [reflexivity|]. destruct e; reflexivity.
Qed.

(* (2) THE THEOREM.  Any number of store_metadata, retrieve_metadata and delete_metadata(pid, format)
   calls on one document, started in any world that holds no lock, under ANY schedule: a
   configuration in which no thread can move is one in which every call has returned and no lock
   is held; the final WORLD is the one of running the calls one after the other in the order
   [lin_order] (each store at its Rename, each delete at its Remove — the stores and deletes in the
   order in which they acquired the lock —, each reader, and a delete that found the document absent,
   at its last operation; the rejected calls last), and every call's outcome is the one of that
   sequential run, a reader's FileNotFoundError being read as the not-found ValueError
   (LinNF.nf_norm_one; nothing else is relaxed). *)
Theorem one_doc_writers_readers_deleters_linearizable :
  forall (p : pid) (f : fmt) (calls : list call) (w0 : world) (sched : list nat) (c : cfg),
    locks w0 = [] -> refs_typed (fs w0) ->
    (forall ci, In ci calls -> wrd_call p f ci) ->
    exec (map api calls) sched (init_cfg (map api calls) w0) = Some c ->
    stuck (map api calls) c ->
    finished (map api calls) c = true /\ locks (snd c) = [] /\
    exists (w' : world) (rs : list (outcome value)),
      let lin := lin_order (map api calls) w0 sched in
      let ord := lin ++ rest_of (length calls) lin in
      NoDup ord /\ (forall i, In i ord <-> i < length calls) /\
      seq_run calls ord w0 = Some (w', rs) /\
      snd c = w' /\
      map (fun i => LinNF.nf_norm_one (nth_error calls i) (thread_result (map api calls) c i)) ord =
        map Some rs.
Proof.
  intros p f calls w0 sched c Hl Hrt Hcalls He Hst.
  destruct (writers_readers_pool p f (pool_version calls)) with (ps := map api calls) (w0 := w0)
    (isrd := is_reader calls) (sched := sched) (c := c) as (H1 & H2 & _ & w' & rs & H3); auto.
  - intros i q Hq. eapply wrd_shape; eauto.
  - intros i. apply is_reader_spec. exact Hcalls.
  - apply api_pool_ok.
  - split; [exact H1|]. split; [exact H2|]. exists w', rs.
    rewrite map_length in H3. cbv zeta in *. destruct H3 as (N1 & N2 & N3 & N4 & N5).
    split; [exact N1|]. split; [exact N2|].
    split; [|split; [exact N4|]].
    + rewrite <- seq_runp_seq_run; [exact N3|]. intros i Hi. apply N2 in Hi. exact Hi.
    + rewrite <- N5. apply map_ext. intros i. symmetry. apply tres_nf.
Qed.

(* (1) A READER NEVER SEES A PARTIAL DOCUMENT, deletes included.  In every configuration that any
   schedule reaches, a retrieve_metadata call that has returned has returned a not-found error
   (ValueError, or FileNotFoundError when a delete removed the document under it) or the COMPLETE
   content of a version: the document of the start world, or all n chunks of a store_metadata of
   the pool. *)
Theorem readers_never_partial_del :
  forall (p : pid) (f : fmt) (calls : list call) (w0 : world) (sched : list nat) (c : cfg),
    locks w0 = [] ->
    (forall ci, In ci calls -> wrd_call p f ci) ->
    exec (map api calls) sched (init_cfg (map api calls) w0) = Some c ->
    forall j r, nth_error calls j = Some (CRetrMeta p f) ->
      thread_result (map api calls) c j = Some r ->
      r = Exn EValueError \/ r = Exn EFileNotFound \/
      exists d, r = Val (VBytes d) /\
        (lookup (AMeta p f) (fs w0) = Some d \/
         exists s v n, In (CStoreMeta p f s v n) calls /\ s <> SrcMissing /\ d = CData v n n).
Proof.
  intros p f calls w0 sched c Hl Hcalls He j r Hj Hr.
  destruct (reached_reader_results p f (pool_version calls)) with (ps := map api calls) (w0 := w0)
    (isrd := is_reader calls) (sched := sched) (c := c) as (_ & HR); auto.
  - intros i q Hq. eapply wrd_shape; eauto.
  - intros i. apply is_reader_spec. exact Hcalls.
  - destruct (HR j r) as [E|[E|(d & E & HV)]]; auto.
    + rewrite nth_error_map, Hj. reflexivity.
    + right. right. exists d. split; [exact E|].
      destruct HV as [HV|[(p' & f' & s & v & n & Hin & Hs & E')|[E' _]]]; [| |discriminate E'].
      * left. symmetry. exact HV.
      * right. inversion E'; subst d. specialize (Hcalls _ Hin). simpl in Hcalls.
        destruct Hcalls as [-> ->]. exists s, v, n. auto.
Qed.

(* the document itself: in every reached configuration it is the start document, a complete stored
   version, or absent after a delete of the pool *)
Theorem document_never_partial_del :
  forall (p : pid) (f : fmt) (calls : list call) (w0 : world) (sched : list nat) (c : cfg),
    locks w0 = [] ->
    (forall ci, In ci calls -> wrd_call p f ci) ->
    exec (map api calls) sched (init_cfg (map api calls) w0) = Some c ->
    lookup (AMeta p f) (fs (snd c)) = lookup (AMeta p f) (fs w0) \/
    (exists s v n, In (CStoreMeta p f s v n) calls /\ s <> SrcMissing /\
                   lookup (AMeta p f) (fs (snd c)) = Some (CData v n n)) \/
    (In (CDelMeta p (Some f)) calls /\ lookup (AMeta p f) (fs (snd c)) = None).
Proof.
  intros p f calls w0 sched c Hl Hcalls He.
  destruct (reached_reader_results p f (pool_version calls)) with (ps := map api calls) (w0 := w0)
    (isrd := is_reader calls) (sched := sched) (c := c) as (HV & _); auto.
  - intros i q Hq. eapply wrd_shape; eauto.
  - intros i. apply is_reader_spec. exact Hcalls.
  - destruct HV as [HV|[(p' & f' & s & v & n & Hin & Hs & E')|(E' & p' & f' & Hin)]]; [left; exact HV| |].
    + right. left. specialize (Hcalls _ Hin). simpl in Hcalls. destruct Hcalls as [-> ->].
      exists s, v, n. auto.
    + right. right. specialize (Hcalls _ Hin). simpl in Hcalls. destruct Hcalls as [-> ->].
      split; [exact Hin|exact E'].
Qed.

Print Assumptions one_doc_writers_readers_deleters_linearizable.
Print Assumptions readers_never_partial_del.
Print Assumptions document_never_partial_del.
