(* MenuLib.v — shared machinery of the concurrency menus (C07, C12): decidable equality of calls
   and scenarios, the structural description of a menu (start states x unordered pairs / triples
   with repetition), a one-exploration verdict function that agrees with [scenario_ok] and also
   evaluates an extra per-configuration test, and the generic lemmas that lift the closed
   boolean facts proved shard by shard (by [vm_compute]) to statements about every schedule. *)
From HS Require Import Base PyVal FS Ops Spec Sched Lin.

(* ---------- boolean equality of calls ---------- *)

Definition src_eqb (a b : src) : bool :=
  match a, b with
  | SrcPath, SrcPath | SrcMissing, SrcMissing | SrcStream, SrcStream => true
  | _, _ => false
  end.
Definition vsz_eqb (a b : vsz) : bool :=
  match a, b with
  | VSzNone, VSzNone | VSzOk, VSzOk | VSzBad, VSzBad => true
  | _, _ => false
  end.
Definition vck_eqb (a b : vck) : bool :=
  match a, b with
  | VCkNone, VCkNone | VCkOk, VCkOk | VCkBad, VCkBad => true
  | _, _ => false
  end.

Lemma src_eqb_true : forall a b, src_eqb a b = true -> a = b.
Proof. destruct a, b; simpl; intros; congruence. Qed.
Lemma vsz_eqb_true : forall a b, vsz_eqb a b = true -> a = b.
Proof. destruct a, b; simpl; intros; congruence. Qed.
Lemma vck_eqb_true : forall a b, vck_eqb a b = true -> a = b.
Proof. destruct a, b; simpl; intros; congruence. Qed.
Lemma src_eqb_refl : forall a, src_eqb a a = true.
Proof. destruct a; reflexivity. Qed.
Lemma vsz_eqb_refl : forall a, vsz_eqb a a = true.
Proof. destruct a; reflexivity. Qed.
Lemma vck_eqb_refl : forall a, vck_eqb a a = true.
Proof. destruct a; reflexivity. Qed.

Definition onat_eqb (a b : option nat) : bool := option_eqb Nat.eqb a b.
Lemma onat_eqb_true : forall a b, onat_eqb a b = true -> a = b.
Proof.
  destruct a as [x|], b as [y|]; simpl; intros H; try discriminate; auto.
  apply Nat.eqb_eq in H. congruence.
Qed.
Lemma onat_eqb_refl : forall a, onat_eqb a a = true.
Proof. destruct a; simpl; auto. apply Nat.eqb_refl. Qed.

Definition call_eqb (x y : call) : bool :=
  match x, y with
  | CStore p s b n sz ck, CStore p' s' b' n' sz' ck' =>
      onat_eqb p p' && src_eqb s s' && Nat.eqb b b' && Nat.eqb n n' && vsz_eqb sz sz' && vck_eqb ck ck'
  | CTag p c, CTag p' c' => Nat.eqb p p' && Nat.eqb c c'
  | CDelete p, CDelete p' => Nat.eqb p p'
  | CDelInvalid c sz pre ok, CDelInvalid c' sz' pre' ok' =>
      Nat.eqb c c' && vsz_eqb sz sz' && Bool.eqb pre pre' && Bool.eqb ok ok'
  | CStoreMeta p f s v n, CStoreMeta p' f' s' v' n' =>
      Nat.eqb p p' && Nat.eqb f f' && src_eqb s s' && Nat.eqb v v' && Nat.eqb n n'
  | CRetrMeta p f, CRetrMeta p' f' => Nat.eqb p p' && Nat.eqb f f'
  | CDelMeta p f, CDelMeta p' f' => Nat.eqb p p' && onat_eqb f f'
  | CRetrieve p, CRetrieve p' => Nat.eqb p p'
  | CGetHex p, CGetHex p' => Nat.eqb p p'
  | CRejected e, CRejected e' => exn_eqb e e'
  | CDeleteUnfixed p, CDeleteUnfixed p' => Nat.eqb p p'
  | _, _ => false
  end.

Ltac split_andb :=
  repeat match goal with
         | H : _ && _ = true |- _ => apply andb_true_iff in H; destruct H
         end.

Lemma call_eqb_true : forall x y, call_eqb x y = true -> x = y.
Proof.
  destruct x, y; simpl; intros H; try discriminate; split_andb;
    repeat match goal with
           | H : Nat.eqb _ _ = true |- _ => apply Nat.eqb_eq in H
           | H : onat_eqb _ _ = true |- _ => apply onat_eqb_true in H
           | H : src_eqb _ _ = true |- _ => apply src_eqb_true in H
           | H : vsz_eqb _ _ = true |- _ => apply vsz_eqb_true in H
           | H : vck_eqb _ _ = true |- _ => apply vck_eqb_true in H
           | H : Bool.eqb _ _ = true |- _ => apply Bool.eqb_prop in H
           | H : exn_eqb _ _ = true |- _ => apply exn_eqb_true in H
           end; congruence.
Qed.

Lemma call_eqb_refl : forall x, call_eqb x x = true.
Proof.
  destruct x; simpl;
    rewrite ?Nat.eqb_refl, ?onat_eqb_refl, ?src_eqb_refl, ?vsz_eqb_refl, ?vck_eqb_refl,
            ?Bool.eqb_reflx, ?exn_eqb_refl; reflexivity.
Qed.

Definition scenario_eqb (s t : scenario) : bool :=
  list_eqb call_eqb (sc_setup s) (sc_setup t) && list_eqb call_eqb (sc_calls s) (sc_calls t).

Lemma scenario_eqb_true : forall s t, scenario_eqb s t = true -> s = t.
Proof.
  intros [a b] [a' b']; unfold scenario_eqb; simpl; intros H.
  apply andb_true_iff in H. destruct H as [H1 H2].
  apply (list_eqb_true call_eqb call_eqb_true) in H1.
  apply (list_eqb_true call_eqb call_eqb_true) in H2. congruence.
Qed.

Lemma scenario_eqb_refl : forall s, scenario_eqb s s = true.
Proof.
  intros [a b]; unfold scenario_eqb; simpl.
  rewrite !(list_eqb_refl call_eqb call_eqb_refl). reflexivity.
Qed.

(* membership in a list of scenarios, decided *)
Definition in_list (l : list scenario) (s : scenario) : bool := existsb (scenario_eqb s) l.

Lemma in_list_In : forall l s, in_list l s = true -> In s l.
Proof.
  intros l s H. apply existsb_exists in H. destruct H as [t [Hin He]].
  apply scenario_eqb_true in He. subst. exact Hin.
Qed.

Lemma In_in_list : forall l s, In s l -> in_list l s = true.
Proof.
  intros l s H. apply existsb_exists. exists s. split; [exact H | apply scenario_eqb_refl].
Qed.

Lemma not_In_in_list : forall l s, ~ In s l -> in_list l s = false.
Proof.
  intros l s H. destruct (in_list l s) eqn:E; auto. apply in_list_In in E. contradiction.
Qed.

(* ---------- the structure of a menu ---------- *)

(* unordered pairs / triples with repetition, as two- / three-element call lists *)
Fixpoint upairs {A} (l : list A) : list (list A) :=
  match l with
  | [] => []
  | x :: l' => map (fun y => [x; y]) l ++ upairs l'
  end.

Fixpoint utriples {A} (l : list A) : list (list A) :=
  match l with
  | [] => []
  | x :: l' => map (cons x) (upairs l) ++ utriples l'
  end.

Definition mk_scenarios (states : list (list call)) (groups : list (list call)) : list scenario :=
  flat_map (fun st => map (fun cs => {| sc_setup := st; sc_calls := cs |}) groups) states.

Definition start_defined (s : scenario) : bool :=
  match start_world s with Some _ => true | None => false end.

Lemma start_defined_all : forall l,
  forallb start_defined l = true -> forall s, In s l -> exists w0, start_world s = Some w0.
Proof.
  intros l H s Hs. rewrite forallb_forall in H. specialize (H s Hs).
  unfold start_defined in H. destruct (start_world s) as [w|]; [exists w; reflexivity | discriminate].
Qed.

(* ---------- one exploration, three verdicts ---------- *)

(* [v_ok]: the boolean [scenario_ok] of Lin.v; [v_q]: an extra test [Q] holds of every stuck
   configuration; [v_all]: a second extra test [Qall] does (this one is also required of the
   scenarios on the known list).  All are read off the same list of explored configurations. *)
Definition scenario_verdicts (Q Qall : list call -> cfg -> bool) (s : scenario) : bool * bool * bool :=
  match start_world s with
  | Some w0 =>
      match explore (map api (sc_calls s)) sched_fuel [init_cfg (map api (sc_calls s)) w0] [] with
      | Some outs =>
          (forallb (fun c => lin_ok w0 (sc_calls s) c && stored_retrievable (sc_calls s) c) outs,
           forallb (Q (sc_calls s)) outs,
           forallb (Qall (sc_calls s)) outs)
      | None => (false, false, false)
      end
  | None => (false, false, false)
  end.

Definition v_ok (v : bool * bool * bool) : bool := fst (fst v).
Definition v_q (v : bool * bool * bool) : bool := snd (fst v).
Definition v_all (v : bool * bool * bool) : bool := snd v.

Lemma verdicts_ok : forall Q Qall s, v_ok (scenario_verdicts Q Qall s) = scenario_ok s.
Proof.
  intros Q Qall s. unfold scenario_verdicts, scenario_ok, check_all.
  destruct (start_world s) as [w0|]; [|reflexivity].
  destruct (explore _ _ _ _); reflexivity.
Qed.

Lemma verdicts_q_sound : forall Q Qall s w0,
  v_q (scenario_verdicts Q Qall s) = true -> start_world s = Some w0 ->
  forall sched c, exec (map api (sc_calls s)) sched (init_cfg (map api (sc_calls s)) w0) = Some c ->
             stuck (map api (sc_calls s)) c -> Q (sc_calls s) c = true.
Proof.
  intros Q Qall s w0 H Hw sched c Hex Hst. unfold scenario_verdicts in H. rewrite Hw in H.
  destruct (explore _ _ _ _) as [outs|] eqn:E; [|discriminate]. unfold v_q in H. simpl in H.
  rewrite forallb_forall in H. apply H.
  eapply explore_complete; eauto.
Qed.

Lemma verdicts_all_sound : forall Q Qall s w0,
  v_all (scenario_verdicts Q Qall s) = true -> start_world s = Some w0 ->
  forall sched c, exec (map api (sc_calls s)) sched (init_cfg (map api (sc_calls s)) w0) = Some c ->
             stuck (map api (sc_calls s)) c -> Qall (sc_calls s) c = true.
Proof.
  intros Q Qall s w0 H Hw sched c Hex Hst. unfold scenario_verdicts in H. rewrite Hw in H.
  destruct (explore _ _ _ _) as [outs|] eqn:E; [|discriminate]. unfold v_all in H. simpl in H.
  rewrite forallb_forall in H. apply H.
  eapply explore_complete; eauto.
Qed.

Definition no_extra (_ : list call) (_ : cfg) : bool := true.

(* every thread has returned and no identifier is left locked *)
Definition quiescent (calls : list call) (c : cfg) : bool :=
  finished (map api calls) c && is_nil (locks (snd c)).

Lemma quiescent_spec : forall calls c,
  quiescent calls c = true -> finished (map api calls) c = true /\ locks (snd c) = [].
Proof.
  intros calls c H. unfold quiescent in H. apply andb_true_iff in H. destruct H as [H1 H2].
  split; [exact H1|]. destruct (locks (snd c)); [reflexivity | discriminate].
Qed.

(* the closed boolean a shard evaluates: the model's verdict on s is exactly "s is not on the
   known list"; for the scenarios outside it the extra test Q holds too; Qall holds of all *)
Definition verdict_matches (Q Qall : list call -> cfg -> bool) (known : list scenario)
           (s : scenario) : bool :=
  let v := scenario_verdicts Q Qall s in
  v_all v && (if in_list known s then negb (v_ok v) else v_ok v && v_q v).

Section Lift.
  Variables Q Qall : list call -> cfg -> bool.
  Variable known : list scenario.
  Variable l : list scenario.
  Hypothesis H : forallb (verdict_matches Q Qall known) l = true.

  Lemma matches_ok_or_known : forallb (fun s => orb (scenario_ok s) (in_list known s)) l = true.
  Proof.
    rewrite forallb_forall in *. intros s Hs. specialize (H s Hs).
    unfold verdict_matches in H. rewrite verdicts_ok in H.
    apply andb_true_iff in H. destruct H as [_ H'].
    destruct (in_list known s); [apply orb_true_r|].
    apply andb_true_iff in H'. destruct H' as [H1 _]. rewrite H1. reflexivity.
  Qed.

  Lemma matches_known_fail : forall s, In s l -> In s known -> scenario_ok s = false.
  Proof.
    intros s Hs Hk. rewrite forallb_forall in H. specialize (H s Hs).
    unfold verdict_matches in H. rewrite verdicts_ok in H.
    apply andb_true_iff in H. destruct H as [_ H'].
    rewrite (In_in_list _ _ Hk) in H'. destruct (scenario_ok s); [discriminate | reflexivity].
  Qed.

  Lemma matches_extra : forall s, In s l -> ~ In s known ->
    v_q (scenario_verdicts Q Qall s) = true.
  Proof.
    intros s Hs Hk. rewrite forallb_forall in H. specialize (H s Hs).
    unfold verdict_matches in H. rewrite (not_In_in_list _ _ Hk) in H.
    apply andb_true_iff in H. destruct H as [_ H'].
    apply andb_true_iff in H'. tauto.
  Qed.

  Lemma matches_all : forall s, In s l -> v_all (scenario_verdicts Q Qall s) = true.
  Proof.
    intros s Hs. rewrite forallb_forall in H. specialize (H s Hs).
    unfold verdict_matches in H. apply andb_true_iff in H. tauto.
  Qed.
End Lift.

Lemma ok_or_known_sound : forall known l,
  forallb (fun s => orb (scenario_ok s) (in_list known s)) l = true ->
  forall s, In s l -> ~ In s known -> scenario_ok s = true.
Proof.
  intros known l H s Hs Hk. rewrite forallb_forall in H. specialize (H s Hs).
  rewrite (not_In_in_list _ _ Hk) in H. rewrite orb_false_r in H. exact H.
Qed.

Lemma forallb_app_intro : forall A (f : A -> bool) l1 l2,
  forallb f l1 = true -> forallb f l2 = true -> forallb f (l1 ++ l2) = true.
Proof. intros. rewrite forallb_app. rewrite H, H0. reflexivity. Qed.

(* every known scenario belongs to the menu: decided *)
Definition all_in (l known : list scenario) : bool := forallb (in_list l) known.
Lemma all_in_sound : forall l known, all_in l known = true -> forall s, In s known -> In s l.
Proof.
  intros l known H s Hs. unfold all_in in H. rewrite forallb_forall in H.
  apply in_list_In. apply H. exact Hs.
Qed.

(* ---------- the reader clause of C12, as a test on stuck configurations ---------- *)

(* every retrieve_metadata thread has returned one complete document or the not-found error *)
Definition reader_ok (calls : list call) (c : cfg) : bool :=
  forallb (fun i =>
             match nth_error calls i with
             | Some (CRetrMeta _ _) =>
                 match thread_result (map api calls) c i with
                 | Some (Val (VBytes (CData _ n k))) => Nat.eqb n k
                 | Some (Exn EValueError) => true
                 | _ => false
                 end
             | _ => true
             end)
          (seq 0 (length calls)).

Lemma reader_ok_spec : forall calls c,
  reader_ok calls c = true ->
  forall i p f, nth_error calls i = Some (CRetrMeta p f) ->
    (exists v n, thread_result (map api calls) c i = Some (Val (VBytes (CData v n n)))) \/
    thread_result (map api calls) c i = Some (Exn EValueError).
Proof.
  intros calls c H i p f Hi. unfold reader_ok in H. rewrite forallb_forall in H.
  assert (Hlt : i < length calls) by (apply nth_error_Some; congruence).
  specialize (H i). rewrite Hi in H.
  assert (Hin : In i (seq 0 (length calls))) by (apply in_seq; lia).
  specialize (H Hin).
  destruct (thread_result (map api calls) c i) as [[v|e]|]; try discriminate.
  - destruct v as [| | x |]; try discriminate. destruct x as [b n k| | |]; try discriminate.
    apply Nat.eqb_eq in H. subst. left. eauto.
  - destruct e; try discriminate. right. reflexivity.
Qed.

(* the weaker reading of "one complete version or a not-found error": FileNotFoundError counts as
   not found.  This one is required of every scenario, those on the known list included: a
   reader never returns a partial document. *)
Definition reader_weak_ok (calls : list call) (c : cfg) : bool :=
  forallb (fun i =>
             match nth_error calls i with
             | Some (CRetrMeta _ _) =>
                 match thread_result (map api calls) c i with
                 | Some (Val (VBytes (CData _ n k))) => Nat.eqb n k
                 | Some (Exn EValueError) | Some (Exn EFileNotFound) => true
                 | _ => false
                 end
             | _ => true
             end)
          (seq 0 (length calls)).

Lemma reader_weak_ok_spec : forall calls c,
  reader_weak_ok calls c = true ->
  forall i p f, nth_error calls i = Some (CRetrMeta p f) ->
    (exists v n, thread_result (map api calls) c i = Some (Val (VBytes (CData v n n)))) \/
    thread_result (map api calls) c i = Some (Exn EValueError) \/
    thread_result (map api calls) c i = Some (Exn EFileNotFound).
Proof.
  intros calls c H i p f Hi. unfold reader_weak_ok in H. rewrite forallb_forall in H.
  assert (Hlt : i < length calls) by (apply nth_error_Some; congruence).
  specialize (H i). rewrite Hi in H.
  assert (Hin : In i (seq 0 (length calls))) by (apply in_seq; lia).
  specialize (H Hin).
  destruct (thread_result (map api calls) c i) as [[v|e]|]; try discriminate.
  - destruct v as [| | x |]; try discriminate. destruct x as [b n k| | |]; try discriminate.
    apply Nat.eqb_eq in H. subst. left. eauto.
  - destruct e; try discriminate; right; [left | right]; reflexivity.
Qed.

Definition quiescent_reader (calls : list call) (c : cfg) : bool :=
  quiescent calls c && reader_weak_ok calls c.

(* ---------- a refutation witness, decided ---------- *)

(* the schedule runs to a configuration that cannot move and fails the C07/C12 test *)
Definition refutes (s : scenario) (sched : list nat) : bool :=
  match start_world s with
  | Some w0 =>
      match exec (map api (sc_calls s)) sched (init_cfg (map api (sc_calls s)) w0) with
      | Some c => is_nil (succs (map api (sc_calls s)) c) &&
                  negb (lin_ok w0 (sc_calls s) c && stored_retrievable (sc_calls s) c)
      | None => false
      end
  | None => false
  end.

Lemma refutes_sound : forall s sched,
  refutes s sched = true ->
  exists w0 c, start_world s = Some w0 /\
               exec (map api (sc_calls s)) sched (init_cfg (map api (sc_calls s)) w0) = Some c /\
               stuck (map api (sc_calls s)) c /\
               (lin_ok w0 (sc_calls s) c && stored_retrievable (sc_calls s) c) = false.
Proof.
  intros s sched H. unfold refutes in H.
  destruct (start_world s) as [w0|]; [|discriminate].
  destruct (exec _ _ _) as [c|] eqn:E; [|discriminate].
  apply andb_true_iff in H. destruct H as [H1 H2].
  exists w0, c. split; [reflexivity|]. split; [exact E|]. split.
  - apply succs_nil_stuck. destruct (succs (map api (sc_calls s)) c); [reflexivity | discriminate].
  - apply negb_true_iff in H2. exact H2.
Qed.

(* a refuting schedule makes [scenario_ok] false: the explorer cannot have missed it *)
Lemma refutes_not_ok : forall s sched, refutes s sched = true -> scenario_ok s = false.
Proof.
  intros s sched H. destruct (scenario_ok s) eqn:E; [|reflexivity].
  destruct (refutes_sound _ _ H) as [w0 [c [Hw [Hex [Hst Hf]]]]].
  destruct (scenario_sound s w0 E Hw sched c Hex Hst) as [H1 H2].
  rewrite H1, H2 in Hf. discriminate.
Qed.

Definition count_configs (s : scenario) : nat :=
  match start_world s with
  | Some w0 => explore_count (map api (sc_calls s)) sched_fuel [init_cfg (map api (sc_calls s)) w0] 0
  | None => 0
  end.

Lemma count_configs_spec : forall s n,
  count_configs s = n -> n <> 0 ->
  exists w0, start_world s = Some w0 /\
             explore_count (map api (sc_calls s)) sched_fuel [init_cfg (map api (sc_calls s)) w0] 0 = n.
Proof.
  intros s n H Hn. unfold count_configs in H.
  destruct (start_world s) as [w0|]; [exists w0; split; [reflexivity | exact H] | congruence].
Qed.
