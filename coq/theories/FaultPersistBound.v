(* FaultPersistBound.v — property C13, second clause, PERSISTENT faults: "after a failed
   store_object or tag_object the pid is unbound ... or its earlier binding is intact" — with the
   known finding D10 characterised exactly.

   A persistent failure ([FWait k true]) sticks to the destination [dest_of o] of the operation it
   is delivered to ([FStuck d]): every later fault site with that destination fails too.  The
   roll-back of tag_object (untag_object) reads the pid's reference file and the list of the cid.
   - When the failure sticks to any OTHER destination (a directory, the temp directory, a temp
     file, the source, an object file) the roll-back runs as without fault ([rfs_stuck_outside],
     [sites_in_untag]) and the analysis of FaultBound.v carries over.
   - When it sticks to the pid's reference file or to the list of the call's cid, and the pid had
     no reference before the call, the roll-back may fail too: the pid reference stays, with its
     line in the list (bound) or without it (half-bound).  This is the D10 family, and
     [persistent_fault_consistent_or_D10] says that NO other kind of damage exists: every state
     satisfying the representation invariant, every variant of store_object / tag_object, every
     k. *)
From HS Require Import Base PyVal FS Ops Spec Sched RefineLemmas Refine SeqProps CrashFault Integrity
  CrashGeneral FaultGeneral FaultSuccess FaultBound.

Local Arguments exec_op : simpl never.

(* ================================================================================== *)
(* 1. A program none of whose fault sites has the destination the failure sticks to    *)
(* ================================================================================== *)

Fixpoint sites_in {A} (D : dest -> Prop) (m : prog A) : Prop :=
  match m with
  | Vis o k => (is_site o = true -> D (dest_of o)) /\ forall x, sites_in D (k x)
  | _ => True
  end.

Lemma rfs_stuck_outside : forall (D : dest -> Prop) d, ~ D d ->
  forall A (m : prog A) w, sites_in D m ->
  rfs (FStuck d) w m =
  match run_seq w m with Some (w', a) => Some (w', a, FStuck d) | None => None end.
Proof.
  intros D d Hd A. induction m as [a|o k IH|]; intros w Hs; cbn [rfs run_seq]; auto.
  destruct Hs as [Ho Hk]. unfold fault_op.
  destruct (is_site o) eqn:Es.
  - destruct (dest_eqb d (dest_of o)) eqn:Ed.
    + exfalso. apply Hd. apply dest_eqb_true in Ed. subst d. apply Ho. reflexivity.
    + destruct (exec_op 0 o w) as [[x w1]|]; [|reflexivity]. apply IH. apply Hk.
  - destruct (exec_op 0 o w) as [[x w1]|]; [|reflexivity]. apply IH. apply Hk.
Qed.

Lemma sites_in_bind : forall A B D (m : prog A) (f : A -> prog B),
  sites_in D m -> (forall a, sites_in D (f a)) -> sites_in D (bind m f).
Proof.
  induction m as [a|o k IH|]; intros f Hm Hf; simpl; auto.
  destruct Hm as [Ho Hk]. split; auto.
Qed.

Lemma sites_in_mbind : forall A B D (m : M A) (f : A -> M B),
  sites_in D m -> (forall a, sites_in D (f a)) -> sites_in D (mbind m f).
Proof. intros. unfold mbind. apply sites_in_bind; auto. intros [a|e]; simpl; auto. Qed.

Lemma sites_in_catch : forall A D (m : M A), sites_in D m -> sites_in D (catch m).
Proof. intros. unfold catch. apply sites_in_bind; auto. intros r. exact I. Qed.

Lemma sites_in_try_finally : forall A D (m : M A) fin,
  sites_in D m -> sites_in D fin -> sites_in D (try_finally m fin).
Proof.
  intros A D m fin Hm Hf. unfold try_finally. apply sites_in_bind; auto. intros r.
  apply sites_in_bind; auto. intros [u|e]; exact I.
Qed.

Lemma sites_in_nosite : forall A D (m : prog A), nosite m -> sites_in D m.
Proof.
  induction m as [a|o k IH|]; intros H; simpl; auto. destruct H as [Hs Hk].
  split; [rewrite Hs; discriminate|]. intros x. apply IH. apply Hk.
Qed.

(* the reference files and their deletion markers *)
Definition ref_addr (a : addr) : Prop :=
  match a with APidRef _ | ACidRef _ | ADel _ => True | _ => False end.
Definition refD (d : dest) : Prop := exists a, d = DAddr a /\ ref_addr a.

Lemma refD_addr : forall a, ref_addr a -> refD (DAddr a).
Proof. intros a H. exists a. auto. Qed.

Ltac leaf_in := simpl; split; [intros _; try (apply refD_addr; exact I)|intros []; simpl; auto].

Lemma sites_in_probe : forall D a, sites_in D (probe a).
Proof. intros. simpl. split; [discriminate|intros []; exact I]. Qed.
Lemma sites_in_held : forall D cls x, sites_in D (held cls x).
Proof. intros. simpl. split; [discriminate|intros []; exact I]. Qed.
Lemma sites_in_size_lines : forall D a, sites_in D (size_lines a).
Proof. intros. simpl. split; [discriminate|intros []; exact I]. Qed.
Lemma sites_in_rewrite_write : forall D a p, sites_in D (rewrite_write a p).
Proof. intros. simpl. split; [discriminate|intros []; exact I]. Qed.
Lemma sites_in_funlock : forall D a, sites_in D (funlock a).
Proof. intros. simpl. split; [discriminate|intros []; exact I]. Qed.
Lemma sites_in_read : forall a, ref_addr a -> sites_in refD (read a).
Proof. intros a H. simpl. split; [intros _; apply refD_addr; exact H|intros []; exact I]. Qed.
Lemma sites_in_unit_op : forall o, (is_site o = true -> refD (dest_of o)) -> sites_in refD (unit_op o).
Proof. intros o H. simpl. split; [exact H|intros []; exact I]. Qed.
Lemma sites_in_swallow_op : forall o, (is_site o = true -> refD (dest_of o)) -> sites_in refD (swallow_op o).
Proof. intros o H. simpl. split; [exact H|intros []; exact I]. Qed.

Lemma sites_in_read_cid : forall a, ref_addr a -> sites_in refD (read_cid a).
Proof.
  intros a H. unfold read_cid. apply sites_in_mbind; [apply sites_in_read; exact H|].
  intros []; exact I.
Qed.
Lemma sites_in_is_in_refs : forall p a, ref_addr a -> sites_in refD (is_in_refs p a).
Proof.
  intros p a H. unfold is_in_refs, read_lines.
  apply sites_in_mbind; [|intros; exact I].
  apply sites_in_mbind; [apply sites_in_read; exact H|]. intros []; exact I.
Qed.

Lemma sites_in_find_object : forall p, sites_in refD (find_object p).
Proof.
  intros p. unfold find_object.
  repeat first
    [ apply sites_in_probe | apply sites_in_read_cid; exact I | apply sites_in_is_in_refs; exact I
    | apply sites_in_mbind; [|intros]
    | match goal with |- sites_in _ (if ?b then _ else _) => destruct b end
    | exact I ].
Qed.

Lemma sites_in_rfd : forall a, sites_in refD (rename_for_deletion a).
Proof.
  intros a. unfold rename_for_deletion. apply sites_in_mbind; [|intros; exact I].
  apply sites_in_unit_op. intros _. apply refD_addr. exact I.
Qed.

Lemma sites_in_delete_marked : forall l, (forall a, In a l -> ref_addr a) -> sites_in refD (delete_marked l).
Proof.
  induction l as [|a l IH]; intros Hl; cbn [delete_marked]; [exact I|].
  apply sites_in_mbind.
  - apply sites_in_swallow_op. intros _. apply refD_addr. apply Hl. left. reflexivity.
  - intros _. apply IH. intros x Hx. apply Hl. right. exact Hx.
Qed.

Lemma sites_in_validate : forall D c c', sites_in D (validate_and_check_cid_lock c c').
Proof.
  intros. unfold validate_and_check_cid_lock. destruct (negb (c =? c')); [exact I|].
  apply sites_in_mbind; [apply sites_in_held|]. intros h. destruct (negb h); exact I.
Qed.

Lemma sites_in_update_refs_remove : forall c p, sites_in refD (update_refs_remove (ACidRef c) p).
Proof.
  intros c p. unfold update_refs_remove.
  apply sites_in_mbind; [apply sites_in_probe|]. intros b. destruct (negb b); [exact I|].
  apply sites_in_mbind; [apply sites_in_unit_op; intros _; apply refD_addr; exact I|]. intros _.
  apply sites_in_try_finally; [|apply sites_in_funlock].
  apply sites_in_mbind; [apply sites_in_unit_op; intros _; apply refD_addr; exact I|]. intros _.
  apply sites_in_mbind; [apply sites_in_rewrite_write|]. intros k.
  apply sites_in_unit_op. discriminate.
Qed.

(* what the deletion-marker lists of the roll-back contain *)
Definition dels (l : list addr) : Prop := forall a, In a l -> ref_addr a.

Lemma Always_mark_pid_refs : forall p, Always (mark_pid_refs p) (postV dels).
Proof.
  intros p. unfold mark_pid_refs.
  eapply Always_mbindQ with (Q1 := fun r => match r with Val (Val d) => d = ADel (APidRef p) | _ => True end).
  - intros w w' r H. unfold catch in H. apply frun_bind in H. destruct H as (w1 & a & H1 & [_ ->]).
    pose proof (Always_rfd (APidRef p) _ _ _ H1) as Hq. destruct a as [d|e]; [exact Hq|exact I].
  - intros [d|e] Hd; apply Always_ret; simpl.
    + subst d. intros a [<-|[]]. exact I.
    + intros a [].
  - intros e _. exact I.
Qed.

Lemma Always_remove_pid_and_handle_cid : forall p c, Always (remove_pid_and_handle_cid p c) (postV dels).
Proof.
  intros p c. unfold remove_pid_and_handle_cid.
  eapply Always_mbindQ with (Q1 := fun r => match r with Val (Val l) => dels l | _ => True end).
  - intros w w' r H. unfold catch in H. apply frun_bind in H. destruct H as (w1 & a & H1 & [_ ->]).
    destruct a as [l|e]; [|exact I].
    assert (HA : Always (update_refs_remove (ACidRef c) p ;;;
                         n <- size_lines (ACidRef c) ;;
                         if Nat.eqb n 0 then d <- rename_for_deletion (ACidRef c) ;; ret [d] else ret [])
                        (postV dels)).
    { eapply Always_mbindQ with (Q1 := fun _ => True); [apply Always_any| |intros; exact I]. intros _ _.
      eapply Always_mbindQ with (Q1 := fun _ => True); [apply Always_any| |intros; exact I]. intros n _.
      destruct (Nat.eqb n 0).
      - eapply Always_mbindQ; [apply Always_rfd| |intros; exact I]. intros d ->.
        apply Always_ret. simpl. intros a [<-|[]]. exact I.
      - apply Always_ret. simpl. intros a []. }
    exact (HA _ _ _ H1).
  - intros [l|e] Hl; apply Always_ret; simpl; [exact Hl|intros a []].
  - intros e _. exact I.
Qed.

Lemma sites_in_mark_pid_refs : forall p, sites_in refD (mark_pid_refs p).
Proof.
  intros p. unfold mark_pid_refs. apply sites_in_mbind; [apply sites_in_catch; apply sites_in_rfd|].
  intros [d|e]; exact I.
Qed.

Lemma sites_in_remove_pid_and_handle_cid : forall p c, sites_in refD (remove_pid_and_handle_cid p c).
Proof.
  intros p c. unfold remove_pid_and_handle_cid. apply sites_in_mbind; [|intros [l|e]; exact I].
  apply sites_in_catch. apply sites_in_mbind; [apply sites_in_update_refs_remove|]. intros _.
  apply sites_in_mbind; [apply sites_in_size_lines|]. intros n. destruct (Nat.eqb n 0); [|exact I].
  apply sites_in_mbind; [apply sites_in_rfd|]. intros d. exact I.
Qed.

(* [Out d m]: in a state stuck to d, m runs as without fault *)
Definition Out {A} (d : dest) (m : prog A) : Prop :=
  forall w, rfs (FStuck d) w m =
            match run_seq w m with Some (w', a) => Some (w', a, FStuck d) | None => None end.

Lemma Out_sites : forall A d (m : prog A), ~ refD d -> sites_in refD m -> Out d m.
Proof. intros A d m Hd Hs w. apply (rfs_stuck_outside refD d Hd). exact Hs. Qed.

Lemma Out_mbindQ : forall A B d (m : M A) (f : A -> M B) (V : A -> Prop),
  Out d m -> Always m (postV V) -> (forall a, V a -> Out d (f a)) -> Out d (mbind m f).
Proof.
  intros A B d m f V Hm HV Hf w. rewrite rfs_mbind, run_mbind, Hm.
  destruct (run_seq w m) as [[w1 [a|e]]|] eqn:E; try reflexivity.
  apply Hf. exact (HV _ _ _ (run_seq_frun _ _ _ _ _ E)).
Qed.

Lemma Out_mbind : forall A B d (m : M A) (f : A -> M B),
  Out d m -> (forall a, Out d (f a)) -> Out d (mbind m f).
Proof.
  intros A B d m f Hm Hf. apply Out_mbindQ with (V := fun _ => True); auto.
  intros w w' r _. destruct r; exact I.
Qed.

Lemma Out_bind : forall A B d (m : prog A) (f : A -> prog B),
  Out d m -> (forall a, Out d (f a)) -> Out d (bind m f).
Proof.
  intros A B d m f Hm Hf w. rewrite rfs_bind, run_seq_bind, Hm.
  destruct (run_seq w m) as [[w1 a]|]; [apply Hf|reflexivity].
Qed.

Lemma Out_ret : forall A d (r : A), Out d (Ret r).
Proof. intros A d r w. reflexivity. Qed.

(* the roll-back never touches a directory, the temp directory, a temp file, an object *)
Lemma Out_untag_object : forall d p c, ~ refD d -> Out d (untag_object p c).
Proof.
  intros d p c Hd.
  assert (Htail1 : Out d (l1 <- mark_pid_refs p ;; delete_marked l1)).
  { eapply Out_mbindQ; [apply Out_sites; [exact Hd|apply sites_in_mark_pid_refs]|apply Always_mark_pid_refs|].
    intros l Hl. apply Out_sites; [exact Hd|]. apply sites_in_delete_marked. exact Hl. }
  assert (Htail2 : Out d (l1 <- mark_pid_refs p ;; l2 <- remove_pid_and_handle_cid p c ;;
                          delete_marked (l1 ++ l2))).
  { eapply Out_mbindQ; [apply Out_sites; [exact Hd|apply sites_in_mark_pid_refs]|apply Always_mark_pid_refs|].
    intros l1 Hl1.
    eapply Out_mbindQ; [apply Out_sites; [exact Hd|apply sites_in_remove_pid_and_handle_cid]
                       |apply Always_remove_pid_and_handle_cid|].
    intros l2 Hl2. apply Out_sites; [exact Hd|]. apply sites_in_delete_marked.
    intros a Ha. apply in_app_or in Ha. destruct Ha; auto. }
  assert (Hval : forall c', Out d (validate_and_check_cid_lock c c')).
  { intros c'. apply Out_sites; [exact Hd|apply sites_in_validate]. }
  assert (Hrc : Out d (read_cid (APidRef p))).
  { apply Out_sites; [exact Hd|apply sites_in_read_cid; exact I]. }
  unfold untag_object.
  apply Out_mbind; [apply Out_sites; [exact Hd|apply sites_in_held]|]. intros h.
  destruct (negb h); [apply Out_ret|].
  apply Out_mbind.
  { apply Out_sites; [exact Hd|]. apply sites_in_catch. apply sites_in_find_object. }
  intros [c'|e].
  - apply Out_mbind; [apply Hval|]. intros _. exact Htail2.
  - destruct e; try apply Out_ret.
    + (* EPidRefsDoesNotExist *)
      apply Out_mbind; [apply Out_sites; [exact Hd|apply sites_in_held]|]. intros h2.
      destruct (negb h2); [apply Out_ret|].
      eapply Out_mbindQ; [apply Out_sites; [exact Hd|apply sites_in_remove_pid_and_handle_cid]
                         |apply Always_remove_pid_and_handle_cid|].
      intros l2 Hl2. apply Out_sites; [exact Hd|]. apply sites_in_delete_marked. exact Hl2.
    + apply Out_mbind; [exact Hrc|]. intros c'. apply Out_mbind; [apply Hval|]. intros _. exact Htail1.
    + apply Out_mbind; [exact Hrc|]. intros c'. apply Out_mbind; [apply Hval|]. intros _. exact Htail2.
    + apply Out_mbind; [exact Hrc|]. intros c'. apply Out_mbind; [apply Hval|]. intros _. exact Htail1.
Qed.

(* ================================================================================== *)
(* 2. Leaves under a pending persistent fault and in a stuck state                     *)
(* ================================================================================== *)

Lemma rfs_unit_site_0p : forall o w, is_site o = true ->
  rfs (FWait 0 true) w (unit_op o) = Some (w, Exn EOSError, FStuck (dest_of o)).
Proof.
  intros o w Hs. unfold unit_op. cbn [rfs]. unfold fault_op. rewrite Hs. cbn [rfs].
  unfold fault_op. reflexivity.
Qed.
Lemma rfs_unit_site_Sp : forall o j w, is_site o = true ->
  rfs (FWait (S j) true) w (unit_op o) =
  match run_seq w (unit_op o) with Some (w', a) => Some (w', a, FWait j true) | None => None end.
Proof.
  intros o j w Hs. unfold unit_op. simpl. unfold fault_op. rewrite Hs.
  destruct (exec_op 0 o w) as [[x w']|]; auto. destruct x; reflexivity.
Qed.
Lemma rfs_read_0p : forall a w,
  rfs (FWait 0 true) w (read a) = Some (w, Exn EOSError, FStuck (DAddr a)).
Proof. reflexivity. Qed.
Lemma rfs_read_Sp : forall a j w,
  rfs (FWait (S j) true) w (read a) =
  match run_seq w (read a) with Some (w', r) => Some (w', r, FWait j true) | None => None end.
Proof.
  intros. unfold read. simpl. destruct (exec_op 0 (Read a) w) as [[x w']|]; auto. destruct x; reflexivity.
Qed.
Lemma rfs_mktmp_0p : forall ar init w,
  rfs (FWait 0 true) w (mktmp ar init) = Some (w, Exn EOSError, FStuck (DTmpDir ar)).
Proof. reflexivity. Qed.
Lemma rfs_mktmp_Sp : forall ar init j w,
  rfs (FWait (S j) true) w (mktmp ar init) =
  match run_seq w (mktmp ar init) with Some (w', r) => Some (w', r, FWait j true) | None => None end.
Proof. reflexivity. Qed.

Lemma rfs_unit_site_stuck : forall o d w, is_site o = true ->
  rfs (FStuck d) w (unit_op o) =
  if dest_eqb d (dest_of o) then Some (w, Exn EOSError, FStuck d)
  else match run_seq w (unit_op o) with Some (w', a) => Some (w', a, FStuck d) | None => None end.
Proof.
  intros o d w Hs. unfold unit_op. simpl. unfold fault_op. rewrite Hs.
  destruct (dest_eqb d (dest_of o)); [reflexivity|].
  destruct (exec_op 0 o w) as [[x w']|]; auto. destruct x; reflexivity.
Qed.
Lemma rfs_read_stuck : forall a d w,
  rfs (FStuck d) w (read a) =
  if dest_eqb d (DAddr a) then Some (w, Exn EOSError, FStuck d)
  else match run_seq w (read a) with Some (w', r) => Some (w', r, FStuck d) | None => None end.
Proof.
  intros. unfold read. simpl. unfold fault_op. cbn [is_site dest_of].
  destruct (dest_eqb d (DAddr a)); [reflexivity|].
  destruct (exec_op 0 (Read a) w) as [[x w']|]; auto. destruct x; reflexivity.
Qed.
Lemma rfs_mktmp_stuck : forall ar init d w,
  rfs (FStuck d) w (mktmp ar init) =
  if dest_eqb d (DTmpDir ar) then Some (w, Exn EOSError, FStuck d)
  else match run_seq w (mktmp ar init) with Some (w', r) => Some (w', r, FStuck d) | None => None end.
Proof.
  intros. unfold mktmp. simpl. unfold fault_op. cbn [is_site dest_of].
  destruct (dest_eqb d (DTmpDir ar)); reflexivity.
Qed.
Lemma rfs_swallow_remove_stuck : forall a d w,
  rfs (FStuck d) w (swallow_op (Remove a)) =
  if dest_eqb d (DAddr a) then Some (w, Val tt, FStuck d)
  else match run_seq w (swallow_op (Remove a)) with Some (w', r) => Some (w', r, FStuck d) | None => None end.
Proof.
  intros. unfold swallow_op. simpl. unfold fault_op. cbn [is_site dest_of].
  destruct (dest_eqb d (DAddr a)); [reflexivity|].
  destruct (exec_op 0 (Remove a) w) as [[x w']|]; auto. destruct x; reflexivity.
Qed.
Lemma rfs_size_lines : forall a st w,
  rfs st w (size_lines a) =
  match run_seq w (size_lines a) with Some (w', r) => Some (w', r, st) | None => None end.
Proof.
  intros. unfold size_lines. simpl. unfold fault_op. cbn [is_site].
  destruct (exec_op 0 (SizeLines a) w) as [[x w']|]; auto. destruct x; reflexivity.
Qed.
Lemma rfs_rewrite_write : forall a p st w,
  rfs st w (rewrite_write a p) =
  match run_seq w (rewrite_write a p) with Some (w', r) => Some (w', r, st) | None => None end.
Proof.
  intros. unfold rewrite_write. simpl. unfold fault_op. cbn [is_site].
  destruct (exec_op 0 (RewriteWrite a p) w) as [[x w']|]; auto. destruct x; reflexivity.
Qed.

Ltac pleaf :=
  first [ rewrite rfs_unit_site_Sp by reflexivity | rewrite rfs_read_Sp | rewrite rfs_mktmp_Sp
        | rewrite rfs_unit_site_0p by reflexivity | rewrite rfs_read_0p | rewrite rfs_mktmp_0p
        | rewrite rfs_unit_site_stuck by reflexivity | rewrite rfs_read_stuck | rewrite rfs_mktmp_stuck
        | rewrite rfs_swallow_remove_stuck | rewrite rfs_size_lines | rewrite rfs_rewrite_write ];
  cbn [dest_eqb dest_of].
Ltac prun1 :=
  first [ fstruct | pleaf | fleaf
        | rewrite run_funlock_free by (lk; first [reflexivity|assumption]) | step1 | sub2 ]; lk.
Ltac pgo := repeat first [ prun1 | progress lk | neq_rw | name_tmp2 ].

(* ================================================================================== *)
(* 3. tag_object under a persistent fault, case by case                                *)
(* ================================================================================== *)

(* the D10 outcome of tag_object(p, c) started from m: the failure sticks to the reference file of
   p or to the list of c, p had no reference, and now has one naming c — with its line in the list
   of c, or with that list as it was (half-bound); the other lists are as they were *)
Definition d10_post (m : fmap) (p : pid) (c : cid) (M' : fmap) (st' : fstate) : Prop :=
  (st' = FStuck (DAddr (APidRef p)) \/ st' = FStuck (DAddr (ACidRef c))) /\
  lookup (APidRef p) m = None /\
  lookup (APidRef p) M' = Some (CCid c) /\
  (forall k, k <> c -> lookup (ACidRef k) M' = lookup (ACidRef k) m) /\
  ((exists l, lookup (ACidRef c) M' = Some (CLines l) /\ In p l) \/
   (lookup (ACidRef c) M' = lookup (ACidRef c) m /\ lookup (ACidRef c) m <> None)).

Definition ptag_post (m : fmap) (p : pid) (c : cid) (M' : fmap) (R : outcome unit) (st' : fstate) : Prop :=
  match R with
  | Val _ => True
  | Exn _ => unbound_post m p c M' \/ d10_post m p c M' st'
  end.


Ltac not_ref :=
  let x := fresh "x" in let H := fresh "H" in let H2 := fresh "H2" in
  intros (x & H & H2); first [discriminate H | inversion H; subst; exact H2].

Ltac unb_fin U1 U3 U4 :=
  eexists; eexists; eexists; split; [reflexivity|]; left;
  split; [exact U1|]; split; [|exact U4];
  let k := fresh "k" in let Hk := fresh "Hk" in
  intros k Hk; rewrite (U3 k Hk); apply Nat.eqb_neq in Hk; lk; rewrite ?Hk; lk; reflexivity.

Ltac elsewhere_branch :=
  pgo;
  match goal with
  | |- context [rfs (FStuck ?d) (mkWorld ?M ?L0) (untag_object ?p ?c)] =>
      let Hd := fresh "Hd" in
      assert (Hd : ~ refD d) by not_ref;
      rewrite (Out_untag_object d p c Hd (mkWorld M L0));
      let M' := fresh "M'" in let Hu := fresh "Hu" in
      let U1 := fresh "U1" in let U2 := fresh "U2" in let U3 := fresh "U3" in let U4 := fresh "U4" in
      destruct (untag_rollback M L0 p c) as (M' & Hu & U1 & U2 & U3 & U4);
      [ lk; reflexivity
      | lk; reflexivity
      | lk; first [reflexivity | assumption]
      | let x := fresh "x" in let H := fresh "H" in
        intros x; lk; intros H; first [discriminate H | inversion H; reflexivity]
      | let y := fresh "y" in let H := fresh "H" in
        intros y; lk; intros H; first [discriminate H | inversion H; eauto]
      | rewrite Hu; pgo; unb_fin U1 U3 U4 ]
  end.

Lemma rfs_update_refs_remove_stuck : forall d a p w, dest_eqb d (DAddr a) = false ->
  rfs (FStuck d) w (update_refs_remove a p) =
  match run_seq w (update_refs_remove a p) with Some (w', r) => Some (w', r, FStuck d) | None => None end.
Proof.
  intros d a p w Hd. apply (rfs_stuck_outside (fun x => x = DAddr a)).
  - intros ->. cbn [dest_eqb] in Hd. rewrite addr_eqb_refl in Hd. discriminate.
  - unfold update_refs_remove.
    apply sites_in_mbind; [apply sites_in_probe|]. intros b. destruct (negb b); [exact I|].
    apply sites_in_mbind; [simpl; split; [reflexivity|intros []; exact I]|]. intros _.
    apply sites_in_try_finally; [|apply sites_in_funlock].
    apply sites_in_mbind; [simpl; split; [reflexivity|intros []; exact I]|]. intros _.
    apply sites_in_mbind; [apply sites_in_rewrite_write|]. intros k.
    simpl; split; [discriminate|intros []; exact I].
Qed.

Ltac pgo2 :=
  repeat first [ rewrite rfs_update_refs_remove_stuck by (cbn [dest_eqb]; lk; reflexivity)
               | prun1 | progress lk | neq_rw | name_tmp2 ].

Ltac special :=
  pgo; unfold untag_object, find_object, validate_and_check_cid_lock, mark_pid_refs,
    remove_pid_and_handle_cid, rename_for_deletion, read_cid, is_in_refs, read_lines;
  repeat (pgo2; cbn [delete_marked app]);
  unfold update_refs_remove;
  repeat (pgo2; cbn [delete_marked app]);
  try (match goal with |- context [filter_lines ?p ?l] =>
         let Hnew := fresh "Hnew" in
         destruct (filter_lines p l) as [|? ?] eqn:Hnew; repeat (pgo2; cbn [delete_marked app]) end).


Ltac neq_k :=
  let k := fresh "k" in let Hk := fresh "Hk" in
  intros k Hk; apply Nat.eqb_neq in Hk; lk; rewrite ?Hk; lk; reflexivity.
Ltac notin_l :=
  let l0 := fresh "l0" in let H := fresh "H" in
  intros l0; lk; intros H;
  first [ discriminate H
        | inversion H; subst;
          first [ apply (proj1 (memb_false_not_In Nat.eqb nat_eqb_true Nat.eqb_refl _ _)); assumption
                | apply filter_lines_notin
                | match goal with Hn : filter_lines _ _ = _ |- _ => rewrite <- Hn; apply filter_lines_notin end
                | intros [] ] ].
Ltac fin_unb := left; split; [lk; reflexivity|]; split; [neq_k|notin_l].
Ltac fin_d10 :=
  right; split; [first [left; reflexivity|right; reflexivity]|];
  split; [assumption|]; split; [lk; reflexivity|]; split; [neq_k|];
  first [ left; eexists; split; [lk; reflexivity|];
          first [left; reflexivity | apply in_or_app; right; left; reflexivity]
        | right; split; [lk; reflexivity|lk; discriminate] ].
Ltac pfin :=
  eexists; eexists; eexists; split; [reflexivity|]; first [exact I | fin_unb | fin_d10].
Ltac psite j := destruct j as [|j]; [first [elsewhere_branch | special; pfin]|pgo].

Lemma ptag_absent : forall m L p c j,
  lookup (APidRef p) m = None -> lookup (ACidRef c) m = None ->
  memb lock_eqb (LRefPid, IPid p) L = false -> memb lock_eqb (LCid, ICid c) L = false ->
  memb lock_eqb (LFile, IDoc (ACidRef c)) L = false ->
  exists M' R st', rfs (FWait j true) (mkWorld m L) (tag_object p c) = Some (mkWorld M' L, R, st') /\
                   ptag_post m p c M' R st'.
Proof.
  intros m L p c j Hp Hc HL1 HL2 HL3. unfold ptag_post.
  unfold tag_object, store_refs_body, and_sc, notm, write_refs_tmp, is_in_refs, read_lines,
    update_refs_add, verify_refs, read_cid, is_in_refs, read_lines.
  pgo. do 5 (psite j).
  assert (Hne : Nat.eqb n n0 = false).
  { destruct (Nat.eqb n n0) eqn:E; auto. apply Nat.eqb_eq in E. subst n0.
    rewrite lookup_update_eq in Hab0. discriminate. }
  assert (Hne' : Nat.eqb n0 n = false) by (rewrite Nat.eqb_sym; exact Hne).
  psite j. psite j. psite j. psite j. psite j. pfin.
Qed.

Lemma ptag_present : forall m L p c l j,
  lookup (APidRef p) m = None -> lookup (ACidRef c) m = Some (CLines l) -> memb Nat.eqb p l = false ->
  memb lock_eqb (LRefPid, IPid p) L = false -> memb lock_eqb (LCid, ICid c) L = false ->
  memb lock_eqb (LFile, IDoc (ACidRef c)) L = false ->
  exists M' R st', rfs (FWait j true) (mkWorld m L) (tag_object p c) = Some (mkWorld M' L, R, st') /\
                   ptag_post m p c M' R st'.
Proof.
  intros m L p c l j Hp Hc Hm HL1 HL2 HL3. unfold ptag_post.
  unfold tag_object, store_refs_body, and_sc, notm, write_refs_tmp, is_in_refs, read_lines,
    update_refs_add, verify_refs, read_cid, is_in_refs, read_lines.
  pgo. do 4 (psite j). psite j. 
  do 7 (psite j). pfin.
Qed.

(* ---------- pid already bound ---------- *)

Ltac mismatch_branch :=
  pgo;
  match goal with
  | |- context [rfs (FStuck ?d) (mkWorld ?M ?L0) (untag_object ?p ?c)] =>
      let Hd := fresh "Hd" in
      assert (Hd : ~ refD d) by not_ref;
      rewrite (Out_untag_object d p c Hd (mkWorld M L0));
      erewrite untag_mismatch by (lk; first [reflexivity | eassumption]); pgo;
      eexists; eexists; reflexivity
  end.

Lemma ptag_bound_other_present : forall m L p c c0 l0 l j,
  lookup (APidRef p) m = Some (CCid c0) -> lookup (ACidRef c0) m = Some (CLines l0) ->
  memb Nat.eqb p l0 = true -> Nat.eqb c c0 = false ->
  lookup (ACidRef c) m = Some (CLines l) ->
  memb lock_eqb (LRefPid, IPid p) L = false -> memb lock_eqb (LCid, ICid c) L = false ->
  exists e st', rfs (FWait j true) (mkWorld m L) (tag_object p c) = Some (mkWorld m L, Exn e, st').
Proof.
  intros m L p c c0 l0 l j Hp Hc0 Hm Hne Hc HL1 HL2.
  assert (Hne' : Nat.eqb c0 c = false) by (rewrite Nat.eqb_sym; exact Hne).
  unfold tag_object, store_refs_body, and_sc, notm, verify_refs, read_cid.
  pgo. destruct j as [|j]; [mismatch_branch|pgo].
  destruct j as [|j]; [mismatch_branch|pgo].
  destruct j as [|j]; pgo; try (eexists; eexists; reflexivity).
Qed.

Lemma ptag_bound_other_absent : forall m L p c c0 l0 j,
  lookup (APidRef p) m = Some (CCid c0) -> lookup (ACidRef c0) m = Some (CLines l0) ->
  memb Nat.eqb p l0 = true -> Nat.eqb c c0 = false ->
  lookup (ACidRef c) m = None ->
  memb lock_eqb (LRefPid, IPid p) L = false -> memb lock_eqb (LCid, ICid c) L = false ->
  exists e st', rfs (FWait j true) (mkWorld m L) (tag_object p c) = Some (mkWorld m L, Exn e, st').
Proof.
  intros m L p c c0 l0 j Hp Hc0 Hm Hne Hc HL1 HL2.
  unfold tag_object, store_refs_body, and_sc, notm, verify_refs, read_cid.
  pgo. destruct j as [|j]; [mismatch_branch|pgo].
  destruct j as [|j]; [mismatch_branch|pgo].
  eexists; eexists; reflexivity.
Qed.

Ltac rollback_branch :=
  pgo;
  match goal with
  | |- context [rfs (FStuck ?d) (mkWorld ?M ?L0) (untag_object ?p ?c)] =>
      let Hd := fresh "Hd" in
      assert (Hd : ~ refD d) by not_ref;
      rewrite (Out_untag_object d p c Hd (mkWorld M L0));
      let M' := fresh "M'" in let Hu := fresh "Hu" in
      let U1 := fresh "U1" in let U2 := fresh "U2" in let U3 := fresh "U3" in let U4 := fresh "U4" in
      destruct (untag_rollback M L0 p c) as (M' & Hu & U1 & U2 & U3 & U4);
      [ lk; reflexivity
      | lk; reflexivity
      | lk; first [reflexivity | assumption]
      | let x := fresh "x" in let H := fresh "H" in
        intros x; lk; intros H; first [discriminate H | inversion H; reflexivity]
      | let y := fresh "y" in let H := fresh "H" in
        intros y; lk; intros H; first [discriminate H | inversion H; eauto]
      | rewrite Hu; pgo;
        eexists; eexists; eexists; split; [reflexivity|]; right;
        split; [exact U1|]; split; [exact U3|exact U4] ]
  end.

Lemma ptag_bound_same : forall m L p c l j,
  lookup (APidRef p) m = Some (CCid c) -> lookup (ACidRef c) m = Some (CLines l) ->
  memb Nat.eqb p l = true ->
  memb lock_eqb (LRefPid, IPid p) L = false -> memb lock_eqb (LCid, ICid c) L = false ->
  memb lock_eqb (LFile, IDoc (ACidRef c)) L = false ->
  exists M' e st', rfs (FWait j true) (mkWorld m L) (tag_object p c) = Some (mkWorld M' L, Exn e, st') /\
                   (M' = m \/ unbound_post m p c M').
Proof.
  intros m L p c l j Hp Hc Hm HL1 HL2 HL3.
  unfold tag_object, store_refs_body, and_sc, notm, verify_refs, read_cid, is_in_refs, read_lines.
  pgo. destruct j as [|j]; [rollback_branch|pgo].
  destruct j as [|j]; [rollback_branch|pgo].
  destruct j as [|j]; pgo; try (eexists; eexists; eexists; split; [reflexivity|left; reflexivity]).
  destruct j as [|j]; pgo; eexists; eexists; eexists; (split; [reflexivity|left; reflexivity]).
Qed.

(* ================================================================================== *)
(* 4. tag_object, any binding                                                          *)
(* ================================================================================== *)

Lemma ptag_unbound : forall m L p c j,
  lookup (APidRef p) m = None ->
  (forall y, lookup (ACidRef c) m = Some y -> exists l, y = CLines l /\ memb Nat.eqb p l = false) ->
  memb lock_eqb (LRefPid, IPid p) L = false -> memb lock_eqb (LCid, ICid c) L = false ->
  memb lock_eqb (LFile, IDoc (ACidRef c)) L = false ->
  exists M' R st', rfs (FWait j true) (mkWorld m L) (tag_object p c) = Some (mkWorld M' L, R, st') /\
                   ptag_post m p c M' R st'.
Proof.
  intros m L p c j Hp Hc HL1 HL2 HL3.
  destruct (lookup (ACidRef c) m) as [y|] eqn:E.
  - destruct (Hc y eq_refl) as (l & -> & Hm). eapply ptag_present; eauto.
  - apply ptag_absent; assumption.
Qed.

Lemma ptag_any : forall m L p c j w' r st',
  refs_ok m p ->
  memb lock_eqb (LRefPid, IPid p) L = false -> memb lock_eqb (LCid, ICid c) L = false ->
  memb lock_eqb (LFile, IDoc (ACidRef c)) L = false ->
  rfs (FWait j true) (mkWorld m L) (tag_object p c) = Some (w', r, st') ->
  exists M', w' = mkWorld M' L /\
    match r with
    | Val _ => True
    | Exn _ =>
        M' = m \/
        (unbound_post m p c M' /\
         (lookup (APidRef p) m = None \/ lookup (APidRef p) m = Some (CCid c))) \/
        d10_post m p c M' st'
    end.
Proof.
  intros m L p c j w' r st' (W1 & W2 & I1 & I2) HL1 HL2 HL3 H.
  destruct (lookup (APidRef p) m) as [x|] eqn:Hp.
  - destruct (W1 x eq_refl) as [c0 ->]. destruct (I1 c0 eq_refl) as (l0 & Hc0 & Hin).
    assert (Hm : memb Nat.eqb p l0 = true)
      by (apply (memb_In Nat.eqb nat_eqb_true Nat.eqb_refl); exact Hin).
    destruct (Nat.eqb c c0) eqn:Ecc.
    + apply Nat.eqb_eq in Ecc. subst c0.
      destruct (ptag_bound_same m L p c l0 j Hp Hc0 Hm HL1 HL2 HL3) as (M' & e1 & st1 & Hr & Hpost).
      rewrite Hr in H. inversion H; subst. exists M'. split; [reflexivity|].
      destruct Hpost as [->|Hu]; [left; reflexivity|right; left; auto].
    + destruct (lookup (ACidRef c) m) as [y|] eqn:Hc.
      * destruct (W2 c y Hc) as [l ->].
        destruct (ptag_bound_other_present m L p c c0 l0 l j Hp Hc0 Hm Ecc Hc HL1 HL2) as (e1 & st1 & Hr).
        rewrite Hr in H. inversion H; subst. exists m. split; [reflexivity|left; reflexivity].
      * destruct (ptag_bound_other_absent m L p c c0 l0 j Hp Hc0 Hm Ecc Hc HL1 HL2) as (e1 & st1 & Hr).
        rewrite Hr in H. inversion H; subst. exists m. split; [reflexivity|left; reflexivity].
  - assert (Hc : forall y, lookup (ACidRef c) m = Some y ->
                           exists l, y = CLines l /\ memb Nat.eqb p l = false).
    { intros y Hy. destruct (W2 c y Hy) as [l ->]. exists l. split; [reflexivity|].
      apply (proj2 (memb_false_not_In Nat.eqb nat_eqb_true Nat.eqb_refl p l)).
      intros Hin. pose proof (I2 c l Hy Hin) as Hb. discriminate Hb. }
    destruct (ptag_unbound m L p c j Hp Hc HL1 HL2 HL3) as (M' & R & st1 & Hr & Hpost).
    rewrite Hr in H. inversion H; subst. exists M'. split; [reflexivity|].
    destruct r as [u|e1]; [exact I|]. destruct Hpost as [Hu|Hd]; [right; left; auto|right; right; exact Hd].
Qed.

(* ================================================================================== *)
(* 5. store_object(pid, ...), every variant                                            *)
(* ================================================================================== *)

(* the cid handed to tag_object is the cid of the content *)
Lemma Always_mgc_cid : forall po b n sz ck,
  Always (move_and_get_checksums po b n sz ck) (postV (fun c => c = b)).
Proof.
  intros po b n sz ck. unfold move_and_get_checksums. cbv zeta.
  repeat first
    [ apply Always_ret; simpl; first [reflexivity | exact I]
    | apply Always_bad
    | eapply Always_mbindQ with (Q1 := fun _ => True); [apply Always_any|intros ? _|intros; exact I]
    | match goal with |- Always (match ?x with _ => _ end) _ => destruct x end ].
Qed.

Lemma d10_post_same : forall m m3 p c M' st',
  same_refs p m m3 -> d10_post m3 p c M' st' -> d10_post m p c M' st'.
Proof.
  intros m m3 p c M' st' [E1 E2] (D1 & D2 & D3 & D4 & D5). unfold d10_post.
  rewrite <- E1, <- E2. split; [exact D1|]. split; [exact D2|]. split; [exact D3|].
  split; [intros k Hk; rewrite <- E2; apply D4; exact Hk|exact D5].
Qed.

Definition TrueW (w : world) : Prop := True.
Lemma TrueW_pres : forall o w x w', TrueW w -> exec_op 0 o w = Some (x, w') -> TrueW w'.
Proof. intros. exact I. Qed.

(* a pending persistent fault stays pending through a program that returns a value *)
Lemma rfs_val_pending : forall A (m : M A) j w w' a st',
  RFP m isExn -> rfs (FWait j true) w m = Some (w', Val a, st') -> exists j', st' = FWait j' true.
Proof.
  intros A m j w w' a st' Hm H.
  destruct (rfs_wait_cases _ _ _ _ _ _ _ _ H) as [[Hj _]|[[Hp _]|[_ [d ->]]]];
    [exact Hj|discriminate|].
  exfalso. exact (Hm j w w' (Val a) d H).
Qed.

Definition pexn_post (m : fmap) (p : pid) (b : cid) (res : option (world * outcome value * fstate)) : Prop :=
  match res with
  | Some (w', Exn _, st') =>
      locks w' = [] /\
      (same_refs p m (fs w') \/ pid_unbound (fs w') p \/ d10_post m p b (fs w') st')
  | _ => True
  end.

Lemma pstore_any : forall m p s b n sz ck j,
  refs_ok m p ->
  pexn_post m p b (rfs (FWait j true) (mkWorld m []) (store_object (Some p) s b n sz ck)).
Proof.
  intros m p s b n sz ck j Hok. unfold pexn_post, store_object.
  rewrite rfs_mbind, rfs_peek. fgo.
  match goal with |- context [rfs ?st ?w (open_source s)] =>
    destruct (rfs st w (open_source s)) as [[[w2 r2] st2]|] eqn:E2 end; [|exact I].
  destruct (rfs_keeps_refs _ _ _ _ _ _ _ _ p (fun a _ _ => keeps_open_source a s) E2) as (m2 & -> & R2).
  destruct r2 as [u|e2]; fgo; [|split; [reflexivity|left; exact R2]].
  destruct (rfs_val_pending _ _ _ _ _ _ _ (proj2 (OkB_open_source TrueW TrueW_pres s)) E2) as [j2 ->].
  match goal with |- context [rfs ?st ?w (move_and_get_checksums ?po b n sz ck)] =>
    destruct (rfs st w (move_and_get_checksums po b n sz ck)) as [[[w3 r3] st3]|] eqn:E3 end; [|exact I].
  destruct (rfs_keeps_refs _ _ _ _ _ _ _ _ p
              (fun a Ha Ho => keeps_mgc a (Some p) b n sz ck Ha Ho) E3) as (m3 & -> & R3).
  pose proof (same_refs_trans _ _ _ _ R2 R3) as R13.
  destruct r3 as [c|e3]; fgo; [|split; [reflexivity|left; exact R13]].
  destruct (rfs_val_pending _ _ _ _ _ _ _
              (proj2 (OkB_move_and_get_checksums TrueW TrueW_pres (Some p) b n sz ck)) E3) as [j3 ->].
  pose proof (Always_mgc_cid (Some p) b n sz ck _ _ _ (rfs_frun _ _ _ _ _ _ _ E3)) as Hcb.
  simpl in Hcb. subst c.
  match goal with |- context [rfs ?st ?w (tag_object p b)] =>
    destruct (rfs st w (tag_object p b)) as [[[w4 r4] st4]|] eqn:E4 end; [|exact I].
  apply ptag_any in E4; try reflexivity; [|eapply refs_ok_same; [exact R13|exact Hok]].
  destruct E4 as (M' & -> & Hpost).
  destruct r4 as [u4|e4].
  - fgo. exact I.
  - fgo. split; [reflexivity|].
    destruct Hpost as [->|[[Hu Hb]|Hd]]; [left; exact R13|right; left|right; right].
    + eapply unbound_post_unbound; [|exact Hu|exact Hb]. eapply refs_ok_same; [exact R13|exact Hok].
    + eapply d10_post_same; [exact R13|exact Hd].
Qed.

(* ================================================================================== *)
(* 6. The operation the persistent failure is delivered to                             *)
(* ================================================================================== *)

(* the destination a delivered persistent failure sticks to is that of the k-th fault site of the
   fault-free run *)
Lemma rfs_stuck_site_op : forall A (m : prog A) k w w' r d w1 r1,
  rfs (FWait k true) w m = Some (w', r, FStuck d) -> run_seq w m = Some (w1, r1) ->
  exists o, site_op k w m = Some o /\ dest_of o = d.
Proof.
  induction m as [a|o kk IH|]; intros k w w' r d w1 r1 H Hr; cbn [rfs run_seq site_op] in *.
  - inversion H.
  - rewrite fault_op_wait in H.
    destruct (exec_op 0 o w) as [[x w2]|] eqn:Ex; [|discriminate].
    destruct (is_site o).
    + destruct k as [|k].
      * exists o. split; [reflexivity|]. apply rfs_stuck_state in H. inversion H. reflexivity.
      * eapply IH; eauto.
    + eapply IH; eauto.
  - discriminate.
Qed.

Lemma api_run_total : forall w0 c, Inv w0 -> exists w1 r1, run_seq w0 (api c) = Some (w1, r1).
Proof.
  intros w0 c HI.
  destruct (fault_returns_no_lock w0 c FDone HI (noflock_done _ _ _)) as (w1 & r1 & Hr & _).
  rewrite run_fault_done in Hr. eauto.
Qed.

(* ================================================================================== *)
(* 7. C13, second clause, PERSISTENT faults: consistent, or the D10 family             *)
(* ================================================================================== *)

(* The known finding, stated positively.  The k-th fault site of the call (the operation the
   persistent failure is delivered to) has the pid's reference file or the list of the call's cid as
   its destination; the pid had no reference before the call; after it the reference exists and
   names the call's cid — with the pid's line in the list of that cid (D10-bound), or with that list
   as it was before the call, without the line (D10-half-bound).  Every other cid list is as
   before. *)
Definition D10_family (w0 : world) (c : call) (p : pid) (k : nat) (w : world) : Prop :=
  exists cd o,
    call_cid c = Some cd /\
    site_op k w0 (api c) = Some o /\
    (dest_of o = DAddr (APidRef p) \/ dest_of o = DAddr (ACidRef cd)) /\
    lookup (APidRef p) (fs w0) = None /\
    lookup (APidRef p) (fs w) = Some (CCid cd) /\
    (forall k', k' <> cd -> lookup (ACidRef k') (fs w) = lookup (ACidRef k') (fs w0)) /\
    (   (exists l, lookup (ACidRef cd) (fs w) = Some (CLines l) /\ In p l)
     \/ (lookup (ACidRef cd) (fs w) = lookup (ACidRef cd) (fs w0) /\
         lookup (ACidRef cd) (fs w0) <> None)).

Lemma d10_post_family : forall w0 c p k cd M' L' r st',
  Inv w0 -> call_cid c = Some cd ->
  rfs (FWait k true) w0 (api c) = Some (mkWorld M' L', r, st') ->
  d10_post (fs w0) p cd M' st' ->
  D10_family w0 c p k (mkWorld M' L').
Proof.
  intros w0 c p k cd M' L' r st' HI Hcd E (D1 & D2 & D3 & D4 & D5).
  destruct (api_run_total w0 c HI) as (w1 & r1 & Hr).
  assert (Hd : exists d, st' = FStuck d /\ (d = DAddr (APidRef p) \/ d = DAddr (ACidRef cd))).
  { destruct D1 as [-> | ->]; eexists; split; eauto. }
  destruct Hd as (d & -> & Hd).
  destruct (rfs_stuck_site_op _ _ _ _ _ _ _ _ _ E Hr) as (o & Ho & Hdo).
  exists cd, o. cbn [fs]. rewrite Hdo. auto 10.
Qed.

Theorem persistent_fault_consistent_or_D10 : forall w0 c p k w e,
  Inv w0 -> binds_pid c = true -> call_pid c = Some p ->
  run_fault (FWait k true) w0 (api c) = Some (w, Exn e) ->
  locks w = [] /\
  (same_refs p (fs w0) (fs w) \/ pid_unbound (fs w) p \/ D10_family w0 c p k w).
Proof.
  intros [m L] c p k w e HI Hb Hp H. pose proof HI as [HF HL]. simpl in HL. subst L.
  pose proof (InvF_refs_ok m p HF) as Hok. rewrite rfs_run_fault in H.
  destruct c; try discriminate Hb; simpl in Hp.
  - subst p0. pose proof (pstore_any m p s b n sz ck k Hok) as HS.
    change (store_object (Some p) s b n sz ck) with (api (CStore (Some p) s b n sz ck)) in HS.
    destruct (rfs (FWait k true) (mkWorld m []) (api (CStore (Some p) s b n sz ck)))
      as [[[w1 r1] st1]|] eqn:E; [|discriminate].
    inversion H; subst. simpl in HS. destruct HS as [HL HS]. split; [exact HL|].
    destruct HS as [Hs|[Hu|Hd]]; [left; exact Hs|right; left; exact Hu|right; right].
    destruct w as [M' L']. eapply (d10_post_family (mkWorld m []) (CStore (Some p) s b n sz ck));
      [exact HI|reflexivity|exact E|exact Hd].
  - inversion Hp; subst p0.
    destruct (rfs (FWait k true) (mkWorld m []) (api (CTag p c))) as [[[w1 r1] st1]|] eqn:E0;
      [|discriminate].
    inversion H; subst. pose proof E0 as E. cbn [api] in E. unfold lift_unit in E. rewrite rfs_mbind in E.
    destruct (rfs (FWait k true) (mkWorld m []) (tag_object p c)) as [[[w1 r1] st1']|] eqn:Et;
      [|discriminate].
    apply ptag_any in Et; try reflexivity; [|exact Hok].
    destruct Et as (M' & -> & Hpost). destruct r1 as [u|e1]; [discriminate E|].
    inversion E; subst. cbn [fs locks]. split; [reflexivity|].
    destruct Hpost as [->|[[Hu Hbd]|Hd]]; [left; apply same_refs_refl|right; left|right; right].
    + eapply unbound_post_unbound; eauto.
    + eapply (d10_post_family (mkWorld m []) (CTag p c)); [exact HI|reflexivity|exact E0|exact Hd].
Qed.
Print Assumptions persistent_fault_consistent_or_D10.

(* a pid that HAD a reference is never damaged by a persistent failure: binding intact, or
   completely unbound (the duplicate tag_object whose roll-back removes the binding,
   FaultGeneral.duplicate_store_fault_untags) *)
Corollary persistent_fault_bound_pid_consistent : forall w0 c p k w e x,
  Inv w0 -> binds_pid c = true -> call_pid c = Some p ->
  lookup (APidRef p) (fs w0) = Some x ->
  run_fault (FWait k true) w0 (api c) = Some (w, Exn e) ->
  locks w = [] /\ (same_refs p (fs w0) (fs w) \/ pid_unbound (fs w) p).
Proof.
  intros w0 c p k w e x HI Hb Hp Hx H.
  destruct (persistent_fault_consistent_or_D10 w0 c p k w e HI Hb Hp H) as [HL [Hs|[Hu|Hd]]]; auto.
  destruct Hd as (cd & o & _ & _ & _ & Hn & _). congruence.
Qed.

(* a persistent failure delivered to an operation whose destination is neither the pid's reference
   file nor the list of the call's cid: binding / absence intact, or completely unbound *)
Corollary persistent_fault_elsewhere_consistent : forall w0 c p k w e,
  Inv w0 -> binds_pid c = true -> call_pid c = Some p ->
  (forall o cd, site_op k w0 (api c) = Some o -> call_cid c = Some cd ->
     dest_of o <> DAddr (APidRef p) /\ dest_of o <> DAddr (ACidRef cd)) ->
  run_fault (FWait k true) w0 (api c) = Some (w, Exn e) ->
  locks w = [] /\ (same_refs p (fs w0) (fs w) \/ pid_unbound (fs w) p).
Proof.
  intros w0 c p k w e HI Hb Hp Hel H.
  destruct (persistent_fault_consistent_or_D10 w0 c p k w e HI Hb Hp H) as [HL [Hs|[Hu|Hd]]]; auto.
  destruct Hd as (cd & o & Hcd & Ho & Hdest & _). destruct (Hel o cd Ho Hcd) as [N1 N2].
  destruct Hdest; contradiction.
Qed.

(* the third disjunct excludes the first two: in the D10 family the pid has a reference it did not
   have before the call *)
Lemma D10_family_not_intact_not_unbound : forall w0 c p k w,
  D10_family w0 c p k w -> ~ same_refs p (fs w0) (fs w) /\ ~ pid_unbound (fs w) p.
Proof.
  intros w0 c p k w (cd & o & _ & _ & _ & Hn & Hs & _). split.
  - intros [E _]. congruence.
  - intros [E _]. congruence.
Qed.

(* NON-VACUITY, one example per disjunct.
   (a) intact: store {1 -> 7}, tag_object(1, 8), the first makedirs fails persistently: ValueError
       from the roll-back, the binding 1 -> 7 is as before.
   (b) unbound: store {1 -> 7}, the duplicate tag_object(1, 7), same failure: the roll-back removes
       the binding; pid 1 has no reference and is in no list (and the files differ from before).
   (c) D10-bound: empty store, tag_object(1, 7), site 8 = the read of the new pid reference by the
       verification: the roll-back cannot read it either; reference and list line stay.
   (d) D10-half-bound: store {1 -> 7}, tag_object(2, 7), site 5 = the read of the list of 7 before
       the append: the roll-back cannot read it either; the reference of 2 stays, the list is as it
       was, without 2. *)
Definition exw17 : world :=
  mkWorld [(AObj 7, CData 7 1 1); (APidRef 1, CCid 7); (ACidRef 7, CLines [1])] [].

Lemma exw17_Inv : Inv exw17.
Proof.
  assert (H : run_seq empty_world (api (CStore (Some 1) SrcPath 7 1 VSzNone VCkNone)) =
              Some (exw17, Val (VMeta 7 1))) by (vm_compute; reflexivity).
  eapply Inv_run_seq; [apply inv_empty| |exact H]. exact I.
Qed.

Example persistent_fault_intact_example :
  Inv exw17 /\
  run_fault (FWait 0 true) exw17 (api (CTag 1 8)) = Some (exw17, Exn EValueError) /\
  same_refs 1 (fs exw17) (fs exw17).
Proof. split; [exact exw17_Inv|]. split; [vm_compute; reflexivity|apply same_refs_refl]. Qed.

Example persistent_fault_unbound_example :
  let w := mkWorld [(AObj 7, CData 7 1 1)] [] in
  run_fault (FWait 0 true) exw17 (api (CTag 1 7)) = Some (w, Exn EOSError) /\
  pid_unbound (fs w) 1 /\ ~ same_refs 1 (fs exw17) (fs w).
Proof.
  split; [vm_compute; reflexivity|]. split.
  - split; [reflexivity|]. intros k l H. simpl in H. discriminate H.
  - intros [E _]. simpl in E. discriminate E.
Qed.

Example persistent_fault_D10_bound_example :
  let w := mkWorld [(APidRef 1, CCid 7); (ACidRef 7, CLines [1])] [] in
  run_fault (FWait 8 true) empty_world (api (CTag 1 7)) = Some (w, Exn EOSError) /\
  D10_family empty_world (CTag 1 7) 1 8 w /\
  site_op 8 empty_world (api (CTag 1 7)) = Some (Read (APidRef 1)).
Proof.
  split; [vm_compute; reflexivity|]. split; [|vm_compute; reflexivity].
  exists 7, (Read (APidRef 1)). split; [reflexivity|]. split; [vm_compute; reflexivity|].
  split; [left; reflexivity|]. split; [reflexivity|]. split; [reflexivity|]. split.
  - intros k' Hk. simpl. apply Nat.eqb_neq in Hk. rewrite Hk. reflexivity.
  - left. exists [1]. split; [reflexivity|left; reflexivity].
Qed.

Example persistent_fault_D10_half_bound_example :
  let w := mkWorld [(AObj 7, CData 7 1 1); (APidRef 1, CCid 7); (APidRef 2, CCid 7);
                    (ACidRef 7, CLines [1])] [] in
  run_fault (FWait 5 true) exw17 (api (CTag 2 7)) = Some (w, Exn EOSError) /\
  D10_family exw17 (CTag 2 7) 2 5 w /\
  site_op 5 exw17 (api (CTag 2 7)) = Some (Read (ACidRef 7)).
Proof.
  split; [vm_compute; reflexivity|]. split; [|vm_compute; reflexivity].
  exists 7, (Read (ACidRef 7)). split; [reflexivity|]. split; [vm_compute; reflexivity|].
  split; [right; reflexivity|]. split; [reflexivity|]. split; [reflexivity|]. split.
  - intros k' Hk. simpl. apply Nat.eqb_neq in Hk. rewrite Hk. reflexivity.
  - right. split; [reflexivity|discriminate].
Qed.
Print Assumptions persistent_fault_bound_pid_consistent.
Print Assumptions persistent_fault_elsewhere_consistent.
Print Assumptions persistent_fault_intact_example.
Print Assumptions persistent_fault_unbound_example.
Print Assumptions persistent_fault_D10_bound_example.
Print Assumptions persistent_fault_D10_half_bound_example.
