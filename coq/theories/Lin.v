(* Lin.v — linearizability of a scenario (a start state and a handful of concurrent API calls):
   every schedule ends with all threads returned, no identifier locked, and outcomes + final
   files equal to those of some sequential order of the same calls.  The one extra outcome C07
   permits — StoreObjectForPidAlreadyInProgress for a store_object whose pid another thread is
   storing — is treated exactly as the property words it: such a call counts as a call without
   effect returning that error. *)
From HS Require Import Base PyVal FS Ops Spec Sched.

Fixpoint insert_all (x : nat) (l : list nat) : list (list nat) :=
  match l with
  | [] => [[x]]
  | y :: l' => (x :: l) :: map (cons y) (insert_all x l')
  end.

Fixpoint perms (l : list nat) : list (list nat) :=
  match l with
  | [] => [[]]
  | x :: l' => flat_map (insert_all x) (perms l')
  end.

Definition stores_pid (c : call) : option pid :=
  match c with CStore (Some p) _ _ _ _ _ => Some p | _ => None end.

Definition in_progress (r : option (outcome value)) : bool :=
  match r with Some (Exn EStoreObjectForPidAlreadyInProgress) => true | _ => false end.

(* another thread of the scenario stores the same pid *)
Definition other_stores (calls : list call) (i : nat) (p : pid) : bool :=
  existsb (fun j => negb (Nat.eqb j i) &&
                    match nth_error calls j with
                    | Some c => match stores_pid c with Some q => Nat.eqb p q | None => false end
                    | None => false
                    end)
          (seq 0 (length calls)).

Definition adjust (calls : list call) (outs : list (option (outcome value))) : list call :=
  map (fun i =>
         match nth_error calls i with
         | Some c =>
             match stores_pid c with
             | Some p => if in_progress (nth i outs None) && other_stores calls i p
                         then CRejected EStoreObjectForPidAlreadyInProgress else c
             | None => c
             end
         | None => CRejected EGeneric
         end)
      (seq 0 (length calls)).

Definition opt_outcome_eqb (a : option (outcome value)) (b : outcome value) : bool :=
  match a with Some x => outcome_eqb x b | None => false end.

(* run the calls in the order [pi] (thread i keeps its identity i) and compare *)
Fixpoint seq_matches (w : world) (calls : list call) (outs : list (option (outcome value)))
         (final : fmap) (pi : list nat) : bool :=
  match pi with
  | [] => fmap_eqb (fs w) final
  | i :: pi' =>
      match nth_error calls i with
      | Some c =>
          match run_as i w (api c) with
          | Some (w', r) => opt_outcome_eqb (nth i outs None) r && seq_matches w' calls outs final pi'
          | None => false
          end
      | None => false
      end
  end.

Definition lin_ok (w0 : world) (calls : list call) (c : cfg) : bool :=
  let ps := map api calls in
  let outs := results ps c in
  finished ps c &&
  is_nil (locks (snd c)) &&
  existsb (seq_matches w0 (adjust calls outs) outs (fs (snd c))) (perms (seq 0 (length calls))).

(* additionally: every pid a store_object reported as stored is retrievable with those bytes *)
Definition stored_retrievable (calls : list call) (c : cfg) : bool :=
  let ps := map api calls in
  forallb (fun i =>
             match nth_error calls i, thread_result ps c i with
             | Some (CStore (Some p) _ b n _ _), Some (Val _) =>
                 match run_seq (mkWorld (fs (snd c)) []) (retrieve_object p) with
                 | Some (_, Val (CData b' n' i')) => Nat.eqb b b' && Nat.eqb n' i'
                 | _ => false
                 end
             | _, _ => true
             end)
          (seq 0 (length calls)).

Definition sched_fuel : nat := 600.

Record scenario := { sc_setup : list call; sc_calls : list call }.

Definition start_world (s : scenario) : option world :=
  match run_history empty_world (sc_setup s) with
  | Some (w, _) => Some w
  | None => None
  end.

Definition scenario_ok (s : scenario) : bool :=
  match start_world s with
  | Some w0 =>
      check_all (map api (sc_calls s)) sched_fuel w0
                (fun c => lin_ok w0 (sc_calls s) c && stored_retrievable (sc_calls s) c)
  | None => false
  end.

Theorem scenario_sound : forall s w0,
  scenario_ok s = true -> start_world s = Some w0 ->
  forall sched c, exec (map api (sc_calls s)) sched (init_cfg (map api (sc_calls s)) w0) = Some c ->
             stuck (map api (sc_calls s)) c ->
             lin_ok w0 (sc_calls s) c = true /\ stored_retrievable (sc_calls s) c = true.
Proof.
  intros s w0 H Hw sched c Hex Hst. unfold scenario_ok in H. rewrite Hw in H.
  pose proof (check_all_sound _ _ _ _ _ H sched c Hex Hst) as HP. cbv beta in HP.
  apply andb_true_iff in HP. exact HP.
Qed.

(* what [lin_ok] means, spelled out *)
Theorem lin_ok_spec : forall w0 calls c,
  lin_ok w0 calls c = true ->
  finished (map api calls) c = true /\ locks (snd c) = [] /\
  exists pi, In pi (perms (seq 0 (length calls))) /\
             seq_matches w0 (adjust calls (results (map api calls) c)) (results (map api calls) c)
                         (fs (snd c)) pi = true.
Proof.
  intros w0 calls c H. unfold lin_ok in H.
  apply andb_true_iff in H. destruct H as [H12 H3].
  apply andb_true_iff in H12. destruct H12 as [H1 H2].
  split; [exact H1|]. split.
  - destruct (locks (snd c)); [reflexivity|discriminate].
  - apply existsb_exists in H3. destruct H3 as [pi [Hin Hm]]. exists pi. split; assumption.
Qed.

(* ---------- explorer variant that remembers one schedule per configuration (for replays) ---------- *)

Definition pcfg := (cfg * list nat)%type.     (* configuration, schedule that reached it (reversed) *)

Section Paths.
  Variable A : Type.
  Variable ps : list (prog A).

  Definition psuccs (pc : pcfg) : list pcfg :=
    flat_map (fun i => match thread_step ps (fst pc) i with
                       | Some c' => [(c', i :: snd pc)]
                       | None => []
                       end)
             (seq 0 (length ps)).

  Fixpoint pdedup (l : list pcfg) : list pcfg :=
    match l with
    | [] => []
    | c :: l' => if existsb (fun d => cfg_eqb (fst c) (fst d)) l' then pdedup l' else c :: pdedup l'
    end.

  Fixpoint explore_paths (fuel : nat) (level finals : list pcfg) : list pcfg :=
    match level with
    | [] => finals
    | _ =>
        match fuel with
        | 0 => finals
        | S f =>
            explore_paths f (pdedup (flat_map psuccs level))
                          (filter (fun pc => is_nil (succs ps (fst pc))) level ++ finals)
        end
    end.
End Paths.

Arguments psuccs {A} ps pc.
Arguments explore_paths {A} ps fuel level finals.
